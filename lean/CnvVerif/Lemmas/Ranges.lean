/-
  Lemmas behind Props/C07.lean: the binary-search and mask slicing paths of skgenome/intersect.py
  return exactly the rows that overlap / are contained in the query.
-/
import CnvVerif.Model.Ranges
import CnvVerif.Model.Interval
import CnvVerif.Model.IntervalSpec
set_option linter.unusedSimpArgs false
namespace CnvVerif

/-- the rows a query selects, in the words of the property; `none` = unbounded side -/
def selFilter (qs qe : Option Int) (inner : Bool) (r : Row) : Bool :=
  if inner then qs.all (fun s => decide (r.s ≥ s)) && qe.all (fun e => decide (r.e ≤ e))
  else qs.all (fun s => decide (r.e > s)) && qe.all (fun e => decide (r.s < e))

/-- well-formed table of one chromosome: sorted by start, non-negative coordinates, positive length -/
def WFTable (t : Table) : Prop := StartSorted t ∧ ∀ r ∈ t, 0 ≤ r.s ∧ r.s < r.e

theorem isMonotone_iff (l : List Int) : isMonotone l = true ↔ l.Pairwise (· ≤ ·) := by
  induction l with
  | nil => simp [isMonotone]
  | cons a t ih =>
    cases t with
    | nil => simp [isMonotone]
    | cons b t =>
      simp only [isMonotone, Bool.and_eq_true, decide_eq_true_eq, ih]
      rw [List.pairwise_cons (a := a)]
      constructor
      · rintro ⟨hab, hp⟩
        refine ⟨?_, hp⟩
        intro x hx
        rcases List.mem_cons.mp hx with rfl | hx
        · exact hab
        · exact Int.le_trans hab ((List.pairwise_cons.mp hp).1 x hx)
      · rintro ⟨h1, hp⟩
        exact ⟨h1 b (List.mem_cons_self ..), hp⟩

/-- `p` holds on a prefix of `t` only -/
def PC (p : Row → Bool) (t : Table) : Prop := t.Pairwise (fun x y => p y = true → p x = true)

theorem take_drop_countP (p q : Row → Bool) (t : Table) (hp : PC p t) (hq : PC q t) :
    (t.take (t.countP p)).drop (t.countP q) = t.filter (fun r => !q r && p r) := by
  induction t with
  | nil => rfl
  | cons x t ih =>
    have ⟨hpx, hpt⟩ := List.pairwise_cons.mp hp
    have ⟨hqx, hqt⟩ := List.pairwise_cons.mp hq
    have ih := ih hpt hqt
    by_cases h1 : p x = true
    · by_cases h2 : q x = true
      · simp [List.countP_cons, h1, h2, ih]
      · have hc : t.countP q = 0 := List.countP_eq_zero.mpr (fun y hy hqy => h2 (hqx y hy hqy))
        rw [hc] at ih
        simp only [List.drop_zero] at ih
        simp [List.countP_cons, h1, h2, hc, ih]
    · have hc : t.countP p = 0 := List.countP_eq_zero.mpr (fun y hy hpy => h1 (hpx y hy hpy))
      have hf : t.filter (fun r => !q r && p r) = [] := by
        apply List.filter_eq_nil_iff.mpr
        intro y hy hh
        simp only [Bool.and_eq_true] at hh
        exact h1 (hpx y hy hh.2)
      simp [List.countP_cons, h1, hc, hf]

theorem pc_s_lt (t : Table) (hs : StartSorted t) (v : Int) : PC (fun r => decide (r.s < v)) t := by
  unfold PC
  refine List.Pairwise.imp ?_ hs
  intro a b h
  simp only [decide_eq_true_eq]; omega

theorem pc_e_le (t : Table) (hm : isMonotone (t.map (·.e)) = true) (v : Int) :
    PC (fun r => decide (r.e ≤ v)) t := by
  unfold PC
  have h := List.pairwise_map.mp ((isMonotone_iff _).mp hm)
  refine List.Pairwise.imp ?_ h
  intro a b h
  simp only [decide_eq_true_eq]; omega

theorem pc_const (t : Table) (hs : StartSorted t) (c : Bool) : PC (fun _ => c) t := by
  unfold PC
  exact List.Pairwise.imp (fun _ h => h) hs

/-- rows to be dropped at the front by the binary-search path -/
def qOf (qs : Option Int) (inner : Bool) : Row → Bool :=
  match qs with
  | some s => if inner then fun r => decide (r.s < s) else fun r => decide (r.e ≤ s)
  | none => fun _ => false

/-- rows kept by the `take` of the binary-search path -/
def pOf (qe : Option Int) (inner : Bool) : Row → Bool :=
  match qe with
  | some e => if inner then fun r => decide (r.e ≤ e) else fun r => decide (r.s < e)
  | none => fun _ => true

theorem selFilter_eq (qs qe : Option Int) (inner : Bool) (r : Row) :
    selFilter qs qe inner r = (!qOf qs inner r && pOf qe inner r) := by
  cases inner <;> cases qs <;> cases qe <;> simp [selFilter, qOf, pOf] <;> grind

theorem irangeSimple_eq (t : Table) (qs qe : Option Int) (inner : Bool) :
    irangeSimple t qs qe inner =
      (t.take (t.countP (pOf qe inner))).drop (t.countP (qOf qs inner)) := by
  cases inner <;> cases qs <;> cases qe <;>
    simp [irangeSimple, qOf, pOf, ssLeft, ssRight, List.countP_map, Function.comp_def]

/-- binary-search path (`_irange_simple`), valid when the `end` column is monotone -/
theorem irangeSimple_exact (t : Table) (h : WFTable t) (hm : isMonotone (t.map (·.e)) = true)
    (qs qe : Option Int) (inner : Bool) :
    irangeSimple t qs qe inner = t.filter (selFilter qs qe inner) := by
  have hq : PC (qOf qs inner) t := by
    cases inner <;> cases qs <;> simp only [qOf] <;>
      first | exact pc_const t h.1 _ | exact pc_s_lt t h.1 _ | exact pc_e_le t hm _
  have hp : PC (pOf qe inner) t := by
    cases inner <;> cases qe <;> simp only [pOf] <;>
      first | exact pc_const t h.1 _ | exact pc_s_lt t h.1 _ | exact pc_e_le t hm _
  rw [irangeSimple_eq]
  rw [take_drop_countP _ _ t hp hq]
  apply List.filter_congr
  intro r _
  exact (selFilter_eq qs qe inner r).symm

theorem maskUpto_succ (n k : Nat) :
    maskUpto (n+1) k = decide (0 < k) :: maskUpto n (k-1) := by
  simp only [maskUpto, List.range_succ_eq_map, List.map_cons, List.map_map]
  congr 1
  apply List.map_congr_left
  intro i _
  simp only [Function.comp]
  congr 1
  apply propext; omega

theorem maskFrom_succ (n k : Nat) :
    maskFrom (n+1) k = decide (k = 0) :: maskFrom n (k-1) := by
  simp only [maskFrom, List.range_succ_eq_map, List.map_cons, List.map_map]
  congr 1
  · simp
  apply List.map_congr_left
  intro i _
  simp only [Function.comp]
  congr 1
  apply propext; omega

theorem maskUpto_eq (p : Row → Bool) (t : Table) (hp : PC p t) :
    maskUpto t.length (t.countP p) = t.map p := by
  induction t with
  | nil => rfl
  | cons x t ih =>
    have ⟨hpx, hpt⟩ := List.pairwise_cons.mp hp
    have ih := ih hpt
    by_cases h1 : p x = true
    · simp [maskUpto_succ, h1, ih]
    · have hc : t.countP p = 0 := List.countP_eq_zero.mpr (fun y hy hpy => h1 (hpx y hy hpy))
      rw [hc] at ih
      simp [maskUpto_succ, h1, hc, ih]

theorem maskFrom_eq (p : Row → Bool) (t : Table) (hp : PC p t) :
    maskFrom t.length (t.countP p) = t.map (fun r => !p r) := by
  induction t with
  | nil => rfl
  | cons x t ih =>
    have ⟨hpx, hpt⟩ := List.pairwise_cons.mp hp
    have ih := ih hpt
    by_cases h1 : p x = true
    · simp [maskFrom_succ, h1, ih]
    · have hc : t.countP p = 0 := List.countP_eq_zero.mpr (fun y hy hpy => h1 (hpx y hy hpy))
      rw [hc] at ih
      simp [maskFrom_succ, h1, hc, ih]

theorem replicate_eq_map (t : Table) : List.replicate t.length true = t.map (fun _ => true) := by
  induction t with
  | nil => rfl
  | cons x t ih => simp [List.replicate_succ, ih]

theorem zip_and_map (f g : Row → Bool) (t : Table) :
    ((t.map f).zip (t.map g)).map (fun p => p.1 && p.2) = t.map (fun r => f r && g r) := by
  induction t with
  | nil => rfl
  | cons x t ih => simp [ih]

theorem applyMask_map (f : Row → Bool) (t : Table) : applyMask t (t.map f) = t.filter f := by
  induction t with
  | nil => rfl
  | cons x t ih =>
    unfold applyMask at ih ⊢
    by_cases h : f x = true <;> simp [List.filterMap_cons, h, ih]


def f1 (qs : Option Int) (inner : Bool) : Row → Bool :=
  match qs with
  | some s =>
    if s ≠ 0 then (if inner then fun r => !decide (r.s < s) else fun r => decide (r.e > s))
    else fun _ => true
  | none => fun _ => true

def f2 (qs qe : Option Int) (inner : Bool) : Row → Bool :=
  match qe with
  | some e =>
    if inner then fun r => f1 qs inner r && decide (r.e ≤ e)
    else fun r => f1 qs inner r && decide (r.s < e)
  | none => f1 qs inner

theorem irangeNested_eq (t : Table) (hs : StartSorted t) (qs qe : Option Int) (inner : Bool) :
    irangeNested t qs qe inner = t.filter (f2 qs qe inner) := by
  have hL : ∀ v, ssLeft (t.map (·.s)) v = t.countP (fun r => decide (r.s < v)) := by
    intro v; simp [ssLeft, List.countP_map, Function.comp_def]
  have hF := fun v => maskFrom_eq _ t (pc_s_lt t hs v)
  have hU := fun v => maskUpto_eq _ t (pc_s_lt t hs v)
  rcases qs with _ | s
  · cases inner <;> cases qe <;>
      simp only [irangeNested, f2, f1, hL, hF, hU, replicate_eq_map, zip_and_map, applyMask_map,
        ne_eq, not_true_eq_false, not_false_eq_true, if_true, if_false, Bool.false_eq_true]
  · by_cases hz : s = 0
    · subst hz
      cases inner <;> cases qe <;>
        simp only [irangeNested, f2, f1, hL, hF, hU, replicate_eq_map, zip_and_map, applyMask_map,
        ne_eq, not_true_eq_false, not_false_eq_true, if_true, if_false, Bool.false_eq_true]
    · cases inner <;> cases qe <;>
        simp only [irangeNested, f2, f1, hL, hF, hU, replicate_eq_map, zip_and_map, applyMask_map,
        ne_eq, not_true_eq_false, not_false_eq_true, if_true, if_false, Bool.false_eq_true, hz]


theorem f2_eq_selFilter (qs qe : Option Int) (hq : ∀ s, qs = some s → 0 ≤ s) (inner : Bool)
    (r : Row) (h0 : 0 ≤ r.s) (h1 : r.s < r.e) :
    f2 qs qe inner r = selFilter qs qe inner r := by
  rcases qs with _ | s
  · cases inner <;> cases qe <;> simp [f2, f1, selFilter]
  · have hs := hq s rfl
    by_cases hz : s = 0
    · subst hz
      cases inner <;> cases qe <;> simp [f2, f1, selFilter] <;> grind
    · cases inner <;> cases qe <;> simp [f2, f1, selFilter, hz] <;> grind

/-- mask path (`_irange_nested`), valid for every start-sorted table (nested rows included);
    the Python truthiness test on `start_val` is harmless because coordinates are non-negative -/
theorem irangeNested_exact (t : Table) (h : WFTable t)
    (qs qe : Option Int) (hq : ∀ s, qs = some s → 0 ≤ s) (inner : Bool) :
    irangeNested t qs qe inner = t.filter (selFilter qs qe inner) := by
  rw [irangeNested_eq t h.1]
  apply List.filter_congr
  intro r hr
  exact f2_eq_selFilter qs qe hq inner r (h.2 r hr).1 (h.2 r hr).2

/-- `idx_ranges`: whichever path is chosen, exactly the filter -/
theorem idxSelect_exact (t : Table) (h : WFTable t)
    (qs qe : Option Int) (hq : ∀ s, qs = some s → 0 ≤ s) (inner : Bool) :
    idxSelect t qs qe inner = t.filter (selFilter qs qe inner) := by
  unfold idxSelect
  split
  · rename_i hc
    simp only [Bool.or_eq_true, Bool.and_eq_true, List.isEmpty_iff, Option.isNone_iff_eq_none] at hc
    rcases hc with rfl | ⟨rfl, rfl⟩
    · rfl
    · symm
      apply List.filter_eq_self.mpr
      intro r _
      cases inner <;> simp [selFilter]
  · split
    · exact irangeNested_exact t h qs qe hq inner
    · rename_i _ hm
      simp only [Bool.not_eq_true', Bool.not_eq_false] at hm
      exact irangeSimple_exact t h hm qs qe inner

/-- the path switch is unobservable -/
theorem simple_eq_nested (t : Table) (h : WFTable t) (hm : isMonotone (t.map (·.e)) = true)
    (qs qe : Option Int) (hq : ∀ s, qs = some s → 0 ≤ s) (inner : Bool) :
    irangeSimple t qs qe inner = irangeNested t qs qe inner := by
  rw [irangeSimple_exact t h hm, irangeNested_exact t h qs qe hq]

theorem selFilter_outer (qs qe : Int) :
    selFilter (some qs) (some qe) false = fun r => (decide (r.e > qs) && decide (r.s < qe)) := by
  funext r; simp [selFilter]

theorem selFilter_inner (qs qe : Int) :
    selFilter (some qs) (some qe) true = fun r => (decide (r.s ≥ qs) && decide (r.e ≤ qe)) := by
  funext r; simp [selFilter]

theorem selectRange_outer (t : Table) (h : WFTable t) (qs qe : Int) (hq : 0 ≤ qs) :
    selectRange t (some qs) (some qe) .outer = t.filter (fun r => r.e > qs && r.s < qe) := by
  have hq' : ∀ s, some qs = some s → 0 ≤ s := by intro s hs; cases hs; exact hq
  have e : (Mode.outer == Mode.inner) = false := rfl
  simp only [selectRange, e]
  rw [idxSelect_exact t h _ _ hq', selFilter_outer]
  rfl

theorem selectRange_inner (t : Table) (h : WFTable t) (qs qe : Int) (hq : 0 ≤ qs) :
    selectRange t (some qs) (some qe) .inner = t.filter (fun r => r.s ≥ qs && r.e ≤ qe) := by
  have hq' : ∀ s, some qs = some s → 0 ≤ s := by intro s hs; cases hs; exact hq
  have e : (Mode.inner == Mode.inner) = true := rfl
  have e' : (Mode.inner == Mode.trim) = false := rfl
  simp only [selectRange, e, e']
  rw [idxSelect_exact t h _ _ hq', selFilter_inner]
  rfl

/-- trim = the overlapping rows clipped to the query -/
theorem selectRange_trim (t : Table) (h : WFTable t) (qs qe : Int) (hq : 0 ≤ qs) :
    selectRange t (some qs) (some qe) .trim =
      (t.filter (fun r => r.e > qs && r.s < qe)).map
        (fun r => { r with s := max r.s qs, e := min r.e qe }) := by
  have hq' : ∀ s, some qs = some s → 0 ≤ s := by intro s hs; cases hs; exact hq
  have hsel : idxSelect t (some qs) (some qe) (Mode.trim == Mode.inner) =
      t.filter (fun r => r.e > qs && r.s < qe) := by
    have e : (Mode.trim == Mode.inner) = false := rfl
    rw [e, idxSelect_exact t h _ _ hq', selFilter_outer]
  simp only [selectRange]
  rw [hsel]
  simp only [beq_self_eq_true, if_true, trimRows]
  apply List.map_congr_left
  intro r hr
  rw [List.mem_filter] at hr
  have hw := h.2 r hr.1
  have hr2 := hr.2
  simp only [Bool.and_eq_true, decide_eq_true_eq] at hr2
  have e1 : (if qs ≠ 0 then max r.s qs else r.s) = max r.s qs := by
    split
    · rfl
    · omega
  have e2 : (if qe ≠ 0 then min r.e qe else r.e) = min r.e qe := by
    split
    · rfl
    · omega
  simp only [e1, e2]

/-- clipped rows lie inside the query and inside their source row, and are non-empty -/
theorem trim_inside (t : Table) (h : WFTable t) (qs qe : Int) (hq : 0 ≤ qs) (hlt : qs < qe) :
    ∀ r ∈ selectRange t (some qs) (some qe) .trim, qs ≤ r.s ∧ r.e ≤ qe ∧ r.s < r.e := by
  intro r hr
  rw [selectRange_trim t h qs qe hq, List.mem_map] at hr
  obtain ⟨r', hr', rfl⟩ := hr
  rw [List.mem_filter] at hr'
  have hw := h.2 r' hr'.1
  have hr2 := hr'.2
  simp only [Bool.and_eq_true, decide_eq_true_eq] at hr2
  show qs ≤ max r'.s qs ∧ min r'.e qe ≤ qe ∧ max r'.s qs < min r'.e qe
  omega

theorem eraseDups_const (l : List String) (c : String) (h : ∀ x ∈ l, x = c) (hne : l ≠ []) :
    l.eraseDups = [c] := by
  cases l with
  | nil => exact absurd rfl hne
  | cons x l =>
    have hx : x = c := h x (List.mem_cons_self ..)
    subst hx
    rw [List.eraseDups_cons]
    have : l.filter (fun b => !b == x) = [] := by
      apply List.filter_eq_nil_iff.mpr
      intro y hy
      have := h y (List.mem_cons_of_mem _ hy)
      simp [this]
    rw [this]; rfl

theorem chromsInOrder_const (t : Table) (c : String) (h : ∀ r ∈ t, r.chrom = c) (hne : t ≠ []) :
    chromsInOrder t = [c] := by
  unfold chromsInOrder
  apply eraseDups_const
  · intro x hx
    rw [List.mem_map] at hx
    obtain ⟨r, hr, rfl⟩ := hx
    exact h r hr
  · simpa using hne

/-- single-chromosome tables: `by_ranges` yields, per query row in order, exactly the selection -/
theorem byRangesDf_single (c : String) (table other : Table)
    (ht : ∀ r ∈ table, r.chrom = c) (ho : ∀ r ∈ other, r.chrom = c)
    (hne : table ≠ []) (hno : other ≠ []) (mode : Mode) (ke : Bool) :
    byRangesDf table other mode ke =
      other.map (fun b => (b, selectRange table (some b.s) (some b.e) mode)) := by
  unfold byRangesDf bySharedChroms
  simp [chromsInOrder_const table c ht hne, chromsInOrder_const other c ho hno]

theorem length_filter_add (p : Row → Bool) (t : Table) :
    (t.filter p).length + (t.filter (fun r => !p r)).length = t.length := by
  induction t with
  | nil => rfl
  | cons x t ih =>
    by_cases h : p x = true <;> simp [List.filter_cons, h] <;> omega

/-- the chromosome groups partition the table -/
theorem sum_groups (ks : List String) (t : Table) (h : ∀ r ∈ t, r.chrom ∈ ks) :
    ((ks.eraseDups).map (fun c => (t.filter (fun r => r.chrom == c)).length)).sum = t.length := by
  match ks with
  | [] =>
    cases t with
    | nil => rfl
    | cons x t => exact absurd (h x (List.mem_cons_self ..)) (by simp)
  | k :: ks' =>
    rw [List.eraseDups_cons, List.map_cons, List.sum_cons]
    have hlen : (ks'.filter (fun b => !b == k)).length < (k :: ks').length :=
      Nat.lt_succ_of_le (List.length_filter_le _ _)
    have ih := sum_groups (ks'.filter (fun b => !b == k)) (t.filter (fun r => !(r.chrom == k)))
      (by
        intro r hr
        rw [List.mem_filter] at hr ⊢
        have h1 := h r hr.1
        have h2 := hr.2
        simp only [Bool.not_eq_true', beq_eq_false_iff_ne, ne_eq] at h2
        rcases List.mem_cons.mp h1 with h1 | h1
        · exact absurd h1 h2
        · exact ⟨h1, by simpa using h2⟩)
    have hcongr : ((ks'.filter (fun b => !b == k)).eraseDups).map
          (fun c => (t.filter (fun r => r.chrom == c)).length) =
        ((ks'.filter (fun b => !b == k)).eraseDups).map
          (fun c => ((t.filter (fun r => !(r.chrom == k))).filter (fun r => r.chrom == c)).length) := by
      apply List.map_congr_left
      intro c hc
      rw [List.mem_eraseDups, List.mem_filter] at hc
      have hck : c ≠ k := by simpa using hc.2
      rw [List.filter_filter]
      congr 1
      apply List.filter_congr
      intro r _
      by_cases hrc : r.chrom = c
      · subst hrc; simp [hck]
      · simp [hrc]
    rw [hcongr, ih]
    exact length_filter_add _ t
termination_by ks.length

theorem filter_const_true {α} (l : List α) : l.filter (fun _ => true) = l :=
  List.filter_eq_self.mpr (fun _ _ => rfl)

theorem flatMap_groups_length (G : List (String × Table))
    (F : String × Table → Option (String × Table × Option Table))
    (H : String × Table × Option Table → List Table)
    (hF : ∀ g, ∃ o, F g = some (g.1, g.2, o))
    (hH : ∀ c bins src, (H (c, bins, src)).length = bins.length) :
    ((G.filterMap F).flatMap H).length = (G.map (fun p => p.2.length)).sum := by
  induction G with
  | nil => rfl
  | cons g G ih =>
    obtain ⟨o, ho⟩ := hF g
    rw [List.filterMap_cons, ho]
    simp only [List.flatMap_cons, List.length_append, List.map_cons, List.sum_cons, hH, ih]

theorem iterSlices_length (source dest : Table) (mode : Mode) :
    (iterSlices source dest mode true).length = dest.length := by
  unfold iterSlices bySharedChroms
  show (List.flatMap _ (if ((chromsInOrder dest).length == 1 && (chromsInOrder source).length == 1
      && chromsInOrder dest == chromsInOrder source) = true then _ else _)).length = _
  by_cases hc : ((chromsInOrder dest).length == 1 && (chromsInOrder source).length == 1
      && chromsInOrder dest == chromsInOrder source) = true
  · rw [if_pos hc]
    simp [filter_const_true]
  · rw [if_neg hc, flatMap_groups_length]
    · unfold groupByChrom chromsInOrder
      rw [List.map_map]
      exact sum_groups _ dest (by intro r hr; exact List.mem_map_of_mem hr)
    · rintro ⟨c, ct⟩
      by_cases he : (source.filter (fun r => r.chrom == c)).isEmpty = true
      · exact ⟨none, by simp [he]⟩
      · exact ⟨some (source.filter (fun r => r.chrom == c)), by simp [he]⟩
    · intro c bins src
      cases src <;> simp [filter_const_true]

/-- `into_ranges` returns exactly one value per query row -/
theorem intoRanges_length (source dest : Table) (d : String) :
    (intoRangesStr source dest d).length = dest.length := by
  unfold intoRangesStr
  split
  · simp
  · rw [List.length_map, iterSlices_length]

end CnvVerif
