/-
  The numpy vocabulary of harness/vectrans.py (`Np.sel`, `Np.take`, `Np.cumsum`, `Np.searchLeft/Right`, `Np.average`,
  position-wise products) related to the list functions the models of Model/Descriptives.lean are written with.
  Nothing here depends on the generated source expressions: each tie `Props/C19Src<Function>.lean` imports this file
  and Generated/ExprsDesc.lean, so an edited formula breaks the obligation of THAT function only.
-/
import CnvVerif.Model.NpVec
import CnvVerif.Lemmas.DescBiweight
namespace CnvVerif.Src
open CnvVerif CnvVerif.Desc CnvVerif.Generated

set_option linter.unusedSimpArgs false
set_option linter.unusedVariables false

/-! ### the numpy vocabulary -/

/-- `f(d)[p(d)]` keeps the entries of `d` that satisfy `p`, then applies `f` -/
theorem sel_map_map (d : List Rat) (f : Rat → Rat) (p : Rat → Bool) :
    Np.sel (d.map f) (d.map p) = (d.filter p).map f := by
  unfold Np.sel
  induction d with
  | nil => rfl
  | cons x t ih =>
    simp only [List.map_cons, List.zip_cons_cons, List.filter_cons]
    cases hp : p x <;> simp [hp, ih]

theorem sel_self_map (d : List Rat) (p : Rat → Bool) : Np.sel d (d.map p) = d.filter p := by
  have := sel_map_map d id p
  simpa using this

theorem count_true_map (d : List Rat) (p : Rat → Bool) : List.count true (d.map p) = (d.filter p).length := by
  rw [List.count_eq_countP, List.countP_map, List.countP_eq_length_filter]
  congr 1
  apply List.filter_congr
  intro x _
  simp

theorem zipWith_map_same (h : Rat → Rat → Rat) (f g : Rat → Rat) (l : List Rat) :
    List.zipWith h (l.map f) (l.map g) = l.map (fun x => h (f x) (g x)) := by
  rw [List.zipWith_map, List.zipWith_self]

theorem zipWith_map_same' {α : Type} (h : Rat → Rat → Rat) (f g : α → Rat) (l : List α) :
    List.zipWith h (l.map f) (l.map g) = l.map (fun x => h (f x) (g x)) := by
  rw [List.zipWith_map, List.zipWith_self]

theorem zipWith_eq_zip_map' {α β γ : Type} (f : α → β → γ) (a : List α) (b : List β) :
    List.zipWith f a b = (a.zip b).map (fun p => f p.1 p.2) := by
  rw [← List.map_uncurry_zip_eq_zipWith]; rfl

theorem zipWith_mul_eq_zip_map (a b : List Rat) :
    List.zipWith (fun u v => u * v) a b = (a.zip b).map (fun p => p.1 * p.2) := by
  rw [← List.map_uncurry_zip_eq_zipWith]; rfl

/-- `(a.zip w)` reordered and projected = the columns reordered -/
theorem permute_zip_fst (order : List Nat) (a w : List Rat) (h : a.length = w.length) :
    (permute order (a.zip w)).map (·.1) = Np.take a order := by
  unfold permute Np.take
  rw [List.map_map]
  apply List.map_congr_left
  intro i _
  simp only [Function.comp, List.getD_eq_getElem?_getD, List.getElem?_zip_eq_some]
  by_cases hi : i < a.length
  · have hi' : i < w.length := h ▸ hi
    have hz : i < (a.zip w).length := by simp [List.length_zip]; omega
    rw [List.getElem?_eq_getElem hz, List.getElem?_eq_getElem hi]; simp
  · have hz : ¬ i < (a.zip w).length := by simp [List.length_zip]; omega
    rw [List.getElem?_eq_none (by omega), List.getElem?_eq_none (by omega)]; rfl

theorem permute_zip_snd (order : List Nat) (a w : List Rat) (h : a.length = w.length) :
    (permute order (a.zip w)).map (·.2) = Np.take w order := by
  unfold permute Np.take
  rw [List.map_map]
  apply List.map_congr_left
  intro i _
  simp only [Function.comp, List.getD_eq_getElem?_getD]
  by_cases hi : i < a.length
  · have hi' : i < w.length := h ▸ hi
    have hz : i < (a.zip w).length := by simp [List.length_zip]; omega
    rw [List.getElem?_eq_getElem hz, List.getElem?_eq_getElem hi']; simp
  · have hz : ¬ i < (a.zip w).length := by simp [List.length_zip]; omega
    rw [List.getElem?_eq_none (by omega), List.getElem?_eq_none (by omega)]; rfl

theorem searchLeft_cumsum (w : List Rat) (v : Rat) :
    Np.searchLeft (Np.cumsum w) v = firstIdx (fun i => decide (v ≤ cumAt w i)) w.length := by
  unfold Np.searchLeft Np.cumsum firstIdx
  rw [List.findIdx_map]; rfl

theorem searchRight_cumsum (w : List Rat) (v : Rat) :
    Np.searchRight (Np.cumsum w) v = firstIdx (fun i => decide (v < cumAt w i)) w.length := by
  unfold Np.searchRight Np.cumsum firstIdx
  rw [List.findIdx_map]; rfl

/-! ### weighted mean -/

theorem zip_weight_sum (a w : List Rat) (h : a.length = w.length) : ((a.zip w).map (·.2)).sum = w.sum := by
  have : (a.zip w).map (·.2) = w := List.map_snd_zip (by omega)
  rw [this]

theorem wavg_zip (a w : List Rat) (h : a.length = w.length) (v : Rat) (hv : wavg (a.zip w) = some v) :
    Np.average a w = v := by
  unfold wavg at hv
  unfold Np.average
  rw [zip_weight_sum a w h] at hv
  simp only [] at hv
  split at hv
  · exact absurd hv (by simp)
  · rw [zipWith_mul_eq_zip_map]
    exact Option.some.inj hv

theorem diffs_length' (s : List Rat) : (diffs s).length = s.length - 1 := by
  unfold diffs; simp [List.length_zip]

/-! ### biweight midvariance: the part after the deviations, the scale and the fall-back value are known -/
/-- the part of the model's `bivarCore` after the deviations `d`, the scale `s` and the MAD fall-back value `fb` are known -/
def bivarTailModel (d : List Rat) (s fb : Rat) : ScaleOut :=
  let kept := d.filter (fun x => decide (absR (x / s) < 1))
  if (kept.map (· / s)).sum = 0 then .direct fb
  else
    let n : Rat := (kept.length : Rat)
    let num := (kept.map (fun x => Desc.sq x * Desc.sq (Desc.sq (1 - Desc.sq (x / s))))).sum
    let den := (kept.map (fun x => (1 - Desc.sq (x / s)) * (1 - 5 * Desc.sq (x / s)))).sum
    if den = 0 then .undefined else .root (n * num / Desc.sq den)

/-- the same part of the source expression -/
def bivarTailSrc (d : List Rat) (s fb : Rat) : ScaleOut :=
  let w : List Rat := (d.map (fun v => v / s))
  let mask : List Bool := ((w.map Desc.absR).map (fun v => decide (v < (1 : Rat))))
  if (((Np.sel w mask)).sum = (0 : Rat)) then
    Desc.ScaleOut.direct fb
  else
    let n : Nat := (List.count true mask)
    let d_ : List Rat := (Np.sel d mask)
    let w_ : List Rat := (Np.sel (w.map (fun v => v ^ 2)) mask)
    Desc.ScaleOut.root ((((n : Nat) : Rat) * ((List.zipWith (fun u v => u * v) (d_.map (fun v => v ^ 2)) ((w_.map (fun v => (1 : Rat) - v)).map (fun v => v ^ 4)))).sum) / (((List.zipWith (fun u v => u * v) (w_.map (fun v => (1 : Rat) - v)) ((w_.map (fun v => (5 : Rat) * v)).map (fun v => (1 : Rat) - v)))).sum ^ 2))

theorem bivarTail_eq (d : List Rat) (s fb : Rat) :
    bivarTailModel d s fb = ScaleOut.undefined ∨ bivarTailModel d s fb = bivarTailSrc d s fb := by
  unfold bivarTailModel bivarTailSrc
  simp only []
  have hmask : ((d.map (fun v => v / s)).map absR).map (fun v => decide (v < (1 : Rat))) =
      d.map (fun x => decide (absR (x / s) < 1)) := by
    rw [List.map_map, List.map_map]; rfl
  have hw2 : (d.map (fun v => v / s)).map (fun v => v ^ 2) = d.map (fun x => (x / s) ^ 2) := by
    rw [List.map_map]; rfl
  rw [hmask, hw2, sel_map_map, sel_map_map, sel_self_map, count_true_map]
  generalize hk : d.filter (fun x => decide (absR (x / s) < 1)) = kept
  by_cases h0 : (kept.map (fun v => v / s)).sum = 0
  · right; rw [if_pos h0, if_pos h0]
  · rw [if_neg h0, if_neg h0]
    have hnum : (List.zipWith (fun u v => u * v) (kept.map (fun v => v ^ 2))
        (((kept.map (fun x => (x / s) ^ 2)).map (fun v => (1 : Rat) - v)).map (fun v => v ^ 4))) =
        kept.map (fun x => Desc.sq x * Desc.sq (Desc.sq (1 - Desc.sq (x / s)))) := by
      rw [List.map_map, List.map_map, zipWith_map_same]
      apply List.map_congr_left; intro x _; simp only [Function.comp, Desc.sq]; ring
    have hden : (List.zipWith (fun u v => u * v) ((kept.map (fun x => (x / s) ^ 2)).map (fun v => (1 : Rat) - v))
        (((kept.map (fun x => (x / s) ^ 2)).map (fun v => (5 : Rat) * v)).map (fun v => (1 : Rat) - v))) =
        kept.map (fun x => (1 - Desc.sq (x / s)) * (1 - 5 * Desc.sq (x / s))) := by
      rw [List.map_map, List.map_map, List.map_map, zipWith_map_same]
      apply List.map_congr_left; intro x _; simp only [Function.comp, Desc.sq]; ring
    rw [hnum, hden]
    by_cases hden0 : (kept.map (fun x => (1 - Desc.sq (x / s)) * (1 - 5 * Desc.sq (x / s)))).sum = 0
    · left; rw [if_pos hden0]
    · right; rw [if_neg hden0]; simp only [Desc.sq, pow_two]

theorem bivarCore_tail (a : List Rat) (init : Rat) :
    bivarCore false a (some init) =
      bivarTailModel (a.map (· - init)) (max (BIVAR_C * median ((a.map (· - init)).map absR)) BIVAR_EPS)
        (median ((a.map (· - init)).map absR) * MAD_SCALE_BIVAR) := rfl

end CnvVerif.Src
