/-
  Lemmas behind Props/C03Fallback.lean: the fallback branches of `transfer_fields` (Model/TileFallback.lean).
-/
import CnvVerif.Model.Tile
import CnvVerif.Model.TileFallback
import CnvVerif.Lemmas.Tile
import Mathlib.Tactic.Ring
import Mathlib.Tactic.Linarith
import Mathlib.Tactic.FieldSimp
import Mathlib.Tactic.NormNum
namespace CnvVerif

theorem sumQ_acc (l : List Rat) (a : Rat) : l.foldl (· + ·) a = a + sumQ l := by
  unfold sumQ
  induction l generalizing a with
  | nil => simp
  | cons x xs ih =>
    simp only [List.foldl_cons]
    rw [ih (a + x), ih (0 + x)]
    ring

theorem sumQ_nil : sumQ [] = 0 := rfl

theorem sumQ_cons (x : Rat) (xs : List Rat) : sumQ (x :: xs) = x + sumQ xs := by
  show (x :: xs).foldl (· + ·) 0 = _
  simp only [List.foldl_cons]
  rw [sumQ_acc]
  ring

/-- bins that all carry weight `c` weigh `c` times their number -/
theorem sumQ_map_const {α} (l : List α) (f : α → Rat) (c : Rat) (h : ∀ b ∈ l, f b = c) :
    sumQ (l.map f) = (l.length : Rat) * c := by
  induction l with
  | nil => simp [sumQ_nil]
  | cons x xs ih =>
    rw [List.map_cons, sumQ_cons, ih (fun b hb => h b (List.mem_cons_of_mem _ hb)), h x (by simp)]
    simp only [List.length_cons]
    push_cast
    ring

theorem sumQ_map_congr {α} (l : List α) (f g : α → Rat) (h : ∀ b ∈ l, f b = g b) :
    sumQ (l.map f) = sumQ (l.map g) := by
  induction l with
  | nil => rfl
  | cons x xs ih =>
    rw [List.map_cons, List.map_cons, sumQ_cons, sumQ_cons,
      ih (fun b hb => h b (List.mem_cons_of_mem _ hb)), h x (by simp)]

theorem sumQ_nonneg {α} (l : List α) (f : α → Rat) (h : ∀ b ∈ l, 0 ≤ f b) : 0 ≤ sumQ (l.map f) := by
  induction l with
  | nil => simp [sumQ_nil]
  | cons x xs ih =>
    rw [List.map_cons, sumQ_cons]
    have := ih (fun b hb => h b (List.mem_cons_of_mem _ hb))
    have := h x (by simp)
    linarith

/-- a sum of non-negative weights is `0` only if every weight is -/
theorem sumQ_eq_zero_iff {α} (l : List α) (f : α → Rat) (h : ∀ b ∈ l, 0 ≤ f b) :
    sumQ (l.map f) = 0 ↔ ∀ b ∈ l, f b = 0 := by
  induction l with
  | nil => simp [sumQ_nil]
  | cons x xs ih =>
    rw [List.map_cons, sumQ_cons]
    have hx := h x (by simp)
    have hxs := sumQ_nonneg xs f (fun b hb => h b (List.mem_cons_of_mem _ hb))
    have ih' := ih (fun b hb => h b (List.mem_cons_of_mem _ hb))
    constructor
    · intro h0 b hb
      have h1 : f x = 0 := by linarith
      have h2 : sumQ (xs.map f) = 0 := by linarith
      rcases List.mem_cons.mp hb with rfl | hb
      · exact h1
      · exact ih'.mp h2 b hb
    · intro hall
      rw [hall x (by simp), ih'.mpr (fun b hb => hall b (List.mem_cons_of_mem _ hb))]
      ring

theorem aggregate_weight_eq (unit : List Bin) (g : SegO) :
    (aggregate unit g).weight = sumQ ((spanned unit g).map (·.weight)) := rfl

theorem aggregate_depth_eq (unit : List Bin) (g : SegO) :
    (aggregate unit g).depth =
      if sumQ ((spanned unit g).map (·.weight)) > 0 then
        sumQ ((spanned unit g).map (fun b => b.depth * b.weight)) / sumQ ((spanned unit g).map (·.weight))
      else 0 := rfl

theorem aggregateNW_gene_eq (unit : List Bin) (g : SegO) : (aggregateNW unit g).gene = (aggregate unit g).gene := rfl

/-- with every spanned weight equal to 1 the two aggregation branches give the same segment (also for a segment that
    spans nothing: both report weight 0, depth 0) -/
theorem aggregate_eq_aggregateNW_of_unit_weights (unit : List Bin) (g : SegO)
    (h1 : ∀ b ∈ spanned unit g, b.weight = 1) : aggregate unit g = aggregateNW unit g := by
  have hw : sumQ ((spanned unit g).map (·.weight)) = ((spanned unit g).length : Rat) := by
    rw [sumQ_map_const _ _ 1 h1]; ring
  have hd : sumQ ((spanned unit g).map (fun b => b.depth * b.weight)) = sumQ ((spanned unit g).map (·.depth)) :=
    sumQ_map_congr _ _ _ (fun b hb => by rw [h1 b hb]; ring)
  have hdepth : (aggregate unit g).depth = (aggregateNW unit g).depth := by
    rw [aggregate_depth_eq, hw, hd]
    show _ = meanQ ((spanned unit g).map (·.depth))
    unfold meanQ
    rw [List.length_map]
    split
    · rfl
    · rename_i hn
      have hz : ((spanned unit g).length : Rat) = 0 := by
        have : (0 : Rat) ≤ ((spanned unit g).length : Rat) := by exact_mod_cast Nat.zero_le _
        linarith [not_lt.mp hn]
      rw [hz, div_zero]
  have hweight : (aggregate unit g).weight = (aggregateNW unit g).weight := by
    rw [aggregate_weight_eq, hw]; rfl
  show ({ g with weight := (aggregate unit g).weight, depth := (aggregate unit g).depth,
                 gene := (aggregate unit g).gene } : SegO) = _
  rw [hdepth, hweight]
  rfl

theorem stretchEnds_length (f l : Bin) (segs : List SegO) : (stretchEnds f l segs).length = segs.length := by
  have := congrArg List.length (setLast_map_inv
    (fun g : SegO => if g.chrom == l.chrom then { g with e := l.e } else g) (fun _ => ()) (fun _ => rfl)
    (setFirst (fun g : SegO => if g.chrom == f.chrom then { g with s := f.s } else g) segs))
  have h2 := congrArg List.length (setFirst_map_inv
    (fun g : SegO => if g.chrom == f.chrom then { g with s := f.s } else g) (fun _ => ()) (fun _ => rfl) segs)
  simp only [List.length_map] at this h2
  unfold stretchEnds
  rw [this, h2]

/-- the stretch leaves chromosome, log2 and probes of every segment alone ("but keep log2 as-is") -/
theorem stretchEnds_keeps (f l : Bin) (segs : List SegO) :
    (stretchEnds f l segs).map (fun g => (g.chrom, g.log2, g.probes)) = segs.map (fun g => (g.chrom, g.log2, g.probes)) := by
  unfold stretchEnds
  rw [setLast_map_inv _ _ (by intro y; by_cases h : (y.chrom == l.chrom) = true <;> simp [h]),
    setFirst_map_inv _ _ (by intro y; by_cases h : (y.chrom == f.chrom) = true <;> simp [h])]

/-! ### the oracle on the real rows accepts the model's rows -/

theorem closeQ_refl (a : Rat) : closeQ a a = true := by
  unfold closeQ
  simp only [sub_self, lt_self_iff_false, if_false, decide_eq_true_eq]
  have h1 : (0 : Rat) ≤ max 1 (if a < 0 then -a else a) := le_trans (by norm_num) (le_max_left _ _)
  have : (0 : Rat) ≤ 1 / 1000000000 := by norm_num
  exact mul_nonneg this h1

theorem spanned_aggregate (cn : List Bin) (g : SegO) : spanned cn (aggregate cn g) = spanned cn g := rfl
theorem spanned_aggregateNW (cn : List Bin) (g : SegO) : spanned cn (aggregateNW cn g) = spanned cn g := rfl

/-- what the model returns passes the oracle that judges the real rows -/
theorem transferSpec_map_aggregate (cn : List Bin) (segs : List SegO) :
    transferSpec true cn (segs.map (aggregate cn)) = [] := by
  unfold transferSpec
  simp only [Bool.not_true, Bool.false_or, Bool.true_or, List.any_eq_true, Bool.not_eq_true']
  simp
  refine ⟨fun x _ _ => ⟨by rw [aggregate_idem]; exact closeQ_refl _, by rw [aggregate_idem]; exact closeQ_refl _⟩,
    fun x _ hle => ⟨closeQ_refl _, ?_⟩⟩
  have hle' : sumQ ((spanned cn x).map (·.weight)) ≤ 0 := hle
  rw [aggregate_depth_eq, if_neg (not_lt.mpr hle')]

theorem transferSpec_map_aggregateNW (cn : List Bin) (segs : List SegO) :
    transferSpec false cn (segs.map (aggregateNW cn)) = [] := by
  unfold transferSpec
  simp only [Bool.not_false, Bool.true_or, Bool.false_or, List.any_eq_true, Bool.not_eq_true']
  simp
  exact fun x _ => ⟨closeQ_refl _, closeQ_refl _⟩

end CnvVerif
