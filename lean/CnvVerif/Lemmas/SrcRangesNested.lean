/-
  Source tie of skgenome/intersect.py, part: the mask path `_irange_nested`.  The hand-written model equals the term the translator reads
  off the current source (Generated/ExprsRanges.lean, regenerated from /repo on every run).  Proofs by case analysis
  + `simp`, not `rfl`: spellings that leave the meaning alone keep them green.  One module per tied code path, so
  that an edit breaks exactly the obligations about that path.
-/
import CnvVerif.Generated.ExprsRanges
import CnvVerif.Model.RangesExt
import CnvVerif.Lemmas.Ranges
set_option linter.unusedSimpArgs false
set_option linter.unusedVariables false
namespace CnvVerif.Src
open CnvVerif CnvVerif.Generated

/-- the table rows with their positions, as the elementwise reading of a row mask sees them -/
def enumRows (t : Table) : List (Nat × Row) := (List.range t.length).zip t

/-- the mask `_irange_nested` yields for one query, entry by entry from the generated term -/
def srcNestedMask (t : Table) (inner : Bool) (qs qe : Option Int) : List Bool :=
  (enumRows t).map (fun p => src_irange_nested_mask t inner qs qe p.1 p.2)
/-! ### `_irange_nested` -/

/-- the mask the model builds (the `let`s of `irangeNested`, spelled out) -/
def modelNestedMask (t : Table) (qs qe : Option Int) (inner : Bool) : List Bool :=
  let n := t.length
  let m0 : List Bool := List.replicate n true
  let m1 : List Bool :=
    match qs with
    | some s =>
      if s ≠ 0 then
        if inner then maskFrom n (ssLeft (t.map (·.s)) s)
        else t.map (fun r => decide (r.e > s))
      else m0
    | none => m0
  match qe with
  | some e =>
    if inner then (m1.zip (t.map (fun r => decide (r.e ≤ e)))).map (fun p => p.1 && p.2)
    else (m1.zip (maskUpto n (ssLeft (t.map (·.s)) e))).map (fun p => p.1 && p.2)
  | none => m1

theorem irangeNested_eq_modelMask (t : Table) (qs qe : Option Int) (inner : Bool) :
    irangeNested t qs qe inner = applyMask t (modelNestedMask t qs qe inner) := rfl

theorem ssLeft_zero_of_nonneg (t : Table) (h : ∀ r ∈ t, 0 ≤ r.s) : ssLeft (t.map (·.s)) 0 = 0 := by
  unfold ssLeft
  rw [List.countP_eq_zero]
  intro x hx
  rw [List.mem_map] at hx
  obtain ⟨r, hr, rfl⟩ := hx
  have := h r hr
  simp only [decide_eq_true_eq]
  omega

/-- on a well-formed table (coordinates ≥ 0, start < end) — so that the test `if start_val:` and the test
    `if start_val is not None:` read the same: a start bound of 0 excludes no row either way -/
theorem modelNestedMask_is_source (t : Table) (h : WFTable t) (qs qe : Option Int) (inner : Bool) :
    modelNestedMask t qs qe inner = srcNestedMask t inner qs qe := by
  have hss : ssLeft (t.map (·.s)) 0 = 0 := ssLeft_zero_of_nonneg t (fun r hr => (h.2 r hr).1)
  unfold modelNestedMask srcNestedMask enumRows
  apply List.ext_getElem
  · cases qs with
    | none => cases qe <;> cases inner <;> simp [maskFrom, maskUpto]
    | some s =>
      by_cases hs : s = 0 <;> cases qe <;> cases inner <;> simp [maskFrom, maskUpto, hs]
  · intro k h1 h2
    have hk : k < t.length := by
      simp only [List.length_map, List.length_zip, List.length_range, Nat.min_self] at h2
      exact h2
    have he : 0 < t[k].e := by
      have := h.2 t[k] (List.getElem_mem hk)
      omega
    unfold src_irange_nested_mask
    cases qs with
    | none =>
      cases qe with
      | none => simp
      | some e => cases inner <;> simp [maskFrom, maskUpto]
    | some s =>
      by_cases hs : s = 0
      · cases qe with
        | none => cases inner <;> simp [maskFrom, maskUpto, hs, hss, he]
        | some e => cases inner <;> simp [maskFrom, maskUpto, hs, hss, he]
      · cases qe with
        | none => cases inner <;> simp [maskFrom, maskUpto, hs]
        | some e => cases inner <;> simp [maskFrom, maskUpto, hs]

theorem irangeNested_mask_is_source (t : Table) (h : WFTable t) (qs qe : Option Int) (inner : Bool) :
    irangeNested t qs qe inner = applyMask t (srcNestedMask t inner qs qe) := by
  rw [irangeNested_eq_modelMask, modelNestedMask_is_source t h]

end CnvVerif.Src
