/-
  C13 at the table level: `doAccess` (scan of the whole FASTA file → name filter → `subtract` of
  every exclude table → `join_regions`) seen from one chromosome.  The pandas-style plumbing
  (`groupby(sort=False)`, `by_shared_chroms` with its single-chromosome fast path, `by_ranges`,
  `merge` of the exclude table with its sort / re-sort, `tabio.read`'s sort) is covered here by
  theorems, not only by the run-time comparison.
-/
import CnvVerif.Lemmas.Access
import CnvVerif.Lemmas.IntervalTable
namespace CnvVerif

/-! ### rows of one chromosome under concatenation -/

theorem at_rowsOf_append (a b : Table) (c : String) :
    rowsOf (a ++ b) c = rowsOf a c ++ rowsOf b c := by
  unfold rowsOf
  exact List.filter_append ..

theorem at_flatMap_congr {α β : Type} (l : List α) (f g : α → List β) (h : ∀ a ∈ l, f a = g a) :
    l.flatMap f = l.flatMap g := by
  induction l with
  | nil => rfl
  | cons a t ih =>
    rw [List.flatMap_cons, List.flatMap_cons, h a (by simp), ih (fun b hb => h b (by simp [hb]))]

/-- a per-row expansion that keeps the chromosome commutes with the selection of one chromosome -/
theorem at_rowsOf_flatMap (f : Row → List Row) (hf : ∀ k, ∀ q ∈ f k, q.chrom = k.chrom)
    (a : Table) (c : String) : rowsOf (a.flatMap f) c = (rowsOf a c).flatMap f := by
  induction a with
  | nil => rfl
  | cons k ks ih =>
    rw [List.flatMap_cons, at_rowsOf_append, ih]
    by_cases hk : k.chrom = c
    · have h1 : rowsOf (f k) c = f k := rowsOf_eq_self _ c (fun q hq => (hf k q hq).trans hk)
      have h2 : rowsOf (k :: ks) c = k :: rowsOf ks c := by simp [rowsOf, hk]
      rw [h1, h2, List.flatMap_cons]
    · have h1 : rowsOf (f k) c = [] :=
        rowsOf_eq_nil _ c (fun q hq h => hk ((hf k q hq).symm.trans h))
      have h2 : rowsOf (k :: ks) c = rowsOf ks c := by simp [rowsOf, hk]
      rw [h1, h2, List.nil_append]

/-! ### the start table: scan of every record, name filter -/

/-- `skip_noncanonical` off, or the name is canonical -/
def keepB (skip : Bool) (c : String) : Bool := !skip || isCanonicalName c

theorem keepB_iff (skip : Bool) (c : String) :
    keepB skip c = true ↔ (skip = true → isCanonicalName c = true) := by
  cases skip <;> simp [keepB]

/-- the rows one record contributes to the start table -/
def startRows (skip : Bool) (r : String × List (List Char)) : Table :=
  if keepB skip r.1 then runRows r.1 (maxRuns r.2.flatten) else []

theorem keepRegions_append (skip : Bool) (a b : List Region) :
    keepRegions skip (a ++ b) = keepRegions skip a ++ keepRegions skip b := by
  cases skip <;> simp [keepRegions]

theorem keepRegions_tag (skip : Bool) (c : String) (l : List Run) :
    keepRegions skip (tagRuns c l) = if keepB skip c then tagRuns c l else [] := by
  cases skip with
  | false => simp [keepRegions, keepB]
  | true =>
    simp only [keepRegions, keepB, if_true, Bool.not_true, Bool.false_or]
    by_cases hc : isCanonicalName c = true
    · rw [if_pos hc]
      apply List.filter_eq_self.mpr
      intro x hx
      obtain ⟨y, _, rfl⟩ := List.mem_map.mp hx
      exact hc
    · rw [if_neg hc]
      apply List.filter_eq_nil_iff.mpr
      intro x hx
      obtain ⟨y, _, rfl⟩ := List.mem_map.mp hx
      exact hc

theorem tagRuns_regionRow (c : String) (l : List Run) :
    (tagRuns c l).map regionRow = runRows c l := by
  unfold tagRuns runRows
  rw [List.map_map]
  rfl

/-- the table `do_access` starts from, record by record -/
theorem startTable_eq (skip : Bool) (recs : List (String × List (List Char))) :
    (keepRegions skip (recs.flatMap (fun r => tagRuns r.1 (maxRuns r.2.flatten)))).map regionRow =
      recs.flatMap (startRows skip) := by
  induction recs with
  | nil => cases skip <;> rfl
  | cons r rs ih =>
    rw [List.flatMap_cons, List.flatMap_cons, keepRegions_append, List.map_append, ih,
      keepRegions_tag]
    congr 1
    unfold startRows
    split
    · exact tagRuns_regionRow _ _
    · rfl

theorem startRows_chrom (skip : Bool) (r : String × List (List Char)) :
    ∀ x ∈ startRows skip r, x.chrom = r.1 := by
  intro x hx
  unfold startRows at hx
  split at hx
  · obtain ⟨y, _, rfl⟩ := List.mem_map.mp hx
    rfl
  · simp at hx

theorem startRows_nonneg (skip : Bool) (r : String × List (List Char)) :
    ∀ x ∈ startRows skip r, 0 ≤ x.s := by
  intro x hx
  unfold startRows at hx
  split at hx
  · obtain ⟨y, _, rfl⟩ := List.mem_map.mp hx
    show (0 : Int) ≤ (y.1 : Int)
    omega
  · simp at hx

theorem startRows_canon (skip : Bool) (r : String × List (List Char)) : Canon (startRows skip r) := by
  unfold startRows
  split
  · exact runRows_canon _ _ (accRuns_canon _ _)
  · exact ⟨by simp, by simp⟩

theorem startRows_cov (skip : Bool) (r : String × List (List Char)) (p : Int) :
    cov (startRows skip r) p ↔
      (skip = true → isCanonicalName r.1 = true) ∧ NonNAt r.2.flatten p := by
  unfold startRows
  split
  · rename_i hk
    rw [runRows_cov, maxRuns_cov]
    exact ⟨fun h => ⟨(keepB_iff _ _).mp hk, h⟩, fun h => h.2⟩
  · rename_i hk
    rw [cov_nil]
    exact ⟨False.elim, fun h => hk ((keepB_iff _ _).mpr h.1)⟩

theorem startTable_canon (skip : Bool) (recs : List (String × List (List Char)))
    (hn : (recs.map (·.1)).Nodup) (c : String) :
    Canon (rowsOf (recs.flatMap (startRows skip)) c) := by
  induction recs with
  | nil => exact ⟨by simp [rowsOf], by simp [rowsOf]⟩
  | cons r rs ih =>
    rw [List.map_cons, List.nodup_cons] at hn
    rw [List.flatMap_cons, at_rowsOf_append]
    by_cases hr : r.1 = c
    · have h1 : rowsOf (startRows skip r) c = startRows skip r :=
        rowsOf_eq_self _ c (fun x hx => (startRows_chrom skip r x hx).trans hr)
      have h2 : rowsOf (rs.flatMap (startRows skip)) c = [] := by
        apply rowsOf_eq_nil
        intro x hx hxc
        obtain ⟨r', hr', hx'⟩ := List.mem_flatMap.mp hx
        have : r'.1 = r.1 := ((startRows_chrom skip r' x hx').symm.trans hxc).trans hr.symm
        exact hn.1 (List.mem_map.mpr ⟨r', hr', this⟩)
      rw [h1, h2, List.append_nil]
      exact startRows_canon skip r
    · have h1 : rowsOf (startRows skip r) c = [] :=
        rowsOf_eq_nil _ c (fun x hx h => hr ((startRows_chrom skip r x hx).symm.trans h))
      rw [h1, List.nil_append]
      exact ih hn.2

theorem startTable_cov (skip : Bool) (recs : List (String × List (List Char))) (c : String) (p : Int) :
    cov (rowsOf (recs.flatMap (startRows skip)) c) p ↔
      ∃ r ∈ recs, r.1 = c ∧ (skip = true → isCanonicalName c = true) ∧ NonNAt r.2.flatten p := by
  rw [cov_rowsOf]
  constructor
  · rintro ⟨x, hx, hxc, h1, h2⟩
    obtain ⟨r, hr, hx'⟩ := List.mem_flatMap.mp hx
    have hrc : r.1 = c := (startRows_chrom skip r x hx').symm.trans hxc
    have := (startRows_cov skip r p).mp ⟨x, hx', h1, h2⟩
    rw [hrc] at this
    exact ⟨r, hr, hrc, this⟩
  · rintro ⟨r, hr, hrc, hk, hp⟩
    obtain ⟨x, hx, h1, h2⟩ := (startRows_cov skip r p).mpr ⟨by rw [hrc]; exact hk, hp⟩
    exact ⟨x, List.mem_flatMap.mpr ⟨r, hr, hx⟩, (startRows_chrom skip r x hx).trans hrc, h1, h2⟩

/-! ### one `subtract` at the table level -/

/-- what `subtract` leaves of keeper `k`: the merged exclusions of `k`'s chromosome that the
    `outer` query of `k` selects are cut out -/
def subG (om : Table) (k : Row) : List Row :=
  subtractRow k (selectRange (rowsOf om k.chrom) (some k.s) (some k.e) .outer)

theorem subG_chrom (om : Table) (k : Row) : ∀ q ∈ subG om k, q.chrom = k.chrom :=
  subtractRow_chrom k _

/-- **`by_shared_chroms` + `by_ranges` + `_subtraction`, seen from one chromosome** (both the
    single-shared-chromosome fast path and the `groupby` path) -/
theorem rowsOf_subtractTable (a b : Table) (hb : b.isEmpty = false) (c : String) :
    rowsOf (subtractTable a b) c = (rowsOf a c).flatMap (subG (mergeTable 0 b)) := by
  unfold subtractTable
  rw [hb]
  simp only [Bool.false_eq_true, if_false]
  generalize mergeTable 0 b = om
  by_cases hc : ((chromsInOrder a).length == 1 && (chromsInOrder om).length == 1 &&
      chromsInOrder a == chromsInOrder om) = true
  · have hbr : byRangesDf om a .outer true =
        a.map (fun k => (k, selectRange om (some k.s) (some k.e) .outer)) := by
      unfold byRangesDf bySharedChroms
      simp only
      rw [if_pos hc]
      simp only [List.flatMap_cons, List.flatMap_nil, List.append_nil]
    simp only [Bool.and_eq_true, beq_iff_eq] at hc
    obtain ⟨⟨h1, _⟩, h3⟩ := hc
    obtain ⟨c0, hc0⟩ := List.length_eq_one_iff.mp h1
    have ha := chromsInOrder_single a c0 hc0
    have ho := chromsInOrder_single om c0 (h3 ▸ hc0)
    rw [hbr, List.flatMap_map]
    have : a.flatMap (fun k => subtractRow k (selectRange om (some k.s) (some k.e) .outer)) =
        a.flatMap (subG om) := by
      apply at_flatMap_congr
      intro k hk
      unfold subG
      rw [ha k hk, rowsOf_eq_self om c0 ho]
    rw [this]
    exact at_rowsOf_flatMap (subG om) (subG_chrom om) a c
  · rw [byRangesDf_general om a .outer hc, List.flatMap_assoc]
    have : (groupByChrom a).flatMap
          (fun g => (grpSel om .outer g).flatMap (fun p => subtractRow p.1 p.2)) =
        (groupByChrom a).flatMap (fun g => (fun l : Table => l.flatMap (subG om)) g.2) := by
      apply at_flatMap_congr
      intro g hg
      obtain ⟨c1, _, rfl⟩ := List.mem_map.mp hg
      unfold grpSel
      rw [List.flatMap_map]
      apply at_flatMap_congr
      intro k hk
      have hkc : k.chrom = c1 := rowsOf_chrom a c1 k hk
      unfold subG
      rw [hkc]
    rw [this]
    apply rowsOf_groups (fun l : Table => l.flatMap (subG om)) a rfl
    intro c1 l hl r hr
    obtain ⟨k, hk, hr'⟩ := List.mem_flatMap.mp hr
    exact (subG_chrom om k r hr').trans (hl k hk)

theorem subG_canon (b : Table) (hb : ∀ r ∈ b, 0 ≤ r.s ∧ r.s < r.e) (k : Row) (hk0 : 0 ≤ k.s)
    (hk : k.s < k.e) :
    Canon (subG (mergeTable 0 b) k) ∧ ∀ q ∈ subG (mergeTable 0 b) k, k.s ≤ q.s ∧ q.e ≤ k.e := by
  unfold subG
  rw [selectRange_outer _ (mergeTable_wf b hb k.chrom) k.s k.e hk0]
  have hcan := mergeTable_canon b (fun r hr => (hb r hr).2) k.chrom
  apply subtractRow_canon k hk _ (hcan.filter _)
  intro x hx
  have := (List.mem_filter.mp hx).2
  simpa using this

/-- what the loop over the exclude tables keeps true: starts are not negative and every
    chromosome's rows are sorted, of positive length and separated -/
def TInv (a : Table) : Prop := (∀ r ∈ a, 0 ≤ r.s) ∧ ∀ c, Canon (rowsOf a c)

theorem TInv.pos {a : Table} (h : TInv a) : ∀ r ∈ a, r.s < r.e := fun r hr =>
  (h.2 r.chrom).1 r (List.mem_filter.mpr ⟨hr, by simp⟩)

theorem subtractTable_inv (a b : Table) (ha : TInv a) (hb : ∀ r ∈ b, 0 ≤ r.s ∧ r.s < r.e) :
    TInv (subtractTable a b) := by
  by_cases he : b.isEmpty = true
  · have : subtractTable a b = a := by unfold subtractTable; rw [if_pos he]
    rw [this]; exact ha
  · have he : b.isEmpty = false := by simpa using he
    have hsub : ∀ k ∈ a, Canon (subG (mergeTable 0 b) k) ∧
        ∀ q ∈ subG (mergeTable 0 b) k, k.s ≤ q.s ∧ q.e ≤ k.e :=
      fun k hk => subG_canon b hb k (ha.1 k hk) (ha.pos k hk)
    constructor
    · intro r hr
      have hr' : r ∈ rowsOf (subtractTable a b) r.chrom := List.mem_filter.mpr ⟨hr, by simp⟩
      rw [rowsOf_subtractTable a b he] at hr'
      obtain ⟨k, hk, hq⟩ := List.mem_flatMap.mp hr'
      have hka : k ∈ a := (List.mem_filter.mp hk).1
      have := ((hsub k hka).2 r hq).1
      have := ha.1 k hka
      omega
    · intro c
      rw [rowsOf_subtractTable a b he]
      apply canon_flatMap _ _ (ha.2 c)
      intro k hk
      exact hsub k (List.mem_filter.mp hk).1

theorem mem_sortTable (t : Table) (r : Row) : r ∈ sortTable t ↔ r ∈ t := by
  unfold sortTable
  exact List.mem_mergeSort

theorem cov_rowsOf_sortTable (t : Table) (c : String) (p : Int) :
    cov (rowsOf (sortTable t) c) p ↔ cov (rowsOf t c) p := by
  rw [cov_rowsOf, cov_rowsOf]
  simp only [mem_sortTable]

/-- every exclude table in turn (`tabio.read` sorts each one first) -/
theorem foldl_subtractTable_spec (excl : List Table) (a : Table) (ha : TInv a)
    (hex : ∀ ex ∈ excl, ∀ r ∈ ex, 0 ≤ r.s ∧ r.s < r.e) :
    TInv (excl.foldl (fun acc ex => subtractTable acc (sortTable ex)) a) ∧
      ∀ c p, cov (rowsOf (excl.foldl (fun acc ex => subtractTable acc (sortTable ex)) a) c) p ↔
        cov (rowsOf a c) p ∧ ∀ ex ∈ excl, ¬ cov (rowsOf ex c) p := by
  induction excl generalizing a with
  | nil => exact ⟨ha, fun c p => by simp⟩
  | cons b bs ih =>
    have hb : ∀ r ∈ sortTable b, 0 ≤ r.s ∧ r.s < r.e :=
      fun r hr => hex b (by simp) r ((mem_sortTable b r).mp hr)
    have h1 := subtractTable_inv a (sortTable b) ha hb
    have v1 := subtractTable_cov a (sortTable b) hb
      (fun r hr => ⟨ha.1 r hr, by have := ha.pos r hr; omega⟩)
    obtain ⟨h2, v2⟩ := ih (subtractTable a (sortTable b)) h1 (fun ex hx => hex ex (by simp [hx]))
    refine ⟨h2, ?_⟩
    intro c p
    rw [List.foldl_cons, v2 c p, v1 c p, cov_rowsOf_sortTable]
    simp only [List.mem_cons, forall_eq_or_imp]
    constructor
    · rintro ⟨⟨h1, h2⟩, h3⟩; exact ⟨h1, h2, h3⟩
    · rintro ⟨h1, h2, h3⟩; exact ⟨⟨h1, h2⟩, h3⟩

/-! ### `join_regions` at the table level -/

theorem joinGo_chrom (g : Int) (prev : Row) (l : List Row) (c : String) (hp : prev.chrom = c)
    (hl : ∀ r ∈ l, r.chrom = c) : ∀ r ∈ joinGo g prev l, r.chrom = c := by
  induction l generalizing prev with
  | nil =>
    intro r hr
    simp only [joinGo, List.mem_singleton] at hr
    subst hr; exact hp
  | cons x xs ih =>
    have hx : x.chrom = c := hl x (by simp)
    have hxs : ∀ r ∈ xs, r.chrom = c := fun r hr => hl r (by simp [hr])
    unfold joinGo
    split
    · exact ih _ hp hxs
    · intro r hr
      rcases List.mem_cons.mp hr with h | h
      · subst h; exact hp
      · exact ih x hx hxs r h

theorem joinChrom_chrom (g : Int) (c : String) (l : List Row) (hl : ∀ r ∈ l, r.chrom = c) :
    ∀ r ∈ joinChrom g l, r.chrom = c := by
  cases l with
  | nil => intro r hr; simp [joinChrom] at hr
  | cons x xs => exact joinGo_chrom g x xs c (hl x (by simp)) (fun r hr => hl r (by simp [hr]))

/-- on a table whose chromosomes are canonical the assertion of `join_regions` holds and the
    `groupby` + concatenation is, per chromosome, the one-chromosome loop -/
theorem joinRegions_table (minGap : Option Int) (t : Table) (ht : ∀ c, Canon (rowsOf t c)) :
    ∃ out, joinRegions minGap t = .ok out ∧
      ∀ c, rowsOf out c = joinChrom (minGap.getD 0) (rowsOf t c) := by
  have hall : (groupByChrom t).all (fun p => gapsPositive p.2) = true := by
    rw [List.all_eq_true]
    intro g hg
    obtain ⟨c, _, rfl⟩ := List.mem_map.mp hg
    exact gapsPositive_of_canon _ (ht c)
  refine ⟨(groupByChrom t).flatMap (fun p => joinChrom (minGap.getD 0) p.2), ?_, ?_⟩
  · unfold joinRegions
    simp only
    rw [if_pos hall]
  · intro c
    exact rowsOf_groups (joinChrom (minGap.getD 0)) t rfl
      (fun c l hl => joinChrom_chrom _ c l hl) c

/-! ### `do_access` end to end, every chromosome of the output table -/

/-- base `p` of sequence `c` is reported by the scan, survives the name filter, and lies in no
    region of any exclude table -/
def AccessibleT (recs : List (String × List (List Char))) (excl : List Table) (skip : Bool)
    (c : String) (p : Int) : Prop :=
  (∃ r ∈ recs, r.1 = c ∧ (skip = true → isCanonicalName c = true) ∧ NonNAt r.2.flatten p) ∧
  ∀ ex ∈ excl, ¬ cov (rowsOf ex c) p

theorem doAccess_eq (recs : List (String × List (List Char))) (excl : List Table)
    (minGap : Option Int) (skip : Bool) :
    doAccess (renderRecords recs) excl minGap skip =
      joinRegions minGap
        (excl.foldl (fun acc ex => subtractTable acc (sortTable ex)) (recs.flatMap (startRows skip))) := by
  unfold doAccess
  rw [getRegions_records, ← startTable_eq]
  rfl

theorem doAccess_table_spec (recs : List (String × List (List Char))) (excl : List Table)
    (minGap : Option Int) (skip : Bool)
    (hn : (recs.map (·.1)).Nodup)
    (hex : ∀ ex ∈ excl, ∀ r ∈ ex, 0 ≤ r.s ∧ r.s < r.e) :
    ∃ out, doAccess (renderRecords recs) excl minGap skip = .ok out ∧
      ∀ c, (∀ r ∈ rowsOf out c, r.s < r.e) ∧
        (rowsOf out c).Pairwise (fun a b => a.e + max 1 (minGap.getD 0) ≤ b.s) ∧
        ∀ p, cov (rowsOf out c) p ↔
          AccessibleT recs excl skip c p ∨ InSmallGap (AccessibleT recs excl skip c) (minGap.getD 0) p := by
  have h0 : TInv (recs.flatMap (startRows skip)) := by
    refine ⟨?_, fun c => startTable_canon skip recs hn c⟩
    intro x hx
    obtain ⟨r, _, hx'⟩ := List.mem_flatMap.mp hx
    exact startRows_nonneg skip r x hx'
  obtain ⟨hinv, hcov⟩ := foldl_subtractTable_spec excl _ h0 hex
  obtain ⟨out, hout, hrows⟩ := joinRegions_table minGap _ hinv.2
  refine ⟨out, by rw [doAccess_eq]; exact hout, ?_⟩
  intro c
  have hc := hinv.2 c
  have hagree : ∀ q, AccessibleT recs excl skip c q ↔
      cov (rowsOf (excl.foldl (fun acc ex => subtractTable acc (sortTable ex))
        (recs.flatMap (startRows skip))) c) q := by
    intro q
    rw [hcov c q, startTable_cov]
    rfl
  have hj := joinChrom_canon (minGap.getD 0) _ hc
  rw [hrows c]
  refine ⟨hj.1, hj.2, ?_⟩
  intro p
  rw [joinChrom_cov _ _ hc p, ← hagree p, bridgedL_iff_inSmallGap' _ _ _ hc hagree p]

/-! ### corollaries: chromosomes without a kept record are absent; a kept record's chromosome
    carries exactly the intervals of the one-chromosome pipeline `accessChrom` -/

theorem at_chromKeyLt_iff (a b : Nat × String) :
    chromKeyLt a b = true ↔ a.1 < b.1 ∨ (a.1 = b.1 ∧ a.2 < b.2) := by
  simp [chromKeyLt]

theorem at_chromKey_trichotomy (a b : Nat × String) :
    chromKeyLt a b = true ∨ a = b ∨ chromKeyLt b a = true := by
  obtain ⟨a1, a2⟩ := a
  obtain ⟨b1, b2⟩ := b
  simp only [at_chromKeyLt_iff, Prod.mk.injEq]
  rcases Nat.lt_trichotomy a1 b1 with h | h | h
  · left; left; exact h
  · subst h
    rcases it_string_trichotomy a2 b2 with h2 | h2 | h2
    · left; right; exact ⟨rfl, h2⟩
    · right; left; exact ⟨rfl, h2⟩
    · right; right; right; exact ⟨rfl, h2⟩
  · right; right; left; exact h

theorem at_chromKeyLt_trans {a b c : Nat × String} (h1 : chromKeyLt a b = true)
    (h2 : chromKeyLt b c = true) : chromKeyLt a c = true := by
  rw [at_chromKeyLt_iff] at *
  rcases h1 with h1 | ⟨h1, h1'⟩ <;> rcases h2 with h2 | ⟨h2, h2'⟩
  · left; omega
  · left; omega
  · left; omega
  · right; exact ⟨by omega, String.lt_trans h1' h2'⟩

theorem at_chromKeyLt_irrefl (a : Nat × String) : ¬ chromKeyLt a a = true := by
  rw [at_chromKeyLt_iff]
  rintro (h | ⟨_, h⟩)
  · omega
  · exact absurd h (String.lt_irrefl _)

theorem at_sortLe_iff (a b : Row) :
    sortLe a b = true ↔ chromKeyLt (sorterChrom a.chrom) (sorterChrom b.chrom) = true ∨
      (sorterChrom a.chrom = sorterChrom b.chrom ∧ (a.s < b.s ∨ (a.s = b.s ∧ a.e ≤ b.e))) := by
  simp only [sortLe, Bool.or_eq_true, Bool.and_eq_true, beq_iff_eq, decide_eq_true_eq]

theorem at_sortLe_total (a b : Row) : (sortLe a b || sortLe b a) = true := by
  rw [Bool.or_eq_true, at_sortLe_iff, at_sortLe_iff]
  rcases at_chromKey_trichotomy (sorterChrom a.chrom) (sorterChrom b.chrom) with h | h | h
  · left; left; exact h
  · by_cases h1 : a.s < b.s
    · left; right; exact ⟨h, Or.inl h1⟩
    · by_cases h2 : b.s < a.s
      · right; right; exact ⟨h.symm, Or.inl h2⟩
      · have hs : a.s = b.s := by omega
        by_cases h3 : a.e ≤ b.e
        · left; right; exact ⟨h, Or.inr ⟨hs, h3⟩⟩
        · right; right; exact ⟨h.symm, Or.inr ⟨hs.symm, by omega⟩⟩
  · right; left; exact h

theorem at_sortLe_trans (a b c : Row) (h1 : sortLe a b = true) (h2 : sortLe b c = true) :
    sortLe a c = true := by
  rw [at_sortLe_iff] at *
  rcases h1 with h1 | ⟨k1, h1⟩ <;> rcases h2 with h2 | ⟨k2, h2⟩
  · left; exact at_chromKeyLt_trans h1 h2
  · left; rw [← k2]; exact h1
  · left; rw [k1]; exact h2
  · right
    refine ⟨k1.trans k2, ?_⟩
    rcases h1 with h1 | ⟨h1, h1'⟩ <;> rcases h2 with h2 | ⟨h2, h2'⟩
    · left; omega
    · left; omega
    · left; omega
    · right; exact ⟨by omega, by omega⟩

/-- `tabio.read`'s sort leaves every chromosome's rows in order of start -/
theorem rowsOf_sortTable_sorted (t : Table) (c : String) : StartSorted (rowsOf (sortTable t) c) := by
  have hs : (sortTable t).Pairwise (fun a b => sortLe a b = true) :=
    List.pairwise_mergeSort at_sortLe_trans at_sortLe_total t
  have h := hs.filter (fun r => r.chrom == c)
  refine List.Pairwise.imp_of_mem ?_ h
  intro a b ha hb hab
  have hac := rowsOf_chrom _ c a ha
  have hbc := rowsOf_chrom _ c b hb
  rw [at_sortLe_iff, hac, hbc] at hab
  rcases hab with h | ⟨_, h⟩
  · exact absurd h (at_chromKeyLt_irrefl _)
  · omega

theorem at_nodup_map_inj {α β : Type} (f : α → β) (l : List α) (hn : (l.map f).Nodup) (a b : α)
    (ha : a ∈ l) (hb : b ∈ l) (h : f a = f b) : a = b := by
  induction l with
  | nil => simp at ha
  | cons x xs ih =>
    rw [List.map_cons, List.nodup_cons] at hn
    rcases List.mem_cons.mp ha with rfl | ha' <;> rcases List.mem_cons.mp hb with rfl | hb'
    · rfl
    · exact absurd (List.mem_map.mpr ⟨b, hb', h.symm⟩) hn.1
    · exact absurd (List.mem_map.mpr ⟨a, ha', h⟩) hn.1
    · exact ih hn.2 ha' hb'

theorem at_canon_of_sep (l : List Row) (g : Int) (h1 : ∀ r ∈ l, r.s < r.e)
    (h2 : l.Pairwise (fun a b => a.e + max 1 g ≤ b.s)) : Canon l :=
  ⟨h1, h2.imp (fun {a b} h => by omega)⟩

theorem inSmallGap_congr (acc acc' : Int → Prop) (h : ∀ q, acc q ↔ acc' q) (g p : Int) :
    InSmallGap acc g p ↔ InSmallGap acc' g p := by
  have : acc = acc' := funext (fun q => propext (h q))
  rw [this]

/-- `doAccess_table_spec` plus: (1) a chromosome name that is not the name of a kept record has no
    row in the output; (2) on the chromosome of a kept record the output intervals are exactly
    those of the one-chromosome pipeline `accessChrom` run on that record's lines and on that
    chromosome's rows of every (sorted) exclude table. -/
theorem doAccess_table_chrom (recs : List (String × List (List Char))) (excl : List Table)
    (minGap : Option Int) (skip : Bool)
    (hn : (recs.map (·.1)).Nodup)
    (hex : ∀ ex ∈ excl, ∀ r ∈ ex, 0 ≤ r.s ∧ r.s < r.e) :
    ∃ out, doAccess (renderRecords recs) excl minGap skip = .ok out ∧
      (∀ c, (¬ ∃ r ∈ recs, r.1 = c ∧ (skip = true → isCanonicalName c = true)) → rowsOf out c = []) ∧
      ∀ c lines, (c, lines) ∈ recs → (skip = true → isCanonicalName c = true) →
        (rowsOf out c).map ivOf =
          (accessChrom c lines (excl.map (fun ex => rowsOf (sortTable ex) c)) (minGap.getD 0)).map ivOf := by
  obtain ⟨out, hout, hspec⟩ := doAccess_table_spec recs excl minGap skip hn hex
  refine ⟨out, hout, ?_, ?_⟩
  · intro c hno
    obtain ⟨hpos, _, hcov⟩ := hspec c
    have hacc : ∀ q, ¬ AccessibleT recs excl skip c q := by
      rintro q ⟨⟨r, hr, hrc, hk, _⟩, _⟩
      exact hno ⟨r, hr, hrc, hk⟩
    cases hrows : rowsOf out c with
    | nil => rfl
    | cons x xs =>
      exfalso
      have hx : x ∈ rowsOf out c := by rw [hrows]; simp
      rcases (hcov x.s).mp ⟨x, hx, Int.le_refl _, hpos x hx⟩ with h | ⟨g1, _, _, _, _, h, _⟩
      · exact hacc _ h
      · exact hacc _ h
  · intro c lines hmem hk
    obtain ⟨hpos, hsep, hcov⟩ := hspec c
    have hex' : ∀ b ∈ excl.map (fun ex => rowsOf (sortTable ex) c),
        StartSorted b ∧ ∀ r ∈ b, r.s < r.e := by
      intro b hb
      obtain ⟨ex, hx, rfl⟩ := List.mem_map.mp hb
      refine ⟨rowsOf_sortTable_sorted ex c, ?_⟩
      intro r hr
      exact (hex ex hx r ((mem_sortTable ex r).mp (List.mem_filter.mp hr).1)).2
    obtain ⟨kpos, ksep, kcov⟩ :=
      accessChrom_spec c lines (excl.map (fun ex => rowsOf (sortTable ex) c)) (minGap.getD 0) hex'
    have hagree : ∀ q, AccessibleT recs excl skip c q ↔
        Accessible lines.flatten (excl.map (fun ex => rowsOf (sortTable ex) c)) q := by
      intro q
      unfold AccessibleT Accessible
      have e1 : (∃ r ∈ recs, r.1 = c ∧ (skip = true → isCanonicalName c = true) ∧
          NonNAt r.2.flatten q) ↔ NonNAt lines.flatten q := by
        constructor
        · rintro ⟨r, hr, hrc, _, hq⟩
          have : r = (c, lines) := at_nodup_map_inj (·.1) recs hn r (c, lines) hr hmem hrc
          rw [this] at hq
          exact hq
        · intro hq
          exact ⟨(c, lines), hmem, rfl, hk, hq⟩
      have e2 : (∀ ex ∈ excl, ¬ cov (rowsOf ex c) q) ↔
          ∀ b ∈ excl.map (fun ex => rowsOf (sortTable ex) c), ¬ cov b q := by
        simp only [List.forall_mem_map, cov_rowsOf_sortTable]
      rw [e1, e2]
    apply canon_unique _ _ (at_canon_of_sep _ _ hpos hsep) (at_canon_of_sep _ _ kpos ksep)
    intro p
    rw [hcov p, kcov p, hagree p, inSmallGap_congr _ _ hagree]

end CnvVerif
