/-
  The hand-written models of the chromosomal-sex code equal the expressions the translator reads off the current
  source (Generated/ExprsSex.lean, regenerated from /repo's cnvlib/cnary.py on every run).
-/
import CnvVerif.Generated.ExprsSex
import CnvVerif.Model.SexExt
import CnvVerif.Lemmas.Center
import Mathlib.Tactic.Ring
import Mathlib.Tactic.NormNum
set_option linter.unusedTactic false
set_option linter.unreachableTactic false
set_option linter.unusedSimpArgs false
namespace CnvVerif.Src
open CnvVerif CnvVerif.Generated

/-- `shift_xx`: what one bin's log2 is changed by -/
theorem shiftXX_is_source (hapX isXX : Bool) (t : List CBin) :
    shiftXX hapX isXX t = t.map (fun b =>
      { b with log2 := b.log2 +
          src_shift_xx_delta hapX isXX (b.chrom == xLabel ((t.head?.map (·.chrom)).getD "")) }) := by
  rw [shiftXX_spec]
  apply List.map_congr_left
  intro b _
  unfold src_shift_xx_delta
  cases hX : (b.chrom == xLabel ((t.head?.map (·.chrom)).getD "")) <;> cases hapX <;> cases isXX <;>
    simp <;> norm_num

theorem xLabel_ne_yLabel_sex (first : String) : (xLabel first == yLabel first) = false := by
  unfold xLabel yLabel
  split <;> decide

/-- `chr_x_filter(diploid_parx_genome)`, with `parx_filter` = on X and inside PAR1X/PAR2X -/
def xFilterSrc (first : String) (par : Option String) (b : CBin) : Bool :=
  match par with
  | some g => src_sex_chr_x_filter_par (b.chrom == xLabel first)
                (b.chrom == xLabel first && inPar g "PAR1X" "PAR2X" b.s b.e)
  | none => src_sex_chr_x_filter (b.chrom == xLabel first)

/-- `chr_y_filter(diploid_parx_genome)`, with `pary_filter` = on Y and inside PAR1Y/PAR2Y -/
def yFilterSrc (first : String) (par : Option String) (b : CBin) : Bool :=
  match par with
  | some g => src_sex_chr_y_filter_par (b.chrom == yLabel first)
                (b.chrom == yLabel first && inPar g "PAR1Y" "PAR2Y" b.s b.e)
  | none => src_sex_chr_y_filter (b.chrom == yLabel first)

theorem classX_is_source (first : String) (par : Option String) (b : CBin) :
    (classOf first par b.chrom b.s b.e == .x) = xFilterSrc first par b := by
  unfold classOf xFilterSrc src_sex_chr_x_filter_par src_sex_chr_x_filter
  cases par with
  | none =>
    cases hX : (b.chrom == xLabel first) <;> cases hY : (b.chrom == yLabel first) <;>
      simp only [hX, hY, if_true, if_false, Bool.false_eq_true] <;> rfl
  | some g =>
    cases hX : (b.chrom == xLabel first) <;> cases hY : (b.chrom == yLabel first) <;>
      cases hP : inPar g "PAR1X" "PAR2X" b.s b.e <;> cases hQ : inPar g "PAR1Y" "PAR2Y" b.s b.e <;>
      simp only [hX, hY, hP, hQ, if_true, if_false, Bool.false_eq_true] <;> rfl

theorem classY_is_source (first : String) (par : Option String) (b : CBin) :
    (classOf first par b.chrom b.s b.e == .y) = yFilterSrc first par b := by
  unfold classOf yFilterSrc src_sex_chr_y_filter_par src_sex_chr_y_filter
  cases hX : (b.chrom == xLabel first)
  · cases par with
    | none =>
      cases hY : (b.chrom == yLabel first) <;>
        simp only [hY, if_true, if_false, Bool.false_eq_true] <;> rfl
    | some g =>
      cases hY : (b.chrom == yLabel first) <;>
        cases hQ : inPar g "PAR1Y" "PAR2Y" b.s b.e <;>
        simp only [hY, hQ, if_true, if_false, Bool.false_eq_true] <;> rfl
  · have hne : (b.chrom == yLabel first) = false := by
      have h1 : b.chrom = xLabel first := by simpa using hX
      have := xLabel_ne_yLabel_sex first
      rw [h1]; exact this
    cases par with
    | none => simp only [hne, if_true]; rfl
    | some g =>
      cases hP : inPar g "PAR1X" "PAR2X" b.s b.e <;>
        simp only [hne, hP, if_true, if_false, Bool.false_eq_true] <;> rfl

/-- `expect_flat_log2`: the value of one bin -/
theorem expectFlat_is_source (hapX : Bool) (par : Option String) (t : List CBin) :
    expectFlat hapX par t = t.map (fun b =>
      let first := (t.head?.map (·.chrom)).getD ""
      src_expect_flat hapX (xFilterSrc first par b) (yFilterSrc first par b) (yFilterSrc first none b)) := by
  unfold expectFlat
  apply List.map_congr_left
  intro b _
  simp only [← classX_is_source, ← classY_is_source]
  unfold src_expect_flat
  have hy : (classOf ((t.head?.map (·.chrom)).getD "") none b.chrom b.s b.e == CClass.y)
      = (b.chrom == yLabel ((t.head?.map (·.chrom)).getD "")) := by
    rw [classY_is_source]; rfl
  first
  | (rw [hy]; done)
  | (rw [hy]; cases hapX <;> cases (classOf ((t.head?.map (·.chrom)).getD "") par b.chrom b.s b.e == CClass.x) <;>
      cases (classOf ((t.head?.map (·.chrom)).getD "") par b.chrom b.s b.e == CClass.y) <;>
      cases (b.chrom == yLabel ((t.head?.map (·.chrom)).getD "")) <;> simp)

/-- `compare_chrom` -/
theorem compareChromOf_is_source {α : Type} (cta : α → AutoCmp) (shift : α → Rat → α) (vals : α)
    (fs ms : Rat) :
    compareChromOf cta shift vals fs ms =
      src_compare_chrom (fun v => ((cta v).stat, (cta v).diff)) shift vals fs ms := by
  unfold compareChromOf src_compare_chrom compareChrom
  simp only []
  cases (cta (shift vals fs)).stat <;> cases (cta (shift vals ms)).stat <;> rfl

theorem xShifts_is_source (hapX : Bool) : xShifts hapX = src_x_shifts hapX := by
  unfold xShifts src_x_shifts
  cases hapX <;> simp

theorem yShifts_is_source : yShifts = src_y_shifts := by
  unfold yShifts src_y_shifts
  simp

theorem sexScore_is_source (x : Rat) (y : Option Rat) : sexScore x y = src_combined_score x y := by
  unfold sexScore src_combined_score
  cases y <;> first | rfl | simp | ring

theorem isMale_decision_is_source (score : Rat) : decide (score > 1) = true ↔ src_is_male score := by
  unfold src_is_male
  simp

end CnvVerif.Src
