/-
  `join_regions`: the hand-written `joinGo` equals the loop body the translator reads off the current source
  (Generated/ExprsAccess.lean).  Kept apart from the scanner's lemmas (Lemmas/SrcAccess.lean) so that an edit to one
  loop breaks only the obligations about that loop.
-/
import CnvVerif.Generated.ExprsAccess
import CnvVerif.Model.Access
set_option linter.unusedSimpArgs false
namespace CnvVerif.Src
open CnvVerif CnvVerif.Generated

/-! ### `join_regions` -/

/-- a yielded triple of `join_regions` -/
def triple (r : Row) : String × Int × Int := (r.chrom, r.s, r.e)

theorem joinGo_is_source (g : Int) (prev : Row) (l : List Row) (hc : ∀ r ∈ l, r.chrom = prev.chrom) :
    (joinGo g prev l).map triple =
      Py.genLoop (fun st x => src_join_regions_step g prev.chrom st.1 st.2 x.1 x.2)
        (fun st => src_join_regions_final g prev.chrom st.1 st.2) (prev.s, prev.e)
        (l.map (fun r => (r.s, r.e))) := by
  induction l generalizing prev with
  | nil => simp [joinGo, Py.genLoop, src_join_regions_final, triple]
  | cons x xs ih =>
    have hx : x.chrom = prev.chrom := hc x (by simp)
    have hxs : ∀ r ∈ xs, r.chrom = prev.chrom := fun r hr => hc r (by simp [hr])
    simp only [joinGo, List.map_cons, Py.genLoop, src_join_regions_step]
    -- robust against the equivalent spellings of the test (`gap >= min_gap_size` with the branches swapped, ...)
    by_cases hgap : x.s - prev.e < g
    · have h1 : ¬ (x.s - prev.e ≥ g) := by omega
      have h2 : ¬ (g ≤ x.s - prev.e) := by omega
      have h3 : g > x.s - prev.e := by omega
      simp only [hgap, h1, h2, h3, not_true, not_false_eq_true, if_true, if_false, List.nil_append]
      exact ih { prev with e := x.e } hxs
    · have h1 : x.s - prev.e ≥ g := by omega
      have h2 : g ≤ x.s - prev.e := by omega
      have h3 : ¬ (g > x.s - prev.e) := by omega
      simp only [hgap, h1, h2, h3, not_true, not_false_eq_true, if_true, if_false, List.map_cons,
        List.cons_append, List.nil_append]
      have := ih x (fun r hr => by rw [hxs r hr, hx])
      rw [hx] at this
      rw [this]
      rfl

theorem min_gap_is_source (m : Option Int) : m.getD 0 = src_join_regions_min_gap m := by
  unfold src_join_regions_min_gap Py.orInt
  cases m with
  | none => rfl
  | some v =>
    by_cases h : v = 0
    · simp [h]
    · simp [h]


end CnvVerif.Src
