/-
  C08 (table formats), second batch: column typing, BED files read with the generic reader,
  interval-list and tab-separated round trips.
-/
import CnvVerif.Lemmas.Formats
namespace CnvVerif.Fmt
open CnvVerif CnvVerif.Generated

/-! ## column typing -/

/-- a label pandas keeps as a plain string when it infers a column's dtype -/
def PlainLabel (g : String) : Prop :=
  isIntLit g.toList = false ∧ parseDec g.toList = none ∧ isNA g = false

theorem typeColumn_plain (vals : List String) (h : ∀ v ∈ vals, PlainLabel v) :
    typeColumn vals = vals.map Cell.str := by
  cases vals with
  | nil => rfl
  | cons a t =>
    have ha := h a (by simp)
    have h1 : (a :: t).all (fun v => isIntLit v.toList) = false := by
      rw [List.all_cons, ha.1, Bool.false_and]
    have h2 : (a :: t).all (fun v => isNA v || (parseDec v.toList).isSome) = false := by
      rw [List.all_cons, ha.2.1, ha.2.2]; rfl
    unfold typeColumn
    rw [h1, h2]
    simp only [Bool.false_eq_true, ↓reduceIte]
    apply List.map_congr_left
    intro v hv
    rw [(h v hv).2.2]
    rfl

theorem typeColumn_ints (is : List Int) : typeColumn (is.map toString) = is.map Cell.int := by
  have h1 : (is.map toString).all (fun v => isIntLit v.toList) = true := by
    rw [List.all_eq_true]
    intro v hv
    obtain ⟨i, _, rfl⟩ := List.mem_map.mp hv
    exact isIntLit_toString i
  unfold typeColumn
  rw [h1]
  simp only [↓reduceIte, List.map_map]
  apply List.map_congr_left
  intro i _
  simp only [Function.comp_def, parseInt_toString]

/-! ## the sort looks at coordinates only -/

/-- sorting commutes with dropping the payload columns (the order looks at coordinates only) -/
theorem sortF_map_coords (rows : List FRow) :
    (sortF rows).map coordsOnly = sortF (rows.map coordsOnly) := by
  unfold sortF
  exact List.map_mergeSort (fun _ _ _ _ => rfl)

/-- sorting commutes with any map that keeps the coordinates -/
theorem sortF_map_of_coords (f : FRow → FRow) (hf : ∀ r, (f r).toRow = r.toRow) (rows : List FRow) :
    (sortF rows).map f = sortF (rows.map f) := by
  unfold sortF
  exact List.map_mergeSort (fun a _ b _ => by rw [hf a, hf b])

/-! ## `sort_columns` on a table whose columns are already in order -/

theorem idxOf_map_nodup (names : List String) (h : names.Nodup) :
    names.map (fun n => names.idxOf n) = List.range names.length := by
  apply List.ext_getElem
  · simp
  · intro i h1 h2
    rw [List.getElem_map, List.getElem_range]
    exact h.idxOf_getElem i (by simpa using h1)

theorem range_map_getD {α} (cols : List α) (d : α) (n : Nat) (h : cols.length = n) :
    (List.range n).map (fun j => cols.getD j d) = cols := by
  subst h
  apply List.ext_getElem
  · simp
  · intro i h1 h2
    rw [List.getElem_map, List.getElem_range, List.getD_eq_getElem?_getD, List.getElem?_eq_getElem h2]
    rfl

theorem sortColumns_nil_id (t : FTab) (hnd : t.names.Nodup) (hs : sortNames t.names = t.names)
    (hrect : ∀ r ∈ t.rows, r.cols.length = t.names.length) :
    sortColumns [] t = .ok t := by
  have hfilt : t.names.filter (fun n => !([] : List String).contains n) = t.names := by
    rw [List.filter_eq_self]; intro a _; rfl
  unfold sortColumns
  simp only [List.all_nil, Bool.not_true, Bool.false_eq_true, ↓reduceIte, hfilt, hs, List.nil_append]
  rw [idxOf_map_nodup _ hnd]
  have hmap : t.rows.map (fun r => ({ r with cols := (List.range t.names.length).map (fun j => r.cols.getD j .na) } : FRow))
      = t.rows := by
    conv => rhs; rw [← List.map_id t.rows]
    apply List.map_congr_left
    intro r hr
    rw [range_map_getD _ _ _ (hrect r hr)]
    rfl
  rw [hmap]

theorem finish_ga_id (t : FTab) (hnd : t.names.Nodup) (hs : sortNames t.names = t.names)
    (hrect : ∀ r ∈ t.rows, r.cols.length = t.names.length) :
    finish false t = .ok { names := t.names, rows := sortF t.rows } := by
  unfold finish
  simp only [Bool.false_eq_true, ↓reduceIte, sortColumns_nil_id t hnd hs hrect, bind, Except.bind, pure,
    Except.pure]

/-! ## BED3 / BED4 files read with the generic `bed` reader -/

theorem geneStrand_nodup : (["gene", "strand"] : List String).Nodup := by decide
theorem geneStrand_sorted : sortNames ["gene", "strand"] = ["gene", "strand"] := by decide

/-- BED3 / BED4 files read with the generic `bed` reader (what auto-detection picks): same regions -/
theorem bed3_read_as_bed (t : FTab) (hn : ∀ r ∈ t.rows, NoTrackName r.chrom) (sel : SampleSel) :
    readFmt "bed" false sel (renderLines (writeBed3 t)) =
      .ok { names := ["gene", "strand"],
            rows := sortF (t.rows.map fun r => ⟨r.chrom, r.s, r.e, [.str "-", .str "."]⟩) } := by
  have hshift : ∀ s : Int, s + WRITE_SHIFT_bed3 + READ_SHIFT_bed = s := by
    intro s; simp only [WRITE_SHIFT_bed3, READ_SHIFT_bed]; omega
  have htt : track2track (renderLines (writeBed3 t)) = renderLines (writeBed3 t) := by
    apply track2track_id
    rw [renderLines_writeBed3]
    intro l hl
    obtain ⟨r, hr, rfl⟩ := List.mem_map.mp hl
    exact hn r hr
  have hparse : (renderLines (writeBed3 t)).mapM parseBedLine =
      .ok (t.rows.map (fun r => (⟨r.chrom, r.s, r.e, [.str "-", .str "."]⟩ : FRow))) := by
    rw [renderLines_writeBed3]
    apply mapM_map_ok
    intro r _
    rw [parseBedLine_three, hshift]
  have hfin := finish_ga_id
    { names := ["gene", "strand"],
      rows := t.rows.map fun r => (⟨r.chrom, r.s, r.e, [.str "-", .str "."]⟩ : FRow) }
    geneStrand_nodup geneStrand_sorted (by
      intro r hr; obtain ⟨x, _, rfl⟩ := List.mem_map.mp hr; rfl)
  simp only [readFmt, readBed, htt, hparse, bind, Except.bind, pure, Except.pure]
  simp only [List.map_map, Function.comp_def]
  exact hfin

theorem bed4_read_as_bed (t : FTab) (hn : ∀ r ∈ t.rows, NoTrackName r.chrom) (hg : WFGene t)
    (sel : SampleSel) :
    readFmt "bed" false sel (renderLines (writeBed4 t)) =
      .ok { names := ["gene", "strand"],
            rows := sortF (t.rows.map fun r => ⟨r.chrom, r.s, r.e, [.str (geneStr t r), .str "."]⟩) } := by
  have hshift : ∀ s : Int, s + WRITE_SHIFT_bed4 + READ_SHIFT_bed = s := by
    intro s; simp only [WRITE_SHIFT_bed4, READ_SHIFT_bed]; omega
  have htt : track2track (renderLines (writeBed4 t)) = renderLines (writeBed4 t) := by
    apply track2track_id
    rw [renderLines_writeBed4 t hg]
    intro l hl
    obtain ⟨r, hr, rfl⟩ := List.mem_map.mp hl
    exact hn r hr
  have hparse : (renderLines (writeBed4 t)).mapM parseBedLine =
      .ok (t.rows.map (fun r => (⟨r.chrom, r.s, r.e, [.str (geneStr t r), .str "."]⟩ : FRow))) := by
    rw [renderLines_writeBed4 t hg]
    apply mapM_map_ok
    intro r hr
    obtain ⟨g, hg1, hg2⟩ := hg r hr
    rw [parseBedLine_four, hshift, geneStr_of hg1, hg2]
  have hfin := finish_ga_id
    { names := ["gene", "strand"],
      rows := t.rows.map fun r => (⟨r.chrom, r.s, r.e, [.str (geneStr t r), .str "."]⟩ : FRow) }
    geneStrand_nodup geneStrand_sorted (by
      intro r hr; obtain ⟨x, _, rfl⟩ := List.mem_map.mp hr; rfl)
  simp only [readFmt, readBed, htt, hparse, bind, Except.bind, pure, Except.pure]
  simp only [List.map_map, Function.comp_def]
  exact hfin

/-! ## interval lists -/

theorem sw_at_false (c : String) (h : c.toList.contains '@' = false) : sw "@" c = false := by
  unfold sw
  have h1 : "@".toList = ['@'] := by decide
  rw [h1]
  cases hc : c.toList with
  | nil => rfl
  | cons x xs =>
    rw [hc] at h
    simp only [List.contains_cons, Bool.or_eq_false_iff] at h
    simp only [List.isPrefixOf]
    have : (('@' : Char) == x) = false := by
      have := h.1
      cases hx : ('@' == x) with
      | false => rfl
      | true =>
        have := beq_iff_eq.mp hx
        subst this
        simp at h
    rw [this]; rfl

theorem digit_ne_at {c : Char} (h : c.isDigit = true) : c ≠ '@' := by
  rintro rfl; exact absurd h (by decide)

theorem toString_no_at (i : Int) : (toString i).toList.contains '@' = false := by
  cases hc : (toString i).toList.contains '@' with
  | false => rfl
  | true =>
    exfalso
    have hm : '@' ∈ (toString i).toList := List.contains_iff_mem.mp hc
    by_cases h : 0 ≤ i
    · rw [toString_toList_nonneg i h] at hm
      exact digit_ne_at (toDigits_digits _ _ hm) rfl
    · rw [toString_toList_neg i (by omega)] at hm
      rcases List.mem_cons.mp hm with h1 | h1
      · exact absurd h1 (by decide)
      · exact digit_ne_at (toDigits_digits _ _ h1) rfl

theorem NA_not_digits : NA_STRINGS.all (fun m => !isDigits m) = true := by decide

theorem isNA_of_isDigits (v : String) (h : isDigits v = true) : isNA v = false := by
  cases hc : isNA v with
  | false => rfl
  | true =>
    exfalso
    have hm : v ∈ NA_STRINGS := List.contains_iff_mem.mp hc
    have := List.all_eq_true.mp NA_not_digits v hm
    rw [h] at this
    exact absurd this (by decide)

theorem toString_natCast (n : Nat) : toString ((n : Nat) : Int) = toString n := by
  rw [Int.toString_eq_repr, Int.repr_eq_if]
  simp

theorem isDigits_toString_nat (n : Nat) : isDigits (toString n) = true := by
  rw [← toString_natCast]
  obtain ⟨h1, h2⟩ := toString_digits (n : Int) (by omega)
  unfold isDigits
  simp only [Bool.and_eq_true, Bool.not_eq_true', List.isEmpty_eq_false_iff, List.all_eq_true]
  exact ⟨h1, h2⟩

/-- a chromosome name that survives pandas' dtype inference followed by `astype(str)` -/
def ChromName (c : String) : Prop := (∃ n : Nat, c = toString n) ∨ PlainLabel c

theorem isIntLit_toString_nat (n : Nat) : isIntLit (toString n).toList = true := by
  rw [← toString_natCast]; exact isIntLit_toString _

theorem chromName_notNA (c : String) (h : ChromName c) : isNA c = false := by
  rcases h with ⟨n, rfl⟩ | h
  · exact isNA_of_isDigits _ (isDigits_toString_nat n)
  · exact h.2.2

theorem chromColumn_ok (cs : List String) (h : ∀ c ∈ cs, ChromName c) : chromColumn cs = .ok cs := by
  unfold chromColumn
  by_cases hall : cs.all (fun c => isIntLit c.toList) = true
  · rw [if_pos hall]
    congr 1
    conv => rhs; rw [← List.map_id cs]
    apply List.map_congr_left
    intro c hc
    rcases h c hc with ⟨n, rfl⟩ | hp
    · rw [← toString_natCast, parseInt_toString]; rfl
    · have := List.all_eq_true.mp hall c hc
      rw [hp.1] at this
      exact absurd this (by decide)
  · rw [if_neg hall]
    have hna : cs.any isNA = false := by
      rw [List.any_eq_false]
      intro c hc
      rw [chromName_notNA c (h c hc)]; decide
    rw [hna]
    have hdec : cs.all (fun c => (parseDec c.toList).isSome) = false := by
      cases hd : cs.all (fun c => (parseDec c.toList).isSome) with
      | false => rfl
      | true =>
        exfalso
        apply hall
        rw [List.all_eq_true]
        intro c hc
        rcases h c hc with ⟨n, rfl⟩ | hp
        · exact isIntLit_toString_nat n
        · have := List.all_eq_true.mp hd c hc
          rw [hp.2.1] at this
          exact absurd this (by decide)
    rw [hdec]
    rfl

theorem mkRows_map {α} (rows : List α) (c : α → String) (s e : α → Int) (fs : List (α → Cell)) :
    mkRows (rows.map c) (rows.map s) (rows.map e) (fs.map fun f => rows.map f) =
      rows.map fun r => ⟨c r, s r, e r, fs.map (· r)⟩ := by
  induction rows with
  | nil =>
    cases fs <;> rfl
  | cons a t ih =>
    simp only [List.map_cons, mkRows, List.headD_cons, List.tail_cons, List.map_map, Function.comp_def]
    rw [ih]

theorem finish_strand_gene (rows : List FRow) :
    finish false { names := ["strand", "gene"], rows := rows } =
      .ok { names := ["gene", "strand"],
            rows := sortF (rows.map fun r => { r with cols := [r.cols.getD 1 .na, r.cols.getD 0 .na] }) } := by
  have h1 : sortNames ((["strand", "gene"] : List String).filter (fun n => !([] : List String).contains n))
      = ["gene", "strand"] := by decide
  have h2 : (["gene", "strand"] : List String).map (fun n => (["strand", "gene"] : List String).idxOf n) = [1, 0] := by
    decide
  unfold finish sortColumns
  simp only [Bool.false_eq_true, ↓reduceIte, List.all_nil, Bool.not_true, h1, List.nil_append, h2, List.map_cons,
    List.map_nil, bind, Except.bind, pure, Except.pure]

theorem readInterval_lines {α} (rows : List α) (c : α → String) (s e : α → Int) (st g : α → String)
    (hc : ∀ r ∈ rows, ChromName (c r) ∧ (c r).toList.contains '@' = false)
    (hst : ∀ r ∈ rows, PlainLabel (st r) ∧ (st r).toList.contains '@' = false)
    (hg : ∀ r ∈ rows, PlainLabel (g r) ∧ (g r).toList.contains '@' = false) :
    readInterval (rows.map fun r => [c r, toString (s r), toString (e r), st r, g r]) =
      .ok { names := ["strand", "gene"],
            rows := rows.map fun r => ⟨c r, s r + READ_SHIFT_interval, e r, [.str (st r), .str (g r)]⟩ } := by
  cases hrows : rows with
  | nil => rfl
  | cons r0 rest =>
    rw [← hrows]
    generalize hL : (rows.map fun r => [c r, toString (s r), toString (e r), st r, g r]) = L
    have hmem : ∀ l ∈ L, ∃ r ∈ rows, l = [c r, toString (s r), toString (e r), st r, g r] := by
      intro l hl
      rw [← hL] at hl
      obtain ⟨r, hr, rfl⟩ := List.mem_map.mp hl
      exact ⟨r, hr, rfl⟩
    have hdb : dropBlank L = L := by
      unfold dropBlank
      rw [List.filter_eq_self]
      intro l hl
      obtain ⟨r, _, rfl⟩ := hmem l hl
      simp
    have hat : L.filter (fun l => !sw "@" (l.headD "")) = L := by
      rw [List.filter_eq_self]
      intro l hl
      obtain ⟨r, hr, rfl⟩ := hmem l hl
      rw [List.headD_cons, sw_at_false _ (hc r hr).2]
      rfl
    have hany1 : L.any (fun l => l.any (fun f => f.toList.contains '@')) = false := by
      rw [List.any_eq_false]
      intro l hl
      obtain ⟨r, hr, rfl⟩ := hmem l hl
      simp only [List.any_cons, List.any_nil, (hc r hr).2, (hst r hr).2, (hg r hr).2, toString_no_at,
        Bool.or_self, Bool.false_eq_true, not_false_eq_true]
    have hany2 : L.any (fun l => l.length != 5) = false := by
      rw [List.any_eq_false]
      intro l hl
      obtain ⟨r, hr, rfl⟩ := hmem l hl
      simp
    have hne : L.isEmpty = false := by
      rw [← hL, hrows]; rfl
    have hc0 : column 0 L = rows.map c := by
      rw [← hL]; unfold column; rw [List.map_map]; rfl
    have hc1 : column 1 L = rows.map (fun r => toString (s r)) := by
      rw [← hL]; unfold column; rw [List.map_map]; rfl
    have hc2 : column 2 L = rows.map (fun r => toString (e r)) := by
      rw [← hL]; unfold column; rw [List.map_map]; rfl
    have hc3 : column 3 L = rows.map st := by
      rw [← hL]; unfold column; rw [List.map_map]; rfl
    have hc4 : column 4 L = rows.map g := by
      rw [← hL]; unfold column; rw [List.map_map]; rfl
    have hcc : chromColumn (rows.map c) = .ok (rows.map c) := by
      apply chromColumn_ok
      intro x hx
      obtain ⟨r, hr, rfl⟩ := List.mem_map.mp hx
      exact (hc r hr).1
    have hss : intColumn "start" (rows.map (fun r => toString (s r))) = .ok (rows.map s) := by
      unfold intColumn
      apply mapM_map_ok
      intro r _
      rw [parseInt_toString]
    have hes : intColumn "end" (rows.map (fun r => toString (e r))) = .ok (rows.map e) := by
      unfold intColumn
      apply mapM_map_ok
      intro r _
      rw [parseInt_toString]
    have hts : typeColumn (rows.map st) = rows.map (fun r => Cell.str (st r)) := by
      rw [typeColumn_plain, List.map_map]; rfl
      intro x hx
      obtain ⟨r, hr, rfl⟩ := List.mem_map.mp hx
      exact (hst r hr).1
    have htg : typeColumn (rows.map g) = rows.map (fun r => Cell.str (g r)) := by
      rw [typeColumn_plain, List.map_map]; rfl
      intro x hx
      obtain ⟨r, hr, rfl⟩ := List.mem_map.mp hx
      exact (hg r hr).1
    have hmk := mkRows_map rows c (fun r => s r + READ_SHIFT_interval) e
      [fun r => Cell.str (st r), fun r => Cell.str (g r)]
    unfold readInterval
    simp only [hdb, hat, hany1, hany2, hne, hc0, hc1, hc2, hc3, hc4, hcc, hss, hes, hts, htg, bind, Except.bind,
      pure, Except.pure, Bool.false_eq_true, ↓reduceIte, List.map_map, Function.comp_def]
    simp only [List.map_cons, List.map_nil] at hmk
    rw [hmk]

def strandStr (t : FTab) (r : FRow) : String :=
  match (colCell t "strand" r).getD (.str "+") with
  | .str g => g
  | _ => ""

theorem strandStr_of {t : FTab} {r : FRow} {g : String}
    (h : (colCell t "strand" r).getD (.str "+") = .str g) : strandStr t r = g := by
  simp [strandStr, h]

def WFInterval (t : FTab) : Prop :=
  (∀ r ∈ t.rows, ChromName r.chrom ∧ r.chrom.toList.contains '@' = false) ∧
  (∀ r ∈ t.rows, ∃ g, (colCell t "gene" r).getD (.str "-") = .str g ∧ PlainLabel g ∧ g.toList.contains '@' = false) ∧
  (∀ r ∈ t.rows, ∃ g, (colCell t "strand" r).getD (.str "+") = .str g ∧ PlainLabel g ∧ g.toList.contains '@' = false)

theorem renderLines_writeInterval (t : FTab) (h : WFInterval t) :
    renderLines (writeInterval t) =
      t.rows.map (fun r => [r.chrom, toString (r.s + WRITE_SHIFT_interval), toString r.e,
        strandStr t r, geneStr t r]) := by
  simp only [renderLines, writeInterval, List.map_map]
  apply List.map_congr_left
  intro r hr
  obtain ⟨g, hg, _⟩ := h.2.1 r hr
  obtain ⟨st, hst, _⟩ := h.2.2 r hr
  simp [renderCellD, renderCell, cellOut, hg, hst, geneStr_of hg, strandStr_of hst]

/-- interval list: `write_interval` (start + 1) then `read_interval` (start - 1) returns the same regions, gene and strand -/
theorem interval_roundtrip (t : FTab) (h : WFInterval t) (sel : SampleSel) :
    readFmt "interval" false sel (renderLines (writeInterval t)) =
      .ok { names := ["gene", "strand"],
            rows := sortF (t.rows.map fun r => ⟨r.chrom, r.s, r.e, [.str (geneStr t r), .str (strandStr t r)]⟩) } := by
  have hshift : ∀ s : Int, s + WRITE_SHIFT_interval + READ_SHIFT_interval = s := by
    intro s; simp only [WRITE_SHIFT_interval, READ_SHIFT_interval]; omega
  have hread := readInterval_lines t.rows (fun r => r.chrom) (fun r => r.s + WRITE_SHIFT_interval) (fun r => r.e)
    (strandStr t) (geneStr t) h.1
    (by
      intro r hr
      obtain ⟨st, hst, h1, h2⟩ := h.2.2 r hr
      rw [strandStr_of hst]; exact ⟨h1, h2⟩)
    (by
      intro r hr
      obtain ⟨g, hg, h1, h2⟩ := h.2.1 r hr
      rw [geneStr_of hg]; exact ⟨h1, h2⟩)
  simp only [hshift] at hread
  simp only [readFmt, renderLines_writeInterval t h, hread, bind, Except.bind]
  rw [finish_strand_gene]
  simp only [List.map_map, Function.comp_def, List.getD_cons_zero, List.getD_cons_succ]

/-! ## tab-separated tables -/

theorem getD_three {α} (a b c : α) (l : List α) (k : Nat) (d : α) :
    (a :: b :: c :: l).getD (3 + k) d = l.getD k d := by
  rw [Nat.add_comm]; rfl

def cellInt : Cell → Int
  | .int i => i
  | _ => 0
def cellStr : Cell → String
  | .str g => g
  | _ => ""

/-- the line `write_tab` prints for a row -/
def tabLine (r : FRow) : Line :=
  r.chrom :: toString (r.s + WRITE_SHIFT_tab) :: toString r.e :: r.cols.map (fun c => renderCellD (cellOut c))

theorem renderLines_writeTab (t : FTab) :
    renderLines (writeTab t) = ("chromosome" :: "start" :: "end" :: t.names) :: t.rows.map tabLine := by
  simp [renderLines, writeTab, renderCellD, renderCell, tabLine, Function.comp_def]

/-- one extra column of a written table is typed back to the cells it was written from -/
theorem typeColumn_tab (rows : List FRow) (k : Nat)
    (hcol : (∀ r ∈ rows, ∃ i, r.cols[k]? = some (Cell.int i)) ∨
      (∀ r ∈ rows, ∃ g, r.cols[k]? = some (Cell.str g) ∧ PlainLabel g)) :
    typeColumn (column (3 + k) (rows.map tabLine)) = rows.map (fun r => r.cols.getD k .na) := by
  unfold column
  rw [List.map_map]
  rcases hcol with hint | hstr
  · have h1 : rows.map ((fun l : Line => l.getD (3 + k) "") ∘ tabLine) =
        (rows.map (fun r => cellInt (r.cols.getD k .na))).map toString := by
      rw [List.map_map]
      apply List.map_congr_left
      intro r hr
      obtain ⟨i, hi⟩ := hint r hr
      simp only [Function.comp_def, tabLine, getD_three]
      simp only [List.getD_eq_getElem?_getD, List.getElem?_map, hi]
      rfl
    rw [h1, typeColumn_ints, List.map_map]
    apply List.map_congr_left
    intro r hr
    obtain ⟨i, hi⟩ := hint r hr
    simp only [Function.comp_def, List.getD_eq_getElem?_getD, hi]
    rfl
  · have h1 : rows.map ((fun l : Line => l.getD (3 + k) "") ∘ tabLine) =
        rows.map (fun r => cellStr (r.cols.getD k .na)) := by
      apply List.map_congr_left
      intro r hr
      obtain ⟨g, hg, _⟩ := hstr r hr
      simp only [Function.comp_def, tabLine, getD_three]
      simp only [List.getD_eq_getElem?_getD, List.getElem?_map, hg]
      rfl
    rw [h1, typeColumn_plain, List.map_map]
    · apply List.map_congr_left
      intro r hr
      obtain ⟨g, hg, _⟩ := hstr r hr
      simp only [Function.comp_def, List.getD_eq_getElem?_getD, hg]
      rfl
    · intro v hv
      obtain ⟨r, hr, rfl⟩ := List.mem_map.mp hv
      obtain ⟨g, hg, hp⟩ := hstr r hr
      simp only [List.getD_eq_getElem?_getD, hg]
      exact hp

/-- a column of string cells read as text (`converters={"gene": str}`): any strings come back -/
theorem strColumn_tab (rows : List FRow) (k : Nat)
    (hstr : ∀ r ∈ rows, ∃ g, r.cols[k]? = some (Cell.str g)) :
    strColumn (column (3 + k) (rows.map tabLine)) = rows.map (fun r => r.cols.getD k .na) := by
  unfold strColumn column
  rw [List.map_map, List.map_map]
  apply List.map_congr_left
  intro r hr
  obtain ⟨g, hg⟩ := hstr r hr
  simp only [Function.comp_def, tabLine, getD_three]
  simp only [List.getD_eq_getElem?_getD, List.getElem?_map, hg]
  rfl

theorem readTab_lines (names : List String) (rows : List FRow)
    (hnames : ∀ n ∈ names, n ≠ "chromosome" ∧ n ≠ "start" ∧ n ≠ "end")
    (hrows : ∀ r ∈ rows, isNA r.chrom = false ∧ r.cols.length = names.length)
    (hcols : ∀ j, j < names.length →
      (names[j]? ≠ some "gene" ∧ ∀ r ∈ rows, ∃ i, r.cols[j]? = some (Cell.int i)) ∨
      (∀ r ∈ rows, ∃ g, r.cols[j]? = some (Cell.str g) ∧ (PlainLabel g ∨ names[j]? = some "gene"))) :
    readTab (("chromosome" :: "start" :: "end" :: names) :: rows.map tabLine) =
      .ok { names := names,
            rows := rows.map fun r => ⟨r.chrom, r.s + WRITE_SHIFT_tab + READ_SHIFT_tab, r.e, r.cols⟩ } := by
  generalize hhdr : ("chromosome" :: "start" :: "end" :: names) = hdr
  generalize hbody : rows.map tabLine = body
  have hlen : hdr.length = 3 + names.length := by rw [← hhdr]; simp; omega
  have hdb : dropBlank (hdr :: body) = hdr :: body := by
    unfold dropBlank
    rw [List.filter_eq_self]
    intro l hl
    rcases List.mem_cons.mp hl with rfl | hl
    · rw [← hhdr]; simp
    · rw [← hbody] at hl
      obtain ⟨r, _, rfl⟩ := List.mem_map.mp hl
      simp [tabLine]
  have hreq : (["chromosome", "start", "end"].all hdr.contains) = true := by
    rw [← hhdr]; simp
  have hrag : body.any (fun l => l.length != hdr.length) = false := by
    rw [List.any_eq_false]
    intro l hl
    rw [← hbody] at hl
    obtain ⟨r, hr, rfl⟩ := List.mem_map.mp hl
    rw [hlen]
    simp [tabLine, (hrows r hr).2]; omega
  have hi0 : hdr.idxOf "chromosome" = 0 := by rw [← hhdr]; simp
  have hi1 : hdr.idxOf "start" = 1 := by rw [← hhdr]; simp [List.idxOf_cons]
  have hi2 : hdr.idxOf "end" = 2 := by rw [← hhdr]; simp [List.idxOf_cons]
  have hc0 : column 0 body = rows.map (fun r => r.chrom) := by
    rw [← hbody]; unfold column; rw [List.map_map]; rfl
  have hc1 : column 1 body = rows.map (fun r => toString (r.s + WRITE_SHIFT_tab)) := by
    rw [← hbody]; unfold column; rw [List.map_map]; rfl
  have hc2 : column 2 body = rows.map (fun r => toString r.e) := by
    rw [← hbody]; unfold column; rw [List.map_map]; rfl
  have hna : (rows.map (fun r => r.chrom)).any isNA = false := by
    rw [List.any_eq_false]
    intro c hc
    obtain ⟨r, hr, rfl⟩ := List.mem_map.mp hc
    rw [(hrows r hr).1]; decide
  have hss : intColumn "start" (rows.map (fun r => toString (r.s + WRITE_SHIFT_tab))) =
      .ok (rows.map (fun r => r.s + WRITE_SHIFT_tab)) := by
    unfold intColumn
    apply mapM_map_ok
    intro r _
    rw [parseInt_toString]
  have hes : intColumn "end" (rows.map (fun r => toString r.e)) = .ok (rows.map (fun r => r.e)) := by
    unfold intColumn
    apply mapM_map_ok
    intro r _
    rw [parseInt_toString]
  have hidx : (List.range hdr.length).filter
      (fun j => !["chromosome", "start", "end"].contains (hdr.getD j "")) =
      (List.range names.length).map (3 + ·) := by
    rw [hlen, List.range_add, List.filter_append]
    have h3 : List.range 3 = [0, 1, 2] := by decide
    have hA : (List.range 3).filter (fun j => !["chromosome", "start", "end"].contains (hdr.getD j "")) = [] := by
      rw [h3, ← hhdr]; simp
    have hB : ((List.range names.length).map (3 + ·)).filter
        (fun j => !["chromosome", "start", "end"].contains (hdr.getD j "")) =
        (List.range names.length).map (3 + ·) := by
      rw [List.filter_eq_self]
      intro j hj
      obtain ⟨k, hk, rfl⟩ := List.mem_map.mp hj
      have hk' : k < names.length := List.mem_range.mp hk
      rw [← hhdr, getD_three, List.getD_eq_getElem?_getD, List.getElem?_eq_getElem hk']
      have hm := hnames names[k] (List.getElem_mem hk')
      simp [hm.1, hm.2.1, hm.2.2]
    rw [hA, hB, List.nil_append]
  have hnm : ((List.range names.length).map (3 + ·)).map (fun j => hdr.getD j "") = names := by
    rw [List.map_map, ← hhdr]
    simp only [Function.comp_def, getD_three]
    exact range_map_getD names "" _ rfl
  have hextra : ((List.range names.length).map (3 + ·)).map (fun j =>
        if (TAB_GENE_AS_TEXT && hdr.getD j "" == "gene") = true then strColumn (column j body)
        else typeColumn (column j body)) =
      ((List.range names.length).map (fun k => fun r : FRow => r.cols.getD k .na)).map (fun f => rows.map f) := by
    rw [List.map_map, List.map_map]
    apply List.map_congr_left
    intro k hk
    have hk' : k < names.length := List.mem_range.mp hk
    have hget : hdr.getD (3 + k) "" = names[k] := by
      rw [← hhdr, getD_three, List.getD_eq_getElem?_getD, List.getElem?_eq_getElem hk']; rfl
    have hsome : names[k]? = some names[k] := List.getElem?_eq_getElem hk'
    simp only [Function.comp_def]
    rw [← hbody, hget]
    by_cases hgene : names[k] = "gene"
    · -- the gene column is read as text
      have hcond : (TAB_GENE_AS_TEXT && names[k] == "gene") = true := by
        simp only [TAB_GENE_AS_TEXT, hgene]; decide
      rw [if_pos hcond]
      apply strColumn_tab
      rcases hcols k hk' with ⟨hng, _⟩ | hstr
      · exact absurd (by rw [hsome, hgene]) hng
      · intro r hr
        obtain ⟨g, hg, _⟩ := hstr r hr
        exact ⟨g, hg⟩
    · have hcond : ¬ (TAB_GENE_AS_TEXT && names[k] == "gene") = true := by
        simp only [TAB_GENE_AS_TEXT, Bool.true_and, beq_iff_eq]; exact hgene
      rw [if_neg hcond]
      apply typeColumn_tab
      rcases hcols k hk' with ⟨_, hint⟩ | hstr
      · exact Or.inl hint
      · right
        intro r hr
        obtain ⟨g, hg, hp⟩ := hstr r hr
        rcases hp with hp | hp
        · exact ⟨g, hg, hp⟩
        · rw [hsome] at hp
          exact absurd (Option.some.inj hp) hgene
  have hmk := mkRows_map rows (fun r => r.chrom) (fun r => r.s + WRITE_SHIFT_tab + READ_SHIFT_tab) (fun r => r.e)
    ((List.range names.length).map (fun k => fun r : FRow => r.cols.getD k .na))
  have hrowsEq : (rows.map fun r => (⟨r.chrom, r.s + WRITE_SHIFT_tab + READ_SHIFT_tab, r.e,
      ((List.range names.length).map (fun k => fun r : FRow => r.cols.getD k .na)).map (· r)⟩ : FRow)) =
      rows.map fun r => ⟨r.chrom, r.s + WRITE_SHIFT_tab + READ_SHIFT_tab, r.e, r.cols⟩ := by
    apply List.map_congr_left
    intro r hr
    rw [List.map_map]
    simp only [Function.comp_def]
    rw [range_map_getD _ _ _ (hrows r hr).2]
  rw [hrowsEq] at hmk
  have hfilt : (rows.map fun r => (⟨r.chrom, r.s + WRITE_SHIFT_tab + READ_SHIFT_tab, r.e, r.cols⟩ : FRow)).filter
      (fun r => r.cols.getD (names.idxOf "log2") .na != .na) =
      (rows.map fun r => (⟨r.chrom, r.s + WRITE_SHIFT_tab + READ_SHIFT_tab, r.e, r.cols⟩ : FRow)) ∨
      names.contains "log2" = false := by
    cases hct : names.contains "log2" with
    | false => right; rfl
    | true =>
      left
      have hli : names.idxOf "log2" < names.length :=
        List.idxOf_lt_length_of_mem (List.contains_iff_mem.mp hct)
      rw [List.filter_eq_self]
      intro x hx
      obtain ⟨r, hr, rfl⟩ := List.mem_map.mp hx
      rcases hcols _ hli with ⟨_, h1⟩ | h1
      · obtain ⟨i, hi⟩ := h1 r hr
        simp only [List.getD_eq_getElem?_getD, hi]; rfl
      · obtain ⟨g, hg, _⟩ := h1 r hr
        simp only [List.getD_eq_getElem?_getD, hg]; rfl
  unfold readTab
  simp only [hdb, hreq, hrag, hi0, hi1, hi2, hc0, hc1, hc2, hna, hss, hes, hidx, hnm, hextra, bind, Except.bind,
    pure, Except.pure, Bool.false_eq_true, ↓reduceIte, Bool.not_true, List.map_map, Function.comp_def]
  simp only [List.map_map, Function.comp_def] at hmk
  rw [hmk]
  rcases hfilt with h1 | h1
  · rw [h1, ite_self]
  · rw [h1]; rfl

/-- tab-separated CNVkit tables whose extra columns hold integers or plain strings; the column
    named "gene" is read as text (`TAB_GENE_AS_TEXT`), so it may hold ANY strings, and it must not be
    an integer column (it would come back as strings) -/
def WFTab (t : FTab) : Prop :=
  t.names.Nodup ∧ sortNames t.names = t.names ∧
  (∀ n ∈ t.names, n ≠ "chromosome" ∧ n ≠ "start" ∧ n ≠ "end") ∧
  (∀ r ∈ t.rows, isNA r.chrom = false ∧ r.cols.length = t.names.length) ∧
  (∀ j, j < t.names.length →
      (t.names[j]? ≠ some "gene" ∧ ∀ r ∈ t.rows, ∃ i, r.cols[j]? = some (Cell.int i)) ∨
      (∀ r ∈ t.rows, ∃ g, r.cols[j]? = some (Cell.str g) ∧ (PlainLabel g ∨ t.names[j]? = some "gene")))

/-- tab: writing then reading returns the identical table (coordinates, names, integer columns), sorted -/
theorem tab_roundtrip (t : FTab) (h : WFTab t) (sel : SampleSel) :
    readFmt "tab" false sel (renderLines (writeTab t)) = .ok { names := t.names, rows := sortF t.rows } := by
  obtain ⟨hnd, hs, hnames, hrows, hcols⟩ := h
  have hshift : ∀ s : Int, s + WRITE_SHIFT_tab + READ_SHIFT_tab = s := by
    intro s; simp only [WRITE_SHIFT_tab, READ_SHIFT_tab]; omega
  have hread := readTab_lines t.names t.rows hnames hrows hcols
  have hid : (t.rows.map fun r => (⟨r.chrom, r.s + WRITE_SHIFT_tab + READ_SHIFT_tab, r.e, r.cols⟩ : FRow)) = t.rows := by
    conv => rhs; rw [← List.map_id t.rows]
    apply List.map_congr_left
    intro r _
    rw [hshift]; rfl
  rw [hid] at hread
  simp only [readFmt, renderLines_writeTab, hread, bind, Except.bind]
  exact finish_ga_id { names := t.names, rows := t.rows } hnd hs (fun r hr => (hrows r hr).2)

end CnvVerif.Fmt
