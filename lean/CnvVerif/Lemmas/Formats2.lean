/-
  C08 (table formats), second batch: column typing, BED files read with the generic reader,
  interval-list and tab-separated round trips.
-/
import CnvVerif.Lemmas.Formats
namespace CnvVerif.Fmt
open CnvVerif CnvVerif.Generated

/-! ## column typing -/

/-- a label pandas keeps as a plain string when it infers a column's dtype -/
def PlainLabel (g : String) : Prop :=
  isIntLit g.toList = false ∧ parseDec g.toList = none ∧ isNA g = false

theorem typeColumn_plain (vals : List String) (h : ∀ v ∈ vals, PlainLabel v) :
    typeColumn vals = vals.map Cell.str := by
  cases vals with
  | nil => rfl
  | cons a t =>
    have ha := h a (by simp)
    have h1 : (a :: t).all (fun v => isIntLit v.toList) = false := by
      rw [List.all_cons, ha.1, Bool.false_and]
    have h2 : (a :: t).all (fun v => isNA v || (parseDec v.toList).isSome) = false := by
      rw [List.all_cons, ha.2.1, ha.2.2]; rfl
    unfold typeColumn
    rw [h1, h2]
    simp only [Bool.false_eq_true, ↓reduceIte]
    apply List.map_congr_left
    intro v hv
    rw [(h v hv).2.2]
    rfl

theorem typeColumn_ints (is : List Int) : typeColumn (is.map toString) = is.map Cell.int := by
  have h1 : (is.map toString).all (fun v => isIntLit v.toList) = true := by
    rw [List.all_eq_true]
    intro v hv
    obtain ⟨i, _, rfl⟩ := List.mem_map.mp hv
    exact isIntLit_toString i
  unfold typeColumn
  rw [h1]
  simp only [↓reduceIte, List.map_map]
  apply List.map_congr_left
  intro i _
  simp only [Function.comp_def, parseInt_toString]

/-! ## the sort looks at coordinates only -/

/-- sorting commutes with dropping the payload columns (the order looks at coordinates only) -/
theorem sortF_map_coords (rows : List FRow) :
    (sortF rows).map coordsOnly = sortF (rows.map coordsOnly) := by
  unfold sortF
  exact List.map_mergeSort (fun _ _ _ _ => rfl)

/-- sorting commutes with any map that keeps the coordinates -/
theorem sortF_map_of_coords (f : FRow → FRow) (hf : ∀ r, (f r).toRow = r.toRow) (rows : List FRow) :
    (sortF rows).map f = sortF (rows.map f) := by
  unfold sortF
  exact List.map_mergeSort (fun a _ b _ => by rw [hf a, hf b])

/-! ## `sort_columns` on a table whose columns are already in order -/

theorem idxOf_map_nodup (names : List String) (h : names.Nodup) :
    names.map (fun n => names.idxOf n) = List.range names.length := by
  apply List.ext_getElem
  · simp
  · intro i h1 h2
    rw [List.getElem_map, List.getElem_range]
    exact h.idxOf_getElem i (by simpa using h1)

theorem range_map_getD {α} (cols : List α) (d : α) (n : Nat) (h : cols.length = n) :
    (List.range n).map (fun j => cols.getD j d) = cols := by
  subst h
  apply List.ext_getElem
  · simp
  · intro i h1 h2
    rw [List.getElem_map, List.getElem_range, List.getD_eq_getElem?_getD, List.getElem?_eq_getElem h2]
    rfl

theorem sortColumns_nil_id (t : FTab) (hnd : t.names.Nodup) (hs : sortNames t.names = t.names)
    (hrect : ∀ r ∈ t.rows, r.cols.length = t.names.length) :
    sortColumns [] t = .ok t := by
  have hfilt : t.names.filter (fun n => !([] : List String).contains n) = t.names := by
    rw [List.filter_eq_self]; intro a _; rfl
  unfold sortColumns
  simp only [List.all_nil, Bool.not_true, Bool.false_eq_true, ↓reduceIte, hfilt, hs, List.nil_append]
  rw [idxOf_map_nodup _ hnd]
  have hmap : t.rows.map (fun r => ({ r with cols := (List.range t.names.length).map (fun j => r.cols.getD j .na) } : FRow))
      = t.rows := by
    conv => rhs; rw [← List.map_id t.rows]
    apply List.map_congr_left
    intro r hr
    rw [range_map_getD _ _ _ (hrect r hr)]
    rfl
  rw [hmap]

theorem finish_ga_id (t : FTab) (hnd : t.names.Nodup) (hs : sortNames t.names = t.names)
    (hrect : ∀ r ∈ t.rows, r.cols.length = t.names.length) :
    finish false t = .ok { names := t.names, rows := sortF t.rows } := by
  unfold finish
  simp only [Bool.false_eq_true, ↓reduceIte, sortColumns_nil_id t hnd hs hrect, bind, Except.bind, pure,
    Except.pure]

/-! ## BED3 / BED4 files read with the generic `bed` reader -/

theorem geneStrand_nodup : (["gene", "strand"] : List String).Nodup := by decide
theorem geneStrand_sorted : sortNames ["gene", "strand"] = ["gene", "strand"] := by decide

/-- BED3 / BED4 files read with the generic `bed` reader (what auto-detection picks): same regions -/
theorem bed3_read_as_bed (t : FTab) (hn : ∀ r ∈ t.rows, NoTrackName r.chrom) (sel : SampleSel) :
    readFmt "bed" false sel (renderLines (writeBed3 t)) =
      .ok { names := ["gene", "strand"],
            rows := sortF (t.rows.map fun r => ⟨r.chrom, r.s, r.e, [.str "-", .str "."]⟩) } := by
  have hshift : ∀ s : Int, s + WRITE_SHIFT_bed3 + READ_SHIFT_bed = s := by
    intro s; simp only [WRITE_SHIFT_bed3, READ_SHIFT_bed]; omega
  have htt : track2track (renderLines (writeBed3 t)) = renderLines (writeBed3 t) := by
    apply track2track_id
    rw [renderLines_writeBed3]
    intro l hl
    obtain ⟨r, hr, rfl⟩ := List.mem_map.mp hl
    exact hn r hr
  have hparse : (renderLines (writeBed3 t)).mapM parseBedLine =
      .ok (t.rows.map (fun r => (⟨r.chrom, r.s, r.e, [.str "-", .str "."]⟩ : FRow))) := by
    rw [renderLines_writeBed3]
    apply mapM_map_ok
    intro r _
    rw [parseBedLine_three, hshift]
  have hfin := finish_ga_id
    { names := ["gene", "strand"],
      rows := t.rows.map fun r => (⟨r.chrom, r.s, r.e, [.str "-", .str "."]⟩ : FRow) }
    geneStrand_nodup geneStrand_sorted (by
      intro r hr; obtain ⟨x, _, rfl⟩ := List.mem_map.mp hr; rfl)
  simp only [readFmt, readBed, htt, hparse, bind, Except.bind, pure, Except.pure]
  simp only [List.map_map, Function.comp_def]
  exact hfin

theorem bed4_read_as_bed (t : FTab) (hn : ∀ r ∈ t.rows, NoTrackName r.chrom) (hg : WFGene t)
    (sel : SampleSel) :
    readFmt "bed" false sel (renderLines (writeBed4 t)) =
      .ok { names := ["gene", "strand"],
            rows := sortF (t.rows.map fun r => ⟨r.chrom, r.s, r.e, [.str (geneStr t r), .str "."]⟩) } := by
  have hshift : ∀ s : Int, s + WRITE_SHIFT_bed4 + READ_SHIFT_bed = s := by
    intro s; simp only [WRITE_SHIFT_bed4, READ_SHIFT_bed]; omega
  have htt : track2track (renderLines (writeBed4 t)) = renderLines (writeBed4 t) := by
    apply track2track_id
    rw [renderLines_writeBed4 t hg]
    intro l hl
    obtain ⟨r, hr, rfl⟩ := List.mem_map.mp hl
    exact hn r hr
  have hparse : (renderLines (writeBed4 t)).mapM parseBedLine =
      .ok (t.rows.map (fun r => (⟨r.chrom, r.s, r.e, [.str (geneStr t r), .str "."]⟩ : FRow))) := by
    rw [renderLines_writeBed4 t hg]
    apply mapM_map_ok
    intro r hr
    obtain ⟨g, hg1, hg2⟩ := hg r hr
    rw [parseBedLine_four, hshift, geneStr_of hg1, hg2]
  have hfin := finish_ga_id
    { names := ["gene", "strand"],
      rows := t.rows.map fun r => (⟨r.chrom, r.s, r.e, [.str (geneStr t r), .str "."]⟩ : FRow) }
    geneStrand_nodup geneStrand_sorted (by
      intro r hr; obtain ⟨x, _, rfl⟩ := List.mem_map.mp hr; rfl)
  simp only [readFmt, readBed, htt, hparse, bind, Except.bind, pure, Except.pure]
  simp only [List.map_map, Function.comp_def]
  exact hfin

end CnvVerif.Fmt
