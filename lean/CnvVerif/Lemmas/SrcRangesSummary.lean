/-
  Source tie of skgenome/intersect.py, part: the summary cascade and `series2value` of `into_ranges`.  The hand-written model equals the term the translator reads
  off the current source (Generated/ExprsRanges.lean, regenerated from /repo on every run).  Proofs by case analysis
  + `simp`, not `rfl`: spellings that leave the meaning alone keep them green.  One module per tied code path, so
  that an edit breaks exactly the obligations about that path.
-/
import CnvVerif.Generated.ExprsRanges
import CnvVerif.Model.RangesExt
import CnvVerif.Lemmas.Ranges
set_option linter.unusedSimpArgs false
set_option linter.unusedVariables false
namespace CnvVerif.Src
open CnvVerif CnvVerif.Generated

/-! ### the summary cascade of `into_ranges` -/

def Val.isStr : Val → Bool
  | .str _ => true
  | _ => false
def Val.isFloat : Val → Bool
  | .num _ => true
  | .nan => true
  | _ => false
def Summary.isNone : Summary → Bool
  | .auto => true
  | _ => false
def Summary.isCallable : Summary → Bool
  | .func _ => true
  | _ => false

/-- the function each code of the generated cascade stands for -/
def summaryOfCode (s : Summary) : Nat → List Val → Val
  | 0 => joinVals
  | 1 => nanMedian
  | 2 => firstOf
  | 3 => (match s with | .const v => makeConst v | _ => firstOf)
  | _ => (match s with | .func f => f | _ => firstOf)

theorem pickSummary_is_source (s : Summary) (first : Val) :
    pickSummary s first =
      summaryOfCode s (src_into_ranges_summary (Summary.isNone s) (Summary.isCallable s) (Val.isStr first) (Val.isFloat first)) := by
  unfold pickSummary src_into_ranges_summary
  cases s with
  | auto => cases first <;> simp [Summary.isNone, Summary.isCallable, Val.isStr, Val.isFloat, summaryOfCode]
  | const v => simp [Summary.isNone, Summary.isCallable, summaryOfCode]
  | func f => simp [Summary.isNone, Summary.isCallable, summaryOfCode]

theorem seriesToValue_is_source (d : Val) (f : List Val → Val) (vs : List Val) :
    seriesToValue d f vs =
      (match src_series2value vs.length with
       | 0 => d
       | 1 => vs.headD d
       | _ => f vs) := by
  unfold seriesToValue src_series2value
  match vs with
  | [] => simp
  | [v] => simp
  | v :: w :: rest => simp

end CnvVerif.Src
