/-
  Lemmas behind Props/C06.lean (second part): subtract / subdivide / resize on one chromosome's rows.
-/
import CnvVerif.Model.Interval
import CnvVerif.Model.IntervalSpec
import CnvVerif.Lemmas.Interval
namespace CnvVerif

/-! ### subtract: the zip-based pair lists as structural recursions -/

/-- gaps before each excluded row, then the gap up to `hi` -/
def gapsR (lo hi : Int) : List Row → List (Int × Int)
  | [] => [(lo, hi)]
  | x :: xs => (lo, x.s) :: gapsR x.e hi xs

/-- gaps before each excluded row only -/
def gapsN (lo : Int) : List Row → List (Int × Int)
  | [] => []
  | x :: xs => (lo, x.s) :: gapsN x.e xs

/-- base `p` lies in one of the half-open pairs -/
def covP (l : List (Int × Int)) (p : Int) : Prop := ∃ q ∈ l, q.1 ≤ p ∧ p < q.2

theorem covP_nil (p : Int) : covP [] p ↔ False := by simp [covP]

theorem covP_cons (a : Int × Int) (l : List (Int × Int)) (p : Int) :
    covP (a :: l) p ↔ (a.1 ≤ p ∧ p < a.2) ∨ covP l p := by
  simp [covP]

theorem zip_gapsR (lo hi : Int) (ex : List Row) :
    (lo :: ex.map (·.e)).zip (ex.map (·.s) ++ [hi]) = gapsR lo hi ex := by
  induction ex generalizing lo with
  | nil => rfl
  | cons x xs ih =>
    simp only [List.map_cons, List.cons_append, List.zip_cons_cons, gapsR]
    rw [ih]

theorem zip_gapsN (lo : Int) (ex : List Row) :
    (lo :: (ex.map (·.e)).dropLast).zip (ex.map (·.s)) = gapsN lo ex := by
  induction ex generalizing lo with
  | nil => rfl
  | cons x xs ih =>
    cases xs with
    | nil => rfl
    | cons y ys =>
      have := ih x.e
      simp only [List.map_cons, List.dropLast_cons_cons, List.zip_cons_cons, gapsN] at this ⊢
      rw [this]

theorem zip_gapsN' (f : Row) (t : List Row) :
    (((f :: t).map (·.e)).dropLast).zip (t.map (·.s)) = gapsN f.e t := by
  cases t with
  | nil => rfl
  | cons y ys =>
    have := zip_gapsN f.e (y :: ys)
    simp only [List.map_cons, List.dropLast_cons_cons] at this ⊢
    exact this

/-- the filter on positive length does not change coverage -/
theorem cov_pairs (k : Row) (pairs : List (Int × Int)) (p : Int) :
    cov ((pairs.filter (fun q => q.2 > q.1)).map (fun q => { k with s := q.1, e := q.2 })) p ↔
      covP pairs p := by
  simp only [cov, covP, List.mem_map, List.mem_filter, decide_eq_true_eq]
  constructor
  · rintro ⟨r, ⟨q, ⟨hq, _⟩, rfl⟩, h1, h2⟩
    exact ⟨q, hq, h1, h2⟩
  · rintro ⟨q, hq, h1, h2⟩
    exact ⟨_, ⟨q, ⟨hq, by omega⟩, rfl⟩, h1, h2⟩

theorem covP_gapsR (lo hi : Int) (ex : List Row) (hc : Canon ex)
    (ho : ∀ x ∈ ex, lo ≤ x.e ∧ x.s ≤ hi) (p : Int) :
    covP (gapsR lo hi ex) p ↔ (lo ≤ p ∧ p < hi) ∧ ¬ cov ex p := by
  induction ex generalizing lo with
  | nil => simp [gapsR, covP, cov]
  | cons x xs ih =>
    have hx := hc.head_pos
    have hox := ho x (by simp)
    have hgt : cov xs p → x.e < p := fun h => hc.tail_gt h
    have ho' : ∀ y ∈ xs, x.e ≤ y.e ∧ y.s ≤ hi := by
      intro y hy
      have h1 := (List.pairwise_cons.mp hc.2).1 y hy
      have h2 := hc.1 y (by simp [hy])
      have h3 := ho y (by simp [hy])
      omega
    simp only [gapsR, covP_cons, cov_cons, ih x.e hc.tail ho']
    constructor
    · rintro (⟨h1, h2⟩ | ⟨⟨h1, h2⟩, h3⟩)
      · refine ⟨⟨h1, by omega⟩, ?_⟩
        rintro (h | h)
        · omega
        · have := hgt h; omega
      · refine ⟨⟨by omega, h2⟩, ?_⟩
        rintro (h | h)
        · omega
        · exact h3 h
    · rintro ⟨⟨h1, h2⟩, h3⟩
      by_cases hps : p < x.s
      · left; exact ⟨h1, hps⟩
      · right
        refine ⟨⟨?_, h2⟩, fun h => h3 (Or.inr h)⟩
        apply Classical.byContradiction
        intro hn
        exact h3 (Or.inl ⟨by omega, by omega⟩)

theorem covP_gapsN (lo : Int) (ex : List Row) (hc : Canon ex)
    (ho : ∀ x ∈ ex, lo ≤ x.e) (p : Int) :
    covP (gapsN lo ex) p ↔ lo ≤ p ∧ ¬ cov ex p ∧ ∃ x ∈ ex, p < x.e := by
  induction ex generalizing lo with
  | nil => simp [gapsN, covP]
  | cons x xs ih =>
    have hx := hc.head_pos
    have hox := ho x (by simp)
    have hgt : cov xs p → x.e < p := fun h => hc.tail_gt h
    have ho' : ∀ y ∈ xs, x.e ≤ y.e := by
      intro y hy
      have h1 := (List.pairwise_cons.mp hc.2).1 y hy
      have h2 := hc.1 y (by simp [hy])
      omega
    simp only [gapsN, covP_cons, cov_cons, ih x.e hc.tail ho', List.mem_cons, exists_eq_or_imp]
    constructor
    · rintro (⟨h1, h2⟩ | ⟨h1, h2, h3⟩)
      · refine ⟨h1, ?_, Or.inl (by omega)⟩
        rintro (h | h)
        · omega
        · have := hgt h; omega
      · refine ⟨by omega, ?_, Or.inr h3⟩
        rintro (h | h)
        · omega
        · exact h2 h
    · rintro ⟨h1, h2, h3⟩
      by_cases hps : p < x.s
      · left; exact ⟨h1, hps⟩
      · right
        have hxe : x.e ≤ p := by
          apply Classical.byContradiction
          intro hn
          exact h2 (Or.inl ⟨by omega, by omega⟩)
        refine ⟨hxe, fun h => h2 (Or.inr h), ?_⟩
        rcases h3 with h | h
        · omega
        · exact h


theorem subtractRow_cons (k f : Row) (t : List Row) :
    subtractRow k (f :: t) =
      ((if k.s < f.s ∧ k.e > ((f :: t).getLast?.getD f).e then gapsR k.s k.e (f :: t)
        else if k.s < f.s then gapsN k.s (f :: t)
        else if k.e > ((f :: t).getLast?.getD f).e then gapsR f.e k.e t
        else gapsN f.e t).filter (fun q => q.2 > q.1)).map
        (fun q => { k with s := q.1, e := q.2 }) := by
  simp only [subtractRow]
  congr 2
  by_cases hl : k.s < f.s <;> by_cases hr : k.e > ((f :: t).getLast?.getD f).e
  · simp only [hl, hr, and_self, decide_true, Bool.and_self, if_true]
    exact zip_gapsR k.s k.e (f :: t)
  · simp only [hl, hr, and_false, decide_true, decide_false, Bool.and_false, if_true, if_false,
      Bool.false_eq_true]
    exact zip_gapsN k.s (f :: t)
  · simp only [hl, hr, false_and, decide_true, decide_false, Bool.false_and, if_true, if_false,
      Bool.false_eq_true]
    exact zip_gapsR f.e k.e t
  · simp only [hl, hr, false_and, decide_false, Bool.false_and, if_false, Bool.false_eq_true]
    split
    · exact zip_gapsN' f t
    · rename_i hlen
      cases t with
      | nil => rfl
      | cons y ys => simp at hlen

theorem getLastD_mem (f : Row) (t : List Row) : (f :: t).getLast?.getD f ∈ f :: t := by
  rw [List.getLast?_eq_some_getLast (List.cons_ne_nil f t)]
  exact List.getLast_mem _

/-- subtraction of one row: exactly the bases of the row not covered by the excluded rows;
    `ex` canonical (sorted, disjoint, non-abutting, positive) and every member overlaps the keeper -/
theorem subtractRow_cov (k : Row) (ex : List Row) (hc : Canon ex)
    (ho : ∀ x ∈ ex, x.e > k.s ∧ x.s < k.e) (p : Int) :
    cov (subtractRow k ex) p ↔ (k.s ≤ p ∧ p < k.e) ∧ ¬ cov ex p := by
  cases ex with
  | nil => simp [subtractRow, cov]
  | cons f t =>
    rw [subtractRow_cons, cov_pairs]
    have hlm := getLastD_mem f t
    generalize (f :: t).getLast?.getD f = l at hlm ⊢
    have hf := hc.head_pos
    have hof := ho f (by simp)
    have hol := ho l hlm
    have hll := hc.1 l hlm
    have hgt : cov t p → f.e < p := fun h => hc.tail_gt h
    have hot : ∀ y ∈ t, f.e ≤ y.e := by
      intro y hy
      have h1 := (List.pairwise_cons.mp hc.2).1 y hy
      have h2 := hc.1 y (by simp [hy])
      omega
    -- a base left of the keeper's end and outside the excluded rows is left of the last one's end
    have hlast : p < k.e → k.e ≤ l.e → ∃ x ∈ f :: t, p < x.e := fun h1 h2 => ⟨l, hlm, by omega⟩
    have hnc : ∀ x ∈ f :: t, ¬ cov (f :: t) p → p < x.e → p < k.e := by
      intro x hx hn h
      have := ho x hx
      apply Classical.byContradiction
      intro h'
      exact hn ⟨x, hx, by omega, h⟩
    by_cases hl : k.s < f.s <;> by_cases hr : k.e > l.e
    · rw [if_pos ⟨hl, hr⟩]
      exact covP_gapsR k.s k.e (f :: t) hc (fun x hx => by have := ho x hx; omega) p
    · rw [if_neg (fun h => hr h.2), if_pos hl,
        covP_gapsN k.s (f :: t) hc (fun x hx => by have := ho x hx; omega) p]
      constructor
      · rintro ⟨h1, h2, x, hx, h3⟩
        exact ⟨⟨h1, hnc x hx h2 h3⟩, h2⟩
      · rintro ⟨⟨h1, h2⟩, h3⟩
        exact ⟨h1, h3, hlast h2 (by omega)⟩
    · rw [if_neg (fun h => hl h.1), if_neg hl, if_pos hr,
        covP_gapsR f.e k.e t hc.tail (fun y hy => by
          have := ho y (by simp [hy]); have := hot y hy; omega) p, cov_cons]
      constructor
      · rintro ⟨⟨h1, h2⟩, h3⟩
        refine ⟨⟨by omega, h2⟩, ?_⟩
        rintro (h | h)
        · omega
        · exact h3 h
      · rintro ⟨⟨h1, h2⟩, h3⟩
        refine ⟨⟨?_, h2⟩, fun h => h3 (Or.inr h)⟩
        apply Classical.byContradiction
        intro hn
        exact h3 (Or.inl ⟨by omega, by omega⟩)
    · rw [if_neg (fun h => hl h.1), if_neg hl, if_neg hr, covP_gapsN f.e t hc.tail hot p]
      constructor
      · rintro ⟨h1, h2, y, hy, h3⟩
        have hn : ¬ cov (f :: t) p := by
          rw [cov_cons]
          rintro (h | h)
          · omega
          · exact h2 h
        exact ⟨⟨by omega, hnc y (by simp [hy]) hn h3⟩, hn⟩
      · rintro ⟨⟨h1, h2⟩, h3⟩
        have hfe : f.e ≤ p := by
          apply Classical.byContradiction
          intro hn
          exact h3 ((cov_cons f t p).mpr (Or.inl ⟨by omega, by omega⟩))
        refine ⟨hfe, fun h => h3 ((cov_cons f t p).mpr (Or.inr h)), ?_⟩
        obtain ⟨x, hx, hxe⟩ := hlast h2 (by omega)
        rcases List.mem_cons.mp hx with rfl | hx
        · omega
        · exact ⟨x, hx, hxe⟩

theorem Canon.filter {l : List Row} (h : Canon l) (f : Row → Bool) : Canon (l.filter f) :=
  ⟨fun r hr => h.1 r (List.mem_filter.mp hr).1, h.2.sublist List.filter_sublist⟩

theorem subtractRow_cov_merged (k : Row) (b : List Row) (hs : StartSorted b)
    (hp : ∀ r ∈ b, r.s < r.e) (p : Int) :
    cov (subtractRow k ((mergeChrom 0 b).filter (fun x => x.e > k.s && x.s < k.e))) p ↔
      (k.s ≤ p ∧ p < k.e) ∧ ¬ cov b p := by
  have hc := (mergeChrom_canon b hs hp).filter (fun x => x.e > k.s && x.s < k.e)
  have ho : ∀ x ∈ (mergeChrom 0 b).filter (fun x => x.e > k.s && x.s < k.e),
      x.e > k.s ∧ x.s < k.e := by
    intro x hx
    have := (List.mem_filter.mp hx).2
    simpa using this
  rw [subtractRow_cov k _ hc ho p, ← mergeChrom_cov 0 (Int.le_refl 0) b hs p]
  constructor
  · rintro ⟨hk, hn⟩
    refine ⟨hk, ?_⟩
    rintro ⟨r, hr, h1, h2⟩
    refine hn ⟨r, List.mem_filter.mpr ⟨hr, ?_⟩, h1, h2⟩
    have h3 : r.e > k.s := by omega
    have h4 : r.s < k.e := by omega
    simp [h3, h4]
  · rintro ⟨hk, hn⟩
    refine ⟨hk, ?_⟩
    rintro ⟨r, hr, h1, h2⟩
    exact hn ⟨r, (List.mem_filter.mp hr).1, h1, h2⟩

theorem subtractRow_carry (k : Row) (ex : List Row) :
    ∀ q ∈ subtractRow k ex, q.chrom = k.chrom ∧ q.gene = k.gene ∧ q.s < q.e ∨ q = k := by
  intro q hq
  unfold subtractRow at hq
  split at hq
  · right; simpa using hq
  · left
    simp only [List.mem_map, List.mem_filter, decide_eq_true_eq] at hq
    obtain ⟨p, ⟨_, hp⟩, rfl⟩ := hq
    exact ⟨rfl, rfl, by show p.1 < p.2; omega⟩

/-- floor division is additive up to one -/
theorem ediv_add_bounds (a b n : Int) (hn : 0 < n) :
    a / n + b / n ≤ (a + b) / n ∧ (a + b) / n ≤ a / n + b / n + 1 := by
  have ha := Int.mul_ediv_add_emod a n
  have hb := Int.mul_ediv_add_emod b n
  have ha0 := Int.emod_nonneg a (Int.ne_of_gt hn)
  have hb0 := Int.emod_nonneg b (Int.ne_of_gt hn)
  have ha1 := Int.emod_lt_of_pos a hn
  have hb1 := Int.emod_lt_of_pos b hn
  have hab : a + b = (a % n + b % n) + n * (a / n + b / n) := by
    rw [Int.mul_add]; omega
  have h1 : (a + b) / n = (a % n + b % n) / n + (a / n + b / n) := by
    rw [hab, Int.add_mul_ediv_left _ _ (Int.ne_of_gt hn)]
  have h2 : 0 ≤ (a % n + b % n) / n := Int.ediv_nonneg (by omega) (by omega)
  have h3 : (a % n + b % n) / n < 2 := Int.ediv_lt_of_lt_mul hn (by omega)
  omega

theorem consecutive_cuts (r : Row) (cut : Nat → Int) (a n : Nat) :
    Consecutive ((List.range' a n).map fun i => { r with s := cut i, e := cut (i + 1) }) := by
  induction n generalizing a with
  | zero => simp [Consecutive]
  | succ m ih =>
    cases m with
    | zero => simp [Consecutive]
    | succ k =>
      have := ih (a + 1)
      rw [List.range'_succ, List.map_cons]
      rw [List.range'_succ, List.map_cons] at this ⊢
      exact ⟨rfl, this⟩

theorem splitInto_exact (r : Row) (n : Nat) (hn : 2 ≤ n) (hlen : (n : Int) ≤ r.e - r.s) :
    let bins := splitInto r n
    bins.length = n ∧
    (bins.head?.map (·.s)) = some r.s ∧ (bins.getLast?.map (·.e)) = some r.e ∧
    Consecutive bins ∧
    (∀ a ∈ bins, ∀ b ∈ bins, (a.e - a.s) - (b.e - b.s) ≤ 1) ∧
    (∀ a ∈ bins, a.s < a.e ∧ a.gene = r.gene ∧ a.chrom = r.chrom) := by
  have hnpos : (0 : Int) < (n : Int) := by omega
  have hn0 : n ≠ 0 := by omega
  -- size of each bin
  have hsize : ∀ i : Nat,
      (r.e - r.s) / (n : Int) ≤
        (((i + 1 : Nat) : Int) * (r.e - r.s)) / (n : Int) - ((i : Int) * (r.e - r.s)) / (n : Int) ∧
      (((i + 1 : Nat) : Int) * (r.e - r.s)) / (n : Int) - ((i : Int) * (r.e - r.s)) / (n : Int) ≤
        (r.e - r.s) / (n : Int) + 1 := by
    intro i
    have h := ediv_add_bounds ((i : Int) * (r.e - r.s)) (r.e - r.s) n hnpos
    have e : ((i + 1 : Nat) : Int) * (r.e - r.s) = (i : Int) * (r.e - r.s) + (r.e - r.s) := by
      rw [Int.natCast_add, Int.add_mul]; simp
    rw [e]
    omega
  have hq : 1 ≤ (r.e - r.s) / (n : Int) := Int.le_ediv_of_mul_le hnpos (by omega)
  show (splitInto r n).length = n ∧ _
  unfold splitInto
  simp only
  refine ⟨by simp, ?_, ?_, ?_, ?_, ?_⟩
  · simp [List.head?_range, hn0]
  · simp only [List.getLast?_map, List.getLast?_range, hn0, if_false, Option.map_some]
    have : n - 1 + 1 = n := by omega
    rw [this, Int.mul_ediv_cancel_left _ (Int.ne_of_gt hnpos)]
    congr 1
    omega
  · rw [List.range_eq_range']
    exact consecutive_cuts r _ 0 n
  · intro a ha b hb
    simp only [List.mem_map, List.mem_range] at ha hb
    obtain ⟨i, _, rfl⟩ := ha
    obtain ⟨j, _, rfl⟩ := hb
    have hi := hsize i
    have hj := hsize j
    show (r.s + _ - (r.s + _)) - (r.s + _ - (r.s + _)) ≤ 1
    omega
  · intro a ha
    simp only [List.mem_map, List.mem_range] at ha
    obtain ⟨i, _, rfl⟩ := ha
    have hi := hsize i
    refine ⟨?_, rfl, rfl⟩
    show r.s + _ < r.s + _
    omega

theorem splitRow_eq (avg : Rat) (minSize : Int) (r : Row) (h : minSize ≤ r.e - r.s)
    (hnn : 0 ≤ roundHalfEven (((r.e - r.s : Int) : Rat) / avg)) :
    splitRow avg minSize r =
      (let n := (max 1 (roundHalfEven (((r.e - r.s : Int) : Rat) / avg))).toNat
       if n = 1 then [r] else splitInto r n) := by
  unfold splitRow
  simp only
  rw [if_pos (by omega)]
  generalize roundHalfEven (((r.e - r.s : Int) : Rat) / avg) = nb at hnn ⊢
  have hn : (if (nb == 0) = true then 1 else nb.toNat) = (max 1 nb).toNat := by
    split
    · rename_i h0
      have : nb = 0 := by simpa using h0
      subst this; rfl
    · rename_i h0
      have : nb ≠ 0 := by simpa using h0
      have : max 1 nb = nb := by omega
      rw [this]
  rw [hn]
  simp only [beq_iff_eq]

theorem splitRow_small (avg : Rat) (minSize : Int) (r : Row) (h : r.e - r.s < minSize) :
    splitRow avg minSize r = [] := by
  unfold splitRow
  simp only
  rw [if_neg (by omega)]

theorem resizeTable_mem (bp : Int) (sizes : String → Option Int) (t : Table) (q : Row) :
    q ∈ resizeTable bp sizes t ↔
      ∃ r ∈ t, q = { r with s := clipInt 0 (sizes r.chrom) (r.s - bp),
                             e := clipInt 0 (sizes r.chrom) (r.e + bp) } ∧
        (bp < 0 → q.e - q.s > 0) := by
  unfold resizeTable
  simp only
  split
  · rename_i hb
    simp only [List.mem_filter, List.mem_map, decide_eq_true_eq]
    constructor
    · rintro ⟨⟨r, hr, rfl⟩, hq⟩
      exact ⟨r, hr, rfl, fun _ => hq⟩
    · rintro ⟨r, hr, rfl, hq⟩
      exact ⟨⟨r, hr, rfl⟩, hq hb⟩
  · rename_i hb
    simp only [List.mem_map]
    constructor
    · rintro ⟨r, hr, rfl⟩
      exact ⟨r, hr, rfl, fun h => absurd h hb⟩
    · rintro ⟨r, hr, rfl, _⟩
      exact ⟨r, hr, rfl⟩

theorem clipInt_bounds (hi : Int) (hh : 0 ≤ hi) (x : Int) :
    0 ≤ clipInt 0 (some hi) x ∧ clipInt 0 (some hi) x ≤ hi ∧
    (0 ≤ x → x ≤ hi → clipInt 0 (some hi) x = x) := by
  simp only [clipInt]
  omega

end CnvVerif
