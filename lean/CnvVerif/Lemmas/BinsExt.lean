/-
  Lemmas behind Props/C12Ext.lean (round 4).

  (a) the size bounds `_split_targets` guarantees for EVERY average / minimum size (no hypothesis
      relating the two): each bin has at least `min m ⌊3/4·avg⌋` bases and at most
      `max (3/2·avg) (5/4·avg + 1)`; for an integer average ≥ 2 (what the command line can express)
      at most 3/2·avg.  Sharpness: at avg = 4k a region of 6k bases is cut into two bins of exactly
      3k = 3/4·avg, whatever the minimum (finding K is the complement of `m ≤ 3/4·avg`).
  (b) `drop_noncanonical_contigs` characterised in both branches (finding AB: the name-length rule).
  (c) `guess_chromosome_regions` / `do_antitarget` without an access table.
-/
import CnvVerif.Model.Bins
import CnvVerif.Lemmas.Bins
import CnvVerif.Lemmas.Bins2
import CnvVerif.Lemmas.Bins3
import CnvVerif.Lemmas.Bins4
import Mathlib.Tactic.Linarith
import Mathlib.Tactic.Ring
import Mathlib.Tactic.NormNum
import Mathlib.Algebra.Order.Field.Basic
import Mathlib.Data.Rat.Floor
import Mathlib.Tactic.FieldSimp
import Mathlib.Tactic.Positivity
namespace CnvVerif

/-! ### (a) size bounds without side conditions -/

/-- the bin count as an integer -/
theorem nbinsOf_cast' (avg : Rat) (r : Row) :
    ((nbinsOf avg r : Nat) : Int) = max 1 (roundHalfEven (((r.e - r.s : Int) : Rat) / avg)) := by
  unfold nbinsOf
  omega

/-- every bin has at least `min m ⌊3/4·avg⌋` bases — for every minimum size `m` -/
theorem splitRow_size_lower_any (avg : Rat) (havg : 0 < avg) (m : Int) (r : Row) (hr : r.s ≤ r.e) :
    ∀ x ∈ splitRow avg m r, min m (3 / 4 * avg).floor ≤ x.e - x.s := by
  intro x hx
  by_cases h : m ≤ r.e - r.s
  · have h1 : (((3 / 4 * avg).floor : Int) : Rat) ≤ 3 / 4 * avg := Rat.floor_le _
    have h2 : min m (3 / 4 * avg).floor ≤ (3 / 4 * avg).floor := Int.min_le_right _ _
    have h3 : ((min m (3 / 4 * avg).floor : Int) : Rat) ≤ (((3 / 4 * avg).floor : Int) : Rat) := by
      exact_mod_cast h2
    have hm' : ((min m (3 / 4 * avg).floor : Int) : Rat) ≤ 3 / 4 * avg := le_trans h3 h1
    have hle : min m (3 / 4 * avg).floor ≤ r.e - r.s := by omega
    have e : splitRow avg m r = splitRow avg (min m (3 / 4 * avg).floor) r := by
      rw [splitRow_closed avg havg m r hr h, splitRow_closed avg havg _ r hr hle]
    rw [e] at hx
    exact splitRow_size_lower avg havg _ hm' r hr x hx
  · rw [splitRow_small avg m r (by omega)] at hx
    cases hx

private theorem upper_core_any (span n sz : Int) (avg : Rat) (hn : 2 ≤ n)
    (h1 : (span : Rat) / avg ≤ (n : Rat) + 1 / 2) (havg0 : 0 < avg)
    (hsz : sz ≤ span / n + 1) : (sz : Rat) ≤ 5 / 4 * avg + 1 := by
  have hn' : (2 : Rat) ≤ n := by exact_mod_cast hn
  have hnpos : (0 : Rat) < n := by linarith
  have h2 : (span : Rat) ≤ ((n : Rat) + 1 / 2) * avg := by rwa [div_le_iff₀ havg0] at h1
  have h3 : span / n * n ≤ span := Int.ediv_mul_le span (by omega)
  have h3' : ((span / n : Int) : Rat) * n ≤ span := by exact_mod_cast h3
  have h4 : (sz : Rat) ≤ ((span / n : Int) : Rat) + 1 := by exact_mod_cast hsz
  have h5 : 0 ≤ avg * ((n : Rat) - 2) := mul_nonneg havg0.le (by linarith)
  have h6 : ((span / n : Int) : Rat) * n ≤ 5 / 4 * avg * n := by nlinarith
  have h7 : ((span / n : Int) : Rat) ≤ 5 / 4 * avg := le_of_mul_le_mul_right h6 hnpos
  linarith

/-- every bin has at most `max (3/2·avg) (5/4·avg + 1)` bases — for every average size -/
theorem splitRow_size_upper_any (avg : Rat) (havg0 : 0 < avg) (minSize : Int) (r : Row) (hr : r.s ≤ r.e) :
    ∀ x ∈ splitRow avg minSize r, ((x.e - x.s : Int) : Rat) ≤ max (3 / 2 * avg) (5 / 4 * avg + 1) := by
  intro x hx
  by_cases h : minSize ≤ r.e - r.s
  · rw [splitRow_closed avg havg0 minSize r hr h] at hx
    have hpos := nbinsOf_pos avg r
    have hc := nbinsOf_cast' avg r
    have hb := roundHalfEven_bounds (((r.e - r.s : Int) : Rat) / avg)
    split at hx
    · rename_i h1
      simp only [List.mem_singleton] at hx
      subst hx
      have hle : roundHalfEven (((x.e - x.s : Int) : Rat) / avg) ≤ 1 := by omega
      have hle' : (roundHalfEven (((x.e - x.s : Int) : Rat) / avg) : Rat) ≤ 1 := by
        exact_mod_cast hle
      have h2 : ((x.e - x.s : Int) : Rat) / avg ≤ 3 / 2 := by linarith [hb.2]
      rw [div_le_iff₀ havg0] at h2
      exact le_trans h2 (le_max_left _ _)
    · rename_i hne
      have hsz := splitInto_sizes r (nbinsOf avg r) hpos x hx
      have hn2 : (2 : Int) ≤ (nbinsOf avg r : Nat) := by omega
      have heq : ((nbinsOf avg r : Nat) : Int) = roundHalfEven (((r.e - r.s : Int) : Rat) / avg) := by
        omega
      exact le_trans (upper_core_any (r.e - r.s) (nbinsOf avg r : Nat) (x.e - x.s) avg hn2
        (by rw [heq]; exact hb.2) havg0 hsz.2) (le_max_right _ _)
  · rw [splitRow_small avg minSize r (by omega)] at hx
    cases hx

private theorem upper_core_int (span n sz a : Int) (hn : 2 ≤ n) (ha : 2 ≤ a)
    (h1 : (span : Rat) / (a : Rat) ≤ (n : Rat) + 1 / 2)
    (hsz : sz ≤ span / n + 1) : 2 * sz ≤ 3 * a := by
  have ha0 : (0 : Rat) < (a : Rat) := by exact_mod_cast (show (0 : Int) < a by omega)
  have h2 : (span : Rat) ≤ ((n : Rat) + 1 / 2) * a := by rwa [div_le_iff₀ ha0] at h1
  have h2' : ((2 * span : Int) : Rat) ≤ (((2 * n + 1) * a : Int) : Rat) := by
    push_cast; linarith
  have h2i : 2 * span ≤ (2 * n + 1) * a := by exact_mod_cast h2'
  have h3 : span / n * n ≤ span := Int.ediv_mul_le span (by omega)
  generalize span / n = d at h3 hsz
  -- 2·d·n ≤ 2·n·a + a
  by_cases hda : d ≤ a
  · omega
  · have hpos : 0 ≤ (d - a) * (n - 2) := Int.mul_nonneg (by omega) (by omega)
    have h4 : 4 * (d - a) ≤ a := by nlinarith
    omega

/-- for an integer average size `a ≥ 2` (every `--avg-size` the command line accepts, except 1)
    no bin is longer than 3/2·a -/
theorem splitRow_size_upper_int (a : Int) (ha : 2 ≤ a) (minSize : Int) (r : Row) (hr : r.s ≤ r.e) :
    ∀ x ∈ splitRow (a : Rat) minSize r, 2 * (x.e - x.s) ≤ 3 * a := by
  intro x hx
  have havg0 : (0 : Rat) < (a : Rat) := by exact_mod_cast (show (0 : Int) < a by omega)
  by_cases h : minSize ≤ r.e - r.s
  · rw [splitRow_closed (a : Rat) havg0 minSize r hr h] at hx
    have hpos := nbinsOf_pos (a : Rat) r
    have hc := nbinsOf_cast' (a : Rat) r
    have hb := roundHalfEven_bounds (((r.e - r.s : Int) : Rat) / (a : Rat))
    split at hx
    · rename_i h1
      simp only [List.mem_singleton] at hx
      subst hx
      have hle : roundHalfEven (((x.e - x.s : Int) : Rat) / (a : Rat)) ≤ 1 := by omega
      have hle' : (roundHalfEven (((x.e - x.s : Int) : Rat) / (a : Rat)) : Rat) ≤ 1 := by
        exact_mod_cast hle
      have h2 : ((x.e - x.s : Int) : Rat) / (a : Rat) ≤ 3 / 2 := by linarith [hb.2]
      rw [div_le_iff₀ havg0] at h2
      have h3 : ((2 * (x.e - x.s) : Int) : Rat) ≤ ((3 * a : Int) : Rat) := by
        push_cast; push_cast at h2; linarith
      exact_mod_cast h3
    · rename_i hne
      have hsz := splitInto_sizes r (nbinsOf (a : Rat) r) hpos x hx
      have hn2 : (2 : Int) ≤ (nbinsOf (a : Rat) r : Nat) := by omega
      have heq : ((nbinsOf (a : Rat) r : Nat) : Int)
          = roundHalfEven (((r.e - r.s : Int) : Rat) / (a : Rat)) := by omega
      exact upper_core_int (r.e - r.s) (nbinsOf (a : Rat) r : Nat) (x.e - x.s) a hn2 ha
        (by rw [heq]; exact hb.2) hsz.2
  · rw [splitRow_small (a : Rat) minSize r (by omega)] at hx
    cases hx

theorem roundHalfEven_three_halves : roundHalfEven (3 / 2) = 2 := by decide +kernel

/-- sharpness of the 3/4 bound: at avg = 4k a region of 6k bases gives two bins of exactly 3k bases,
    whatever the minimum size `m ≤ 6k` -/
theorem splitRow_three_quarters_sharp (k : Int) (hk : 1 ≤ k) (m : Int) (hm : m ≤ 6 * k)
    (c g : String) (s : Int) :
    splitRow ((4 * k : Int) : Rat) m ⟨c, s, s + 6 * k, g⟩ =
      [⟨c, s, s + 3 * k, g⟩, ⟨c, s + 3 * k, s + 6 * k, g⟩] := by
  have havg0 : (0 : Rat) < ((4 * k : Int) : Rat) := by exact_mod_cast (show (0 : Int) < 4 * k by omega)
  have hq : (((s + 6 * k - s : Int)) : Rat) / ((4 * k : Int) : Rat) = 3 / 2 := by
    have hk0 : (k : Rat) ≠ 0 := by exact_mod_cast (show k ≠ 0 by omega)
    push_cast
    field_simp
    ring
  have hn : nbinsOf ((4 * k : Int) : Rat) ⟨c, s, s + 6 * k, g⟩ = 2 := by
    unfold nbinsOf
    show (max 1 (roundHalfEven (((s + 6 * k - s : Int) : Rat) / ((4 * k : Int) : Rat)))).toNat = 2
    rw [hq, roundHalfEven_three_halves]
    rfl
  rw [splitRow_closed _ havg0 m _ (show s ≤ s + 6 * k by omega) (show m ≤ s + 6 * k - s by omega), hn]
  rw [if_neg (by decide)]
  unfold splitInto
  simp only [List.range, List.range.loop, List.map_cons, List.map_nil]
  have e0 : s + ((0 : Nat) : Int) * (s + 6 * k - s) / ((2 : Nat) : Int) = s := by simp
  have e1 : s + (((0 + 1 : Nat)) : Int) * (s + 6 * k - s) / ((2 : Nat) : Int) = s + 3 * k := by
    push_cast; omega
  have e2 : s + (((1 + 1 : Nat)) : Int) * (s + 6 * k - s) / ((2 : Nat) : Int) = s + 6 * k := by
    push_cast; omega
  simp only [e0, e1, e2]

/-! ### lifted to the antitarget bins of one chromosome -/

theorem antiChrom_size_lower_any (pad : Int) (avg : Rat) (havg : 0 < avg) (m : Int) (acc tg : List Row) :
    ∀ b ∈ antiChrom pad avg m acc tg, min m (3 / 4 * avg).floor ≤ b.e - b.s := by
  intro b hb
  obtain ⟨M, hM, hMpos, x, hx, hs, he, _⟩ := mem_antiChrom hb
  have := splitRow_size_lower_any avg havg m M (Int.le_of_lt hMpos) x hx
  omega

theorem antiChrom_size_upper_any (pad : Int) (avg : Rat) (havg : 0 < avg) (m : Int) (acc tg : List Row) :
    ∀ b ∈ antiChrom pad avg m acc tg,
      ((b.e - b.s : Int) : Rat) ≤ max (3 / 2 * avg) (5 / 4 * avg + 1) := by
  intro b hb
  obtain ⟨M, hM, hMpos, x, hx, hs, he, _⟩ := mem_antiChrom hb
  have := splitRow_size_upper_any avg havg m M (Int.le_of_lt hMpos) x hx
  rw [hs, he]
  exact this

theorem antiChrom_size_upper_int (pad : Int) (a : Int) (ha : 2 ≤ a) (m : Int) (acc tg : List Row) :
    ∀ b ∈ antiChrom pad (a : Rat) m acc tg, 2 * (b.e - b.s) ≤ 3 * a := by
  intro b hb
  obtain ⟨M, hM, hMpos, x, hx, hs, he, _⟩ := mem_antiChrom hb
  have := splitRow_size_upper_int a ha m M (Int.le_of_lt hMpos) x hx
  omega

/-- one accessible region, no target: the bins are those of the shrunk region -/
theorem antiChrom_no_targets_single (pad : Int) (avg : Rat) (m : Int) (r : Row)
    (hpos : max 0 (r.e - pad) - max 0 (r.s + pad) > 0) :
    (antiChrom pad avg m [r] []).map ivOf =
      (splitRow avg m ⟨r.chrom, max 0 (r.s + pad), max 0 (r.e - pad), r.gene⟩).map ivOf := by
  have hs : shrinkRows pad [r] = [⟨r.chrom, max 0 (r.s + pad), max 0 (r.e - pad), r.gene⟩] := by
    unfold shrinkRows
    simp only [List.map_cons, List.map_nil]
    rw [List.filter_cons_of_pos (by simpa using hpos)]
    rfl
  have hg : mergeSorted (growRows pad []) = [] := mergeSorted_nil
  have hr : antiRegionsChrom pad [r] [] = [⟨r.chrom, max 0 (r.s + pad), max 0 (r.e - pad), r.gene⟩] := by
    unfold antiRegionsChrom
    rw [hs, hg]
    rfl
  unfold antiChrom
  rw [nameAnti_ivOf, hr]
  have hm : (mergeSorted [(⟨r.chrom, max 0 (r.s + pad), max 0 (r.e - pad), r.gene⟩ : Row)]).map ivOf =
      [(⟨r.chrom, max 0 (r.s + pad), max 0 (r.e - pad), r.gene⟩ : Row)].map ivOf := by
    unfold mergeSorted sortSE
    rw [List.mergeSort_singleton]
    rfl
  have := flatMap_splitRow_congr avg m _ _ hm
  rw [this]
  simp only [List.flatMap_cons, List.flatMap_nil, List.append_nil]

/-! ### (b) `drop_noncanonical_contigs`, both branches -/

/-- `max(map(len, target_chroms))` -/
def maxTargetNameLen (tg : Table) : Nat := ((chromsInOrder tg).map String.length).foldl max 0

theorem foldl_max_ge_init (l : List Nat) (a : Nat) : a ≤ l.foldl max a := by
  induction l generalizing a with
  | nil => exact Nat.le_refl _
  | cons x xs ih => exact Nat.le_trans (Nat.le_max_left a x) (ih (max a x))

theorem foldl_max_ge_mem (l : List Nat) (a : Nat) : ∀ x ∈ l, x ≤ l.foldl max a := by
  induction l generalizing a with
  | nil => intro x hx; cases hx
  | cons y ys ih =>
    intro x hx
    rcases List.mem_cons.mp hx with rfl | hx
    · exact Nat.le_trans (Nat.le_max_right a x) (foldl_max_ge_init ys (max a x))
    · exact ih (max a y) x hx

theorem foldl_max_attained (l : List Nat) (a : Nat) : l.foldl max a = a ∨ l.foldl max a ∈ l := by
  induction l generalizing a with
  | nil => left; rfl
  | cons y ys ih =>
    rcases ih (max a y) with h | h
    · rw [List.foldl_cons, h]
      by_cases hay : a ≤ y
      · right; rw [Nat.max_eq_right hay]; exact List.mem_cons_self
      · left; exact Nat.max_eq_left (by omega)
    · right; rw [List.foldl_cons]; exact List.mem_cons_of_mem _ h

/-- no targeted contig has a longer name … -/
theorem maxTargetNameLen_ge (tg : Table) : ∀ t ∈ tg, t.chrom.length ≤ maxTargetNameLen tg := by
  intro t ht
  apply foldl_max_ge_mem
  exact List.mem_map.mpr ⟨t.chrom, (mem_chromsInOrder tg t.chrom).mpr ⟨t, ht, rfl⟩, rfl⟩

/-- … and some targeted contig has a name of exactly that length -/
theorem maxTargetNameLen_attained (tg : Table) (hne : tg ≠ []) :
    ∃ t ∈ tg, t.chrom.length = maxTargetNameLen tg := by
  rcases foldl_max_attained ((chromsInOrder tg).map String.length) 0 with h | h
  · obtain ⟨t, ht⟩ := List.exists_mem_of_ne_nil tg hne
    refine ⟨t, ht, ?_⟩
    have := maxTargetNameLen_ge tg t ht
    unfold maxTargetNameLen at this ⊢
    omega
  · obtain ⟨c, hc, hlen⟩ := List.mem_map.mp h
    obtain ⟨t, ht, rfl⟩ := (mem_chromsInOrder tg c).mp hc
    exact ⟨t, ht, hlen⟩

/-- without a canonically named target contig: skipped = accessible, untargeted, name longer than
    every targeted name -/
theorem mem_skipOf_length (acc tg : Table)
    (hany : (chromsInOrder tg).any isCanonicalName = false) (c : String) :
    c ∈ skipOf acc tg ↔
      c ∈ chromsInOrder acc ∧ c ∉ chromsInOrder tg ∧ maxTargetNameLen tg < c.length := by
  unfold skipOf maxTargetNameLen
  simp only
  rw [if_neg (by rw [hany]; decide)]
  have hcont : ((chromsInOrder tg).contains c = false) ↔ c ∉ chromsInOrder tg := by
    rw [← Bool.not_eq_true, List.contains_iff_mem]
  simp only [List.mem_filter, Bool.not_eq_eq_eq_not, Bool.not_true, and_assoc, hcont,
    decide_eq_true_eq, gt_iff_lt]

theorem any_canonical_iff (tg : Table) :
    (chromsInOrder tg).any isCanonicalName = true ↔ ∃ t ∈ tg, isCanonicalName t.chrom = true := by
  constructor
  · intro h
    obtain ⟨c, hc, hcan⟩ := List.any_eq_true.mp h
    obtain ⟨t, ht, rfl⟩ := (mem_chromsInOrder tg c).mp hc
    exact ⟨t, ht, hcan⟩
  · exact any_canonical tg

/-- the complete rule: an accessible row is kept iff its contig is targeted, or — when some targeted
    contig is canonically named — canonically named itself, or — when none is — its name is no longer
    than the longest targeted name -/
theorem dropNoncanonical_mem_iff (acc tg a : Table) (h : dropNoncanonical acc tg = .ok a) (r : Row) :
    r ∈ a ↔ r ∈ acc ∧ ((∃ t ∈ tg, t.chrom = r.chrom) ∨
      (if (∃ t ∈ tg, isCanonicalName t.chrom = true) then isCanonicalName r.chrom = true
       else r.chrom.length ≤ maxTargetNameLen tg)) := by
  rw [dropNoncanonical_ok h, List.mem_filter]
  have hns : (!(skipOf acc tg).contains r.chrom) = true ↔ r.chrom ∉ skipOf acc tg := by simp
  rw [hns]
  constructor
  · rintro ⟨hr, hn⟩
    refine ⟨hr, ?_⟩
    by_cases ht : r.chrom ∈ chromsInOrder tg
    · left; exact (mem_chromsInOrder tg r.chrom).mp ht
    · right
      have hacc : r.chrom ∈ chromsInOrder acc := (mem_chromsInOrder acc r.chrom).mpr ⟨r, hr, rfl⟩
      by_cases hc : ∃ t ∈ tg, isCanonicalName t.chrom = true
      · rw [if_pos hc]
        rw [mem_skipOf_canonical acc tg (any_canonical tg hc)] at hn
        cases hcn : isCanonicalName r.chrom with
        | true => rfl
        | false => exact absurd ⟨hacc, ht, hcn⟩ hn
      · rw [if_neg hc]
        have hany : (chromsInOrder tg).any isCanonicalName = false := by
          rw [← Bool.not_eq_true, any_canonical_iff]; exact hc
        rw [mem_skipOf_length acc tg hany] at hn
        by_cases hl : r.chrom.length ≤ maxTargetNameLen tg
        · exact hl
        · exact absurd ⟨hacc, ht, by omega⟩ hn
  · rintro ⟨hr, hrule⟩
    refine ⟨hr, ?_⟩
    intro hs
    have hunt := skipOf_untargeted acc tg r.chrom hs
    rcases hrule with ht | hrule
    · exact hunt ((mem_chromsInOrder tg r.chrom).mpr ht)
    · by_cases hc : ∃ t ∈ tg, isCanonicalName t.chrom = true
      · rw [if_pos hc] at hrule
        have := ((mem_skipOf_canonical acc tg (any_canonical tg hc) r.chrom).mp hs).2.2
        rw [hrule] at this
        cases this
      · rw [if_neg hc] at hrule
        have hany : (chromsInOrder tg).any isCanonicalName = false := by
          rw [← Bool.not_eq_true, any_canonical_iff]; exact hc
        have := ((mem_skipOf_length acc tg hany r.chrom).mp hs).2.2
        omega

/-- the kept rows keep their order (the result is a filter of the access table) -/
theorem dropNoncanonical_sublist (acc tg a : Table) (h : dropNoncanonical acc tg = .ok a) :
    a.Sublist acc := by
  rw [dropNoncanonical_ok h]
  exact List.filter_sublist

/-! ### (c) no access table: guessed chromosome extents -/

/-- end of the last row (table order) of chromosome `c` -/
def lastEndOf (tg : Table) (c : String) : Int :=
  (((tg.filter (fun r => r.chrom == c)).getLast?).map (·.e)).getD 0

theorem guessRegions_eq (tg : Table) :
    guessRegions tg =
      (chromsInOrder tg).map (fun c => ⟨c, Generated.TELOMERE_SIZE, lastEndOf tg c, ""⟩) := by
  unfold guessRegions groupByChrom lastEndOf
  rw [List.map_map]
  rfl

theorem guessRegions_chroms (tg : Table) : (guessRegions tg).map (·.chrom) = chromsInOrder tg := by
  rw [guessRegions_eq, List.map_map]
  exact List.map_id' _

theorem effectiveAccess_none (tg : Table) : effectiveAccess tg none = .ok (guessRegions tg) := rfl

theorem effectiveAccess_empty (tg : Table) : effectiveAccess tg (some []) = .ok (guessRegions tg) := rfl

theorem chromsInOrder_single_ext (c : String) (tg : Table) (hne : tg ≠ []) (hc : ∀ r ∈ tg, r.chrom = c) :
    chromsInOrder tg = [c] := by
  unfold chromsInOrder
  have hm : tg.map (·.chrom) = List.replicate tg.length c := by
    rw [List.eq_replicate_iff]
    refine ⟨by simp, ?_⟩
    intro x hx
    obtain ⟨r, hr, rfl⟩ := List.mem_map.mp hx
    exact hc r hr
  rw [hm]
  cases hl : tg.length with
  | zero => exact absurd (List.length_eq_zero_iff.mp hl) hne
  | succ n =>
    rw [List.replicate_succ, List.eraseDups_cons]
    have : (List.replicate n c).filter (fun b => !b == c) = [] := by
      rw [List.filter_eq_nil_iff]
      intro x hx
      rw [(List.mem_replicate.mp hx).2]
      simp
    rw [this]
    rfl

theorem filter_chrom_single (c : String) (tg : Table) (hc : ∀ r ∈ tg, r.chrom = c) :
    tg.filter (fun r => r.chrom == c) = tg := by
  rw [List.filter_eq_self]
  intro r hr
  rw [hc r hr]
  exact beq_self_eq_true c

/-- targets on one chromosome: the guessed extent runs from the telomere allowance to the end of
    the LAST target row -/
theorem guessRegions_single (c : String) (tg : Table) (last : Row) (hlast : tg.getLast? = some last)
    (hc : ∀ r ∈ tg, r.chrom = c) :
    guessRegions tg = [⟨c, Generated.TELOMERE_SIZE, last.e, ""⟩] := by
  have hne : tg ≠ [] := by
    intro h; rw [h] at hlast; cases hlast
  rw [guessRegions_eq, chromsInOrder_single_ext c tg hne hc]
  simp only [List.map_cons, List.map_nil]
  unfold lastEndOf
  rw [filter_chrom_single c tg hc, hlast]
  rfl

/-- base `p` lies in the one guessed region shrunk by `pad` -/
theorem inShrunk_single (pad : Int) (hpad : 0 ≤ pad) (r : Row) (hr : 0 ≤ r.s) (p : Int) :
    inShrunk pad [r] p ↔ r.s + pad ≤ p ∧ p < r.e - pad := by
  unfold inShrunk
  simp only [List.mem_singleton, exists_eq_left]
  omega

/-! ### (d) the default minimum size -/

theorem doAntitarget_none (tg : Table) (acc : Option Table) (avg : Rat) :
    doAntitarget tg acc avg none = getAntitargets tg acc avg (defaultMinSize avg) := rfl

theorem doAntitarget_zero (tg : Table) (acc : Option Table) (avg : Rat) :
    doAntitarget tg acc avg (some 0) = getAntitargets tg acc avg (defaultMinSize avg) := rfl

theorem doAntitarget_some (tg : Table) (acc : Option Table) (avg : Rat) (m : Int) (hm : m ≠ 0) :
    doAntitarget tg acc avg (some m) = getAntitargets tg acc avg m := by
  unfold doAntitarget
  have : (m == 0) = false := by simpa using hm
  simp only [this]
  rfl

end CnvVerif
