/-
  Lemmas behind Props/C11.lean, part 1: `HaarConv` of a noise-free step is the tent, of a constant is
  zero.
-/
import CnvVerif.Model.Haar
import Mathlib.Tactic.Linarith
import Mathlib.Tactic.Ring
import Mathlib.Tactic.FieldSimp
import Mathlib.Tactic.NormNum
set_option linter.unusedSimpArgs false
set_option linter.unusedVariables false
namespace CnvVerif.Haar

/-- the noise-free step: `lo` on bins `[0, b)`, `hi` on bins `[b, n)` -/
def stepSig (lo hi : Rat) (b n : Nat) : List Rat := List.replicate b lo ++ List.replicate (n - b) hi

/-- `max(0, h - |k - b|)` -/
def tent (h b k : Nat) : Nat := h - (if k ≤ b then b - k else k - b)

/-- a normalisation / rounding that keeps 0 and the strict order (exact division by a positive constant does) -/
def SignMono (g : Rat → Rat) : Prop := g 0 = 0 ∧ ∀ x y, x < y → g x < g y

theorem nth_toArray (l : List Rat) (i : Nat) : nth l.toArray i = l.getD i 0 := by
  simp only [nth, Array.getD, List.getD_eq_getElem?_getD, List.size_toArray, List.getElem_toArray]
  split
  · rename_i hlt; simp [List.getElem?_eq_getElem hlt]
  · rename_i hlt; simp [List.getElem?_eq_none (Nat.le_of_not_lt hlt)]

theorem haarRawGo_length (a : Array Rat) (n h fuel k : Nat) (prev : Rat) :
    (haarRawGo a n h fuel k prev).length = fuel := by
  induction fuel generalizing k prev with
  | zero => rfl
  | succ f ih => simp [haarRawGo, ih]

theorem haarConvRaw_length (sig : List Rat) (h : Nat) : (haarConvRaw sig h).length = sig.length := by
  unfold haarConvRaw
  split
  · simp
  · split
    · rename_i h0; simp [h0]
    · rename_i m hm; simp [haarRawGo_length, hm]

/-- the loop computes any sequence `f` that satisfies its recurrence -/
theorem haarRawGo_eq (a : Array Rat) (n h : Nat) (f : Nat → Rat) (fuel k0 : Nat) (prev : Rat)
    (hprev : prev = f (k0 - 1))
    (hf : ∀ k, k0 ≤ k → k < k0 + fuel →
      f k = f (k - 1) + nth a (hiIdx n h k) + nth a (loIdx h k) - 2 * nth a (k - 1)) :
    haarRawGo a n h fuel k0 prev = (List.range' k0 fuel).map f := by
  induction fuel generalizing k0 prev with
  | zero => simp [haarRawGo]
  | succ fu ih =>
    have hv : prev + nth a (hiIdx n h k0) + nth a (loIdx h k0) - 2 * nth a (k0 - 1) = f k0 := by
      rw [hprev]; exact (hf k0 (Nat.le_refl _) (by omega)).symm
    simp only [haarRawGo, List.range'_succ, List.map_cons, hv]
    congr 1
    apply ih
    · simp
    · intro k hk1 hk2
      exact hf k (by omega) (by omega)

/-- indicator of the upper plateau -/
def dl (b i : Nat) : Int := if b ≤ i then 1 else 0

theorem hiIdx_lt (n h k : Nat) (hk : k < n) : hiIdx n h k < n := by
  unfold hiIdx; split <;> omega

theorem loIdx_lt (n h k : Nat) (hh : h ≤ n) (hk1 : 1 ≤ k) (hk : k < n) : loIdx h k < n := by
  unfold loIdx; split <;> omega

theorem tent_step (b n h k : Nat) (h1 : 1 ≤ h) (hb : h ≤ b) (hn : b + h ≤ n) (hk1 : 1 ≤ k) (hkn : k < n) :
    (tent h b k : Int)
      = (tent h b (k - 1) : Int) + dl b (hiIdx n h k) + dl b (loIdx h k) - 2 * dl b (k - 1) := by
  unfold tent hiIdx loIdx dl
  split_ifs <;> omega

theorem getD_stepSig (lo hi : Rat) (b n i : Nat) (hbn : b ≤ n) (hi' : i < n) :
    (stepSig lo hi b n).getD i 0 = lo + (hi - lo) * (dl b i : Rat) := by
  unfold stepSig dl
  by_cases hib : i < b
  · have : ¬ b ≤ i := by omega
    simp [List.getD_eq_getElem?_getD, List.getElem?_append, List.getElem?_replicate, hib, this]
  · have h2 : b ≤ i := by omega
    have h3 : i - b < n - b := by omega
    simp [List.getD_eq_getElem?_getD, List.getElem?_append, List.getElem?_replicate, hib, h2, h3]

theorem stepSig_length (lo hi : Rat) (b n : Nat) (hbn : b ≤ n) : (stepSig lo hi b n).length = n := by
  simp [stepSig]; omega

/-- the un-normalised response to a step of height `hi - lo` at `b` is the tent `(hi - lo) * max(0, h - |k - b|)`,
as soon as the half-window fits on both sides -/
theorem haarConvRaw_ideal_step (lo hi : Rat) (b n h : Nat) (h1 : 1 ≤ h) (hb : h ≤ b) (hn : b + h ≤ n) :
    haarConvRaw (stepSig lo hi b n) h = (List.range n).map (fun k => (hi - lo) * (tent h b k : Rat)) := by
  have hbn : b ≤ n := by omega
  have hlen := stepSig_length lo hi b n hbn
  unfold haarConvRaw
  rw [hlen, if_neg (by omega)]
  obtain ⟨m, rfl⟩ : ∃ m, n = m + 1 := ⟨n - 1, by omega⟩
  show 0 :: haarRawGo (stepSig lo hi b (m + 1)).toArray (m + 1) h m 1 0 = _
  rw [haarRawGo_eq _ _ _ (fun k => (hi - lo) * (tent h b k : Rat)) m 1 0]
  · rw [List.range_eq_range', List.range'_succ, List.map_cons]
    have : tent h b 0 = 0 := by unfold tent; simp; omega
    simp [this]
  · have : tent h b 0 = 0 := by unfold tent; simp; omega
    simp [this]
  · intro k hk1 hk2
    have hkn : k < m + 1 := by omega
    have e := tent_step b (m + 1) h k h1 hb hn hk1 hkn
    have eq : ((tent h b k : Int) : Rat)
        = (tent h b (k - 1) : Int) + dl b (hiIdx (m + 1) h k) + dl b (loIdx h k) - 2 * dl b (k - 1) := by
      rw [e]; push_cast; ring
    simp only [Int.cast_natCast] at eq
    rw [nth_toArray, nth_toArray, nth_toArray,
      getD_stepSig lo hi b (m + 1) _ hbn (hiIdx_lt _ _ _ hkn),
      getD_stepSig lo hi b (m + 1) _ hbn (loIdx_lt _ _ _ (by omega) hk1 hkn),
      getD_stepSig lo hi b (m + 1) _ hbn (show k - 1 < m + 1 by omega)]
    show (hi - lo) * (tent h b k : Rat) = _
    rw [eq]; ring

theorem getD_replicate_lt (c : Rat) (n i : Nat) (hi : i < n) : (List.replicate n c).getD i 0 = c := by
  simp [List.getD_eq_getElem?_getD, List.getElem?_replicate, hi]

theorem haarConvRaw_const (c : Rat) (n h : Nat) : haarConvRaw (List.replicate n c) h = List.replicate n 0 := by
  unfold haarConvRaw
  rw [List.length_replicate]
  split
  · rfl
  · rename_i hh
    cases n with
    | zero => rfl
    | succ m =>
      show 0 :: haarRawGo (List.replicate (m + 1) c).toArray (m + 1) h m 1 0 = _
      rw [haarRawGo_eq _ _ _ (fun _ => (0 : Rat)) m 1 0 rfl]
      · simp [List.replicate_succ]
      · intro k hk1 hk2
        have hkn : k < m + 1 := by omega
        rw [nth_toArray, nth_toArray, nth_toArray,
          getD_replicate_lt c _ _ (hiIdx_lt _ _ _ hkn),
          getD_replicate_lt c _ _ (loIdx_lt _ _ _ (by omega) hk1 hkn),
          getD_replicate_lt c _ _ (show k - 1 < m + 1 by omega)]
        ring

theorem haarConv_ideal_step (rnd : Rat → Rat) (hr : rnd 0 = 0) (norm lo hi : Rat) (b n h : Nat)
    (h1 : 1 ≤ h) (hb : h ≤ b) (hn : b + h ≤ n) :
    haarConv rnd norm (stepSig lo hi b n) h
      = (List.range n).map (fun k => rnd ((hi - lo) * (tent h b k : Rat) / norm)) := by
  have hbn : b ≤ n := by omega
  unfold haarConv
  rw [stepSig_length lo hi b n hbn, if_neg (by omega), haarConvRaw_ideal_step lo hi b n h h1 hb hn]
  obtain ⟨m, rfl⟩ : ∃ m, n = m + 1 := ⟨n - 1, by omega⟩
  have ht : tent h b 0 = 0 := by unfold tent; simp; omega
  rw [List.range_eq_range', List.range'_succ]
  simp [ht, hr]

theorem haarConv_const (rnd : Rat → Rat) (hr : rnd 0 = 0) (norm c : Rat) (n h : Nat) :
    haarConv rnd norm (List.replicate n c) h = List.replicate n 0 := by
  unfold haarConv
  rw [haarConvRaw_const]
  split
  · rfl
  · cases n with
    | zero => rfl
    | succ m => simp [List.replicate_succ, hr]

end CnvVerif.Haar
