/-
  Helper lemmas for property C18 (VCF genotypes -> allele frequencies -> per-segment BAF).
-/
import CnvVerif.Model.Vcf
import CnvVerif.Lemmas.Ranges
import Mathlib.Tactic.Linarith
import Mathlib.Tactic.Ring
import Mathlib.Tactic.FieldSimp
import Mathlib.Tactic.NormNum
namespace CnvVerif.Vcf
open CnvVerif

/-! ## records -/

/-- a biallelic site: exactly one ALT allele, and it is not the gVCF placeholder -/
def Biallelic (r : Rec) : Prop := ∃ a, r.alts = [a] ∧ a ≠ "<NON_REF>"

/-- the row the property describes for a biallelic record: 0-based start, the genotype columns
    of the chosen sample (and of the paired normal), the SOMATIC flag -/
def recRow (si : Nat) (ni : Option Nat) (r : Rec) : VRow :=
  { chrom := r.chrom, s := r.pos - 1, e := r.pos - 1 + ((r.alts.headD "").length : Nat), ref := r.ref,
    alt := r.alts.headD "", somatic := r.somatic,
    t := genoOf (r.smps[si]?.getD default) r,
    n := ni.map (fun j => genoOf (r.smps[j]?.getD default) r) }

theorem rowsOfRec_biallelic (si : Nat) (ni : Option Nat) (r : Rec) (h : Biallelic r) :
    rowsOfRec si ni r = [recRow si ni r] := by
  obtain ⟨a, ha, hne⟩ := h
  simp [rowsOfRec, recRow, endOf, ha, hne]

theorem parseRecords_biallelic (si : Nat) (ni : Option Nat) (recs : List Rec)
    (h : ∀ r ∈ recs, Biallelic r) :
    parseRecords si ni false recs = recs.map (recRow si ni) := by
  induction recs with
  | nil => simp [parseRecords]
  | cons r t ih =>
    have ih' := ih (fun x hx => h x (List.mem_cons_of_mem _ hx))
    simp only [parseRecords, Bool.false_and, Bool.not_false, List.filter_true] at ih' ⊢
    rw [List.flatMap_cons, ih', rowsOfRec_biallelic si ni r (h r (by simp))]
    simp

/-! ## the table `tabio.read` returns -/

/-- what `readVcf` computes once the samples are chosen -/
theorem readVcf_eq (samples : List String) (tags : List PedTag) (recs : List Rec) (o : ReadOpts)
    (sid : String) (nid : Option String)
    (hc : chooseSamples samples tags o.sid o.nid = .ok (sid, nid)) :
    readVcf samples tags recs o = .ok
      { paired := (truthy nid).isSome &&
          !(o.skipSomatic && (parseRecords (samples.idxOf sid) ((truthy nid).map (fun n => samples.idxOf n))
              o.skipReject recs).isEmpty),
        rows := sortV (somaticFilter o.skipSomatic (depthFilter o.minDepth
          (parseRecords (samples.idxOf sid) ((truthy nid).map (fun n => samples.idxOf n)) o.skipReject recs))) } := by
  unfold readVcf
  rw [hc]
  rfl

theorem readVcf_error (samples : List String) (tags : List PedTag) (recs : List Rec) (o : ReadOpts)
    (e : VErr) (hc : chooseSamples samples tags o.sid o.nid = .error e) :
    readVcf samples tags recs o = .error e := by
  unfold readVcf
  rw [hc]
  rfl

theorem mem_sortV (r : VRow) (rows : List VRow) : r ∈ sortV rows ↔ r ∈ rows := by
  unfold sortV
  exact List.mem_mergeSort

theorem sortV_perm (rows : List VRow) : (sortV rows).Perm rows := List.mergeSort_perm rows _

theorem sortV_length (rows : List VRow) : (sortV rows).length = rows.length := (sortV_perm rows).length_eq

theorem mem_somaticFilter (b : Bool) (rows : List VRow) (r : VRow) :
    r ∈ somaticFilter b rows ↔ r ∈ rows ∧ (b = true → r.somatic = false) := by
  unfold somaticFilter
  cases b <;> simp

theorem mem_depthFilter_none (rows : List VRow) (r : VRow) : r ∈ depthFilter none rows ↔ r ∈ rows := by
  simp [depthFilter]

/-- the depth filter, when a non-zero minimum is asked for and the file carries depths:
    exactly the rows whose (normal, if paired) depth reaches the minimum -/
theorem mem_depthFilter (m : Int) (hm : m ≠ 0) (rows : List VRow)
    (hany : ∃ x ∈ rows, x.t.depth ≠ 0) (r : VRow) :
    r ∈ depthFilter (some m) rows ↔ r ∈ rows ∧ filterDepth r ≥ (m : Rat) := by
  have h : rows.any (fun r => r.t.depth != 0) = true := by
    obtain ⟨x, hx, hd⟩ := hany
    exact List.any_eq_true.mpr ⟨x, hx, by simpa using hd⟩
  simp [depthFilter, hm, h]

/-- without any depth in the file (or with a minimum of 0) nothing is filtered -/
theorem depthFilter_noinfo (m : Int) (rows : List VRow) (h : ∀ x ∈ rows, x.t.depth = 0) :
    depthFilter (some m) rows = rows := by
  have h' : rows.any (fun r => r.t.depth != 0) = false := by
    apply List.any_eq_false.mpr
    intro x hx
    simp [h x hx]
  simp [depthFilter, h']

/-! ### the sort order -/

theorem string_trichotomy (a b : String) : a < b ∨ a = b ∨ b < a := by
  by_cases h1 : a < b
  · exact Or.inl h1
  · by_cases h2 : b < a
    · exact Or.inr (Or.inr h2)
    · exact Or.inr (Or.inl (String.le_antisymm (String.not_lt.mp h2) (String.not_lt.mp h1)))

theorem chromKeyLt_iff (a b : Nat × String) :
    chromKeyLt a b = true ↔ a.1 < b.1 ∨ (a.1 = b.1 ∧ a.2 < b.2) := by
  simp [chromKeyLt]

theorem chromKey_trichotomy (a b : Nat × String) :
    chromKeyLt a b = true ∨ a = b ∨ chromKeyLt b a = true := by
  obtain ⟨a1, a2⟩ := a
  obtain ⟨b1, b2⟩ := b
  simp only [chromKeyLt_iff, Prod.mk.injEq]
  rcases Nat.lt_trichotomy a1 b1 with h | h | h
  · left; left; exact h
  · subst h
    rcases string_trichotomy a2 b2 with h2 | h2 | h2
    · left; right; exact ⟨rfl, h2⟩
    · right; left; exact ⟨rfl, h2⟩
    · right; right; right; exact ⟨rfl, h2⟩
  · right; right; left; exact h

theorem chromKeyLt_trans {a b c : Nat × String} (h1 : chromKeyLt a b = true) (h2 : chromKeyLt b c = true) :
    chromKeyLt a c = true := by
  rw [chromKeyLt_iff] at *
  rcases h1 with h1 | ⟨h1, h1'⟩ <;> rcases h2 with h2 | ⟨h2, h2'⟩
  · left; omega
  · left; omega
  · left; omega
  · right; exact ⟨by omega, String.lt_trans h1' h2'⟩

def keyLe (a b : VRow) : Bool := sortLe a.key b.key

theorem keyLe_iff (a b : VRow) :
    keyLe a b = true ↔ chromKeyLt (sorterChrom a.chrom) (sorterChrom b.chrom) = true ∨
      (sorterChrom a.chrom = sorterChrom b.chrom ∧ (a.s < b.s ∨ (a.s = b.s ∧ a.e ≤ b.e))) := by
  simp only [keyLe, sortLe, VRow.key, Bool.or_eq_true, Bool.and_eq_true, beq_iff_eq]
  grind

theorem keyLe_total (a b : VRow) : (keyLe a b || keyLe b a) = true := by
  rw [Bool.or_eq_true, keyLe_iff, keyLe_iff]
  rcases chromKey_trichotomy (sorterChrom a.chrom) (sorterChrom b.chrom) with h | h | h
  · left; left; exact h
  · by_cases h1 : a.s < b.s
    · left; right; exact ⟨h, Or.inl h1⟩
    · by_cases h2 : b.s < a.s
      · right; right; exact ⟨h.symm, Or.inl h2⟩
      · have hs : a.s = b.s := by omega
        by_cases h3 : a.e ≤ b.e
        · left; right; exact ⟨h, Or.inr ⟨hs, h3⟩⟩
        · right; right; exact ⟨h.symm, Or.inr ⟨hs.symm, by omega⟩⟩
  · right; left; exact h

theorem keyLe_trans (a b c : VRow) (h1 : keyLe a b = true) (h2 : keyLe b c = true) : keyLe a c = true := by
  rw [keyLe_iff] at *
  rcases h1 with h1 | ⟨k1, h1⟩ <;> rcases h2 with h2 | ⟨k2, h2⟩
  · left; exact chromKeyLt_trans h1 h2
  · left; rw [← k2]; exact h1
  · left; rw [k1]; exact h2
  · right
    refine ⟨k1.trans k2, ?_⟩
    rcases h1 with h1 | ⟨h1, h1'⟩ <;> rcases h2 with h2 | ⟨h2, h2'⟩
    · left; omega
    · left; omega
    · left; omega
    · right; exact ⟨by omega, by omega⟩

/-- rows in cnvkit's order: chromosome key, then start, then end -/
abbrev SortedV (t : List VRow) : Prop := t.Pairwise (fun a b => keyLe a b = true)

theorem sortV_sorted (rows : List VRow) : SortedV (sortV rows) :=
  List.pairwise_mergeSort keyLe_trans keyLe_total rows

/-! ## genotype columns -/

/-- alt_freq = alt_count / depth wherever a depth was counted -/
theorem genoOf_altFreq (s : Smp) (r : Rec) (h : (genoOf s r).depth ≠ 0) :
    (genoOf s r).altFreq = .fin ((genoOf s r).altCount / (genoOf s r).depth) := by
  unfold genoOf at h ⊢
  simp only at h ⊢
  cases hd : depthOf s r with
  | none => simp [hd] at h
  | some d =>
    have hd0 : d ≠ 0 := by
      intro e
      simp [hd, e] at h
    cases ha : altCountOf s with
    | none => simp [freqOf]
    | some a => simp [freqOf, hd0]

/-- with no depth (missing, or 0 with no alt reads) the frequency is reported as 0 -/
theorem genoOf_altFreq_nodepth (s : Smp) (r : Rec) (h : depthOf s r = none ∨ altCountOf s = none) :
    (genoOf s r).altFreq = .fin 0 := by
  unfold genoOf
  rcases h with h | h <;> simp [h, freqOf]

theorem eraseDups_eq_nil {α} [BEq α] (l : List α) : l.eraseDups = [] ↔ l = [] := by
  cases l with
  | nil => simp
  | cons a t => simp [List.eraseDups_cons]

/-- more than one distinct entry -/
theorem eraseDups_length_gt_one (l : List (Option Int)) :
    l.eraseDups.length > 1 ↔ ∃ a ∈ l, ∃ b ∈ l, a ≠ b := by
  cases l with
  | nil => simp
  | cons x t =>
    rw [List.eraseDups_cons]
    simp only [List.length_cons, gt_iff_lt, Nat.lt_add_left_iff_pos, List.length_pos_iff, ne_eq,
      eraseDups_eq_nil, List.filter_eq_nil_iff, not_forall]
    constructor
    · rintro ⟨b, hb, hne⟩
      exact ⟨x, by simp, b, by simp [hb], by
        intro e
        apply hne
        simp [e]⟩
    · rintro ⟨a, ha, b, hb, hab⟩
      by_cases hax : a = x
      · by_cases hbx : b = x
        · exact absurd (hax.trans hbx.symm) hab
        · rcases List.mem_cons.mp hb with e | hb'
          · exact absurd e hbx
          · exact ⟨b, hb', by simpa using hbx⟩
      · rcases List.mem_cons.mp ha with e | ha'
        · exact absurd e hax
        · exact ⟨a, ha', by simpa using hax⟩

theorem zygosityOf_values (gt : List (Option Int)) :
    zygosityOf gt = 0 ∨ zygosityOf gt = 1/2 ∨ zygosityOf gt = 1 := by
  unfold zygosityOf
  split
  · right; left; rfl
  · split
    · left; rfl
    · right; right; rfl

theorem zygosityOf_half (gt : List (Option Int)) :
    zygosityOf gt = 1/2 ↔ ∃ a ∈ gt, ∃ b ∈ gt, a ≠ b := by
  rw [← eraseDups_length_gt_one]
  unfold zygosityOf
  split
  · simp [*]
  · rename_i h
    split <;> simp [h]

theorem all_eq_head_of_no_two (gt : List (Option Int)) (h : ¬ ∃ a ∈ gt, ∃ b ∈ gt, a ≠ b)
    (x : Option Int) (hx : x ∈ gt) : gt.head? = some x := by
  cases gt with
  | nil => simp at hx
  | cons y t =>
    simp only [List.head?_cons, Option.some.injEq]
    by_contra hne
    exact h ⟨y, by simp, x, hx, hne⟩

/-- zygosity 0: a genotype all of whose alleles are the reference -/
theorem zygosityOf_zero (gt : List (Option Int)) (hne : gt ≠ []) :
    zygosityOf gt = 0 ↔ ∀ a ∈ gt, a = some 0 := by
  constructor
  · intro hz
    have hnh : ¬ ∃ a ∈ gt, ∃ b ∈ gt, a ≠ b := by
      intro hh
      have := (zygosityOf_half gt).mpr hh
      rw [hz] at this
      norm_num at this
    have hlen : ¬ gt.eraseDups.length > 1 := fun hl => hnh ((eraseDups_length_gt_one gt).mp hl)
    unfold zygosityOf at hz
    rw [if_neg hlen] at hz
    split at hz
    · rename_i hh
      intro a ha
      have := all_eq_head_of_no_two gt hnh a ha
      have hh' : gt.head? = some (some 0) := by simpa using hh
      rw [hh'] at this
      exact (Option.some.inj this).symm
    · norm_num at hz
  · intro hall
    have hnh : ¬ ∃ a ∈ gt, ∃ b ∈ gt, a ≠ b := by
      rintro ⟨a, ha, b, hb, hab⟩
      exact hab ((hall a ha).trans (hall b hb).symm)
    have hlen : ¬ gt.eraseDups.length > 1 := fun hl => hnh ((eraseDups_length_gt_one gt).mp hl)
    unfold zygosityOf
    rw [if_neg hlen]
    cases gt with
    | nil => exact absurd rfl hne
    | cons y t =>
      have := hall y (by simp)
      simp [this]

/-- zygosity 1: one allele throughout, and it is not the reference -/
theorem zygosityOf_one (gt : List (Option Int)) (hne : gt ≠ []) :
    zygosityOf gt = 1 ↔ (∀ a ∈ gt, ∀ b ∈ gt, a = b) ∧ ∃ a ∈ gt, a ≠ some 0 := by
  constructor
  · intro h1
    have hnh : ¬ ∃ a ∈ gt, ∃ b ∈ gt, a ≠ b := by
      intro hh
      have := (zygosityOf_half gt).mpr hh
      rw [h1] at this
      norm_num at this
    refine ⟨fun a ha b hb => by
      by_contra hab
      exact hnh ⟨a, ha, b, hb, hab⟩, ?_⟩
    by_contra hno
    have hall : ∀ a ∈ gt, a = some 0 := by
      intro a ha
      by_contra hne'
      exact hno ⟨a, ha, hne'⟩
    have := (zygosityOf_zero gt hne).mpr hall
    rw [h1] at this
    norm_num at this
  · rintro ⟨hall, a, ha, ha0⟩
    rcases zygosityOf_values gt with h | h | h
    · exact absurd ((zygosityOf_zero gt hne).mp h a ha) ha0
    · obtain ⟨x, hx, y, hy, hxy⟩ := (zygosityOf_half gt).mp h
      exact absurd (hall x hx y hy) hxy
    · exact h

/-! ## heterozygous records -/

theorem isHet_iff (r : VRow) : isHet r = true ↔ germZyg r ≠ 0 ∧ germZyg r ≠ 1 := by
  simp [isHet]

/-- with zygosities drawn from {0, 0.5, 1}, "heterozygous" is zygosity 0.5 of the germline sample -/
theorem isHet_iff_half (r : VRow) (hv : germZyg r = 0 ∨ germZyg r = 1/2 ∨ germZyg r = 1) :
    isHet r = true ↔ germZyg r = 1/2 := by
  rw [isHet_iff]
  rcases hv with h | h | h <;> rw [h] <;> norm_num

theorem heterozygous_eq_filter (rows : List VRow) (h : ∃ r ∈ rows, isHet r = true) :
    heterozygous rows = rows.filter isHet := by
  have : rows.any isHet = true := List.any_eq_true.mpr h
  simp [heterozygous, this]

/-- the documented fallback (open finding X): no heterozygous record at all -> every record -/
theorem heterozygous_fallback (rows : List VRow) (h : ∀ r ∈ rows, isHet r = false) :
    heterozygous rows = rows := by
  have : rows.any isHet = false := List.any_eq_false.mpr (fun r hr => by simp [h r hr])
  simp [heterozygous, this]

theorem keepTN_of_isHet (r : VRow) (h : isHet r = true) : keepTN r = true := by
  rw [isHet_iff] at h
  unfold keepTN
  cases hn : r.n with
  | none => simp
  | some g =>
    have : germZyg r = g.zyg := by simp [germZyg, hn]
    rw [this] at h
    simp [h.1]

theorem filter_keepTN_filter_isHet (rows : List VRow) :
    (rows.filter keepTN).filter isHet = rows.filter isHet := by
  rw [List.filter_filter]
  apply List.filter_congr
  intro r _
  cases h : isHet r
  · simp
  · simp [keepTN_of_isHet r h]

/-- dropping T/N-somatic rows and then taking the heterozygous ones = the germline-heterozygous
    rows of the table, whenever there is one -/
theorem hetStage_eq (paired : Bool) (rows : List VRow) (h : ∃ r ∈ rows, isHet r = true) :
    hetStage paired rows = rows.filter isHet := by
  unfold hetStage
  cases paired
  · simpa using heterozygous_eq_filter rows h
  · simp only [if_true]
    obtain ⟨r, hr, hh⟩ := h
    rw [heterozygous_eq_filter _ ⟨r, List.mem_filter.mpr ⟨hr, keepTN_of_isHet r hh⟩, hh⟩]
    exact filter_keepTN_filter_isHet rows

/-! ## mirroring -/

theorem absQ_nonneg (q : Rat) : 0 ≤ absQ q := by
  unfold absQ
  split <;> linarith

theorem mirrorOne_above (v : Rat) : 1/2 ≤ mirrorOne true v := by
  have := absQ_nonneg (v - 1/2)
  simp only [mirrorOne, if_true]
  linarith

theorem mirrorOne_below (v : Rat) : mirrorOne false v ≤ 1/2 := by
  have := absQ_nonneg (v - 1/2)
  simp only [mirrorOne, Bool.false_eq_true, if_false]
  linarith

/-- mirroring keeps the distance from 0.5 -/
theorem mirrorOne_dist (b : Bool) (v : Rat) : absQ (mirrorOne b v - 1/2) = absQ (v - 1/2) := by
  have h := absQ_nonneg (v - 1/2)
  cases b
  · simp only [mirrorOne, Bool.false_eq_true, if_false]
    have e : (1/2 - absQ (v - 1/2) - 1/2 : Rat) = - absQ (v - 1/2) := by ring
    rw [e]
    generalize absQ (v - 1/2) = a at h
    unfold absQ
    split
    · ring
    · have : a = 0 := by linarith
      rw [this]; ring
  · simp only [mirrorOne, if_true]
    have e : (1/2 + absQ (v - 1/2) - 1/2 : Rat) = absQ (v - 1/2) := by ring
    rw [e]
    generalize absQ (v - 1/2) = a at h
    unfold absQ
    split
    · linarith
    · rfl

/-- a value already on the chosen side is left alone -/
theorem mirrorOne_fixed (v : Rat) : mirrorOne (decide (v > 1/2)) v = v := by
  unfold mirrorOne absQ
  by_cases h : v > 1/2
  · have h2 : ¬ (v - 1/2 < 0) := by linarith
    simp only [h, decide_true, if_true, h2, if_false]
    ring
  · simp only [h, decide_false, Bool.false_eq_true, if_false]
    by_cases h3 : v - 1/2 < 0
    · simp only [h3, if_true]; ring
    · have : v = 1/2 := by linarith
      simp only [h3, if_false]; rw [this]; ring

theorem mirroredBaf_length (vals : List (Option Rat)) (a : Option Bool) :
    (mirroredBaf vals a).length = vals.length := by
  simp [mirroredBaf]

/-- all mirrored values lie on one side of 0.5 -/
theorem mirroredBaf_one_side (vals : List (Option Rat)) (a : Option Bool) :
    (∀ q, some q ∈ mirroredBaf vals a → 1/2 ≤ q) ∨ (∀ q, some q ∈ mirroredBaf vals a → q ≤ 1/2) := by
  unfold mirroredBaf
  cases h : mirrorAbove vals a
  · right
    intro q hq
    obtain ⟨v, _, hv⟩ := List.mem_map.mp hq
    cases v with
    | none => simp at hv
    | some x =>
      simp only [Option.map_some, Option.some.injEq] at hv
      rw [← hv]; exact mirrorOne_below x
  · left
    intro q hq
    obtain ⟨v, _, hv⟩ := List.mem_map.mp hq
    cases v with
    | none => simp at hv
    | some x =>
      simp only [Option.map_some, Option.some.injEq] at hv
      rw [← hv]; exact mirrorOne_above x

/-- the side asked for is the side taken -/
theorem mirroredBaf_side (vals : List (Option Rat)) (b : Bool) (q : Rat)
    (hq : some q ∈ mirroredBaf vals (some b)) : if b then 1/2 ≤ q else q ≤ 1/2 := by
  unfold mirroredBaf mirrorAbove at hq
  obtain ⟨v, _, hv⟩ := List.mem_map.mp hq
  cases v with
  | none => simp at hv
  | some x =>
    simp only [Option.map_some, Option.some.injEq] at hv
    rw [← hv]
    cases b
    · simpa using mirrorOne_below x
    · simpa using mirrorOne_above x

theorem median_single (x : Rat) : median [x] = some x := by
  simp [median, sortQ, insertQ]

/-- one value is its own mirrored median: the single-value shortcut of `into_ranges` agrees with
    the definition when the side is left to the data -/
theorem summarize_single (v : Option Rat) : summarize none [v] = v := by
  cases v with
  | none => simp [summarize, mirroredBaf, nanmedian, median, sortQ]
  | some x =>
    simp only [summarize, mirroredBaf, mirrorAbove, nanmedian, List.filterMap_cons, List.filterMap_nil,
      id_eq, List.map_cons, List.map_nil, Option.map_some, median_single]
    rw [mirrorOne_fixed]

theorem series2value_none (vs : List (Option Rat)) : series2value none vs = summarize none vs := by
  match vs with
  | [] => simp [series2value, summarize, mirroredBaf, nanmedian, median, sortQ]
  | [v] => simp [series2value, summarize_single]
  | _ :: _ :: _ => simp [series2value]

/-! ## TumorBoost and purity -/

theorem tumorBoost_lt (t n : Rat) (h : t < n) (hn : n ≠ 0) :
    ∃ b, tumorBoost t n = some b ∧ b * (2 * n) = t := by
  refine ⟨t / (2 * n), by simp [tumorBoost, h, hn], ?_⟩
  field_simp

theorem tumorBoost_ge (t n : Rat) (h : ¬ t < n) (hn : n ≠ 1) :
    ∃ b, tumorBoost t n = some b ∧ (1 - b) * (2 * (1 - n)) = 1 - t := by
  refine ⟨1 - (1 - t) / (2 * (1 - n)), by simp [tumorBoost, h, hn], ?_⟩
  have : (1 - n) ≠ 0 := by
    intro e
    apply hn
    linarith
  field_simp
  ring

/-- a normal at exactly 0.5 leaves the tumour frequency as it is -/
theorem tumorBoost_half (t : Rat) : tumorBoost t (1/2) = some t := by
  unfold tumorBoost
  by_cases h : t < 1/2
  · simp only [h, if_true]
    norm_num
  · simp only [h, if_false]
    norm_num

/-- the rescaled BAF mixes back to the observed one: t·p + n·(1−p) = obs -/
theorem rescaleBaf_inverts (p obs n : Rat) (hp : p ≠ 0) :
    rescaleBaf p obs n * p + n * (1 - p) = obs := by
  unfold rescaleBaf
  field_simp
  ring

theorem rescaleBaf_pure (obs n : Rat) : rescaleBaf 1 obs n = obs := by
  unfold rescaleBaf
  norm_num

/-! ## load_het_snps -/

/-- the thresholds stay off when none are asked for and the normal (if any) carries genotypes -/
theorem effectiveZygFreq_none (o : HetOpts) (tb : VTable) (hz : o.zygFreq = none)
    (hn : tb.paired = true → ∃ r ∈ tb.rows, ∃ g, r.n = some g ∧ g.zyg ≠ 0) :
    effectiveZygFreq o tb = none := by
  unfold effectiveZygFreq
  rw [hz]
  cases hp : tb.paired
  · simp
  · obtain ⟨r, hr', g, hg, hg0⟩ := hn hp
    have : normalUntyped tb.rows = false := by
      unfold normalUntyped
      have : tb.rows.any (fun r => (r.n.map (fun g => g.zyg != 0)).getD false) = true :=
        List.any_eq_true.mpr ⟨r, hr', by simp [hg, hg0]⟩
      simp [this]
    simp [this]

/-- `load_het_snps` on a file whose chosen germline sample has a heterozygous record: exactly the
    germline-heterozygous rows of the table read with the depth filter and without SOMATIC records -/
theorem loadHetSnps_rows (samples : List String) (tags : List PedTag) (recs : List Rec)
    (o : HetOpts) (tb : VTable)
    (hr : readVcf samples tags recs
            { sid := o.sid, nid := o.nid, minDepth := o.minDepth,
              skipReject := false, skipSomatic := true } = .ok tb)
    (hz : o.zygFreq = none) (hb : o.tumorBoost = false)
    (hn : tb.paired = true → ∃ r ∈ tb.rows, ∃ g, r.n = some g ∧ g.zyg ≠ 0)
    (hh : ∃ r ∈ tb.rows, isHet r = true) :
    loadHetSnps samples tags recs o = .ok { paired := tb.paired, rows := tb.rows.filter isHet } := by
  unfold loadHetSnps
  rw [hr]
  simp only [bind, Except.bind, effectiveZygFreq_none o tb hz hn, retype, hb, boostStage,
    hetStage_eq tb.paired tb.rows hh, pure, Except.pure]
  rfl

/-- the same with genotypes re-derived from the frequencies (`zygosity_freq` given) -/
theorem loadHetSnps_rows_freq (samples : List String) (tags : List PedTag) (recs : List Rec)
    (o : HetOpts) (tb : VTable) (het hom : Rat)
    (hr : readVcf samples tags recs
            { sid := o.sid, nid := o.nid, minDepth := o.minDepth,
              skipReject := false, skipSomatic := true } = .ok tb)
    (hz : o.zygFreq = some (het, hom)) (hv : 0 ≤ het ∧ het ≤ hom ∧ hom ≤ 1) (hb : o.tumorBoost = false)
    (hh : ∃ r ∈ zygosityFromFreq het hom tb.rows, isHet r = true) :
    loadHetSnps samples tags recs o =
      .ok { paired := tb.paired, rows := (zygosityFromFreq het hom tb.rows).filter isHet } := by
  unfold loadHetSnps
  rw [hr]
  simp only [bind, Except.bind, effectiveZygFreq, hz, retype, hv, and_self, if_true, hb, boostStage,
    hetStage_eq tb.paired _ hh, pure, Except.pure]
  rfl

/-- TumorBoost inside `load_het_snps`: every row keeps its coordinates and genotypes and gets the
    value computed from its own tumour and normal frequencies -/
theorem boostStage_attached (rows out : List VRow) (h : boostStage true true rows = .ok out) :
    out.length = rows.length ∧
    ∀ i (hi : i < rows.length) (ho : i < out.length),
      out[i].chrom = rows[i].chrom ∧ out[i].s = rows[i].s ∧ out[i].e = rows[i].e ∧
      out[i].n = rows[i].n ∧ out[i].t.zyg = rows[i].t.zyg ∧ out[i].t.altFreq = boostRow rows[i] := by
  simp only [boostStage, if_true, Except.ok.injEq] at h
  subst h
  refine ⟨by simp, ?_⟩
  intro i hi ho
  simp

/-- `boostRow` of a paired row with finite frequencies is the TumorBoost formula on that row -/
theorem boostRow_formula (r : VRow) (g : Geno) (t n : Rat) (hn : r.n = some g)
    (ht : r.t.altFreq = .fin t) (hg : g.altFreq = .fin n) :
    boostRow r = ofOpt (tumorBoost t n) := by
  simp [boostRow, hn, ht, hg, Freq.toOpt]

