/-
  Helper lemmas for property C18 (VCF genotypes -> allele frequencies -> per-segment BAF).
-/
import CnvVerif.Model.Vcf
import CnvVerif.Lemmas.Ranges
import Mathlib.Tactic.Linarith
import Mathlib.Tactic.Ring
import Mathlib.Tactic.FieldSimp
import Mathlib.Tactic.NormNum
import Std.Data.String.ToNat
namespace CnvVerif.Vcf
open CnvVerif

/-! ## records -/

/-- a biallelic site: exactly one ALT allele, and it is not the gVCF placeholder -/
def Biallelic (r : Rec) : Prop := ∃ a, r.alts = [a] ∧ a ≠ "<NON_REF>"

/-- the row the property describes for a biallelic record: 0-based start, the genotype columns
    of the chosen sample (and of the paired normal), the SOMATIC flag -/
def recRow (si : Nat) (ni : Option Nat) (r : Rec) : VRow :=
  { chrom := r.chrom, s := r.pos - 1, e := r.pos - 1 + ((r.alts.headD "").length : Nat), ref := r.ref,
    alt := r.alts.headD "", somatic := r.somatic,
    t := genoOf (r.smps[si]?.getD default) r,
    n := ni.map (fun j => genoOf (r.smps[j]?.getD default) r) }

theorem rowsOfRec_biallelic (si : Nat) (ni : Option Nat) (r : Rec) (h : Biallelic r) :
    rowsOfRec si ni r = [recRow si ni r] := by
  obtain ⟨a, ha, hne⟩ := h
  simp [rowsOfRec, recRow, endOf, ha, hne]

theorem parseRecords_biallelic (si : Nat) (ni : Option Nat) (recs : List Rec)
    (h : ∀ r ∈ recs, Biallelic r) :
    parseRecords si ni false recs = recs.map (recRow si ni) := by
  induction recs with
  | nil => simp [parseRecords]
  | cons r t ih =>
    have ih' := ih (fun x hx => h x (List.mem_cons_of_mem _ hx))
    simp only [parseRecords, Bool.false_and, Bool.not_false, List.filter_true] at ih' ⊢
    rw [List.flatMap_cons, ih', rowsOfRec_biallelic si ni r (h r (by simp))]
    simp

/-! ## the table `tabio.read` returns -/

/-- what `readVcf` computes once the samples are chosen -/
theorem readVcf_eq (samples : List String) (tags : List PedTag) (recs : List Rec) (o : ReadOpts)
    (sid : String) (nid : Option String)
    (hc : chooseSamples samples tags o.sid o.nid = .ok (sid, nid)) :
    readVcf samples tags recs o = .ok
      { paired := (truthy nid).isSome &&
          !(o.skipSomatic && (parseRecords (samples.idxOf sid) ((truthy nid).map (fun n => samples.idxOf n))
              o.skipReject recs).isEmpty),
        rows := sortV (somaticFilter o.skipSomatic (depthFilter o.minDepth
          (parseRecords (samples.idxOf sid) ((truthy nid).map (fun n => samples.idxOf n)) o.skipReject recs))) } := by
  unfold readVcf
  rw [hc]
  rfl

theorem readVcf_error (samples : List String) (tags : List PedTag) (recs : List Rec) (o : ReadOpts)
    (e : VErr) (hc : chooseSamples samples tags o.sid o.nid = .error e) :
    readVcf samples tags recs o = .error e := by
  unfold readVcf
  rw [hc]
  rfl

theorem mem_sortV (r : VRow) (rows : List VRow) : r ∈ sortV rows ↔ r ∈ rows := by
  unfold sortV
  exact List.mem_mergeSort

theorem sortV_perm (rows : List VRow) : (sortV rows).Perm rows := List.mergeSort_perm rows _

theorem sortV_length (rows : List VRow) : (sortV rows).length = rows.length := (sortV_perm rows).length_eq

theorem mem_somaticFilter (b : Bool) (rows : List VRow) (r : VRow) :
    r ∈ somaticFilter b rows ↔ r ∈ rows ∧ (b = true → r.somatic = false) := by
  unfold somaticFilter
  cases b <;> simp

theorem mem_depthFilter_none (rows : List VRow) (r : VRow) : r ∈ depthFilter none rows ↔ r ∈ rows := by
  simp [depthFilter]

/-- the depth filter, when a non-zero minimum is asked for and the file carries depths:
    exactly the rows whose (normal, if paired) depth reaches the minimum -/
theorem mem_depthFilter (m : Int) (hm : m ≠ 0) (rows : List VRow)
    (hany : ∃ x ∈ rows, x.t.depth ≠ 0) (r : VRow) :
    r ∈ depthFilter (some m) rows ↔ r ∈ rows ∧ filterDepth r ≥ (m : Rat) := by
  have h : rows.any (fun r => r.t.depth != 0) = true := by
    obtain ⟨x, hx, hd⟩ := hany
    exact List.any_eq_true.mpr ⟨x, hx, by simpa using hd⟩
  simp [depthFilter, hm, h]

/-- without any depth in the file (or with a minimum of 0) nothing is filtered -/
theorem depthFilter_noinfo (m : Int) (rows : List VRow) (h : ∀ x ∈ rows, x.t.depth = 0) :
    depthFilter (some m) rows = rows := by
  have h' : rows.any (fun r => r.t.depth != 0) = false := by
    apply List.any_eq_false.mpr
    intro x hx
    simp [h x hx]
  simp [depthFilter, h']

/-! ### the sort order -/

theorem string_trichotomy (a b : String) : a < b ∨ a = b ∨ b < a := by
  by_cases h1 : a < b
  · exact Or.inl h1
  · by_cases h2 : b < a
    · exact Or.inr (Or.inr h2)
    · exact Or.inr (Or.inl (String.le_antisymm (String.not_lt.mp h2) (String.not_lt.mp h1)))

theorem chromKeyLt_iff (a b : Nat × String) :
    chromKeyLt a b = true ↔ a.1 < b.1 ∨ (a.1 = b.1 ∧ a.2 < b.2) := by
  simp [chromKeyLt]

theorem chromKey_trichotomy (a b : Nat × String) :
    chromKeyLt a b = true ∨ a = b ∨ chromKeyLt b a = true := by
  obtain ⟨a1, a2⟩ := a
  obtain ⟨b1, b2⟩ := b
  simp only [chromKeyLt_iff, Prod.mk.injEq]
  rcases Nat.lt_trichotomy a1 b1 with h | h | h
  · left; left; exact h
  · subst h
    rcases string_trichotomy a2 b2 with h2 | h2 | h2
    · left; right; exact ⟨rfl, h2⟩
    · right; left; exact ⟨rfl, h2⟩
    · right; right; right; exact ⟨rfl, h2⟩
  · right; right; left; exact h

theorem chromKeyLt_trans {a b c : Nat × String} (h1 : chromKeyLt a b = true) (h2 : chromKeyLt b c = true) :
    chromKeyLt a c = true := by
  rw [chromKeyLt_iff] at *
  rcases h1 with h1 | ⟨h1, h1'⟩ <;> rcases h2 with h2 | ⟨h2, h2'⟩
  · left; omega
  · left; omega
  · left; omega
  · right; exact ⟨by omega, String.lt_trans h1' h2'⟩

def keyLe (a b : VRow) : Bool := sortLe a.key b.key

theorem keyLe_iff (a b : VRow) :
    keyLe a b = true ↔ chromKeyLt (sorterChrom a.chrom) (sorterChrom b.chrom) = true ∨
      (sorterChrom a.chrom = sorterChrom b.chrom ∧ (a.s < b.s ∨ (a.s = b.s ∧ a.e ≤ b.e))) := by
  simp only [keyLe, sortLe, VRow.key, Bool.or_eq_true, Bool.and_eq_true, beq_iff_eq]
  grind

theorem keyLe_total (a b : VRow) : (keyLe a b || keyLe b a) = true := by
  rw [Bool.or_eq_true, keyLe_iff, keyLe_iff]
  rcases chromKey_trichotomy (sorterChrom a.chrom) (sorterChrom b.chrom) with h | h | h
  · left; left; exact h
  · by_cases h1 : a.s < b.s
    · left; right; exact ⟨h, Or.inl h1⟩
    · by_cases h2 : b.s < a.s
      · right; right; exact ⟨h.symm, Or.inl h2⟩
      · have hs : a.s = b.s := by omega
        by_cases h3 : a.e ≤ b.e
        · left; right; exact ⟨h, Or.inr ⟨hs, h3⟩⟩
        · right; right; exact ⟨h.symm, Or.inr ⟨hs.symm, by omega⟩⟩
  · right; left; exact h

theorem keyLe_trans (a b c : VRow) (h1 : keyLe a b = true) (h2 : keyLe b c = true) : keyLe a c = true := by
  rw [keyLe_iff] at *
  rcases h1 with h1 | ⟨k1, h1⟩ <;> rcases h2 with h2 | ⟨k2, h2⟩
  · left; exact chromKeyLt_trans h1 h2
  · left; rw [← k2]; exact h1
  · left; rw [k1]; exact h2
  · right
    refine ⟨k1.trans k2, ?_⟩
    rcases h1 with h1 | ⟨h1, h1'⟩ <;> rcases h2 with h2 | ⟨h2, h2'⟩
    · left; omega
    · left; omega
    · left; omega
    · right; exact ⟨by omega, by omega⟩

/-- rows in cnvkit's order: chromosome key, then start, then end -/
abbrev SortedV (t : List VRow) : Prop := t.Pairwise (fun a b => keyLe a b = true)

theorem sortV_sorted (rows : List VRow) : SortedV (sortV rows) :=
  List.pairwise_mergeSort keyLe_trans keyLe_total rows

/-! ## genotype columns -/

/-- alt_freq = alt_count / depth wherever a depth was counted -/
theorem genoOf_altFreq (s : Smp) (r : Rec) (h : (genoOf s r).depth ≠ 0) :
    (genoOf s r).altFreq = .fin ((genoOf s r).altCount / (genoOf s r).depth) := by
  unfold genoOf at h ⊢
  simp only at h ⊢
  cases hd : depthOf s r with
  | none => simp [hd] at h
  | some d =>
    have hd0 : d ≠ 0 := by
      intro e
      simp [hd, e] at h
    cases ha : altCountOf s with
    | none => simp [freqOf]
    | some a => simp [freqOf, hd0]

/-- with no depth (missing, or 0 with no alt reads) the frequency is reported as 0 -/
theorem genoOf_altFreq_nodepth (s : Smp) (r : Rec) (h : depthOf s r = none ∨ altCountOf s = none) :
    (genoOf s r).altFreq = .fin 0 := by
  unfold genoOf
  rcases h with h | h <;> simp [h, freqOf]

theorem eraseDups_eq_nil {α} [BEq α] (l : List α) : l.eraseDups = [] ↔ l = [] := by
  cases l with
  | nil => simp
  | cons a t => simp [List.eraseDups_cons]

/-- more than one distinct entry -/
theorem eraseDups_length_gt_one (l : List (Option Int)) :
    l.eraseDups.length > 1 ↔ ∃ a ∈ l, ∃ b ∈ l, a ≠ b := by
  cases l with
  | nil => simp
  | cons x t =>
    rw [List.eraseDups_cons]
    simp only [List.length_cons, gt_iff_lt, Nat.lt_add_left_iff_pos, List.length_pos_iff, ne_eq,
      eraseDups_eq_nil, List.filter_eq_nil_iff, not_forall]
    constructor
    · rintro ⟨b, hb, hne⟩
      exact ⟨x, by simp, b, by simp [hb], by
        intro e
        apply hne
        simp [e]⟩
    · rintro ⟨a, ha, b, hb, hab⟩
      by_cases hax : a = x
      · by_cases hbx : b = x
        · exact absurd (hax.trans hbx.symm) hab
        · rcases List.mem_cons.mp hb with e | hb'
          · exact absurd e hbx
          · exact ⟨b, hb', by simpa using hbx⟩
      · rcases List.mem_cons.mp ha with e | ha'
        · exact absurd e hax
        · exact ⟨a, ha', by simpa using hax⟩

theorem zygosityOf_values (gt : List (Option Int)) :
    zygosityOf gt = 0 ∨ zygosityOf gt = 1/2 ∨ zygosityOf gt = 1 := by
  unfold zygosityOf
  split
  · right; left; rfl
  · split
    · left; rfl
    · right; right; rfl

theorem zygosityOf_half (gt : List (Option Int)) :
    zygosityOf gt = 1/2 ↔ ∃ a ∈ gt, ∃ b ∈ gt, a ≠ b := by
  rw [← eraseDups_length_gt_one]
  unfold zygosityOf
  split
  · simp [*]
  · rename_i h
    split <;> simp [h]

theorem all_eq_head_of_no_two (gt : List (Option Int)) (h : ¬ ∃ a ∈ gt, ∃ b ∈ gt, a ≠ b)
    (x : Option Int) (hx : x ∈ gt) : gt.head? = some x := by
  cases gt with
  | nil => simp at hx
  | cons y t =>
    simp only [List.head?_cons, Option.some.injEq]
    by_contra hne
    exact h ⟨y, by simp, x, hx, hne⟩

/-- zygosity 0: a genotype all of whose alleles are the reference -/
theorem zygosityOf_zero (gt : List (Option Int)) (hne : gt ≠ []) :
    zygosityOf gt = 0 ↔ ∀ a ∈ gt, a = some 0 := by
  constructor
  · intro hz
    have hnh : ¬ ∃ a ∈ gt, ∃ b ∈ gt, a ≠ b := by
      intro hh
      have := (zygosityOf_half gt).mpr hh
      rw [hz] at this
      norm_num at this
    have hlen : ¬ gt.eraseDups.length > 1 := fun hl => hnh ((eraseDups_length_gt_one gt).mp hl)
    unfold zygosityOf at hz
    rw [if_neg hlen] at hz
    split at hz
    · rename_i hh
      intro a ha
      have := all_eq_head_of_no_two gt hnh a ha
      have hh' : gt.head? = some (some 0) := by simpa using hh
      rw [hh'] at this
      exact (Option.some.inj this).symm
    · norm_num at hz
  · intro hall
    have hnh : ¬ ∃ a ∈ gt, ∃ b ∈ gt, a ≠ b := by
      rintro ⟨a, ha, b, hb, hab⟩
      exact hab ((hall a ha).trans (hall b hb).symm)
    have hlen : ¬ gt.eraseDups.length > 1 := fun hl => hnh ((eraseDups_length_gt_one gt).mp hl)
    unfold zygosityOf
    rw [if_neg hlen]
    cases gt with
    | nil => exact absurd rfl hne
    | cons y t =>
      have := hall y (by simp)
      simp [this]

/-- zygosity 1: one allele throughout, and it is not the reference -/
theorem zygosityOf_one (gt : List (Option Int)) (hne : gt ≠ []) :
    zygosityOf gt = 1 ↔ (∀ a ∈ gt, ∀ b ∈ gt, a = b) ∧ ∃ a ∈ gt, a ≠ some 0 := by
  constructor
  · intro h1
    have hnh : ¬ ∃ a ∈ gt, ∃ b ∈ gt, a ≠ b := by
      intro hh
      have := (zygosityOf_half gt).mpr hh
      rw [h1] at this
      norm_num at this
    refine ⟨fun a ha b hb => by
      by_contra hab
      exact hnh ⟨a, ha, b, hb, hab⟩, ?_⟩
    by_contra hno
    have hall : ∀ a ∈ gt, a = some 0 := by
      intro a ha
      by_contra hne'
      exact hno ⟨a, ha, hne'⟩
    have := (zygosityOf_zero gt hne).mpr hall
    rw [h1] at this
    norm_num at this
  · rintro ⟨hall, a, ha, ha0⟩
    rcases zygosityOf_values gt with h | h | h
    · exact absurd ((zygosityOf_zero gt hne).mp h a ha) ha0
    · obtain ⟨x, hx, y, hy, hxy⟩ := (zygosityOf_half gt).mp h
      exact absurd (hall x hx y hy) hxy
    · exact h

/-! ## heterozygous records -/

theorem isHet_iff (r : VRow) : isHet r = true ↔ germZyg r ≠ 0 ∧ germZyg r ≠ 1 := by
  simp [isHet]

/-- with zygosities drawn from {0, 0.5, 1}, "heterozygous" is zygosity 0.5 of the germline sample -/
theorem isHet_iff_half (r : VRow) (hv : germZyg r = 0 ∨ germZyg r = 1/2 ∨ germZyg r = 1) :
    isHet r = true ↔ germZyg r = 1/2 := by
  rw [isHet_iff]
  rcases hv with h | h | h <;> rw [h] <;> norm_num

theorem heterozygous_eq_filter (rows : List VRow) (h : ∃ r ∈ rows, isHet r = true) :
    heterozygous rows = rows.filter isHet := by
  have : rows.any isHet = true := List.any_eq_true.mpr h
  simp [heterozygous, this]

/-- the documented fallback (open finding X): no heterozygous record at all -> every record -/
theorem heterozygous_fallback (rows : List VRow) (h : ∀ r ∈ rows, isHet r = false) :
    heterozygous rows = rows := by
  have : rows.any isHet = false := List.any_eq_false.mpr (fun r hr => by simp [h r hr])
  simp [heterozygous, this]

theorem keepTN_of_isHet (r : VRow) (h : isHet r = true) : keepTN r = true := by
  rw [isHet_iff] at h
  unfold keepTN
  cases hn : r.n with
  | none => simp
  | some g =>
    have : germZyg r = g.zyg := by simp [germZyg, hn]
    rw [this] at h
    simp [h.1]

theorem filter_keepTN_filter_isHet (rows : List VRow) :
    (rows.filter keepTN).filter isHet = rows.filter isHet := by
  rw [List.filter_filter]
  apply List.filter_congr
  intro r _
  cases h : isHet r
  · simp
  · simp [keepTN_of_isHet r h]

/-- dropping T/N-somatic rows and then taking the heterozygous ones = the germline-heterozygous
    rows of the table, whenever there is one -/
theorem hetStage_eq (paired : Bool) (rows : List VRow) (h : ∃ r ∈ rows, isHet r = true) :
    hetStage paired rows = rows.filter isHet := by
  unfold hetStage
  cases paired
  · simpa using heterozygous_eq_filter rows h
  · simp only [if_true]
    obtain ⟨r, hr, hh⟩ := h
    rw [heterozygous_eq_filter _ ⟨r, List.mem_filter.mpr ⟨hr, keepTN_of_isHet r hh⟩, hh⟩]
    exact filter_keepTN_filter_isHet rows

/-! ## mirroring -/

theorem absQ_nonneg (q : Rat) : 0 ≤ absQ q := by
  unfold absQ
  split <;> linarith

theorem mirrorOne_above (v : Rat) : 1/2 ≤ mirrorOne true v := by
  have := absQ_nonneg (v - 1/2)
  simp only [mirrorOne, if_true]
  linarith

theorem mirrorOne_below (v : Rat) : mirrorOne false v ≤ 1/2 := by
  have := absQ_nonneg (v - 1/2)
  simp only [mirrorOne, Bool.false_eq_true, if_false]
  linarith

/-- mirroring keeps the distance from 0.5 -/
theorem mirrorOne_dist (b : Bool) (v : Rat) : absQ (mirrorOne b v - 1/2) = absQ (v - 1/2) := by
  have h := absQ_nonneg (v - 1/2)
  cases b
  · simp only [mirrorOne, Bool.false_eq_true, if_false]
    have e : (1/2 - absQ (v - 1/2) - 1/2 : Rat) = - absQ (v - 1/2) := by ring
    rw [e]
    generalize absQ (v - 1/2) = a at h
    unfold absQ
    split
    · ring
    · have : a = 0 := by linarith
      rw [this]; ring
  · simp only [mirrorOne, if_true]
    have e : (1/2 + absQ (v - 1/2) - 1/2 : Rat) = absQ (v - 1/2) := by ring
    rw [e]
    generalize absQ (v - 1/2) = a at h
    unfold absQ
    split
    · linarith
    · rfl

/-- a value already on the chosen side is left alone -/
theorem mirrorOne_fixed (v : Rat) : mirrorOne (decide (v > 1/2)) v = v := by
  unfold mirrorOne absQ
  by_cases h : v > 1/2
  · have h2 : ¬ (v - 1/2 < 0) := by linarith
    simp only [h, decide_true, if_true, h2, if_false]
    ring
  · simp only [h, decide_false, Bool.false_eq_true, if_false]
    by_cases h3 : v - 1/2 < 0
    · simp only [h3, if_true]; ring
    · have : v = 1/2 := by linarith
      simp only [h3, if_false]; rw [this]; ring

theorem mirroredBaf_length (vals : List (Option Rat)) (a : Option Bool) :
    (mirroredBaf vals a).length = vals.length := by
  simp [mirroredBaf]

/-- all mirrored values lie on one side of 0.5 -/
theorem mirroredBaf_one_side (vals : List (Option Rat)) (a : Option Bool) :
    (∀ q, some q ∈ mirroredBaf vals a → 1/2 ≤ q) ∨ (∀ q, some q ∈ mirroredBaf vals a → q ≤ 1/2) := by
  unfold mirroredBaf
  cases h : mirrorAbove vals a
  · right
    intro q hq
    obtain ⟨v, _, hv⟩ := List.mem_map.mp hq
    cases v with
    | none => simp at hv
    | some x =>
      simp only [Option.map_some, Option.some.injEq] at hv
      rw [← hv]; exact mirrorOne_below x
  · left
    intro q hq
    obtain ⟨v, _, hv⟩ := List.mem_map.mp hq
    cases v with
    | none => simp at hv
    | some x =>
      simp only [Option.map_some, Option.some.injEq] at hv
      rw [← hv]; exact mirrorOne_above x

/-- the side asked for is the side taken -/
theorem mirroredBaf_side (vals : List (Option Rat)) (b : Bool) (q : Rat)
    (hq : some q ∈ mirroredBaf vals (some b)) : if b then 1/2 ≤ q else q ≤ 1/2 := by
  unfold mirroredBaf mirrorAbove at hq
  obtain ⟨v, _, hv⟩ := List.mem_map.mp hq
  cases v with
  | none => simp at hv
  | some x =>
    simp only [Option.map_some, Option.some.injEq] at hv
    rw [← hv]
    cases b
    · simpa using mirrorOne_below x
    · simpa using mirrorOne_above x

theorem median_single (x : Rat) : median [x] = some x := by
  simp [median, sortQ, insertQ]

/-- one value is its own mirrored median: the single-value shortcut of `into_ranges` agrees with
    the definition when the side is left to the data -/
theorem summarize_single (v : Option Rat) : summarize none [v] = v := by
  cases v with
  | none => simp [summarize, mirroredBaf, nanmedian, median, sortQ]
  | some x =>
    simp only [summarize, mirroredBaf, mirrorAbove, nanmedian, List.filterMap_cons, List.filterMap_nil,
      id_eq, List.map_cons, List.map_nil, Option.map_some, median_single]
    rw [mirrorOne_fixed]

theorem series2value_none (vs : List (Option Rat)) : series2value none vs = summarize none vs := by
  match vs with
  | [] => simp [series2value, summarize, mirroredBaf, nanmedian, median, sortQ]
  | [v] => simp [series2value, summarize_single]
  | _ :: _ :: _ => simp [series2value]

/-! ## TumorBoost and purity -/

theorem tumorBoost_lt (t n : Rat) (h : t < n) (hn : n ≠ 0) :
    ∃ b, tumorBoost t n = some b ∧ b * (2 * n) = t := by
  refine ⟨t / (2 * n), by simp [tumorBoost, h, hn], ?_⟩
  field_simp

theorem tumorBoost_ge (t n : Rat) (h : ¬ t < n) (hn : n ≠ 1) :
    ∃ b, tumorBoost t n = some b ∧ (1 - b) * (2 * (1 - n)) = 1 - t := by
  refine ⟨1 - (1 - t) / (2 * (1 - n)), by simp [tumorBoost, h, hn], ?_⟩
  have : (1 - n) ≠ 0 := by
    intro e
    apply hn
    linarith
  field_simp
  ring

/-- a normal at exactly 0.5 leaves the tumour frequency as it is -/
theorem tumorBoost_half (t : Rat) : tumorBoost t (1/2) = some t := by
  unfold tumorBoost
  by_cases h : t < 1/2
  · simp only [h, if_true]
    norm_num
  · simp only [h, if_false]
    norm_num

/-- the rescaled BAF mixes back to the observed one: t·p + n·(1−p) = obs -/
theorem rescaleBaf_inverts (p obs n : Rat) (hp : p ≠ 0) :
    rescaleBaf p obs n * p + n * (1 - p) = obs := by
  unfold rescaleBaf
  field_simp
  ring

theorem rescaleBaf_pure (obs n : Rat) : rescaleBaf 1 obs n = obs := by
  unfold rescaleBaf
  norm_num

/-! ## load_het_snps -/

/-- the thresholds stay off when none are asked for and the normal (if any) carries genotypes -/
theorem effectiveZygFreq_none (o : HetOpts) (tb : VTable) (hz : o.zygFreq = none)
    (hn : tb.paired = true → ∃ r ∈ tb.rows, ∃ g, r.n = some g ∧ g.zyg ≠ 0) :
    effectiveZygFreq o tb = none := by
  unfold effectiveZygFreq
  rw [hz]
  cases hp : tb.paired
  · simp
  · obtain ⟨r, hr', g, hg, hg0⟩ := hn hp
    have : normalUntyped tb.rows = false := by
      unfold normalUntyped
      have : tb.rows.any (fun r => (r.n.map (fun g => g.zyg != 0)).getD false) = true :=
        List.any_eq_true.mpr ⟨r, hr', by simp [hg, hg0]⟩
      simp [this]
    simp [this]

/-- `load_het_snps` on a file whose chosen germline sample has a heterozygous record: exactly the
    germline-heterozygous rows of the table read with the depth filter and without SOMATIC records -/
theorem loadHetSnps_rows (samples : List String) (tags : List PedTag) (recs : List Rec)
    (o : HetOpts) (tb : VTable)
    (hr : readVcf samples tags recs
            { sid := o.sid, nid := o.nid, minDepth := o.minDepth,
              skipReject := false, skipSomatic := true } = .ok tb)
    (hz : o.zygFreq = none) (hb : o.tumorBoost = false)
    (hn : tb.paired = true → ∃ r ∈ tb.rows, ∃ g, r.n = some g ∧ g.zyg ≠ 0)
    (hh : ∃ r ∈ tb.rows, isHet r = true) :
    loadHetSnps samples tags recs o = .ok { paired := tb.paired, rows := tb.rows.filter isHet } := by
  unfold loadHetSnps
  rw [hr]
  simp only [bind, Except.bind, effectiveZygFreq_none o tb hz hn, retype, hb, boostStage,
    hetStage_eq tb.paired tb.rows hh, pure, Except.pure]
  rfl

/-- the same with genotypes re-derived from the frequencies (`zygosity_freq` given) -/
theorem loadHetSnps_rows_freq (samples : List String) (tags : List PedTag) (recs : List Rec)
    (o : HetOpts) (tb : VTable) (het hom : Rat)
    (hr : readVcf samples tags recs
            { sid := o.sid, nid := o.nid, minDepth := o.minDepth,
              skipReject := false, skipSomatic := true } = .ok tb)
    (hz : o.zygFreq = some (het, hom)) (hv : 0 ≤ het ∧ het ≤ hom ∧ hom ≤ 1) (hb : o.tumorBoost = false)
    (hh : ∃ r ∈ zygosityFromFreq het hom tb.rows, isHet r = true) :
    loadHetSnps samples tags recs o =
      .ok { paired := tb.paired, rows := (zygosityFromFreq het hom tb.rows).filter isHet } := by
  unfold loadHetSnps
  rw [hr]
  simp only [bind, Except.bind, effectiveZygFreq, hz, retype, hv, and_self, if_true, hb, boostStage,
    hetStage_eq tb.paired _ hh, pure, Except.pure]
  rfl

/-- TumorBoost inside `load_het_snps`: every row keeps its coordinates and genotypes and gets the
    value computed from its own tumour and normal frequencies -/
theorem boostStage_attached (rows out : List VRow) (h : boostStage true true rows = .ok out) :
    out.length = rows.length ∧
    ∀ i (hi : i < rows.length) (ho : i < out.length),
      out[i].chrom = rows[i].chrom ∧ out[i].s = rows[i].s ∧ out[i].e = rows[i].e ∧
      out[i].n = rows[i].n ∧ out[i].t.zyg = rows[i].t.zyg ∧ out[i].t.altFreq = boostRow rows[i] := by
  simp only [boostStage, if_true, Except.ok.injEq] at h
  subst h
  refine ⟨by simp, ?_⟩
  intro i hi ho
  simp

/-- `boostRow` of a paired row with finite frequencies is the TumorBoost formula on that row -/
theorem boostRow_formula (r : VRow) (g : Geno) (t n : Rat) (hn : r.n = some g)
    (ht : r.t.altFreq = .fin t) (hg : g.altFreq = .fin n) (h1 : t ≤ 1) :
    boostRow r = ofOpt (tumorBoost t n) := by
  have : ¬ (n = 1 ∧ t > 1) := fun h => absurd h.2 (not_lt.mpr h1)
  simp [boostRow, hn, ht, hg, Freq.toOpt, this]

/-! ## sample choice -/

theorem count_eq_one_of_nodup (l : List String) (h : l.Nodup) (x : String) (hx : x ∈ l) : l.count x = 1 := by
  induction l with
  | nil => simp at hx
  | cons a t ih =>
    have hn := List.nodup_cons.mp h
    by_cases e : a = x
    · subst e
      have : List.count a t = 0 := List.count_eq_zero.mpr hn.1
      simp [this]
    · rcases List.mem_cons.mp hx with h1 | h1
      · exact absurd h1.symm e
      · have : (a == x) = false := by simpa using e
        rw [List.count_cons, ih hn.2 h1, this]
        simp

theorem truthy_some {o : Option String} {x : String} (h : truthy o = some x) : o = some x := by
  cases o with
  | none => simp [truthy] at h
  | some s =>
    simp only [truthy] at h
    by_cases he : s.isEmpty
    · simp [he] at h
    · simp only [he, Bool.false_eq_true, if_false, Option.some.injEq] at h
      rw [h]

/-- every declared name is a sample column -/
def PedsValid (samples : List String) (peds : List (String × String)) : Prop :=
  ∀ p ∈ peds, p.1 ∈ samples ∧ p.2 ∈ samples

theorem names_ok (samples : List String) (hnd : samples.Nodup) (names : List String)
    (h : ∀ x ∈ names, x ∈ samples) :
    (names.all (fun nm => samples.count nm == 1)) = true := by
  apply List.all_eq_true.mpr
  intro x hx
  simp [count_eq_one_of_nodup samples hnd x (h x hx)]

/-- the last steps of `_choose_samples`, from the pairs that survived the `sample_id` filter -/
def finishChoice (samples : List String) (sid : Option String)
    (pairs1 : List (Option String × Option String)) : Except VErr (String × Option String) :=
  if pairs1.isEmpty && (truthy sid).isNone then .error .indexError else
  let pairs := if pairs1.isEmpty then [(sid, (none : Option String))] else pairs1
  if !((pairNames pairs).all (fun nm => samples.count nm == 1)) then .error .indexError else
  match pairs.head? with
  | some (some s, n) => .ok (s, n)
  | _ => .error .indexError

theorem chooseNames_eq (samples : List String) (peds : List (String × String)) (sid nid : Option String)
    (hs : selOk samples sid = true) (hn : selOk samples nid = true) :
    chooseNames samples peds sid nid =
      finishChoice samples sid (match truthy sid with
        | some s => (candidatePairs samples peds nid).filter (fun p => p.1 == some s)
        | none => candidatePairs samples peds nid) := by
  unfold chooseNames finishChoice
  simp only [hs, hn, Bool.and_self, Bool.not_true, Bool.false_eq_true, if_false]
  rfl

theorem finishChoice_cons (samples : List String) (hnd : samples.Nodup) (sid : Option String)
    (s : String) (n : Option String) (rest : List (Option String × Option String))
    (hnames : ∀ x ∈ pairNames ((some s, n) :: rest), x ∈ samples) :
    finishChoice samples sid ((some s, n) :: rest) = .ok (s, n) := by
  unfold finishChoice
  simp only [List.isEmpty_cons, Bool.false_and, Bool.false_eq_true, if_false,
    names_ok samples hnd _ hnames, Bool.not_true, List.head?_cons]

theorem finishChoice_nil_some (samples : List String) (hnd : samples.Nodup) (x : String)
    (hx : x ∈ samples) (hne : truthy (some x) = some x) :
    finishChoice samples (some x) [] = .ok (x, none) := by
  unfold finishChoice
  have hnames : ∀ y ∈ pairNames [(some x, (none : Option String))], y ∈ samples := by
    intro y hy
    simp [pairNames] at hy
    rw [hy]; exact hx
  simp only [List.isEmpty_nil, Bool.true_and, hne, Option.isNone_some, Bool.false_eq_true, if_false,
    if_true, names_ok samples hnd _ hnames, Bool.not_true, List.head?_cons]

theorem finishChoice_nil_none (samples : List String) (sid : Option String) (h : truthy sid = none) :
    finishChoice samples sid [] = .error .indexError := by
  unfold finishChoice
  simp [h]

theorem selOk_mem {samples : List String} {o : Option String} {x : String}
    (h : selOk samples o = true) (ht : truthy o = some x) : x ∈ samples := by
  unfold selOk at h
  rw [ht] at h
  simpa using h

theorem find?_some_filter {α} (p : α → Bool) (l : List α) (q : α) (h : l.find? p = some q) :
    ∃ rest, l.filter p = q :: rest := by
  induction l with
  | nil => simp at h
  | cons a t ih =>
    by_cases hpa : p a = true
    · simp only [List.find?_cons, hpa, Option.some.injEq] at h
      subst h
      exact ⟨t.filter p, by simp [hpa]⟩
    · have hpa' : p a = false := by simpa using hpa
      simp only [List.find?_cons, hpa'] at h
      obtain ⟨rest, hr⟩ := ih h
      exact ⟨rest, by simp [hpa', hr]⟩

theorem find?_none_filter {α} (p : α → Bool) (l : List α) (h : l.find? p = none) : l.filter p = [] := by
  apply List.filter_eq_nil_iff.mpr
  intro a ha hpa
  have := List.find?_eq_none.mp h a ha
  exact this hpa

theorem filter_beq_of_mem (l : List String) (x : String) (hx : x ∈ l) :
    ∃ rest, l.filter (fun o => o == x) = x :: rest := by
  induction l with
  | nil => simp at hx
  | cons a t ih =>
    by_cases e : a = x
    · subst e
      exact ⟨t.filter (fun o => o == a), by simp⟩
    · rcases List.mem_cons.mp hx with h1 | h1
      · exact absurd h1.symm e
      · obtain ⟨rest, hr⟩ := ih h1
        have : (a == x) = false := by simpa using e
        exact ⟨rest, by simp [this, hr]⟩

/-- `_choose_samples` follows the documented rules: on a header whose sample names are distinct and
    whose PEDIGREE tags name sample columns, the pair it returns is the one `specPair` describes,
    and it refuses exactly when the rules leave no tumour sample -/
theorem chooseNames_spec (samples : List String) (peds : List (String × String)) (sid nid : Option String)
    (hnd : samples.Nodup) (hs : selOk samples sid = true) (hn : selOk samples nid = true)
    (hp : PedsValid samples peds) :
    chooseNames samples peds sid nid =
      match specPair samples peds (truthy sid) (truthy nid) with
      | some p => .ok p
      | none => .error .indexError := by
  rw [chooseNames_eq samples peds sid nid hs hn]
  cases peds with
  | cons p ps =>
    have hcp : candidatePairs samples (p :: ps) nid = (p :: ps).map (fun q => (some q.1, some q.2)) := by
      simp [candidatePairs]
    rw [hcp]
    cases hts : truthy sid with
    | none =>
      simp only [specPair, List.isEmpty_cons, Bool.not_false, if_true, List.head?_cons, Option.map_some,
        List.map_cons]
      apply finishChoice_cons samples hnd
      intro x hx
      simp only [pairNames, List.flatMap_cons, Option.toList_some, List.cons_append, List.nil_append,
        List.mem_cons, List.mem_flatMap, List.mem_map] at hx
      rcases hx with rfl | rfl | ⟨pr, ⟨q, hq, rfl⟩, hx⟩
      · exact (hp p (by simp)).1
      · exact (hp p (by simp)).2
      · simp only [Option.toList_some, List.cons_append, List.nil_append, List.mem_cons,
          List.not_mem_nil, or_false] at hx
        rcases hx with rfl | rfl
        · exact (hp q (List.mem_cons_of_mem _ hq)).1
        · exact (hp q (List.mem_cons_of_mem _ hq)).2
    | some x =>
      have hsx : sid = some x := truthy_some hts
      have hxm : x ∈ samples := selOk_mem hs hts
      have hf : ((p :: ps).map (fun q => ((some q.1 : Option String), (some q.2 : Option String)))).filter
            (fun pr => pr.1 == some x) =
          ((p :: ps).filter (fun q => q.1 == x)).map (fun q => (some q.1, some q.2)) := by
        rw [List.filter_map]
        congr 1
      simp only [hf]
      simp only [specPair, List.isEmpty_cons, Bool.not_false, if_true]
      cases hfind : (p :: ps).find? (fun q => q.1 == x) with
      | none =>
        rw [find?_none_filter _ _ hfind, hsx]
        simp only [List.map_nil]
        rw [hsx] at hts
        exact finishChoice_nil_some samples hnd x hxm hts
      | some q =>
        obtain ⟨rest, hr⟩ := find?_some_filter _ _ q hfind
        rw [hr]
        simp only [List.map_cons]
        apply finishChoice_cons samples hnd
        intro y hy
        have hsub : ∀ z ∈ q :: rest, z ∈ p :: ps := by
          intro z hz
          rw [← hr] at hz
          exact (List.mem_filter.mp hz).1
        simp only [pairNames, List.flatMap_cons, Option.toList_some, List.cons_append, List.nil_append,
          List.mem_cons, List.mem_flatMap, List.mem_map] at hy
        rcases hy with rfl | rfl | ⟨pr, ⟨z, hz, rfl⟩, hy⟩
        · exact (hp q (hsub q (by simp))).1
        · exact (hp q (hsub q (by simp))).2
        · simp only [Option.toList_some, List.cons_append, List.nil_append, List.mem_cons,
            List.not_mem_nil, or_false] at hy
          rcases hy with rfl | rfl
          · exact (hp z (hsub z (List.mem_cons_of_mem _ hz))).1
          · exact (hp z (hsub z (List.mem_cons_of_mem _ hz))).2
  | nil =>
    cases htn : truthy nid with
    | some y =>
      have hym : y ∈ samples := selOk_mem hn htn
      have hcp : candidatePairs samples [] nid =
          (samples.filter (fun s => s != y)).map (fun o => (some o, some y)) := by
        simp [candidatePairs, htn]
      rw [hcp]
      cases hts : truthy sid with
      | none =>
        simp only [specPair, List.isEmpty_nil, Bool.not_true, Bool.false_eq_true, if_false]
        cases hfind : samples.find? (fun o => o != y) with
        | none =>
          rw [find?_none_filter _ _ hfind]
          simp only [List.map_nil, Option.map_none]
          exact finishChoice_nil_none samples sid hts
        | some o =>
          obtain ⟨rest, hr⟩ := find?_some_filter _ _ o hfind
          rw [hr]
          simp only [List.map_cons, Option.map_some]
          apply finishChoice_cons samples hnd
          intro z hz
          have hsub : ∀ w ∈ o :: rest, w ∈ samples := by
            intro w hw
            rw [← hr] at hw
            exact (List.mem_filter.mp hw).1
          simp only [pairNames, List.flatMap_cons, Option.toList_some, List.cons_append, List.nil_append,
            List.mem_cons, List.mem_flatMap, List.mem_map] at hz
          rcases hz with rfl | rfl | ⟨pr, ⟨w, hw, rfl⟩, hz⟩
          · exact hsub _ (by simp)
          · exact hym
          · simp only [Option.toList_some, List.cons_append, List.nil_append, List.mem_cons,
              List.not_mem_nil, or_false] at hz
            rcases hz with rfl | rfl
            · exact hsub _ (List.mem_cons_of_mem _ hw)
            · exact hym
      | some x =>
        have hsx : sid = some x := truthy_some hts
        have hxm : x ∈ samples := selOk_mem hs hts
        have hf : ((samples.filter (fun s => s != y)).map
              (fun o => ((some o : Option String), (some y : Option String)))).filter (fun pr => pr.1 == some x) =
            ((samples.filter (fun s => s != y)).filter (fun o => o == x)).map (fun o => (some o, some y)) := by
          rw [List.filter_map]
          congr 1
        simp only [hf]
        simp only [specPair, List.isEmpty_nil, Bool.not_true, Bool.false_eq_true, if_false]
        by_cases hxy : x = y
        · subst hxy
          have he : (samples.filter (fun s => s != x)).filter (fun o => o == x) = [] := by
            apply List.filter_eq_nil_iff.mpr
            intro a ha hax
            have := (List.mem_filter.mp ha).2
            simp only [beq_iff_eq] at hax
            subst hax
            simp at this
          rw [he, hsx]
          simp only [List.map_nil, bne_self_eq_false, Bool.false_eq_true, if_false]
          rw [hsx] at hts
          exact finishChoice_nil_some samples hnd x hxm hts
        · have hmem : x ∈ samples.filter (fun s => s != y) :=
            List.mem_filter.mpr ⟨hxm, by simpa using hxy⟩
          obtain ⟨rest, hr⟩ := filter_beq_of_mem _ x hmem
          rw [hr]
          have hne : (x != y) = true := by simpa using hxy
          simp only [List.map_cons, hne, if_true]
          apply finishChoice_cons samples hnd
          intro z hz
          have hall : ∀ w ∈ x :: rest, w = x := by
            intro w hw
            rw [← hr] at hw
            simpa using (List.mem_filter.mp hw).2
          simp only [pairNames, List.flatMap_cons, Option.toList_some, List.cons_append, List.nil_append,
            List.mem_cons, List.mem_flatMap, List.mem_map] at hz
          rcases hz with rfl | rfl | ⟨pr, ⟨w, hw, rfl⟩, hz⟩
          · exact hxm
          · exact hym
          · simp only [Option.toList_some, List.cons_append, List.nil_append, List.mem_cons,
              List.not_mem_nil, or_false] at hz
            rcases hz with rfl | rfl
            · rw [hall _ (List.mem_cons_of_mem _ hw)]; exact hxm
            · exact hym
    | none =>
      have hcp : candidatePairs samples [] nid = samples.map (fun s => (some s, none)) := by
        simp [candidatePairs, htn]
      rw [hcp]
      cases hts : truthy sid with
      | none =>
        simp only [specPair, List.isEmpty_nil, Bool.not_true, Bool.false_eq_true, if_false]
        cases samples with
        | nil =>
          simp only [List.map_nil, List.head?_nil, Option.map_none]
          exact finishChoice_nil_none [] sid hts
        | cons a t =>
          simp only [List.map_cons, List.head?_cons, Option.map_some]
          apply finishChoice_cons (a :: t) hnd
          intro z hz
          simp only [pairNames, List.flatMap_cons, Option.toList_some, Option.toList_none, List.append_nil,
            List.cons_append, List.nil_append, List.mem_cons, List.mem_flatMap, List.mem_map] at hz
          rcases hz with rfl | ⟨pr, ⟨w, hw, rfl⟩, hz⟩
          · simp
          · simp only [Option.toList_some, Option.toList_none, List.append_nil, List.mem_cons,
              List.not_mem_nil, or_false] at hz
            rw [hz]; exact List.mem_cons_of_mem _ hw
      | some x =>
        have hsx : sid = some x := truthy_some hts
        have hxm : x ∈ samples := selOk_mem hs hts
        have hf : (samples.map (fun s => ((some s : Option String), (none : Option String)))).filter
              (fun pr => pr.1 == some x) =
            (samples.filter (fun o => o == x)).map (fun s => (some s, none)) := by
          rw [List.filter_map]
          congr 1
        simp only [hf]
        simp only [specPair, List.isEmpty_nil, Bool.not_true, Bool.false_eq_true, if_false]
        obtain ⟨rest, hr⟩ := filter_beq_of_mem _ x hxm
        rw [hr]
        simp only [List.map_cons]
        apply finishChoice_cons samples hnd
        intro z hz
        have hall : ∀ w ∈ x :: rest, w = x := by
          intro w hw
          rw [← hr] at hw
          simpa using (List.mem_filter.mp hw).2
        simp only [pairNames, List.flatMap_cons, Option.toList_some, Option.toList_none, List.append_nil,
          List.cons_append, List.nil_append, List.mem_cons, List.mem_flatMap, List.mem_map] at hz
        rcases hz with rfl | ⟨pr, ⟨w, hw, rfl⟩, hz⟩
        · exact hxm
        · simp only [Option.toList_some, Option.toList_none, List.append_nil, List.mem_cons,
            List.not_mem_nil, or_false] at hz
          rw [hz, hall _ (List.mem_cons_of_mem _ hw)]; exact hxm

/-! ## baf_by_ranges -/

/-- a table with each chromosome's rows brought together, chromosomes in order of first appearance:
    the order in which `iter_slices` / `into_ranges` hand out their results -/
def regroup (t : Table) : Table := (groupByChrom t).flatMap (fun g => g.2)

theorem eraseDups_singleton_mem (l : List String) (c : String) (h : l.eraseDups = [c]) :
    ∀ x ∈ l, x = c := by
  intro x hx
  have : x ∈ l.eraseDups := List.mem_eraseDups.mpr hx
  rw [h] at this
  simpa using this

theorem filter_chrom_self (t : Table) (c : String) (h : ∀ r ∈ t, r.chrom = c) :
    t.filter (fun r => r.chrom == c) = t := by
  apply List.filter_eq_self.mpr
  intro r hr
  simp [h r hr]

theorem idxSelect_nil (qs qe : Option Int) (inner : Bool) : idxSelect [] qs qe inner = [] := by
  simp [idxSelect]

theorem length_one {α} (l : List α) (h : l.length = 1) : ∃ c, l = [c] := by
  match l, h with
  | [c], _ => exact ⟨c, rfl⟩

theorem flatMap_filterMap_congr {α β γ} (L : List α) (g : α → Option β) (f : β → List γ)
    (h : α → List γ) (H : ∀ x ∈ L, (match g x with | some y => f y | none => []) = h x) :
    (L.filterMap g).flatMap f = L.flatMap h := by
  induction L with
  | nil => rfl
  | cons a t ih =>
    have ih' := ih (fun x hx => H x (List.mem_cons_of_mem _ hx))
    have ha := H a (by simp)
    rw [List.filterMap_cons, List.flatMap_cons]
    cases hg : g a with
    | none =>
      rw [hg] at ha
      simp only [] at ha ⊢
      rw [ih', ← ha]
      simp
    | some y =>
      rw [hg] at ha
      simp only [] at ha ⊢
      rw [List.flatMap_cons, ih', ha]

/-- `iter_slices(src, dest, "outer", keep_empty=True)`: one selection per `dest` row, each taken
    from the `src` rows of that row's chromosome, handed out chromosome by chromosome -/
theorem iterSlices_outer (src dest : Table) :
    iterSlices src dest .outer true =
      (regroup dest).map (fun b =>
        idxSelect (src.filter (fun r => r.chrom == b.chrom)) (some b.s) (some b.e) false) := by
  have hmode : (Mode.outer == Mode.inner) = false := by decide
  unfold iterSlices bySharedChroms
  simp only [hmode, Bool.true_or, List.filter_true]
  split
  · rename_i hc
    simp only [Bool.and_eq_true, beq_iff_eq] at hc
    obtain ⟨⟨h1, h2⟩, h3⟩ := hc
    obtain ⟨c, hc⟩ := length_one _ h1
    have hdest : ∀ r ∈ dest, r.chrom = c := by
      intro r hr
      have hc' : (dest.map (fun r : Row => r.chrom)).eraseDups = [c] := hc
      exact eraseDups_singleton_mem _ c hc' r.chrom (List.mem_map.mpr ⟨r, hr, rfl⟩)
    have hsrc : ∀ r ∈ src, r.chrom = c := by
      intro r hr
      rw [hc] at h3
      have hc' : (src.map (fun r : Row => r.chrom)).eraseDups = [c] := h3.symm
      exact eraseDups_singleton_mem _ c hc' r.chrom (List.mem_map.mpr ⟨r, hr, rfl⟩)
    have hre : regroup dest = dest := by
      unfold regroup groupByChrom
      unfold chromsInOrder at hc ⊢
      rw [hc]
      simp [filter_chrom_self dest c hdest]
    rw [hre]
    simp only [List.flatMap_cons, List.flatMap_nil, List.append_nil]
    apply List.map_congr_left
    intro b hb
    rw [hdest b hb, filter_chrom_self src c hsrc]
  · unfold regroup
    rw [List.map_flatMap]
    unfold groupByChrom
    apply flatMap_filterMap_congr
    intro x hx
    obtain ⟨c, _, rfl⟩ := List.mem_map.mp hx
    have hb : ∀ b ∈ dest.filter (fun r => r.chrom == c), b.chrom = c := by
      intro b hb
      simpa using (List.mem_filter.mp hb).2
    by_cases he : (src.filter (fun r => r.chrom == c)).isEmpty = true
    · have he' : src.filter (fun r => r.chrom == c) = [] := by simpa using he
      simp only [he, Bool.not_true, Bool.false_eq_true, if_false, if_true]
      apply List.map_congr_left
      intro b hb'
      rw [hb b hb', he', idxSelect_nil]
    · have he2 : (src.filter (fun r => r.chrom == c)).isEmpty = false := by simpa using he
      simp only [he2, Bool.not_false, if_true]
      apply List.map_congr_left
      intro b hb'
      rw [hb b hb']

/-- a variant table as every `tabio.read` returns it: in cnvkit's order, rows of positive length
    at non-negative coordinates -/
def WFRows (rows : List VRow) : Prop := SortedV rows ∧ ∀ r ∈ rows, 0 ≤ r.s ∧ r.s < r.e

theorem chromKeyLt_irrefl (a : Nat × String) : chromKeyLt a a = false := by
  cases h : chromKeyLt a a with
  | false => rfl
  | true =>
    rw [chromKeyLt_iff] at h
    rcases h with h | ⟨_, h⟩
    · omega
    · exact absurd h (String.lt_irrefl _)

theorem keyLe_same_chrom {a b : VRow} (h : keyLe a b = true) (hc : a.chrom = b.chrom) : a.s ≤ b.s := by
  rw [keyLe_iff, hc] at h
  rcases h with h | ⟨_, h⟩
  · rw [chromKeyLt_irrefl] at h
    exact absurd h (by simp)
  · omega

theorem WFRows.sublist {rows sub : List VRow} (h : WFRows rows) (hs : sub.Sublist rows) : WFRows sub :=
  ⟨List.Pairwise.sublist hs h.1, fun r hr => h.2 r (hs.subset hr)⟩

theorem WFRows.heterozygous {rows : List VRow} (h : WFRows rows) : WFRows (heterozygous rows) := by
  unfold Vcf.heterozygous
  split
  · exact h.sublist List.filter_sublist
  · exact h

/-- the tagged rows of one chromosome form a well-formed C07 table -/
theorem wf_tagged (H : List VRow) (h : WFRows H) (c : String) :
    WFTable ((H.zipIdx.map tagRow).filter (fun r => r.chrom == c)) := by
  rw [List.filter_map]
  constructor
  · show List.Pairwise _ _
    rw [List.pairwise_map]
    have hz : List.Pairwise (fun p q : VRow × Nat => keyLe p.1 q.1 = true) H.zipIdx := by
      have := h.1
      rw [← List.zipIdx_map_fst 0 H] at this
      exact List.pairwise_map.mp this
    have hf := List.Pairwise.filter ((fun r : Row => r.chrom == c) ∘ tagRow) hz
    apply List.Pairwise.imp_of_mem _ hf
    intro p q hp hq hle
    have hpc : p.1.chrom = c := by simpa [tagRow] using (List.mem_filter.mp hp).2
    have hqc : q.1.chrom = c := by simpa [tagRow] using (List.mem_filter.mp hq).2
    exact keyLe_same_chrom hle (hpc.trans hqc.symm)
  · intro r hr
    obtain ⟨p, hp, rfl⟩ := List.mem_map.mp hr
    have hp' := (List.mem_filter.mp hp).1
    have hm : p.1 ∈ H := by
      have := List.mem_zipIdx_iff_getElem?.mp hp'
      exact List.mem_of_getElem? this
    exact h.2 p.1 hm

theorem sliceValues_tag (H : List VRow) (f : VRow → Option Rat) (l : List (VRow × Nat))
    (hl : ∀ p ∈ l, p ∈ H.zipIdx) :
    sliceValues (H.map f) (l.map tagRow) = l.map (fun p => f p.1) := by
  induction l with
  | nil => simp [sliceValues]
  | cons p t ih =>
    have ih' := ih (fun q hq => hl q (List.mem_cons_of_mem _ hq))
    have hp := List.mem_zipIdx_iff_getElem?.mp (hl p (by simp))
    unfold sliceValues at ih' ⊢
    rw [List.map_cons, List.filterMap_cons, List.map_cons]
    simp only [tagRow, Nat.toNat?_repr, List.getElem?_map, hp, Option.map_some]
    rw [← ih']
    simp only [List.getElem?_map]

theorem zipIdx_filter_fst (H : List VRow) (Q : VRow → Bool) :
    (H.zipIdx.filter (fun p => Q p.1)).map (fun p => p.1) = H.filter Q := by
  have := @List.filter_map (VRow × Nat) VRow (fun p => p.1) Q H.zipIdx
  rw [List.zipIdx_map_fst] at this
  rw [this]
  rfl

/-- the values `into_ranges` collects for one range: those of the rows that overlap it -/
theorem slice_of_segment (H : List VRow) (h : WFRows H) (f : VRow → Option Rat)
    (g : String × Int × Int) (hg : 0 ≤ g.2.1) :
    sliceValues (H.map f)
      (idxSelect ((H.zipIdx.map tagRow).filter (fun r => r.chrom == (segRow g).chrom))
        (some (segRow g).s) (some (segRow g).e) false) =
      (H.filter (overlaps g)).map f := by
  rw [idxSelect_exact _ (wf_tagged H h _) _ _ (by intro s hs; simp only [segRow, Option.some.injEq] at hs; omega),
    selFilter_outer, List.filter_filter, List.filter_map]
  rw [sliceValues_tag H f _ (fun p hp => (List.mem_filter.mp hp).1)]
  have hQ : ((fun r : Row => (decide (r.e > (segRow g).s) && decide (r.s < (segRow g).e)) && (r.chrom == (segRow g).chrom)) ∘ tagRow) =
      (fun p : VRow × Nat => overlaps g p.1) := by
    funext p
    simp only [Function.comp, tagRow, segRow, overlaps]
    cases (p.1.chrom == g.1) with
    | false => simp
    | true => simp; rfl
  rw [hQ]
  have := zipIdx_filter_fst H (overlaps g)
  rw [← this, List.map_map]
  rfl

/-- segments regrouped by chromosome, in order of first appearance -/
def regroupSegs (segs : List (String × Int × Int)) : List (String × Int × Int) :=
  ((segs.map (fun g => g.1)).eraseDups).flatMap (fun c => segs.filter (fun g => g.1 == c))

theorem regroup_segRow (segs : List (String × Int × Int)) :
    regroup (segs.map segRow) = (regroupSegs segs).map segRow := by
  unfold regroup groupByChrom chromsInOrder regroupSegs
  simp only [List.map_map, List.flatMap_map, List.map_flatMap]
  have e : ((fun r : Row => r.chrom) ∘ segRow) = (fun g : String × Int × Int => g.1) := by
    funext g; rfl
  rw [e]
  congr 1
  funext c
  rw [List.filter_map]
  rfl

theorem regroupSegs_length (segs : List (String × Int × Int)) :
    (regroupSegs segs).length = segs.length := by
  have h1 := iterSlices_length [] (segs.map segRow) .outer
  rw [iterSlices_outer, List.length_map, regroup_segRow, List.length_map, List.length_map] at h1
  exact h1

/-- **`baf_by_ranges`**: for every range (handed out chromosome by chromosome) the summary of the
    frequencies of the heterozygous rows that overlap it -/
theorem bafByRanges_eq (tb : VTable) (segs : List (String × Int × Int)) (above : Option Bool) (boost : Bool)
    (hwf : WFRows tb.rows) (hseg : ∀ g ∈ segs, 0 ≤ g.2.1) :
    bafByRanges tb segs above boost =
      (regroupSegs segs).map (fun g =>
        series2value above (((heterozygous tb.rows).filter (overlaps g)).map (bafFreq tb.paired boost))) := by
  have hH := hwf.heterozygous
  have hmem : ∀ g ∈ regroupSegs segs, g ∈ segs := by
    intro g hg
    unfold regroupSegs at hg
    obtain ⟨c, _, hc⟩ := List.mem_flatMap.mp hg
    exact (List.mem_filter.mp hc).1
  unfold bafByRanges
  simp only []
  split
  · rename_i hemp
    rw [List.map_map]
    rcases (Bool.or_eq_true _ _).mp hemp with h1 | h1
    · have hnil : heterozygous tb.rows = [] := by
        simpa [List.zipIdx_eq_nil_iff] using h1
      rw [hnil]
      simp only [List.filter_nil, List.map_nil, series2value]
      have e : ((fun _ => none : Row → Option Rat) ∘ segRow) = (fun _ => none) := rfl
      rw [e, List.map_const', List.map_const', regroupSegs_length]
    · have hnil : segs = [] := by simpa using h1
      subst hnil
      simp [regroupSegs]
  · rw [iterSlices_outer, regroup_segRow, List.map_map, List.map_map]
    apply List.map_congr_left
    intro g hg
    simp only [Function.comp]
    rw [slice_of_segment _ hH _ g (hseg g (hmem g hg))]


/-- each chromosome's ranges are adjacent (as in every table `tabio` reads): once the leading run
    of a chromosome is over, that chromosome does not come back -/
def ChromGrouped : List (String × Int × Int) → Prop
  | [] => True
  | g :: t => (∀ x ∈ t.dropWhile (fun y => y.1 == g.1), x.1 ≠ g.1) ∧ ChromGrouped t

theorem ChromGrouped_dropWhile (p : String × Int × Int → Bool) (t : List (String × Int × Int))
    (h : ChromGrouped t) : ChromGrouped (t.dropWhile p) := by
  induction t with
  | nil => simpa using h
  | cons a t ih =>
    rw [List.dropWhile_cons]
    split
    · exact ih h.2
    · exact h

theorem takeWhile_all {α} (p : α → Bool) (l : List α) : ∀ x ∈ l.takeWhile p, p x = true := by
  induction l with
  | nil => simp
  | cons a t ih =>
    intro x hx
    rw [List.takeWhile_cons] at hx
    split at hx
    · rename_i hpa
      rcases List.mem_cons.mp hx with rfl | h
      · exact hpa
      · exact ih x h
    · simp at hx

theorem regroupSegs_of_grouped (segs : List (String × Int × Int)) (h : ChromGrouped segs) :
    regroupSegs segs = segs := by
  generalize hn : segs.length = n
  induction n using Nat.strong_induction_on generalizing segs with
  | _ n ih =>
    cases segs with
    | nil => simp [regroupSegs]
    | cons g t =>
      obtain ⟨hdrop, ht⟩ := h
      have hsplit : t = t.takeWhile (fun y => y.1 == g.1) ++ t.dropWhile (fun y => y.1 == g.1) :=
        (List.takeWhile_append_dropWhile).symm
      generalize ht1 : t.takeWhile (fun y => y.1 == g.1) = t1 at hsplit
      generalize ht2 : t.dropWhile (fun y => y.1 == g.1) = t2 at hsplit hdrop
      have h1 : ∀ x ∈ t1, x.1 = g.1 := by
        intro x hx
        rw [← ht1] at hx
        simpa using takeWhile_all _ t x hx
      have hg2 : ChromGrouped t2 := by
        rw [← ht2]; exact ChromGrouped_dropWhile _ t ht
      have hlen : t2.length < n := by
        rw [← hn, hsplit]
        simp only [List.length_cons, List.length_append]
        omega
      have ih2 := ih t2.length hlen t2 hg2 rfl
      have f1 : t1.filter (fun x => x.1 == g.1) = t1 :=
        List.filter_eq_self.mpr (fun x hx => by simp [h1 x hx])
      have f2 : t2.filter (fun x => x.1 == g.1) = [] :=
        List.filter_eq_nil_iff.mpr (fun x hx hc => hdrop x hx (by simpa using hc))
      have k1 : (t1.map (fun x => x.1)).filter (fun c => c != g.1) = [] := by
        apply List.filter_eq_nil_iff.mpr
        intro c hc
        obtain ⟨x, hx, rfl⟩ := List.mem_map.mp hc
        simp [h1 x hx]
      have k2 : (t2.map (fun x => x.1)).filter (fun c => c != g.1) = t2.map (fun x => x.1) := by
        apply List.filter_eq_self.mpr
        intro c hc
        obtain ⟨x, hx, rfl⟩ := List.mem_map.mp hc
        simpa using hdrop x hx
      unfold regroupSegs at ih2 ⊢
      rw [List.map_cons, List.eraseDups_cons, List.flatMap_cons]
      have hfirst : (g :: t).filter (fun x => x.1 == g.1) = g :: t1 := by
        rw [hsplit]
        simp [f1, f2]
      have hkeys : (t.map (fun x => x.1)).filter (fun c => !c == g.1) = t2.map (fun x => x.1) := by
        have e : (fun c : String => !c == g.1) = (fun c => c != g.1) := rfl
        rw [e, hsplit, List.map_append, List.filter_append, k1, k2, List.nil_append]
      rw [hfirst, hkeys]
      have hrest : ((t2.map (fun x => x.1)).eraseDups).flatMap (fun c => (g :: t).filter (fun x => x.1 == c)) =
          ((t2.map (fun x => x.1)).eraseDups).flatMap (fun c => t2.filter (fun x => x.1 == c)) := by
        apply List.flatMap_congr
        intro c hc
        have hc' := List.mem_eraseDups.mp hc
        obtain ⟨x, hx, rfl⟩ := List.mem_map.mp hc'
        have hne : x.1 ≠ g.1 := hdrop x hx
        have hg : (g.1 == x.1) = false := by simpa using (Ne.symm hne)
        have ft1 : t1.filter (fun y => y.1 == x.1) = [] := by
          apply List.filter_eq_nil_iff.mpr
          intro y hy hc2
          apply hne
          rw [← h1 y hy]
          exact (by simpa using hc2 : y.1 = x.1).symm
        rw [List.filter_cons, hg, hsplit, List.filter_append, ft1]
        simp
      rw [hrest, ih2, hsplit]
      simp


/-! ## missing BAF -/

theorem insertQ_length (x : Rat) (l : List Rat) : (insertQ x l).length = l.length + 1 := by
  induction l with
  | nil => rfl
  | cons y ys ih =>
    unfold insertQ
    split
    · rfl
    · simp [ih]

theorem sortQ_length (l : List Rat) : (sortQ l).length = l.length := by
  induction l with
  | nil => rfl
  | cons x xs ih => simp [sortQ, insertQ_length, ih]

theorem median_eq_none (l : List Rat) : median l = none ↔ l = [] := by
  constructor
  · intro h
    by_contra hne
    have hpos : 0 < (sortQ l).length := by
      rw [sortQ_length]; exact List.length_pos_iff.mpr hne
    unfold median at h
    simp only [] at h
    have h0 : ¬ (sortQ l).length = 0 := by omega
    rw [if_neg h0] at h
    split at h
    · have hlt : (sortQ l).length / 2 < (sortQ l).length := by omega
      rw [List.getElem?_eq_getElem hlt] at h
      exact absurd h (by simp)
    · have hlt : (sortQ l).length / 2 < (sortQ l).length := by omega
      have hlt2 : (sortQ l).length / 2 - 1 < (sortQ l).length := by omega
      rw [List.getElem?_eq_getElem hlt, List.getElem?_eq_getElem hlt2] at h
      exact absurd h (by simp)
  · intro h
    subst h
    rfl

/-- the BAF is missing exactly where no (finite) heterozygous frequency lies inside the range -/
theorem summarize_eq_none (a : Option Bool) (vals : List (Option Rat)) :
    summarize a vals = none ↔ ∀ v ∈ vals, v = none := by
  unfold summarize nanmedian mirroredBaf
  rw [median_eq_none, List.filterMap_eq_nil_iff]
  constructor
  · intro h v hv
    have := h (v.map (mirrorOne (mirrorAbove vals a))) (List.mem_map.mpr ⟨v, hv, rfl⟩)
    cases v with
    | none => rfl
    | some x => simp at this
  · intro h w hw
    obtain ⟨v, hv, rfl⟩ := List.mem_map.mp hw
    rw [h v hv]
    rfl


/-! ## the median is the middle of the values put in order -/

theorem insertQ_perm (x : Rat) (l : List Rat) : (insertQ x l).Perm (x :: l) := by
  induction l with
  | nil => exact List.Perm.refl _
  | cons y ys ih =>
    unfold insertQ
    split
    · exact List.Perm.refl _
    · exact (List.Perm.cons y ih).trans (List.Perm.swap x y ys)

theorem sortQ_perm (l : List Rat) : (sortQ l).Perm l := by
  induction l with
  | nil => exact List.Perm.refl _
  | cons x xs ih => exact (insertQ_perm x (sortQ xs)).trans (List.Perm.cons x ih)

theorem insertQ_sorted (x : Rat) (l : List Rat) (h : l.Pairwise (· ≤ ·)) : (insertQ x l).Pairwise (· ≤ ·) := by
  induction l with
  | nil => simp [insertQ]
  | cons y ys ih =>
    obtain ⟨hy, hys⟩ := List.pairwise_cons.mp h
    unfold insertQ
    split
    · rename_i hxy
      exact List.pairwise_cons.mpr ⟨fun z hz => by
        rcases List.mem_cons.mp hz with rfl | hz'
        · exact hxy
        · exact le_trans hxy (hy z hz'), h⟩
    · rename_i hxy
      have hyx : y ≤ x := le_of_lt (lt_of_not_ge hxy)
      exact List.pairwise_cons.mpr ⟨fun z hz => by
        have := (insertQ_perm x ys).subset hz
        rcases List.mem_cons.mp this with rfl | hz'
        · exact hyx
        · exact hy z hz', ih hys⟩

theorem sortQ_sorted (l : List Rat) : (sortQ l).Pairwise (· ≤ ·) := by
  induction l with
  | nil => simp [sortQ]
  | cons x xs ih => exact insertQ_sorted x (sortQ xs) ih

/-- `median l`: put the values in non-decreasing order (a permutation `s` of `l`); the middle one
    for an odd count, the mean of the two middle ones for an even count, missing for none -/
theorem median_is_middle (l : List Rat) :
    ∃ s : List Rat, s.Perm l ∧ s.Pairwise (· ≤ ·) ∧
      median l = (if s.length = 0 then none
                  else if s.length % 2 = 1 then s[s.length / 2]?
                  else match s[s.length / 2 - 1]?, s[s.length / 2]? with
                    | some a, some b => some ((a + b) / 2)
                    | _, _ => none) :=
  ⟨sortQ l, sortQ_perm l, sortQ_sorted l, rfl⟩

/-! ## the whole reading step on biallelic files -/

theorem readVcf_biallelic (samples : List String) (tags : List PedTag) (recs : List Rec) (o : ReadOpts)
    (sid : String) (nid : Option String)
    (hc : chooseSamples samples tags o.sid o.nid = .ok (sid, nid))
    (hr : o.skipReject = false) (hb : ∀ r ∈ recs, Biallelic r) :
    ∃ tb, readVcf samples tags recs o = .ok tb ∧
      tb.rows = sortV (somaticFilter o.skipSomatic (depthFilter o.minDepth
        (recs.map (recRow (samples.idxOf sid) ((truthy nid).map (fun n => samples.idxOf n)))))) := by
  refine ⟨_, readVcf_eq samples tags recs o sid nid hc, ?_⟩
  simp only [hr]
  rw [parseRecords_biallelic _ _ recs hb]

theorem mem_depthFilter_sub (m : Option Int) (rows : List VRow) (r : VRow) (h : r ∈ depthFilter m rows) :
    r ∈ rows := by
  unfold depthFilter at h
  split at h
  · exact h
  · split at h
    · exact h
    · split at h
      · exact (List.mem_filter.mp h).1
      · exact h

end CnvVerif.Vcf
