/-
  C06 tie to the source TEXT -- merge / flatten: the gap test, the fast paths, the rows in play.
  The pieces that the translator re-reads on every run (Generated/ExprsInterval.lean) are the expressions the hand-written
  model (Model/Interval.lean) is built from.  Each generated piece is first brought to a NORMAL FORM (`src_*_nf`, proved
  by `rfl`, else `omega` / rewriting, so that an equivalent spelling of the same test or formula in the source keeps it
  green); the model functions are then shown to be those normal forms put together.  One lemma file per source function
  so that an edit names exactly the obligations about that function.
-/
import CnvVerif.Generated.ExprsInterval
import CnvVerif.Model.Interval
namespace CnvVerif.Src
open CnvVerif CnvVerif.Generated

theorem src_merge_new_group_nf (a b bp : Int) : src_merge_new_group a b bp = decide (a - b > -bp) := by
  unfold src_merge_new_group
  first
  | rfl
  | (simp only [decide_eq_decide]; omega)

theorem src_merge_fast_path_nf (a b bp : Int) : src_merge_fast_path a b bp = decide (a - b > -bp) := by
  unfold src_merge_fast_path
  first
  | rfl
  | (simp only [decide_eq_decide]; omega)

theorem src_flatten_fast_path_nf (a b : Int) : src_flatten_fast_path a b = decide (a ≥ b) := by
  unfold src_flatten_fast_path
  first
  | rfl
  | (simp only [decide_eq_decide]; omega)

theorem src_flatten_in_play_nf (rs re a b : Int) : src_flatten_in_play rs re a b = (decide (rs ≤ a) && decide (re ≥ b)) := by
  unfold src_flatten_in_play
  first
  | (rw [Bool.decide_and])
  | (rw [← Bool.decide_and, decide_eq_decide]; omega)

/-- one step of the grouping loop, with the source's gap test -/
theorem mergeGo_step_src (bp : Int) (cur : Row) (genes : List String) (x : Row) (xs : List Row) :
    mergeGo bp cur genes (x :: xs) =
      if src_merge_new_group x.s cur.e bp = true then
        { cur with gene := joinStrings genes.reverse } :: mergeGo bp x [x.gene] xs
      else mergeGo bp { cur with e := max cur.e x.e } (x.gene :: genes) xs := by
  rw [src_merge_new_group_nf, mergeGo]
  simp only [decide_eq_true_eq]

/-- the fast path of `merge`, with the source's elementwise test -/
theorem mergeTable_src (bp : Int) (t : Table) :
    mergeTable bp t =
      if t.isEmpty then t
      else if (((t.map (·.s)).drop 1).zip (cummax (t.map (·.e)))).all
          (fun p => src_merge_fast_path p.1 p.2 bp) then t
      else resortChrom ((groupByChrom (sortLex t)).flatMap (fun g => mergeChrom bp g.2)) := by
  unfold mergeTable gapSizes
  simp only [src_merge_fast_path_nf, List.all_map]
  rfl

theorem overlapGroupsGo_step_src (cur : List Row) (mx : Int) (x : Row) (xs : List Row) :
    overlapGroupsGo cur mx (x :: xs) =
      if src_merge_new_group x.s mx 0 = true then cur.reverse :: overlapGroupsGo [x] x.e xs
      else overlapGroupsGo (x :: cur) (max mx x.e) xs := by
  rw [src_merge_new_group_nf, overlapGroupsGo]
  simp only [decide_eq_true_eq, Int.neg_zero]

theorem flattenTable_src (t : Table) :
    flattenTable t =
      if t.isEmpty then t
      else if (((t.map (·.s)).drop 1).zip (cummax (t.map (·.e)))).all
          (fun p => src_flatten_fast_path p.1 p.2) then t
      else resortChrom ((groupByChrom (sortLex t)).flatMap
        (fun g => (overlapGroups g.2).flatMap flattenGroup)) := by
  unfold flattenTable
  simp only [src_flatten_fast_path_nf]

theorem flattenGroup_src (first second : Row) (rest : List Row) :
    flattenGroup (first :: second :: rest) =
      (let rows := first :: second :: rest
       let breaks := sortDedupInts (rows.flatMap (fun r => [r.s, r.e]))
       (breaks.zip (breaks.drop 1)).map fun ab =>
         let inPlay := rows.filter (fun r => src_flatten_in_play r.s r.e ab.1 ab.2)
         { first with s := ab.1, e := ab.2, gene := joinStrings (inPlay.map (·.gene)) }) := by
  simp only [flattenGroup, src_flatten_in_play_nf]

end CnvVerif.Src
