/-
  C12 (round 5): `shorten_labels` / `shortest_name` -- the hand-written model equals the definitions that
  harness/shortentrans.py reads off the current source (Generated/ExprsShorten.lean, regenerated from /repo on every
  run by harness/extractors/exprs_shorten.py).  Proofs go through `simp` / case analysis rather than `rfl` alone, so
  that equivalent spellings (renamed locals, reordered independent assignments, `a & b` for `a.intersection(b)`)
  keep them green.
-/
import CnvVerif.Generated.ExprsShorten
import CnvVerif.Model.Bins
import CnvVerif.Model.PyPrims
import Mathlib.Tactic.SplitIfs
set_option linter.unusedSimpArgs false
set_option linter.unusedTactic false
namespace CnvVerif.Src
open CnvVerif CnvVerif.Generated

theorem c12n_splitGo_comma (cur l : List Char) : C12N.splitGo ',' cur l = splitCommaGo cur l := by
  induction l generalizing cur with
  | nil => rfl
  | cons c cs ih => simp [C12N.splitGo, splitCommaGo, ih]

/-- `set(label.rstrip().split(","))` -/
theorem c12n_labelNames_is_prims (label : String) :
    C12N.pySet (C12N.pySplit ',' (C12N.pyRstrip label)) = labelNames label := by
  unfold labelNames C12N.pySet C12N.pySplit C12N.pyRstrip
  rw [c12n_splitGo_comma]
  simp

/-- the `DB|accession` trimming of `shortest_name` -/
theorem c12n_pipeTrim_is_source (name : String) : pipeTrim name = src_shortest_name_trim name := by
  unfold pipeTrim src_shortest_name_trim
  simp only [C12N.pyLen, C12N.pyInnerContains, C12N.pySplitLast, lastPipeSegment]
  by_cases h1 : 2 < name.toList.length <;>
    by_cases h2 : ((name.toList.drop 1).dropLast).contains '|' = true <;>
    simp [h1, h2]

/-- `shortest_name`: the model's candidate list is the source's (duplicates removed) -/
theorem c12n_shortestNames_is_source (names : List String) :
    shortestNames names = (src_shortest_name filterNames names).eraseDups := by
  have h : src_shortest_name_trim = pipeTrim := funext (fun n => (c12n_pipeTrim_is_source n).symm)
  unfold shortestNames src_shortest_name C12N.pyMinsByLen
  rw [h]

/-- one iteration of `shorten_labels`, in the model's words -/
theorem c12n_step_is_source (cur : List String) (cnt : Nat) (l : String) :
    src_shorten_labels_step filterNames shortestNames cur cnt l =
      (if !(cur.filter (fun n => (labelNames l).contains n)).isEmpty then
        (([] : List (List String)), (filterNames (cur.filter (fun n => (labelNames l).contains n)), cnt + 1))
       else (List.replicate cnt (shortestNames cur), (labelNames l, 1))) := by
  simp only [src_shorten_labels_step, c12n_labelNames_is_prims, C12N.pyInter]
  all_goals first
  | (with_reducible rfl)
  | (generalize cur.filter (fun n => (labelNames l).contains n) = ov; cases ov <;> simp)

/-- the state machine of `shorten_labels`, from any state -/
theorem c12n_shortenGo_is_source (cur : List String) (cnt : Nat) (labels : List String) :
    shortenGo cur cnt labels =
      Py.genLoop (fun st l => src_shorten_labels_step filterNames shortestNames st.1 st.2 l)
        (fun st => src_shorten_labels_final filterNames shortestNames st.1 st.2) (cur, cnt) labels := by
  induction labels generalizing cur cnt with
  | nil => simp [shortenGo, Py.genLoop, src_shorten_labels_final]
  | cons l rest ih =>
    unfold shortenGo
    rw [Py.genLoop]
    dsimp only
    rw [c12n_step_is_source]
    split_ifs with h
    · simpa using ih _ _
    · simpa using ih _ _

theorem c12n_shortenLabels_is_source (labels : List String) :
    shortenLabels labels =
      Py.genLoop (fun st l => src_shorten_labels_step filterNames shortestNames st.1 st.2 l)
        (fun st => src_shorten_labels_final filterNames shortestNames st.1 st.2) src_shorten_labels_init labels := by
  unfold shortenLabels src_shorten_labels_init
  exact c12n_shortenGo_is_source [] 0 labels

end CnvVerif.Src
