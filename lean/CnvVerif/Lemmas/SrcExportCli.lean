/-
  The command-line glue of `export bed | vcf` (Model/ExportExt.lean) equals what the translator reads off
  cmdutil.verify_sample_sex and the label chain of commands._cmd_export_bed (Generated/ExprsExport.lean).
  A module of its own: an edit to those two leaves the theorems about export.py (Lemmas/SrcExport.lean) alone.
-/
import CnvVerif.Generated.ExprsExport
import CnvVerif.Model.ExportExt
namespace CnvVerif.Src
open CnvVerif CnvVerif.Export CnvVerif.Generated

/-! ### the command-line glue -/

theorem verifySampleSex_is_source (g : Bool) (s : Option String) :
    verifySampleSex g s = src_export_verify_sample_sex g (s.getD "") := by
  unfold src_export_verify_sample_sex verifySampleSex maleSpellings
  cases s with
  | none => simp
  | some s =>
    by_cases hs : s = ""
    · subst hs; simp
    · cases g <;> simp [hs, String.isEmpty_iff] <;> grind

theorem cmdBedLabel_is_source (sid : Option String) (lg : Bool) (segId : String) :
    (cmdBedLabel sid lg segId).getD "" = src_cmd_export_bed_label (sid.getD "") lg segId := by
  unfold src_cmd_export_bed_label cmdBedLabel
  cases sid with
  | none => cases lg <;> simp
  | some s => by_cases hs : s = "" <;> cases lg <;> simp [hs, String.isEmpty_iff]

end CnvVerif.Src
