/-
  C04, the two invariance clauses as theorems about the whole of `doFix`:
  * the result does not depend on the row order of any of the three input tables;
  * adding one constant to every sample log2 (a depth scale factor) leaves the result unchanged when no
    on-target bin sits at (or is carried across) the low-coverage cut-off.
-/
import CnvVerif.Model.Fix
import CnvVerif.Lemmas.Fix
import CnvVerif.Lemmas.FixAlign
import CnvVerif.Lemmas.FixWhole
import CnvVerif.Lemmas.Center
namespace CnvVerif

/-! ### `loadAdjust` in three stages (definitionally the model's function) -/

/-- the corrections of `load_adjust_coverages`, from the centred good bins on -/
def laCorr (cn1 : List SRow) (rf : List RRow) (fixGc fixEdge fixRmask : Bool)
    (perm : List Nat) (wing : Nat) (edgeKeys : Option (List Rat)) : Except FixErr (List SRow × List RRow × Rat) :=
  let nOk := (cn1.filter (fun r => decide (r.log2 > Generated.NULL_LOG2_COVERAGE - Generated.MIN_REF_COVERAGE))).length
  if nOk ≤ cn1.length / 2 then .ok (cn1, rf, 0) else
  let cn2 := if fixGc && rf.all (·.gc.isSome) && !rf.isEmpty then
      centerByWindow perm wing cn1 (rf.map (fun r => r.gc.getD 0)) else cn1
  let ekeys := match edgeKeys with
    | some ks => if ks.length == cn2.length then ks else edgeBias cn2 Generated.INSERT_SIZE
    | none => edgeBias cn2 Generated.INSERT_SIZE
  let cn3 := if fixEdge then centerByWindow perm wing cn2 ekeys else cn2
  let cn4 := if fixRmask && rf.all (·.rmask.isSome) && !rf.isEmpty then
      centerByWindow perm wing cn3 (rf.map (fun r => r.rmask.getD 0)) else cn3
  let exact := edgeBias cn2 Generated.INSERT_SIZE
  let slack := if fixEdge && ekeys.length == exact.length then
      ((ekeys.zip exact).map (fun p => absR (p.1 - p.2))).foldl max 0 else 0
  .ok (cn4, rf, slack)

/-- the sample rows kept by the bad-bin mask of the matched reference rows -/
def maskRows (samp : List SRow) (refM : List RRow) : List SRow :=
  ((samp.zip (refM.map (fun r => !badBin r))).filter (·.2)).map (·.1)

/-- `load_adjust_coverages` on the sample rows already in genomic order -/
def laBody (samp : List SRow) (ref : List RRow) (skipLow fixGc fixEdge fixRmask : Bool)
    (par : Option String) (perm : List Nat) (wing : Nat) (edgeKeys : Option (List Rat)) :
    Except FixErr (List SRow × List RRow × Rat) :=
  match matchRef ref samp with
  | .error e => .error e
  | .ok refM =>
    laCorr (centerS skipLow par (maskRows samp refM)) (refM.filter (fun r => !badBin r)) fixGc fixEdge fixRmask perm wing edgeKeys

theorem loadAdjust_stages (samp : List SRow) (ref : List RRow) (skipLow fixGc fixEdge fixRmask : Bool)
    (par : Option String) (perm : List Nat) (wing : Nat) (ek : Option (List Rat)) :
    loadAdjust samp ref skipLow fixGc fixEdge fixRmask par perm wing ek =
      if samp.isEmpty then .ok ([], [], 0)
      else laBody (sortS samp) ref skipLow fixGc fixEdge fixRmask par perm wing ek := by
  unfold loadAdjust laBody laCorr maskRows
  split
  · rfl
  · show (match matchRef ref (sortS samp) with
      | .error e => _
      | .ok refM => _) = _
    cases matchRef ref (sortS samp) <;> rfl

/-! ### row order of the inputs -/

/-- genomic sorting forgets the row order of a table whose coordinates are unique and told apart by the order -/
theorem sortS_perm_eq (a b : List SRow) (hp : a.Perm b) (hks : KeysSortable b) (hnd : (b.map sKey).Nodup) :
    sortS a = sortS b := by
  refine List.Perm.eq_of_pairwise (le := fun x y => sSortLe x y = true) ?_ (sortS_sorted a) (sortS_sorted b) ?_
  · intro x y hx hy hxy hyx
    have hx' : x ∈ b := hp.mem_iff.mp ((List.mergeSort_perm a _).mem_iff.mp hx)
    have hy' : y ∈ b := (List.mergeSort_perm b _).mem_iff.mp hy
    exact nodup_map_inj sKey b hnd hx' hy' (hks x hx' y hy' hxy hyx)
  · exact (List.mergeSort_perm a _).trans (hp.trans (List.mergeSort_perm b _).symm)

theorem matchRef_dupSample (ref : List RRow) (samp : List SRow) (h : hasDup (samp.map sKey) = true) :
    matchRef ref samp = .error .dupSample := by
  unfold matchRef; rw [if_pos h]

/-- `match_ref_to_sample` never depends on the row order of the reference (duplicated reference coordinates are
    refused in any order) -/
theorem matchRef_ref_perm' (ref ref' : List RRow) (samp : List SRow) (hp : ref.Perm ref') :
    matchRef ref' samp = matchRef ref samp := by
  cases hu : hasDup (ref.map rKey) with
  | false => exact matchRef_ref_perm ref ref' samp hp hu
  | true =>
    have hu' : hasDup (ref'.map rKey) = true := by rw [hasDup_perm _ _ (hp.map rKey)]; exact hu
    unfold matchRef
    rw [hu, hu']
    split <;> rfl

theorem laBody_perm (samp samp' : List SRow) (ref ref' : List RRow) (hp : samp'.Perm samp) (hr : ref.Perm ref')
    (hks : KeysSortable samp) (skipLow fixGc fixEdge fixRmask : Bool)
    (par : Option String) (perm : List Nat) (wing : Nat) (ek : Option (List Rat)) :
    laBody (sortS samp') ref' skipLow fixGc fixEdge fixRmask par perm wing ek =
      laBody (sortS samp) ref skipLow fixGc fixEdge fixRmask par perm wing ek := by
  cases hd : hasDup (samp.map sKey) with
  | true =>
    have h1 : hasDup ((sortS samp).map sKey) = true := by
      have hq : (samp.map sKey).Perm ((sortS samp).map sKey) := ((List.mergeSort_perm samp sSortLe).map sKey).symm
      rw [hasDup_perm _ _ hq]; exact hd
    have h2 : hasDup ((sortS samp').map sKey) = true := by
      have hq : (samp.map sKey).Perm ((sortS samp').map sKey) :=
        (((List.mergeSort_perm samp' sSortLe).trans hp).map sKey).symm
      rw [hasDup_perm _ _ hq]; exact hd
    unfold laBody
    rw [matchRef_dupSample _ _ h1, matchRef_dupSample _ _ h2]
  | false =>
    rw [sortS_perm_eq samp' samp hp hks ((hasDup_false_iff _).mp hd)]
    unfold laBody
    rw [matchRef_ref_perm' ref ref' (sortS samp) hr]

/-- a whole class of bins: `load_adjust_coverages` gives the same result for any row order of the sample
    table and of the reference -/
theorem loadAdjust_perm (samp samp' : List SRow) (ref ref' : List RRow) (hp : samp'.Perm samp) (hr : ref.Perm ref')
    (hks : KeysSortable samp) (skipLow fixGc fixEdge fixRmask : Bool)
    (par : Option String) (perm : List Nat) (wing : Nat) (ek : Option (List Rat)) :
    loadAdjust samp' ref' skipLow fixGc fixEdge fixRmask par perm wing ek =
      loadAdjust samp ref skipLow fixGc fixEdge fixRmask par perm wing ek := by
  rw [loadAdjust_stages, loadAdjust_stages, laBody_perm samp samp' ref ref' hp hr hks]
  have : samp'.isEmpty = samp.isEmpty := by
    rw [Bool.eq_iff_iff, List.isEmpty_iff_length_eq_zero, List.isEmpty_iff_length_eq_zero, hp.length_eq]
  rw [this]

theorem sharedGuard_perm (tgt tgt' anti anti' : List SRow) (ht : tgt'.Perm tgt) (ha : anti'.Perm anti) :
    (tgt'.map sKey).any (fun k => (anti'.map sKey).contains k) =
      (tgt.map sKey).any (fun k => (anti.map sKey).contains k) := by
  rw [Bool.eq_iff_iff]
  simp only [List.any_eq_true, List.contains_iff_mem]
  constructor
  · rintro ⟨k, hk, hk2⟩
    exact ⟨k, (ht.map sKey).mem_iff.mp hk, (ha.map sKey).mem_iff.mp hk2⟩
  · rintro ⟨k, hk, hk2⟩
    exact ⟨k, (ht.map sKey).mem_iff.mpr hk, (ha.map sKey).mem_iff.mpr hk2⟩

/-- `do_fix` as a whole does not depend on the row order of the target table, the antitarget table or the reference -/
theorem doFix_perm (tgt tgt' anti anti' : List SRow) (ref ref' : List RRow) (cfg : FixCfg) (P : FixParams)
    (ht : tgt'.Perm tgt) (ha : anti'.Perm anti) (hr : ref.Perm ref')
    (hkt : KeysSortable tgt) (hka : KeysSortable anti) :
    doFix tgt' anti' ref' cfg P = doFix tgt anti ref cfg P := by
  unfold doFix
  rw [sharedGuard_perm tgt tgt' anti anti' ht ha, doFix_eq, doFix_eq,
    loadAdjust_perm tgt tgt' ref ref' ht hr hkt, loadAdjust_perm anti anti' ref ref' ha hr hka]

/-! ### depth scale: one constant added to every sample log2 -/

/-- the sample sequenced `2^c` times deeper: every log2 coverage moves by `c` -/
def addLog2 (c : Rat) (r : SRow) : SRow := { r with log2 := r.log2 + c }

/-- what `drop_low_coverage` drops: log2 below `NULL_LOG2_COVERAGE - MIN_REF_COVERAGE` (−15) or depth 0 -/
def lowC (b : CBin) : Bool :=
  decide (b.log2 < Generated.NULL_LOG2_COVERAGE - Generated.MIN_REF_COVERAGE) ||
    (match b.depth with | some d => decide (d = 0) | none => false)

def lowCov (r : SRow) : Bool :=
  decide (r.log2 < Generated.NULL_LOG2_COVERAGE - Generated.MIN_REF_COVERAGE) || decide (r.depth = 0)

theorem dropLow_eq (T : List CBin) : dropLow T = T.filter (fun b => !lowC b) := rfl

theorem lowC_toCBin (r : SRow) : lowC (toCBin r) = lowCov r := rfl

/-- a map that keeps the coordinates commutes with genomic sorting -/
theorem sortS_map (g : SRow → SRow) (hg : ∀ r, sKey (g r) = sKey r) (t : List SRow) :
    sortS (t.map g) = (sortS t).map g := by
  unfold sortS
  exact (List.map_mergeSort (r := sSortLe) (s := sSortLe) (f := g) (l := t)
    (fun a _ b _ => by rw [sSortLe_eq_kLe, sSortLe_eq_kLe, hg, hg])).symm

/-- `match_ref_to_sample` reads only the coordinates of the sample -/
theorem matchRef_map (g : SRow → SRow) (hg : ∀ r, sKey (g r) = sKey r) (ref : List RRow) (s : List SRow) :
    matchRef ref (s.map g) = matchRef ref s := by
  have h1 : sKey ∘ g = sKey := funext hg
  have h2 : (fun r => ref.find? (fun q => rKey q == sKey r)) ∘ g = fun r => ref.find? (fun q => rKey q == sKey r) := by
    funext r; simp only [Function.comp, hg]
  unfold matchRef
  simp only [List.map_map, h1, h2]

theorem zipMask_map (g : SRow → SRow) (s : List SRow) (bs : List Bool) :
    (((s.map g).zip bs).filter (·.2)).map (·.1) = (((s.zip bs).filter (·.2)).map (·.1)).map g := by
  induction s generalizing bs with
  | nil => rfl
  | cons x xs ih =>
    cases bs with
    | nil => rfl
    | cons b bs =>
      simp only [List.map_cons, List.zip_cons_cons, List.filter_cons]
      cases b
      · simpa using ih bs
      · simpa using ih bs

theorem maskRows_map (g : SRow → SRow) (s : List SRow) (refM : List RRow) :
    maskRows (s.map g) refM = (maskRows s refM).map g := zipMask_map g s _

theorem mem_maskRows (s : List SRow) (refM : List RRow) (r : SRow) (h : r ∈ maskRows s refM) : r ∈ s := by
  unfold maskRows at h
  obtain ⟨p, hp, rfl⟩ := List.mem_map.mp h
  exact (List.of_mem_zip (List.mem_filter.mp hp).1).1

theorem autosomesOf_ne_nil (first : String) (par : Option String) (T : List CBin) (h : T ≠ []) :
    autosomesOf first par T ≠ [] := by
  unfold autosomesOf
  by_cases ha : T.any (fun b => isAutosomeName b.chrom) = true
  · obtain ⟨b, hb, hb'⟩ := List.any_eq_true.mp ha
    simp only [ha, Bool.not_true, Bool.false_eq_true, if_false]
    intro hnil
    have := List.filter_eq_nil_iff.mp hnil b hb
    simp [hb'] at this
  · simp only [ha, Bool.not_false, if_true]; simpa using h

theorem autosomesOf_map_shift (first : String) (par : Option String) (T : List CBin) (c : Rat) :
    autosomesOf first par (T.map (fun b => { b with log2 := b.log2 + c })) =
      (autosomesOf first par T).map (fun b => { b with log2 := b.log2 + c }) := by
  unfold autosomesOf
  rw [List.any_map, List.filter_map]
  have h1 : ((fun b : CBin => isAutosomeName b.chrom) ∘ fun b : CBin => { b with log2 := b.log2 + c }) =
      fun b : CBin => isAutosomeName b.chrom := rfl
  rw [h1]
  split
  · rfl
  · rfl

/-- the centring shift moves against a constant added to the data, as long as `drop_low_coverage` drops nothing
    before or after -/
theorem centerShift_shift (sl : Bool) (par : Option String) (T : List CBin) (c : Rat) (hne : T ≠ [])
    (hlow : sl = true → ∀ b ∈ T, lowC b = false ∧ lowC { b with log2 := b.log2 + c } = false) :
    centerShift medianR true sl par (T.map (fun b => { b with log2 := b.log2 + c })) =
      centerShift medianR true sl par T - c := by
  have hsel : (if sl then dropLow T else T) = T := by
    cases sl with
    | false => rfl
    | true =>
      simp only [if_true]
      rw [dropLow_eq, List.filter_eq_self]
      intro b hb; simp [(hlow rfl b hb).1]
  have hsel' : (if sl then dropLow (T.map (fun b => { b with log2 := b.log2 + c })) else
      T.map (fun b => { b with log2 := b.log2 + c })) = T.map (fun b => { b with log2 := b.log2 + c }) := by
    cases sl with
    | false => rfl
    | true =>
      simp only [if_true]
      rw [dropLow_eq, List.filter_eq_self]
      intro b hb
      obtain ⟨b0, hb0, rfl⟩ := List.mem_map.mp hb
      simp [(hlow rfl b0 hb0).2]
  have hhead : ((T.map (fun b : CBin => { b with log2 := b.log2 + c })).head?.map (·.chrom)).getD "" =
      (T.head?.map (·.chrom)).getD "" := by
    cases T <;> rfl
  unfold centerShift
  simp only [hsel, hsel', hhead, autosomesOf_map_shift]
  have hn := autosomesOf_ne_nil ((T.head?.map (·.chrom)).getD "") par T hne
  have he1 : (autosomesOf ((T.head?.map (·.chrom)).getD "") par T).isEmpty = false := by
    simpa using hn
  have he2 : ((autosomesOf ((T.head?.map (·.chrom)).getD "") par T).map
      (fun b : CBin => { b with log2 := b.log2 + c })).isEmpty = false := by
    simpa using hn
  rw [he1, he2]
  simp only [Bool.false_eq_true, if_false]
  rw [centerValues_shift medianR medianR_transEquiv, medianR_transEquiv _ _ (centerValues_ne_nil medianR true _ hn)]
  ring

/-- the first centring of a class absorbs the constant -/
theorem centerS_shift (sl : Bool) (par : Option String) (t : List SRow) (c : Rat)
    (hlow : sl = true → ∀ r ∈ t, lowCov r = false ∧ lowCov (addLog2 c r) = false) :
    centerS sl par (t.map (addLog2 c)) = centerS sl par t := by
  by_cases hne : t = []
  · subst hne; rfl
  · unfold centerS
    have hm : (t.map (addLog2 c)).map toCBin = (t.map toCBin).map (fun b => { b with log2 := b.log2 + c }) := by
      rw [List.map_map, List.map_map]; rfl
    rw [hm, centerShift_shift sl par (t.map toCBin) c (by simpa using hne) ?_, List.map_map]
    · apply List.map_congr_left
      intro r _
      show ({ addLog2 c r with log2 := (addLog2 c r).log2 + _ } : SRow) = { r with log2 := r.log2 + _ }
      have : (addLog2 c r).log2 + (centerShift medianR true sl par (t.map toCBin) - c) =
          r.log2 + centerShift medianR true sl par (t.map toCBin) := by
        show r.log2 + c + _ = _
        ring
      rw [this]; rfl
    · intro hs b hb
      obtain ⟨r, hr, rfl⟩ := List.mem_map.mp hb
      exact hlow hs r hr

theorem laBody_shift (samp : List SRow) (ref : List RRow) (skipLow fixGc fixEdge fixRmask : Bool)
    (par : Option String) (perm : List Nat) (wing : Nat) (ek : Option (List Rat)) (c : Rat)
    (hlow : skipLow = true → ∀ r ∈ samp, lowCov r = false ∧ lowCov (addLog2 c r) = false) :
    laBody (sortS (samp.map (addLog2 c))) ref skipLow fixGc fixEdge fixRmask par perm wing ek =
      laBody (sortS samp) ref skipLow fixGc fixEdge fixRmask par perm wing ek := by
  have hg : ∀ r, sKey (addLog2 c r) = sKey r := fun _ => rfl
  rw [sortS_map _ hg]
  unfold laBody
  rw [matchRef_map _ hg]
  cases matchRef ref (sortS samp) with
  | error e => rfl
  | ok refM =>
    show laCorr (centerS skipLow par (maskRows ((sortS samp).map (addLog2 c)) refM)) _ _ _ _ _ _ _ = _
    rw [maskRows_map, centerS_shift]
    intro hs r hr
    exact hlow hs r ((List.mergeSort_perm samp sSortLe).mem_iff.mp (mem_maskRows _ _ r hr))

/-- a whole class of bins: `load_adjust_coverages` returns the same rows for the deeper sample -/
theorem loadAdjust_shift (samp : List SRow) (ref : List RRow) (skipLow fixGc fixEdge fixRmask : Bool)
    (par : Option String) (perm : List Nat) (wing : Nat) (ek : Option (List Rat)) (c : Rat)
    (hlow : skipLow = true → ∀ r ∈ samp, lowCov r = false ∧ lowCov (addLog2 c r) = false) :
    loadAdjust (samp.map (addLog2 c)) ref skipLow fixGc fixEdge fixRmask par perm wing ek =
      loadAdjust samp ref skipLow fixGc fixEdge fixRmask par perm wing ek := by
  rw [loadAdjust_stages, loadAdjust_stages, laBody_shift samp ref skipLow fixGc fixEdge fixRmask par perm wing ek c hlow,
    List.isEmpty_map]

/-- `do_fix` as a whole: a constant added to every log2 of the sample (a depth scale factor) leaves the output
    unchanged, provided no on-target bin is (or becomes) a low-coverage bin -/
theorem doFix_shift (tgt anti : List SRow) (ref : List RRow) (cfg : FixCfg) (P : FixParams) (c : Rat)
    (hlow : ∀ r ∈ tgt, lowCov r = false ∧ lowCov (addLog2 c r) = false) :
    doFix (tgt.map (addLog2 c)) (anti.map (addLog2 c)) ref cfg P = doFix tgt anti ref cfg P := by
  have hk : ∀ t : List SRow, (t.map (addLog2 c)).map sKey = t.map sKey := fun t => by
    rw [List.map_map]; rfl
  unfold doFix
  rw [hk, hk, doFix_eq, doFix_eq, loadAdjust_shift tgt ref true _ _ _ _ _ _ _ c (fun _ => hlow),
    loadAdjust_shift anti ref false _ _ _ _ _ _ _ c (fun h => by cases h)]

end CnvVerif
