/-
  C04 (round 5): `loadAdjust` runs exactly the plan of Model/FixExt5.lean; the decision tables of the plan and of the
  pooled-or-flat test; the switches act through the decisions only; what reads the depth columns reads them through `= 0`.
  (The equalities with the source text are in Lemmas/SrcFixPlan.lean.)
-/
import CnvVerif.Model.FixExt5
import CnvVerif.Lemmas.FixWeights
import CnvVerif.Lemmas.FixInv
import Mathlib.Tactic.Ring
import Mathlib.Tactic.NormNum
set_option linter.unusedTactic false
set_option linter.unreachableTactic false
set_option linter.unusedSimpArgs false
namespace CnvVerif.C04x
open CnvVerif CnvVerif.Generated

theorem skip_eq_model (cn1 : List SRow) :
    skipCorrections (cn1.map (·.log2)) =
      decide ((cn1.filter (fun r => decide (r.log2 > NULL_LOG2_COVERAGE - MIN_REF_COVERAGE))).length ≤ cn1.length / 2) := by
  unfold skipCorrections
  rw [List.filter_map, List.length_map, List.length_map]
  rfl

theorem loadAdjust_planned (samp : List SRow) (ref : List RRow) (skipLow g e r : Bool)
    (par : Option String) (perm : List Nat) (wing : Nat) (ek : Option (List Rat)) :
    (loadAdjust samp ref skipLow g e r par perm wing ek).map (fun x => (x.1, x.2.1)) =
      loadAdjustPlanned samp ref skipLow g e r par perm wing ek := by
  unfold loadAdjust loadAdjustPlanned
  by_cases hs : samp.isEmpty = true
  · simp only [hs, if_true]; rfl
  · simp only [hs, if_false, Bool.false_eq_true]
    cases hm : matchRef ref (sortS samp) with
    | error err => rfl
    | ok refM =>
      simp only []
      rw [skip_eq_model]
      by_cases hk : (List.filter (fun r => decide (r.log2 > NULL_LOG2_COVERAGE - MIN_REF_COVERAGE))
          (centerS skipLow par (List.map (·.1) (List.filter (·.2) ((sortS samp).zip (List.map (fun r => !badBin r) refM)))))).length ≤
          (centerS skipLow par (List.map (·.1) (List.filter (·.2) ((sortS samp).zip (List.map (fun r => !badBin r) refM))))).length / 2
      · simp only [hk, if_true, decide_true, correctionPlan, runPlan, List.foldl_nil]; rfl
      · simp only [hk, if_false, decide_false, correctionPlan, Bool.false_eq_true]
        simp only [hasGcCol, hasRmaskCol]
        generalize List.filter (fun r => !badBin r) refM = rf
        rcases Bool.eq_false_or_eq_true (rf.all fun x => x.gc.isSome) with hA | hA <;>
          rcases Bool.eq_false_or_eq_true (rf.all fun x => x.rmask.isSome) with hB | hB <;>
          rcases Bool.eq_false_or_eq_true rf.isEmpty with hC | hC <;>
          cases g <;> cases e <;> cases r <;> cases ek <;>
          simp [hA, hB, hC, runPlan, stepCorrection, edgeKeysOf, Except.map]

/-! ### decision tables -/

theorem plan_table (s g e r a b : Bool) :
    ("gc" ∈ correctionPlan s g e r a b ↔ (s = false ∧ g = true ∧ a = true)) ∧
    ("get_edge_bias" ∈ correctionPlan s g e r a b ↔ (s = false ∧ e = true)) ∧
    ("rmask" ∈ correctionPlan s g e r a b ↔ (s = false ∧ r = true ∧ b = true)) ∧
    (correctionPlan s g e r a b).Sublist ["gc", "get_edge_bias", "rmask"] := by
  cases s <;> cases g <;> cases e <;> cases r <;> cases a <;> cases b <;> decide

theorem pooledRef_cols (rows : List (SRow × RRow × Rat)) :
    pooledRef rows = pooledCols (rows.map (·.2.1.spread)) (rows.map (·.2.1.log2)) := by
  unfold pooledRef pooledCols
  simp [List.any_map, Function.comp_def]

theorem pooledRef_iff (rows : List (SRow × RRow × Rat)) :
    pooledRef rows = true ↔
      (∃ p ∈ rows, p.2.1.spread > WEIGHT_EPSILON) ∧ (∃ q ∈ rows, absR (mod1 q.2.1.log2) > WEIGHT_EPSILON) := by
  unfold pooledRef
  simp [List.any_eq_true]

theorem pooledRef_perm (a b : List (SRow × RRow × Rat)) (h : a.Perm b) : pooledRef a = pooledRef b := by
  rw [Bool.eq_iff_iff, pooledRef_iff, pooledRef_iff]
  constructor
  · rintro ⟨⟨p, hp, h1⟩, ⟨q, hq, h2⟩⟩; exact ⟨⟨p, h.mem_iff.mp hp, h1⟩, ⟨q, h.mem_iff.mp hq, h2⟩⟩
  · rintro ⟨⟨p, hp, h1⟩, ⟨q, hq, h2⟩⟩; exact ⟨⟨p, h.mem_iff.mpr hp, h1⟩, ⟨q, h.mem_iff.mpr hq, h2⟩⟩

theorem pooledRef_mono (a b : List (SRow × RRow × Rat)) (h : ∀ p ∈ a, p ∈ b) (hp : pooledRef a = true) : pooledRef b = true := by
  rw [pooledRef_iff] at hp ⊢
  obtain ⟨⟨p, hp, h1⟩, ⟨q, hq, h2⟩⟩ := hp
  exact ⟨⟨p, h p hp, h1⟩, ⟨q, h q hq, h2⟩⟩

/-! ### the switches act through the decisions only -/

/-- the three switches act on a class of bins only through the decisions (skip verdict, plan): two settings with the
    same decisions give the same rows -/
theorem planned_depends_on_decisions_only (samp : List SRow) (ref : List RRow) (skipLow g e r g' e' r' : Bool)
    (par : Option String) (perm : List Nat) (wing : Nat) (ek : Option (List Rat))
    (h : decisions samp ref skipLow g e r par = decisions samp ref skipLow g' e' r' par) :
    loadAdjustPlanned samp ref skipLow g e r par perm wing ek = loadAdjustPlanned samp ref skipLow g' e' r' par perm wing ek := by
  unfold decisions at h
  unfold loadAdjustPlanned
  by_cases hs : samp.isEmpty = true
  · simp only [hs, if_true]
  · simp only [hs, if_false, Bool.false_eq_true] at h ⊢
    cases hm : matchRef ref (sortS samp) with
    | error err => rfl
    | ok refM =>
      rw [hm] at h
      simp only [Except.ok.injEq, Prod.mk.injEq, true_and] at h
      simp only [h]

/-- when most kept bins have no coverage the plan is empty, whatever the switches -/
theorem skip_empties_plan (g e r a b : Bool) : correctionPlan true g e r a b = [] := rfl

/-- a class whose kept bins mostly have no coverage: the decisions are the same for every setting of the switches -/
theorem decisions_skip (samp : List SRow) (ref : List RRow) (skipLow g e r g' e' r' : Bool) (par : Option String)
    (p : List String) (h : decisions samp ref skipLow g e r par = .ok (true, p)) :
    decisions samp ref skipLow g' e' r' par = .ok (true, p) := by
  unfold decisions at h ⊢
  by_cases hs : samp.isEmpty = true
  · simp only [hs, if_true] at h
    simp at h
  · simp only [hs, if_false, Bool.false_eq_true] at h ⊢
    cases hm : matchRef ref (sortS samp) with
    | error err => rw [hm] at h; simp at h
    | ok refM =>
      rw [hm] at h
      simp only [Except.ok.injEq, Prod.mk.injEq] at h ⊢
      obtain ⟨h1, h2⟩ := h
      rw [h1] at h2 ⊢
      exact ⟨rfl, by rw [← h2]; rfl⟩


theorem loadAdjust_depends_on_decisions_only (samp : List SRow) (ref : List RRow) (skipLow g e r g' e' r' : Bool)
    (par : Option String) (perm : List Nat) (wing : Nat) (ek : Option (List Rat))
    (h : decisions samp ref skipLow g e r par = decisions samp ref skipLow g' e' r' par) :
    (loadAdjust samp ref skipLow g e r par perm wing ek).map (fun x => (x.1, x.2.1)) =
      (loadAdjust samp ref skipLow g' e' r' par perm wing ek).map (fun x => (x.1, x.2.1)) := by
  rw [loadAdjust_planned, loadAdjust_planned]
  exact planned_depends_on_decisions_only samp ref skipLow g e r g' e' r' par perm wing ek h

/-! ### the depth columns are read through `= 0` only -/

/-- `mask_bad_bins` reads the reference's depth column only through `== 0` -/
theorem badBin_depth_scale (r : RRow) (c : Rat) (hc : c ≠ 0) : badBin { r with depth := c * r.depth } = badBin r := by
  unfold badBin
  simp [hc]


/-- the sample's depth column multiplied by `c` -/
def scaleDepth (c : Rat) (r : SRow) : SRow := { r with depth := c * r.depth }

def scaleDepthC (c : Rat) (b : CBin) : CBin := { b with depth := b.depth.map (c * ·) }

theorem toCBin_scale (c : Rat) (t : List SRow) :
    (t.map (scaleDepth c)).map toCBin = (t.map toCBin).map (scaleDepthC c) := by
  rw [List.map_map, List.map_map]; rfl

theorem dropLow_scale (c : Rat) (hc : c ≠ 0) (T : List CBin) : dropLow (T.map (scaleDepthC c)) = (dropLow T).map (scaleDepthC c) := by
  unfold dropLow
  rw [List.filter_map]
  congr 1
  apply List.filter_congr
  intro b _
  cases hd : b.depth <;> simp [scaleDepthC, hd, hc]

theorem autosomesOf_scale (c : Rat) (first : String) (par : Option String) (T : List CBin) :
    autosomesOf first par (T.map (scaleDepthC c)) = (autosomesOf first par T).map (scaleDepthC c) := by
  unfold autosomesOf
  rw [List.any_map, List.filter_map]
  have h1 : ((fun b : CBin => isAutosomeName b.chrom) ∘ scaleDepthC c) = (fun b => isAutosomeName b.chrom) := rfl
  rw [h1]
  split
  · rfl
  · rfl

theorem centerValues_scale (c : Rat) (est : List Rat → Rat) (bc : Bool) (T : List CBin) :
    centerValues est bc (T.map (scaleDepthC c)) = centerValues est bc T := by
  unfold centerValues
  simp only [List.map_map, List.filter_map]
  rfl

theorem centerShift_scale (c : Rat) (hc : c ≠ 0) (est : List Rat → Rat) (bc sl : Bool) (par : Option String) (T : List CBin) :
    centerShift est bc sl par (T.map (scaleDepthC c)) = centerShift est bc sl par T := by
  unfold centerShift
  have h1 : ((T.map (scaleDepthC c)).head?.map (·.chrom)).getD "" = (T.head?.map (·.chrom)).getD "" := by
    cases T <;> rfl
  rw [h1]
  cases sl
  · simp only [Bool.false_eq_true, if_false, autosomesOf_scale, centerValues_scale, List.isEmpty_map]
  · simp only [if_true, dropLow_scale c hc, autosomesOf_scale, centerValues_scale, List.isEmpty_map]

/-- `center_all` reads the sample's depth column only through `= 0`: scaling it scales nothing else -/
theorem centerS_scale (c : Rat) (hc : c ≠ 0) (sl : Bool) (par : Option String) (t : List SRow) :
    centerS sl par (t.map (scaleDepth c)) = (centerS sl par t).map (scaleDepth c) := by
  unfold centerS
  rw [toCBin_scale, centerShift_scale c hc, List.map_map, List.map_map]
  rfl

end CnvVerif.C04x
