/-
  C04 (round 5): `loadAdjust` runs exactly the plan of Model/FixExt5.lean; the decisions equal the source's
  (Generated/ExprsFixPlan.lean); the pooled-or-flat test equals the source's and its decision table.
-/
import CnvVerif.Generated.ExprsFixPlan
import CnvVerif.Model.FixExt5
import CnvVerif.Lemmas.FixWeights
import Mathlib.Tactic.Ring
import Mathlib.Tactic.NormNum
set_option linter.unusedTactic false
set_option linter.unreachableTactic false
set_option linter.unusedSimpArgs false
namespace CnvVerif.C04x
open CnvVerif CnvVerif.Generated

theorem skip_eq_model (cn1 : List SRow) :
    skipCorrections (cn1.map (·.log2)) =
      decide ((cn1.filter (fun r => decide (r.log2 > NULL_LOG2_COVERAGE - MIN_REF_COVERAGE))).length ≤ cn1.length / 2) := by
  unfold skipCorrections
  rw [List.filter_map, List.length_map, List.length_map]
  rfl

theorem loadAdjust_planned (samp : List SRow) (ref : List RRow) (skipLow g e r : Bool)
    (par : Option String) (perm : List Nat) (wing : Nat) (ek : Option (List Rat)) :
    (loadAdjust samp ref skipLow g e r par perm wing ek).map (fun x => (x.1, x.2.1)) =
      loadAdjustPlanned samp ref skipLow g e r par perm wing ek := by
  unfold loadAdjust loadAdjustPlanned
  by_cases hs : samp.isEmpty = true
  · simp only [hs, if_true]; rfl
  · simp only [hs, if_false, Bool.false_eq_true]
    cases hm : matchRef ref (sortS samp) with
    | error err => rfl
    | ok refM =>
      simp only []
      rw [skip_eq_model]
      by_cases hk : (List.filter (fun r => decide (r.log2 > NULL_LOG2_COVERAGE - MIN_REF_COVERAGE))
          (centerS skipLow par (List.map (·.1) (List.filter (·.2) ((sortS samp).zip (List.map (fun r => !badBin r) refM)))))).length ≤
          (centerS skipLow par (List.map (·.1) (List.filter (·.2) ((sortS samp).zip (List.map (fun r => !badBin r) refM))))).length / 2
      · simp only [hk, if_true, decide_true, correctionPlan, runPlan, List.foldl_nil]; rfl
      · simp only [hk, if_false, decide_false, correctionPlan, Bool.false_eq_true]
        simp only [hasGcCol, hasRmaskCol]
        generalize List.filter (fun r => !badBin r) refM = rf
        rcases Bool.eq_false_or_eq_true (rf.all fun x => x.gc.isSome) with hA | hA <;>
          rcases Bool.eq_false_or_eq_true (rf.all fun x => x.rmask.isSome) with hB | hB <;>
          rcases Bool.eq_false_or_eq_true rf.isEmpty with hC | hC <;>
          cases g <;> cases e <;> cases r <;> cases ek <;>
          simp [hA, hB, hC, runPlan, stepCorrection, edgeKeysOf, Except.map]

/-! ### the decisions equal the source's -/

theorem skip_is_source (l : List Rat) : skipCorrections l = src_skip_corrections l := by
  unfold skipCorrections src_skip_corrections
  have h : (NULL_LOG2_COVERAGE - MIN_REF_COVERAGE : Rat) = -15 := by unfold NULL_LOG2_COVERAGE MIN_REF_COVERAGE; norm_num
  rw [h]
  norm_num

theorem plan_is_source (s g e r a b : Bool) : correctionPlan s g e r a b = src_correction_plan s g e r a b := by
  cases s <;> cases g <;> cases e <;> cases r <;> cases a <;> cases b <;> first | rfl | simp [correctionPlan, src_correction_plan]

theorem plan_table (s g e r a b : Bool) :
    ("gc" ∈ correctionPlan s g e r a b ↔ (s = false ∧ g = true ∧ a = true)) ∧
    ("get_edge_bias" ∈ correctionPlan s g e r a b ↔ (s = false ∧ e = true)) ∧
    ("rmask" ∈ correctionPlan s g e r a b ↔ (s = false ∧ r = true ∧ b = true)) ∧
    (correctionPlan s g e r a b).Sublist ["gc", "get_edge_bias", "rmask"] := by
  cases s <;> cases g <;> cases e <;> cases r <;> cases a <;> cases b <;> decide

theorem pooledCols_is_source (sp lg : List Rat) : pooledCols sp lg = src_pooled_test WEIGHT_EPSILON sp lg := by
  unfold pooledCols src_pooled_test
  simp [absR, mod1, div_one, mul_one]

theorem pooledRef_cols (rows : List (SRow × RRow × Rat)) :
    pooledRef rows = pooledCols (rows.map (·.2.1.spread)) (rows.map (·.2.1.log2)) := by
  unfold pooledRef pooledCols
  simp [List.any_map, Function.comp_def]

theorem pooledRef_iff (rows : List (SRow × RRow × Rat)) :
    pooledRef rows = true ↔
      (∃ p ∈ rows, p.2.1.spread > WEIGHT_EPSILON) ∧ (∃ q ∈ rows, absR (mod1 q.2.1.log2) > WEIGHT_EPSILON) := by
  unfold pooledRef
  simp [List.any_eq_true]

theorem pooledRef_perm (a b : List (SRow × RRow × Rat)) (h : a.Perm b) : pooledRef a = pooledRef b := by
  rw [Bool.eq_iff_iff, pooledRef_iff, pooledRef_iff]
  constructor
  · rintro ⟨⟨p, hp, h1⟩, ⟨q, hq, h2⟩⟩; exact ⟨⟨p, h.mem_iff.mp hp, h1⟩, ⟨q, h.mem_iff.mp hq, h2⟩⟩
  · rintro ⟨⟨p, hp, h1⟩, ⟨q, hq, h2⟩⟩; exact ⟨⟨p, h.mem_iff.mpr hp, h1⟩, ⟨q, h.mem_iff.mpr hq, h2⟩⟩

theorem pooledRef_mono (a b : List (SRow × RRow × Rat)) (h : ∀ p ∈ a, p ∈ b) (hp : pooledRef a = true) : pooledRef b = true := by
  rw [pooledRef_iff] at hp ⊢
  obtain ⟨⟨p, hp, h1⟩, ⟨q, hq, h2⟩⟩ := hp
  exact ⟨⟨p, h p hp, h1⟩, ⟨q, h q hq, h2⟩⟩

end CnvVerif.C04x
