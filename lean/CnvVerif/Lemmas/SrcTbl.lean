/-
  The model's decision tables — `refCopiesPure`, and `refExpect ∘ classOf` (chromosome class from the row masks
  `chr_x_filter` / `chr_y_filter` / `parx_filter` / `pary_filter`) — ARE the tables the translator reads off
  `cnvlib/call.py` and `cnvlib/cnary.py` on every run (Generated/ExprsTbl.lean, typed reader `TFn` of harness/exprtrans.py).
-/
import CnvVerif.Generated.ExprsTbl
import CnvVerif.Model.Call
import Mathlib.Tactic.SplitIfs
set_option linter.unusedSimpArgs false
set_option linter.unusedTactic false
namespace CnvVerif.Src
open CnvVerif CnvVerif.Generated

/-- `_reference_copies_pure`, every chromosome name, ploidy and reference sex -/
theorem refCopiesPure_is_source (chrom : String) (ploidy : Nat) (hapX : Bool) :
    refCopiesPure chrom ploidy hapX = src_reference_copies_pure chrom ploidy hapX := by
  unfold refCopiesPure src_reference_copies_pure
  first
  | rfl
  | (simp only []; cases hapX <;> split_ifs <;> simp_all)

theorem xLabel_ne_yLabel (first : String) : xLabel first ≠ yLabel first := by
  unfold xLabel yLabel
  split <;> decide

/-- the PAR coordinates the model looks up for a genome (`Generated.PAR_TABLE`, from `params.PSEUDO_AUTSOMAL_REGIONS`) -/
def ParCoords (g key : String) (lo hi : Int) : Prop := parRange g.toLower key = some (lo, hi)

/-- `parx_filter` / `pary_filter`: the model's PAR test under the chromosome's label is the source's mask -/
theorem inPar_is_source (mask : String → String → String → Int → Int → Int → Int → Int → Int → Bool)
    (hmask : ∀ c l g s e a1 b1 a2 b2, mask c l g s e a1 b1 a2 b2 =
      ((c == l) && ((decide (s ≥ a1) && decide (e ≤ b1)) || (decide (s ≥ a2) && decide (e ≤ b2)))))
    (g k1 k2 chrom label : String) (s e a1 b1 a2 b2 : Int)
    (h1 : ParCoords g k1 a1 b1) (h2 : ParCoords g k2 a2 b2) :
    ((chrom == label) && inPar g k1 k2 s e) = mask chrom label g s e a1 b1 a2 b2 := by
  unfold ParCoords at h1 h2
  rw [hmask]
  unfold inPar
  simp only [h1, h2]

theorem parx_mask_shape : ∀ c l g s e a1 b1 a2 b2, src_parx_filter c l g s e a1 b1 a2 b2 =
    ((c == l) && ((decide (s ≥ a1) && decide (e ≤ b1)) || (decide (s ≥ a2) && decide (e ≤ b2)))) := by
  intro c l g s e a1 b1 a2 b2
  unfold src_parx_filter
  first
  | rfl
  | (cases (c == l) <;> cases decide (s ≥ a1) <;> cases decide (e ≤ b1) <;> cases decide (s ≥ a2) <;>
      cases decide (e ≤ b2) <;> simp_all)

theorem pary_mask_shape : ∀ c l g s e a1 b1 a2 b2, src_pary_filter c l g s e a1 b1 a2 b2 =
    ((c == l) && ((decide (s ≥ a1) && decide (e ≤ b1)) || (decide (s ≥ a2) && decide (e ≤ b2)))) := by
  intro c l g s e a1 b1 a2 b2
  unfold src_pary_filter
  first
  | rfl
  | (cases (c == l) <;> cases decide (s ≥ a1) <;> cases decide (e ≤ b1) <;> cases decide (s ≥ a2) <;>
      cases decide (e ≤ b2) <;> simp_all)

/-- the three row masks `get_as_dframe_and_set_reference_and_expect_copies` reads, computed by the source's own
    filter functions from the row, the labels of the table and the genome option -/
def srcMasks (first : String) (par : Option String) (chrom : String) (s e : Int)
    (x1 x2 y1 y2 : Int × Int) : Bool × Bool × Bool :=
  let g := par.getD ""
  let px := src_parx_filter chrom (xLabel first) g s e x1.1 x1.2 x2.1 x2.2
  let py := src_pary_filter chrom (yLabel first) g s e y1.1 y1.2 y2.1 y2.2
  (src_chr_x_filter chrom (xLabel first) par.isSome px, src_chr_y_filter chrom (yLabel first) par.isSome py, py)

/-- `get_as_dframe_and_set_reference_and_expect_copies`: the model's table over chromosome classes, applied to the
    class the model assigns to a row, is the source's sequence of masked assignments — for every row, label style,
    ploidy, sex flags, and every genome whose four PAR ranges the table carries (none given: no hypothesis) -/
theorem refExpect_classOf_is_source (first : String) (par : Option String) (chrom : String) (s e : Int)
    (ploidy : Nat) (hapX female : Bool) (x1 x2 y1 y2 : Int × Int)
    (hx1 : ∀ g, par = some g → ParCoords g "PAR1X" x1.1 x1.2) (hx2 : ∀ g, par = some g → ParCoords g "PAR2X" x2.1 x2.2)
    (hy1 : ∀ g, par = some g → ParCoords g "PAR1Y" y1.1 y1.2) (hy2 : ∀ g, par = some g → ParCoords g "PAR2Y" y2.1 y2.2) :
    refExpect ploidy hapX female (classOf first par chrom s e) =
      src_reference_expect ploidy hapX female par.isSome
        (srcMasks first par chrom s e x1 x2 y1 y2).1 (srcMasks first par chrom s e x1 x2 y1 y2).2.1
        (srcMasks first par chrom s e x1 x2 y1 y2).2.2 := by
  have hne := xLabel_ne_yLabel first
  unfold srcMasks
  simp only []
  cases par with
  | none =>
    simp only [Option.isSome_none, classOf]
    unfold src_reference_expect src_chr_x_filter src_chr_y_filter
    by_cases hx : chrom = xLabel first
    · have hy : chrom ≠ yLabel first := by rw [hx]; exact hne
      cases hapX <;> cases female <;> simp [hx, hy, hne, refExpect]
    · by_cases hy : chrom = yLabel first
      · cases hapX <;> cases female <;> simp [hx, hy, hne.symm, refExpect]
      · cases hapX <;> cases female <;> simp [hx, hy, refExpect]
  | some g =>
    have ex := inPar_is_source src_parx_filter parx_mask_shape g "PAR1X" "PAR2X" chrom (xLabel first) s e _ _ _ _
      (hx1 g rfl) (hx2 g rfl)
    have ey := inPar_is_source src_pary_filter pary_mask_shape g "PAR1Y" "PAR2Y" chrom (yLabel first) s e _ _ _ _
      (hy1 g rfl) (hy2 g rfl)
    simp only [Option.getD_some, Option.isSome_some]
    rw [← ex, ← ey]
    unfold src_reference_expect src_chr_x_filter src_chr_y_filter classOf
    by_cases hx : chrom = xLabel first
    · have hy : chrom ≠ yLabel first := by rw [hx]; exact hne
      cases hp : inPar g "PAR1X" "PAR2X" s e <;> cases hapX <;> cases female <;> simp [hx, hy, hne, hp, refExpect]
    · by_cases hy : chrom = yLabel first
      · cases hp : inPar g "PAR1Y" "PAR2Y" s e <;> cases hapX <;> cases female <;>
          simp [hx, hy, hne.symm, hp, refExpect]
      · cases hapX <;> cases female <;> simp [hx, hy, refExpect]

end CnvVerif.Src
