/-
  Lemmas behind Props/C14.lean: the group-key construction of squash_by_groups selects exactly the
  maximal runs of consecutive same-chromosome, same-level segments, and squashing conserves
  probes, weight and spans.
-/
import CnvVerif.Model.SegFilter
namespace CnvVerif

/-- rows of one chromosome are consecutive in the table (a sorted `.cns` table) -/
def ChromContig (t : List Seg) : Prop :=
  ∀ (l1 l2 l3 : List Seg) (x y z : Seg), t = l1 ++ [x] ++ l2 ++ [y] ++ l3 → z ∈ l2 →
    x.chrom = y.chrom → z.chrom = x.chrom

/-- an integer level (cn, or −1/0/1) -/
def IntLevel (q : Option Rat) : Prop := ∃ z : Int, q = some (z : Rat)

/-- an allele-specific copy number: a natural number or missing -/
def NatOrMissing (q : Option Rat) : Prop := q = none ∨ ∃ n : Nat, q = some (n : Rat)

/-! ### the run-splitting specification -/

theorem splitRuns_flatten {κ} [BEq κ] (lv : Seg → κ) (t : List Seg) : (splitRuns lv t).flatten = t := by
  sorry

theorem splitRuns_nonempty {κ} [BEq κ] (lv : Seg → κ) (t : List Seg) : ∀ g ∈ splitRuns lv t, g ≠ [] := by
  sorry

/-- inside a run all rows share chromosome and level -/
theorem splitRuns_uniform {κ} [BEq κ] [LawfulBEq κ] (lv : Seg → κ) (t : List Seg) :
    ∀ g ∈ splitRuns lv t, ∀ a ∈ g, ∀ b ∈ g, a.chrom = b.chrom ∧ lv a = lv b := by
  sorry

/-- runs are maximal: two neighbouring runs differ in chromosome or level at their junction -/
theorem splitRuns_maximal {κ} [BEq κ] [LawfulBEq κ] (lv : Seg → κ) (t : List Seg)
    (pre post : List (List Seg)) (g1 g2 : List Seg) (h : splitRuns lv t = pre ++ [g1, g2] ++ post)
    (a b : Seg) (ha : g1.getLast? = some a) (hb : g2.head? = some b) :
    a.chrom ≠ b.chrom ∨ lv a ≠ lv b := by
  sorry

/-! ### squashing one run -/

theorem squashRegion_fields (x : Seg) (xs : List Seg) :
    ∃ r, squashRegion (x :: xs) = some r ∧ r.chrom = x.chrom ∧ r.s = x.s ∧
      r.e = ((x :: xs).getLast?.getD x).e ∧
      r.probes = sumInt ((x :: xs).map (·.probes)) ∧ r.weight = sumRat ((x :: xs).map (·.weight)) ∧
      (0 < sumRat ((x :: xs).map (·.weight)) →
        r.log2 * sumRat ((x :: xs).map (·.weight)) = sumRat ((x :: xs).map (fun s => s.log2 * s.weight))) := by
  sorry

theorem sumInt_flatten (ls : List (List Int)) : sumInt ls.flatten = sumInt (ls.map sumInt) := by
  sorry

theorem sumRat_flatten (ls : List (List Rat)) : sumRat ls.flatten = sumRat (ls.map sumRat) := by
  sorry

/-- total probes are conserved by the run-based filter -/
theorem specSquash_conserves_probes (h : Bool) (f : Seg → Option Rat) (t : List Seg) :
    sumInt ((specSquash h f t).map (·.probes)) = sumInt (t.map (·.probes)) := by
  sorry

/-- total weight is conserved -/
theorem specSquash_conserves_weight (h : Bool) (f : Seg → Option Rat) (t : List Seg) :
    sumRat ((specSquash h f t).map (·.weight)) = sumRat (t.map (·.weight)) := by
  sorry

/-- one output row per maximal run, in order, spanning from the run's first start to its last end
    on the run's chromosome -/
theorem specSquash_rows (h : Bool) (f : Seg → Option Rat) (t : List Seg) :
    (specSquash h f t).length = (splitRuns (fullLevel h f) t).length ∧
    ∀ i (hi : i < (splitRuns (fullLevel h f) t).length) (hj : i < (specSquash h f t).length),
      let g := (splitRuns (fullLevel h f) t)[i]
      let r := (specSquash h f t)[i]
      (∃ x xs, g = x :: xs ∧ r.chrom = x.chrom ∧ r.s = x.s ∧ r.e = (g.getLast?.getD x).e) := by
  sorry

/-! ### the group keys of the code select exactly the maximal runs -/

/-- MAIN: on a chromosome-contiguous table with integer levels, `squash_by_groups` (cumulative
    |diff| of the level + chromosome ordinal, plus the allele-specific keys) yields exactly one
    squashed row per maximal run of consecutive same-chromosome, same-level segments -/
theorem squashByGroups_eq_runs (h : Bool) (f : Seg → Option Rat) (t : List Seg)
    (hc : ChromContig t) (hf : ∀ r ∈ t, IntLevel (f r))
    (h1 : h = true → ∀ r ∈ t, NatOrMissing r.cn1 ∧ NatOrMissing r.cn2) :
    squashByGroups h t (t.map f) = specSquash h f t := by
  sorry

/-- the `ampdel` levels are −1 / 0 / 1 -/
theorem levelAmpdel_int (r : Seg) : IntLevel (levelAmpdel r) := by
  sorry
theorem levelCi_int (r : Seg) : IntLevel (levelCi r) := by
  sorry
theorem levelSem_int (r : Seg) : IntLevel (levelSem r) := by
  sorry

/-- a run kept by `ampdel` consists only of deleted (cn = 0) or only of amplified (cn ≥ 5) segments -/
theorem ampdel_level_meaning (r : Seg) (c : Rat) (hc : r.cn = some c) :
    (levelAmpdel r = some 1 ↔ c ≥ 5) ∧ (levelAmpdel r = some (-1) ↔ c = 0) := by
  sorry

end CnvVerif
