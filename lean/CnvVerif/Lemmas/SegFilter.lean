/-
  Lemmas behind Props/C14.lean: the group-key construction of squash_by_groups selects exactly the
  maximal runs of consecutive same-chromosome, same-level segments, and squashing conserves
  probes, weight and spans.
-/
import CnvVerif.Model.SegFilter
namespace CnvVerif

/-- rows of one chromosome are consecutive in the table (a sorted `.cns` table) -/
def ChromContig (t : List Seg) : Prop :=
  ∀ (l1 l2 l3 : List Seg) (x y z : Seg), t = l1 ++ [x] ++ l2 ++ [y] ++ l3 → z ∈ l2 →
    x.chrom = y.chrom → z.chrom = x.chrom

/-- an integer level (cn, or −1/0/1) -/
def IntLevel (q : Option Rat) : Prop := ∃ z : Int, q = some (z : Rat)

/-- an allele-specific copy number: a natural number or missing -/
def NatOrMissing (q : Option Rat) : Prop := q = none ∨ ∃ n : Nat, q = some (n : Rat)

/-! ### the run-splitting specification -/

theorem splitRuns_cons_eq {κ} [BEq κ] (lv : Seg → κ) (x : Seg) (xs : List Seg) :
    splitRuns lv (x :: xs) =
      match splitRuns lv xs with
      | [] => [[x]]
      | (y :: ys) :: rest =>
        if x.chrom == y.chrom && lv x == lv y then (x :: y :: ys) :: rest else [x] :: (y :: ys) :: rest
      | [] :: rest => [x] :: rest := by
  rw [splitRuns]
  rfl

theorem splitRuns_flatten {κ} [BEq κ] (lv : Seg → κ) (t : List Seg) : (splitRuns lv t).flatten = t := by
  induction t with
  | nil => simp [splitRuns]
  | cons x xs ih =>
    rw [splitRuns_cons_eq]
    split
    · rename_i h; rw [h] at ih; simp at ih; simp [ih]
    · rename_i y ys rest h; rw [h] at ih
      split <;> simp_all
    · rename_i rest h; rw [h] at ih; simp_all

theorem splitRuns_nonempty {κ} [BEq κ] (lv : Seg → κ) (t : List Seg) : ∀ g ∈ splitRuns lv t, g ≠ [] := by
  induction t with
  | nil => simp [splitRuns]
  | cons x xs ih =>
    rw [splitRuns_cons_eq]
    split
    · simp
    · rename_i y ys rest h; rw [h] at ih
      split <;> simp_all
    · rename_i rest h; rw [h] at ih; simp_all

/-- inside a run all rows share chromosome and level -/
theorem splitRuns_uniform {κ} [BEq κ] [LawfulBEq κ] (lv : Seg → κ) (t : List Seg) :
    ∀ g ∈ splitRuns lv t, ∀ a ∈ g, ∀ b ∈ g, a.chrom = b.chrom ∧ lv a = lv b := by
  induction t with
  | nil => simp [splitRuns]
  | cons x xs ih =>
    rw [splitRuns_cons_eq]
    split
    · simp
    · rename_i y ys rest h; rw [h] at ih
      split
      · rename_i hc
        simp only [Bool.and_eq_true, beq_iff_eq] at hc
        intro g hg
        rcases List.mem_cons.mp hg with rfl | hg
        · have ih0 := ih (y :: ys) (by simp)
          have hy : ∀ a ∈ x :: y :: ys, x.chrom = a.chrom ∧ lv x = lv a := by
            intro a ha
            rcases List.mem_cons.mp ha with h | ha
            · rw [h]; exact ⟨rfl, rfl⟩
            · have := ih0 y (by simp) a ha
              exact ⟨hc.1.trans this.1, hc.2.trans this.2⟩
          intro a ha b hb
          have h1 := hy a ha
          have h2 := hy b hb
          exact ⟨h1.1.symm.trans h2.1, h1.2.symm.trans h2.2⟩
        · exact ih g (by simp [hg])
      · intro g hg
        rcases List.mem_cons.mp hg with rfl | hg
        · simp
        · exact ih g hg
    · rename_i rest h; rw [h] at ih
      intro g hg
      rcases List.mem_cons.mp hg with rfl | hg
      · simp
      · exact ih g (by simp [hg])

theorem splitRuns_head {κ} [BEq κ] (lv : Seg → κ) (x : Seg) (xs : List Seg) :
    ∃ A B, splitRuns lv (x :: xs) = (x :: A) :: B := by
  rw [splitRuns_cons_eq]
  split
  · exact ⟨_, _, rfl⟩
  · split <;> exact ⟨_, _, rfl⟩
  · exact ⟨_, _, rfl⟩

/-- runs are maximal: two neighbouring runs differ in chromosome or level at their junction -/
theorem splitRuns_maximal {κ} [BEq κ] [LawfulBEq κ] (lv : Seg → κ) (t : List Seg)
    (pre post : List (List Seg)) (g1 g2 : List Seg) (h : splitRuns lv t = pre ++ [g1, g2] ++ post)
    (a b : Seg) (ha : g1.getLast? = some a) (hb : g2.head? = some b) :
    a.chrom ≠ b.chrom ∨ lv a ≠ lv b := by
  induction t generalizing pre g1 with
  | nil => simp [splitRuns] at h
  | cons x xs ih =>
    cases xs with
    | nil =>
      simp [splitRuns] at h
      have := congrArg List.length h
      simp at this
      omega
    | cons y ys =>
      obtain ⟨A, B, hAB⟩ := splitRuns_head lv y ys
      rw [splitRuns_cons_eq, hAB] at h
      simp only at h
      split at h
      · -- x joins the first run
        cases pre with
        | nil =>
          simp at h
          obtain ⟨h1, h2⟩ := h
          refine ih [] (y :: A) ?_ ?_
          · simp [hAB, h2]
          · rw [← h1] at ha; simpa using ha
        | cons p pre' =>
          simp at h
          obtain ⟨h1, h2⟩ := h
          refine ih ((y :: A) :: pre') g1 ?_ ha
          simp [hAB, h2]
      · rename_i hc
        cases pre with
        | nil =>
          simp at h
          obtain ⟨h1, h2, h3⟩ := h
          subst h1 h2
          simp at ha hb
          rw [← ha, ← hb]
          simp only [Bool.and_eq_true, beq_iff_eq, not_and] at hc
          by_cases hch : x.chrom = y.chrom
          · right; exact hc hch
          · left; exact hch
        | cons p pre' =>
          simp at h
          obtain ⟨h1, h2⟩ := h
          refine ih pre' g1 ?_ ha
          simp [hAB, h2]
/-! ### squashing one run -/

theorem squashRegion_fields (x : Seg) (xs : List Seg) :
    ∃ r, squashRegion (x :: xs) = some r ∧ r.chrom = x.chrom ∧ r.s = x.s ∧
      r.e = ((x :: xs).getLast?.getD x).e ∧
      r.probes = sumInt ((x :: xs).map (·.probes)) ∧ r.weight = sumRat ((x :: xs).map (·.weight)) ∧
      (0 < sumRat ((x :: xs).map (·.weight)) →
        r.log2 * sumRat ((x :: xs).map (·.weight)) = sumRat ((x :: xs).map (fun s => s.log2 * s.weight))) := by
  refine ⟨_, rfl, rfl, rfl, rfl, rfl, rfl, ?_⟩
  intro hw
  have hne : sumRat ((x :: xs).map (·.weight)) ≠ 0 := fun h => by
    rw [h] at hw; exact absurd hw (by decide)
  show (if sumRat ((x :: xs).map (·.weight)) > 0 then
      sumRat ((x :: xs).map (fun r => r.log2 * r.weight)) / sumRat ((x :: xs).map (·.weight))
    else _) * _ = _
  rw [if_pos hw, Rat.div_mul_cancel hne]

theorem foldl_addInt (a : Int) (l : List Int) : l.foldl (· + ·) a = a + l.foldl (· + ·) 0 := by
  induction l generalizing a with
  | nil => simp
  | cons x xs ih => simp only [List.foldl_cons]; rw [ih (a + x), ih (0 + x)]; omega

theorem foldl_addRat (a : Rat) (l : List Rat) : l.foldl (· + ·) a = a + l.foldl (· + ·) 0 := by
  induction l generalizing a with
  | nil => simp [Rat.add_zero]
  | cons x xs ih =>
    simp only [List.foldl_cons]; rw [ih (a + x), ih (0 + x), Rat.zero_add, Rat.add_assoc]

theorem sumInt_nil : sumInt [] = 0 := rfl
theorem sumRat_nil : sumRat [] = 0 := rfl
theorem sumInt_cons (x : Int) (xs : List Int) : sumInt (x :: xs) = x + sumInt xs := by
  unfold sumInt; simp only [List.foldl_cons]; rw [foldl_addInt]; omega
theorem sumRat_cons (x : Rat) (xs : List Rat) : sumRat (x :: xs) = x + sumRat xs := by
  unfold sumRat; simp only [List.foldl_cons]; rw [foldl_addRat, Rat.zero_add]
theorem sumInt_append (a b : List Int) : sumInt (a ++ b) = sumInt a + sumInt b := by
  induction a with
  | nil => simp [sumInt_nil]
  | cons x xs ih => simp only [List.cons_append, sumInt_cons, ih]; omega
theorem sumRat_append (a b : List Rat) : sumRat (a ++ b) = sumRat a + sumRat b := by
  induction a with
  | nil => simp [sumRat_nil, Rat.zero_add]
  | cons x xs ih => simp only [List.cons_append, sumRat_cons, ih, Rat.add_assoc]

theorem sumInt_flatten (ls : List (List Int)) : sumInt ls.flatten = sumInt (ls.map sumInt) := by
  induction ls with
  | nil => rfl
  | cons l ls ih => simp only [List.flatten_cons, List.map_cons, sumInt_append, sumInt_cons, ih]

theorem sumRat_flatten (ls : List (List Rat)) : sumRat ls.flatten = sumRat (ls.map sumRat) := by
  induction ls with
  | nil => rfl
  | cons l ls ih => simp only [List.flatten_cons, List.map_cons, sumRat_append, sumRat_cons, ih]

theorem filterMap_squash_map_some (gs : List (List Seg)) (hne : ∀ g ∈ gs, g ≠ []) :
    (gs.filterMap squashRegion).map some = gs.map squashRegion := by
  induction gs with
  | nil => rfl
  | cons g gs ih =>
    have ih := ih (fun g' hg' => hne g' (by simp [hg']))
    cases g with
    | nil => exact absurd rfl (hne [] (by simp))
    | cons x xs =>
      obtain ⟨r, hr, -⟩ := squashRegion_fields x xs
      simp only [List.filterMap_cons, hr, List.map_cons, ih]

theorem filterMap_squash_probes (gs : List (List Seg)) (hne : ∀ g ∈ gs, g ≠ []) :
    sumInt ((gs.filterMap squashRegion).map (·.probes)) = sumInt (gs.flatten.map (·.probes)) := by
  induction gs with
  | nil => rfl
  | cons g gs ih =>
    have ih := ih (fun g' hg' => hne g' (by simp [hg']))
    cases g with
    | nil => exact absurd rfl (hne [] (by simp))
    | cons x xs =>
      obtain ⟨r, hr, -, -, -, hp, -⟩ := squashRegion_fields x xs
      simp only [List.filterMap_cons, hr, List.map_cons, List.flatten_cons, List.map_append,
        sumInt_append, sumInt_cons, ih, hp]

theorem filterMap_squash_weight (gs : List (List Seg)) (hne : ∀ g ∈ gs, g ≠ []) :
    sumRat ((gs.filterMap squashRegion).map (·.weight)) = sumRat (gs.flatten.map (·.weight)) := by
  induction gs with
  | nil => rfl
  | cons g gs ih =>
    have ih := ih (fun g' hg' => hne g' (by simp [hg']))
    cases g with
    | nil => exact absurd rfl (hne [] (by simp))
    | cons x xs =>
      obtain ⟨r, hr, -, -, -, -, hp, -⟩ := squashRegion_fields x xs
      simp only [List.filterMap_cons, hr, List.map_cons, List.flatten_cons, List.map_append,
        sumRat_append, sumRat_cons, ih, hp]

/-- total probes are conserved by the run-based filter -/
theorem specSquash_conserves_probes (h : Bool) (f : Seg → Option Rat) (t : List Seg) :
    sumInt ((specSquash h f t).map (·.probes)) = sumInt (t.map (·.probes)) := by
  unfold specSquash
  rw [filterMap_squash_probes _ (splitRuns_nonempty _ t), splitRuns_flatten]

/-- total weight is conserved -/
theorem specSquash_conserves_weight (h : Bool) (f : Seg → Option Rat) (t : List Seg) :
    sumRat ((specSquash h f t).map (·.weight)) = sumRat (t.map (·.weight)) := by
  unfold specSquash
  rw [filterMap_squash_weight _ (splitRuns_nonempty _ t), splitRuns_flatten]

theorem specSquash_rows (h : Bool) (f : Seg → Option Rat) (t : List Seg) :
    (specSquash h f t).length = (splitRuns (fullLevel h f) t).length ∧
    ∀ i (hi : i < (splitRuns (fullLevel h f) t).length) (hj : i < (specSquash h f t).length),
      let g := (splitRuns (fullLevel h f) t)[i]
      let r := (specSquash h f t)[i]
      (∃ x xs, g = x :: xs ∧ r.chrom = x.chrom ∧ r.s = x.s ∧ r.e = (g.getLast?.getD x).e) := by
  have hm := filterMap_squash_map_some _ (splitRuns_nonempty (fullLevel h f) t)
  constructor
  · have := congrArg List.length hm
    simpa [specSquash] using this
  · intro i hi hj
    have hne := splitRuns_nonempty (fullLevel h f) t _ (List.getElem_mem hi)
    have hi' : i < ((splitRuns (fullLevel h f) t).filterMap squashRegion).length := hj
    have e1 : some (((splitRuns (fullLevel h f) t).filterMap squashRegion)[i]) =
        squashRegion ((splitRuns (fullLevel h f) t)[i]) := by
      have := congrArg (fun l => l[i]?) hm
      simpa [hi, hi'] using this
    show ∃ x xs, (splitRuns (fullLevel h f) t)[i] = x :: xs ∧
      (((splitRuns (fullLevel h f) t).filterMap squashRegion)[i]).chrom = x.chrom ∧
      (((splitRuns (fullLevel h f) t).filterMap squashRegion)[i]).s = x.s ∧
      (((splitRuns (fullLevel h f) t).filterMap squashRegion)[i]).e =
        (((splitRuns (fullLevel h f) t)[i]).getLast?.getD x).e
    generalize (splitRuns (fullLevel h f) t)[i] = g at hne e1 ⊢
    generalize ((splitRuns (fullLevel h f) t).filterMap squashRegion)[i] = r at e1 ⊢
    cases g with
    | nil => exact absurd rfl hne
    | cons x xs =>
      obtain ⟨r', hr, h1, h2, h3, -⟩ := squashRegion_fields x xs
      rw [hr] at e1
      cases e1
      exact ⟨x, xs, rfl, h1, h2, h3⟩

/-! ### `groupByKey` on lists whose equal keys are adjacent -/

def tailGroups {α κ} [BEq κ] (key : α → κ) (a : κ) (l : List α) : List (List α) :=
  (((l.map key).filter (fun b => !b == a)).eraseDups).map (fun k => l.filter (fun x => key x == k))

theorem groupByKey_cons {α κ} [BEq κ] [LawfulBEq κ] (key : α → κ) (y : α) (l : List α) :
    groupByKey key (y :: l) = (y :: l.filter (fun x => key x == key y)) :: tailGroups key (key y) l := by
  unfold groupByKey tailGroups
  rw [List.map_cons, List.eraseDups_cons, List.map_cons]
  congr 1
  · simp
  · apply List.map_congr_left
    intro k hk
    have hk' := List.mem_eraseDups.mp hk
    have hne : (key y == k) = false := by
      have := (List.mem_filter.mp hk').2
      simp only [Bool.not_eq_eq_eq_not, Bool.not_true, beq_eq_false_iff_ne, ne_eq] at this
      simp only [beq_eq_false_iff_ne, ne_eq]
      exact fun h => this h.symm
    simp [hne]

theorem groupByKey_cons_same {α κ} [BEq κ] [LawfulBEq κ] (key : α → κ) (x y : α) (l : List α)
    (h : key x = key y) :
    groupByKey key (x :: y :: l) =
      (x :: y :: l.filter (fun z => key z == key y)) :: tailGroups key (key y) l := by
  rw [groupByKey_cons]
  congr 1
  · simp [h]
  · unfold tailGroups
    have e : ((y :: l).map key).filter (fun b => !b == key x) = (l.map key).filter (fun b => !b == key y) := by
      simp [h]
    rw [e]
    apply List.map_congr_left
    intro k hk
    have hk' := List.mem_eraseDups.mp hk
    have hne : (key y == k) = false := by
      have := (List.mem_filter.mp hk').2
      simp only [Bool.not_eq_eq_eq_not, Bool.not_true, beq_eq_false_iff_ne, ne_eq] at this
      simp only [beq_eq_false_iff_ne, ne_eq]
      exact fun h => this h.symm
    simp [hne]

theorem groupByKey_cons_new {α κ} [BEq κ] [LawfulBEq κ] (key : α → κ) (x : α) (l : List α)
    (h : key x ∉ l.map key) :
    groupByKey key (x :: l) = [x] :: groupByKey key l := by
  rw [groupByKey_cons]
  have hne : ∀ z ∈ l, (key z == key x) = false := by
    intro z hz
    simp only [beq_eq_false_iff_ne, ne_eq]
    intro hzx
    exact h (hzx ▸ List.mem_map_of_mem hz)
  congr 1
  · congr 1
    rw [List.filter_eq_nil_iff]
    intro z hz
    simp [hne z hz]
  · unfold tailGroups groupByKey
    congr 2
    rw [List.filter_eq_self]
    intro k hk
    obtain ⟨z, hz, rfl⟩ := List.mem_map.mp hk
    simp [hne z hz]

theorem groupByKey_zip_eq_splitRuns {κ κ'} [BEq κ] [LawfulBEq κ] [BEq κ'] (lv : Seg → κ') :
    ∀ (t : List Seg) (ks : List κ), ks.length = t.length →
      (∀ i (h1 : i + 1 < ks.length) (h2 : i + 1 < t.length),
        ks[i] = ks[i+1] ↔ (t[i].chrom == t[i+1].chrom && lv t[i] == lv t[i+1]) = true) →
      (∀ i j (h1 : i + 1 < ks.length) (hj : j < ks.length), i < j → ks[i] ≠ ks[i+1] → ks[j] ≠ ks[i]) →
      (groupByKey (·.1) (ks.zip t)).map (fun g => g.map (·.2)) = splitRuns lv t := by
  intro t
  induction t with
  | nil => intro ks _ _ _; simp [groupByKey, splitRuns]
  | cons x xs ih =>
    intro ks hlen H1 H2
    cases ks with
    | nil => simp at hlen
    | cons k ks' =>
      cases xs with
      | nil =>
        have : ks' = [] := by simpa using hlen
        subst this
        simp [groupByKey_cons, tailGroups, splitRuns]
      | cons y ys =>
        cases ks' with
        | nil => simp at hlen
        | cons k' ks'' =>
          have hlen' : (k' :: ks'').length = (y :: ys).length := by simpa using hlen
          have ih' := ih (k' :: ks'') hlen'
            (fun i h1 h2 => by
              have := H1 (i+1) (by simpa using h1) (by simpa using h2)
              simpa using this)
            (fun i j h1 hj hij hne => by
              have := H2 (i+1) (j+1) (by simpa using h1) (by simpa using hj) (by omega)
              simpa using this (by simpa using hne))
          rw [List.zip_cons_cons, groupByKey_cons, List.map_cons, List.map_cons] at ih'
          have h01 := H1 0 (by simp) (by simp)
          simp only [List.getElem_cons_zero, List.getElem_cons_succ, Nat.zero_add] at h01
          rw [splitRuns_cons_eq, ← ih']
          by_cases hk : k = k'
          · subst hk
            rw [List.zip_cons_cons, List.zip_cons_cons, groupByKey_cons_same (fun p : κ × Seg => p.1) (k, x) (k, y) _ rfl]
            have hc := h01.mp rfl
            simp only [hc, if_true, List.map_cons]
          · have hc : ¬ ((x.chrom == y.chrom && lv x == lv y) = true) := fun hc => hk (h01.mpr hc)
            rw [List.zip_cons_cons, groupByKey_cons_new, List.zip_cons_cons, groupByKey_cons]
            · simp only [hc, if_false, List.map_cons, List.map_nil, Bool.false_eq_true]
            · rw [List.map_fst_zip (by simpa using Nat.le_of_eq hlen')]
              intro hmem
              obtain ⟨j, hj, hjk⟩ := List.mem_iff_getElem.mp hmem
              have := H2 0 (j+1) (by simp) (by simpa using hj) (by omega) (by simpa using hk)
              exact this (by simpa using hjk)
/-! ### integer key columns that track a relation between neighbouring rows -/

/-- `c` is a non-decreasing integer column over `t` whose neighbouring entries are equal exactly
    when the neighbouring rows are related by `P` -/
def Tracks (c : List Int) (t : List Seg) (P : Seg → Seg → Prop) : Prop :=
  c.length = t.length ∧ ∀ i (h1 : i + 1 < c.length) (h2 : i + 1 < t.length),
    c[i] ≤ c[i+1] ∧ (c[i] = c[i+1] ↔ P t[i] t[i+1])

theorem Tracks.mono {c t P} (h : Tracks c t P) :
    ∀ j i (hj : j < c.length), (hij : i ≤ j) → c[i] ≤ c[j] := by
  intro j
  induction j with
  | zero => intro i hj hij; have : i = 0 := by omega
            subst this; exact Int.le_refl _
  | succ j ih =>
    intro i hj hij
    by_cases hi : i = j + 1
    · subst hi; exact Int.le_refl _
    · have h1 := ih i (by omega) (by omega)
      have h2 := (h.2 j hj (by have := h.1; omega)).1
      omega

theorem Tracks.congr {c t} {P Q : Seg → Seg → Prop} (h : Tracks c t P)
    (hpq : ∀ a ∈ t, ∀ b ∈ t, (P a b ↔ Q a b)) : Tracks c t Q := by
  refine ⟨h.1, fun i h1 h2 => ?_⟩
  have := h.2 i h1 h2
  rw [← hpq _ (List.getElem_mem _) _ (List.getElem_mem _)]
  exact this

theorem tracks_const (t : List Seg) : Tracks (t.map (fun _ => (0 : Int))) t (fun _ _ => True) := by
  refine ⟨by simp, fun i h1 h2 => ?_⟩
  simp

/-! ### `enumerate_changes` (repaired: the running count of changes) on arbitrary rational levels -/

def cumQ (q : Seg → Rat) (n : Int) (p : Rat) : List Seg → List Int
  | [] => []
  | x :: xs => (n + (if p = q x then 0 else 1)) :: cumQ q (n + (if p = q x then 0 else 1)) (q x) xs

def ratChanges (q : Seg → Rat) : List Seg → List Int
  | [] => []
  | x :: xs => 0 :: cumQ q 0 (q x) xs

theorem enumChangesGo_rat (q : Seg → Rat) (n : Int) (p : Rat) (xs : List Seg) :
    enumChangesGo n (some p) (xs.map (fun r => some (q r))) = cumQ q n p xs := by
  induction xs generalizing n p with
  | nil => rfl
  | cons x xs ih =>
    simp only [List.map_cons, enumChangesGo, cumQ]
    rw [ih]

theorem enumChanges_rat (q : Seg → Rat) (t : List Seg) :
    enumChanges (t.map (fun r => some (q r))) = ratChanges q t := by
  cases t with
  | nil => rfl
  | cons x xs =>
    simp only [List.map_cons, enumChanges, ratChanges]
    rw [enumChangesGo_rat q 0 (q x) xs]

theorem cumQ_length (q : Seg → Rat) (n : Int) (p : Rat) (xs : List Seg) : (cumQ q n p xs).length = xs.length := by
  induction xs generalizing n p with
  | nil => rfl
  | cons x xs ih => simp [cumQ, ih]

theorem cumQ_succ (q : Seg → Rat) (n : Int) (p : Rat) (xs : List Seg) :
    ∀ i (h1 : i + 1 < (cumQ q n p xs).length) (h2 : i + 1 < xs.length),
      (cumQ q n p xs)[i+1] = (cumQ q n p xs)[i] + (if q xs[i] = q xs[i+1] then 0 else 1) := by
  induction xs generalizing n p with
  | nil => intro i h1 h2; simp at h2
  | cons x xs ih =>
    intro i h1 h2
    cases i with
    | zero =>
      cases xs with
      | nil => simp at h2
      | cons y ys => simp [cumQ]
    | succ i =>
      simp only [cumQ, List.getElem_cons_succ]
      exact ih _ _ i (by simpa [cumQ] using h1) (by simpa using h2)

theorem ratChanges_length (q : Seg → Rat) (t : List Seg) : (ratChanges q t).length = t.length := by
  cases t with
  | nil => rfl
  | cons x xs => simp [ratChanges, cumQ_length]

theorem ratChanges_succ (q : Seg → Rat) (t : List Seg) :
    ∀ i (h1 : i + 1 < (ratChanges q t).length) (h2 : i + 1 < t.length),
      (ratChanges q t)[i+1] = (ratChanges q t)[i] + (if q t[i] = q t[i+1] then 0 else 1) := by
  cases t with
  | nil => intro i h1 h2; simp at h2
  | cons x xs =>
    intro i h1 h2
    cases i with
    | zero =>
      cases xs with
      | nil => simp at h2
      | cons y ys => simp [ratChanges, cumQ]
    | succ i =>
      simp only [ratChanges, List.getElem_cons_succ]
      exact cumQ_succ q _ _ xs i (by simpa [ratChanges] using h1) (by simpa using h2)

/-- the key column counts the level changes: non-decreasing, and constant exactly between equal levels --
    for levels of ANY size (no integrality needed after the repair) -/
theorem tracks_ratChanges (q : Seg → Rat) (t : List Seg) :
    Tracks (ratChanges q t) t (fun a b => q a = q b) := by
  refine ⟨ratChanges_length q t, fun i h1 h2 => ?_⟩
  rw [ratChanges_succ q t i h1 h2]
  split <;> constructor <;> first | omega | (constructor <;> intro h <;> first | omega | assumption | contradiction)

/-! ### the chromosome ordinal -/

theorem idxOf_eraseDups_adj (p q : List String) (a b : String) (hnew : b ≠ a → b ∉ p ++ [a]) :
    (p ++ a :: b :: q).eraseDups.idxOf a ≤ (p ++ a :: b :: q).eraseDups.idxOf b ∧
    ((p ++ a :: b :: q).eraseDups.idxOf a = (p ++ a :: b :: q).eraseDups.idxOf b ↔ a = b) := by
  by_cases hab : a = b
  · subst hab; simp
  · have hb : b ∉ p ++ [a] := hnew (fun h => hab h.symm)
    have e : p ++ a :: b :: q = (p ++ [a]) ++ (b :: q) := by simp
    rw [e, List.eraseDups_append]
    have ha1 : a ∈ (p ++ [a]).eraseDups := List.mem_eraseDups.mpr (by simp)
    have hb1 : b ∉ (p ++ [a]).eraseDups := fun h => hb (List.mem_eraseDups.mp h)
    rw [List.idxOf_append, List.idxOf_append, if_pos ha1, if_neg hb1]
    have := List.idxOf_lt_length_of_mem ha1
    constructor
    · omega
    · constructor
      · intro h; omega
      · intro h; exact absurd h hab

theorem contig_new (t : List Seg) (hc : ChromContig t) (P Q : List Seg) (X Y : Seg)
    (ht : t = P ++ X :: Y :: Q) (hne : Y.chrom ≠ X.chrom) :
    Y.chrom ∉ P.map (·.chrom) ++ [X.chrom] := by
  intro hmem
  rcases List.mem_append.mp hmem with hmem | hmem
  · obtain ⟨Z, hZ, hZc⟩ := List.mem_map.mp hmem
    obtain ⟨l1, l2, rfl⟩ := List.append_of_mem hZ
    have := hc l1 (l2 ++ [X]) Q Z Y X (by simp [ht]) (by simp) hZc
    exact hne (hZc ▸ this.symm)
  · simp at hmem; exact hne hmem

theorem tracks_ord (t : List Seg) (hc : ChromContig t) :
    Tracks (t.map (fun r => chromOrdinal ((t.map (·.chrom)).eraseDups) r.chrom)) t
      (fun a b => a.chrom = b.chrom) := by
  refine ⟨by simp, fun i h1 h2 => ?_⟩
  have ht : t = t.take i ++ t[i] :: t[i+1] :: t.drop (i+2) := by
    rw [← List.drop_eq_getElem_cons, ← List.drop_eq_getElem_cons, List.take_append_drop]
  have hcs : t.map (·.chrom) =
      (t.take i).map (·.chrom) ++ t[i].chrom :: t[i+1].chrom :: (t.drop (i+2)).map (·.chrom) := by
    have := congrArg (List.map (·.chrom)) ht
    simpa only [List.map_append, List.map_cons] using this
  have := idxOf_eraseDups_adj ((t.take i).map (·.chrom)) ((t.drop (i+2)).map (·.chrom))
    t[i].chrom t[i+1].chrom (fun hne => contig_new t hc _ _ _ _ ht hne)
  rw [← hcs] at this
  simp only [List.getElem_map, chromOrdinal]
  constructor
  · exact Int.ofNat_le.mpr this.1
  · rw [← this.2]; exact Int.ofNat_inj

/-! ### combining the key columns -/

theorem keys_spec (t : List Seg) (ord : Seg → Int) (C A B : List Int) (PC PO PA PB : Seg → Seg → Prop)
    (hC : Tracks C t PC) (hO : Tracks (t.map ord) t PO) (hA : Tracks A t PA) (hB : Tracks B t PB) :
    let ks := ((C.zip t).map (fun p => p.1 + ord p.2)).zip (A.zip B)
    ks.length = t.length ∧
    (∀ i (h1 : i + 1 < ks.length) (h2 : i + 1 < t.length),
        ks[i] = ks[i+1] ↔ (PC t[i] t[i+1] ∧ PO t[i] t[i+1]) ∧ PA t[i] t[i+1] ∧ PB t[i] t[i+1]) ∧
    (∀ i j (h1 : i + 1 < ks.length) (hj : j < ks.length), i < j → ks[i] ≠ ks[i+1] → ks[j] ≠ ks[i]) := by
  intro ks
  have hlC := hC.1
  have hlA := hA.1
  have hlB := hB.1
  have hlO : (t.map ord).length = t.length := hO.1
  have hlen : ks.length = t.length := by simp [ks]; omega
  have e : ∀ i (h : i < ks.length),
      ks[i] = (C[i]'(by omega) + (t.map ord)[i]'(by omega), A[i]'(by omega), B[i]'(by omega)) := by
    intro i h; simp [ks]
  refine ⟨hlen, ?_, ?_⟩
  · intro i h1 h2
    rw [e i (by omega), e (i+1) h1]
    simp only [Prod.mk.injEq]
    obtain ⟨c1, c2⟩ := hC.2 i (by omega) h2
    obtain ⟨o1, o2⟩ := hO.2 i (by omega) h2
    obtain ⟨a1, a2⟩ := hA.2 i (by omega) h2
    obtain ⟨b1, b2⟩ := hB.2 i (by omega) h2
    rw [← c2, ← o2, ← a2, ← b2]
    constructor
    · rintro ⟨hk, ha, hb⟩
      exact ⟨⟨by omega, by omega⟩, ha, hb⟩
    · rintro ⟨⟨h1, h2⟩, ha, hb⟩
      exact ⟨by omega, ha, hb⟩
  · intro i j h1 hj hij hne heq
    apply hne
    rw [e j hj, e i (by omega)] at heq
    rw [e i (by omega), e (i+1) h1]
    simp only [Prod.mk.injEq] at heq ⊢
    obtain ⟨hk, ha, hb⟩ := heq
    have c1 := (hC.2 i (by omega) (by omega)).1
    have o1 := (hO.2 i (by omega) (by omega)).1
    have a1 := (hA.2 i (by omega) (by omega)).1
    have b1 := (hB.2 i (by omega) (by omega)).1
    have c2 := hC.mono j (i+1) (by omega) (by omega)
    have o2 := hO.mono j (i+1) (by omega) (by omega)
    have a2 := hA.mono j (i+1) (by omega) (by omega)
    have b2 := hB.mono j (i+1) (by omega) (by omega)
    refine ⟨by omega, by omega, by omega⟩

theorem natOrMissing_ne (q : Option Rat) (hq : NatOrMissing q) : q ≠ some (-1) := by
  rcases hq with rfl | ⟨n, rfl⟩
  · simp
  · intro h
    have h' : ((n : Nat) : Rat) = -1 := Option.some.inj h
    have h0 : (0 : Rat) ≤ ((n : Nat) : Rat) := by
      rw [← Rat.intCast_natCast]; exact Rat.intCast_nonneg.mpr (Int.natCast_nonneg n)
    rw [h'] at h0
    exact absurd h0 (by decide)

/-- `fillna(-1)` keeps two allele-specific copy numbers apart exactly when they differ, as long as −1 itself
    is not a value -/
theorem getD_neg_one_inj (q q' : Option Rat) (hq : q ≠ some (-1)) (hq' : q' ≠ some (-1)) :
    q.getD (-1) = q'.getD (-1) ↔ q = q' := by
  constructor
  · intro h
    cases q with
    | none =>
      cases q' with
      | none => rfl
      | some b => simp only [Option.getD_none, Option.getD_some] at h; exact absurd (h ▸ rfl) hq'
    | some a =>
      cases q' with
      | none => simp only [Option.getD_none, Option.getD_some] at h; exact absurd (h ▸ rfl) hq
      | some b => simp only [Option.getD_some] at h; rw [h]
  · intro h; rw [h]

/-! ### the group keys of the code select exactly the maximal runs -/

/-- a level that is present (not NaN) -/
def Present (q : Option Rat) : Prop := ∃ v : Rat, q = some v

/-- the rows `squash_by_groups` hands to `groupby`, each tagged with its group key (`_group`, `_g1`, `_g2`) -/
def taggedRows (h : Bool) (t : List Seg) (levels : List (Option Rat)) : List ((Int × Int × Int) × Seg) :=
  let names := (t.map (·.chrom)).eraseDups
  let change := enumChanges levels
  let keys : List Int := (change.zip t).map (fun p => p.1 + chromOrdinal names p.2.chrom)
  let g1 := if h then enumChanges (t.map (fun r => some (r.cn1.getD (-1)))) else t.map (fun _ => 0)
  let g2 := if h then enumChanges (t.map (fun r => some (r.cn2.getD (-1)))) else t.map (fun _ => 0)
  (keys.zip (g1.zip g2)).zip t

theorem squashByGroups_def (h : Bool) (t : List Seg) (lv : List (Option Rat)) :
    squashByGroups h t lv = (groupByKey (·.1) (taggedRows h t lv)).filterMap (fun g => squashRegion (g.map (·.2))) := rfl

theorem filterAmpdel_def (h : Bool) (t : List Seg) :
    filterAmpdel h t = (groupByKey (·.1) (taggedRows h t (t.map levelAmpdel))).filterMap (fun g =>
      match g with
      | [] => none
      | x :: _ => if levelAmpdel x.2 == some 0 then none else squashRegion (g.map (·.2))) := rfl

/-- CORE: the groups pandas forms from the code's keys are exactly the maximal runs, in order -/
theorem taggedGroups_eq_runs (h : Bool) (f : Seg → Option Rat) (t : List Seg)
    (hc : ChromContig t) (hf : ∀ r ∈ t, Present (f r))
    (h1 : h = true → ∀ r ∈ t, r.cn1 ≠ some (-1) ∧ r.cn2 ≠ some (-1)) :
    (groupByKey (·.1) (taggedRows h t (t.map f))).map (fun g => g.map (·.2)) = splitRuns (fullLevel h f) t := by
  let g : Seg → Rat := fun r => (f r).getD 0
  have hg : ∀ r ∈ t, f r = some (g r) := by
    intro r hr
    obtain ⟨v, hv⟩ := hf r hr
    simp only [g, hv, Option.getD_some]
  have hmapf : t.map f = t.map (fun r => some (g r)) := List.map_congr_left hg
  have hC : Tracks (enumChanges (t.map f)) t (fun a b => f a = f b) := by
    rw [hmapf, enumChanges_rat]
    refine (tracks_ratChanges g t).congr ?_
    intro a ha b hb
    rw [hg a ha, hg b hb]
    simp
  have hO := tracks_ord t hc
  unfold taggedRows
  simp only []
  cases h with
  | false =>
    simp only [Bool.false_eq_true, if_false]
    obtain ⟨k1, k2, k3⟩ := keys_spec t _ _ _ _ _ _ _ _ hC hO (tracks_const t) (tracks_const t)
    refine groupByKey_zip_eq_splitRuns (fullLevel false f) t _ k1 ?_ k3
    intro i i1 i2
    rw [k2 i i1 i2]
    simp only [fullLevel, Bool.false_eq_true, if_false, Bool.and_eq_true, beq_iff_eq, Prod.mk.injEq,
      and_true]
    exact and_comm
  | true =>
    have h1' := h1 rfl
    have hA : Tracks (enumChanges (t.map (fun r => some (r.cn1.getD (-1))))) t (fun a b => a.cn1 = b.cn1) := by
      rw [enumChanges_rat (fun r => r.cn1.getD (-1)) t]
      refine (tracks_ratChanges (fun r => r.cn1.getD (-1)) t).congr ?_
      intro a ha b hb
      exact getD_neg_one_inj _ _ (h1' a ha).1 (h1' b hb).1
    have hB : Tracks (enumChanges (t.map (fun r => some (r.cn2.getD (-1))))) t (fun a b => a.cn2 = b.cn2) := by
      rw [enumChanges_rat (fun r => r.cn2.getD (-1)) t]
      refine (tracks_ratChanges (fun r => r.cn2.getD (-1)) t).congr ?_
      intro a ha b hb
      exact getD_neg_one_inj _ _ (h1' a ha).2 (h1' b hb).2
    simp only [if_true]
    obtain ⟨k1, k2, k3⟩ := keys_spec t _ _ _ _ _ _ _ _ hC hO hA hB
    refine groupByKey_zip_eq_splitRuns (fullLevel true f) t _ k1 ?_ k3
    intro i i1 i2
    rw [k2 i i1 i2]
    simp only [fullLevel, if_true, Bool.and_eq_true, beq_iff_eq, Prod.mk.injEq]
    constructor
    · rintro ⟨⟨a, b⟩, c, d⟩; exact ⟨b, a, c, d⟩
    · rintro ⟨b, a, c, d⟩; exact ⟨⟨a, b⟩, c, d⟩

/-- MAIN: on a chromosome-contiguous table whose levels are present (ANY rational values -- integrality is
    not needed since `enumerate_changes` counts the changes), `squash_by_groups` (change count of the level +
    chromosome ordinal, plus the allele-specific keys) yields exactly one squashed row per maximal run of
    consecutive same-chromosome, same-level segments -/
theorem squashByGroups_eq_runs_any (h : Bool) (f : Seg → Option Rat) (t : List Seg)
    (hc : ChromContig t) (hf : ∀ r ∈ t, Present (f r))
    (h1 : h = true → ∀ r ∈ t, r.cn1 ≠ some (-1) ∧ r.cn2 ≠ some (-1)) :
    squashByGroups h t (t.map f) = specSquash h f t := by
  have hfm : ∀ L : List (List ((Int × Int × Int) × Seg)),
      L.filterMap (fun g => squashRegion (g.map (·.2))) =
        (L.map (fun g => g.map (·.2))).filterMap squashRegion := by
    intro L; rw [List.filterMap_map]; rfl
  rw [squashByGroups_def, hfm, taggedGroups_eq_runs h f t hc hf h1]
  rfl

theorem filterMap_ampdelPick (runs : List (List Seg)) :
    runs.filterMap ampdelPick = (runs.filter ampdelKeep).filterMap squashRegion := by
  induction runs with
  | nil => rfl
  | cons g gs ih =>
    cases g with
    | nil =>
      have e1 : ampdelPick [] = none := rfl
      have e2 : ampdelKeep [] = false := rfl
      rw [List.filterMap_cons_none e1, List.filter_cons_of_neg (by rw [e2]; decide), ih]
    | cons x xs =>
      cases hx : (levelAmpdel x == some 0) with
      | true =>
        have e1 : ampdelPick (x :: xs) = none := by simp only [ampdelPick, hx, if_true]
        have e2 : ampdelKeep (x :: xs) = false := by simp only [ampdelKeep, bne, hx, Bool.not_true]
        rw [List.filterMap_cons_none e1, List.filter_cons_of_neg (by rw [e2]; decide), ih]
      | false =>
        have e1 : ampdelPick (x :: xs) = squashRegion (x :: xs) := by
          simp only [ampdelPick, hx, Bool.false_eq_true, if_false]
        have e2 : ampdelKeep (x :: xs) = true := by simp only [ampdelKeep, bne, hx, Bool.not_false]
        rw [List.filter_cons_of_pos e2]
        simp only [List.filterMap_cons, e1, ih]

/-- `ampdel` keeps exactly the non-neutral maximal runs, squashed -/
theorem filterAmpdel_eq_runs (h : Bool) (t : List Seg) (hc : ChromContig t)
    (h1 : h = true → ∀ r ∈ t, r.cn1 ≠ some (-1) ∧ r.cn2 ≠ some (-1)) :
    filterAmpdel h t = specAmpdel h t := by
  have hf : ∀ r ∈ t, Present (levelAmpdel r) := fun r _ => ⟨_, rfl⟩
  have hfm : ∀ L : List (List ((Int × Int × Int) × Seg)),
      L.filterMap (fun g => match g with
        | [] => none
        | x :: _ => if levelAmpdel x.2 == some 0 then none else squashRegion (g.map (·.2))) =
        (L.map (fun g => g.map (·.2))).filterMap ampdelPick := by
    intro L
    rw [List.filterMap_map]
    congr 1
    funext g
    cases g with
    | nil => rfl
    | cons x xs => rfl
  rw [filterAmpdel_def, hfm, taggedGroups_eq_runs h levelAmpdel t hc hf h1, filterMap_ampdelPick]
  rfl

/-- the statement of the first round (integer levels, natural-or-missing allele-specific copy numbers) -/
theorem squashByGroups_eq_runs (h : Bool) (f : Seg → Option Rat) (t : List Seg)
    (hc : ChromContig t) (hf : ∀ r ∈ t, IntLevel (f r))
    (h1 : h = true → ∀ r ∈ t, NatOrMissing r.cn1 ∧ NatOrMissing r.cn2) :
    squashByGroups h t (t.map f) = specSquash h f t :=
  squashByGroups_eq_runs_any h f t hc
    (fun r hr => by obtain ⟨z, hz⟩ := hf r hr; exact ⟨_, hz⟩)
    (fun hh r hr => ⟨natOrMissing_ne _ (h1 hh r hr).1, natOrMissing_ne _ (h1 hh r hr).2⟩)

theorem intLevel_ite3 (a b : Prop) [Decidable a] [Decidable b] :
    IntLevel (some (if a then (1 : Rat) else if b then -1 else 0)) ∧
    IntLevel (some (if a then (-1 : Rat) else if b then 1 else 0)) := by
  constructor
  · by_cases ha : a
    · exact ⟨1, by rw [if_pos ha]; rfl⟩
    · by_cases hb : b
      · exact ⟨-1, by rw [if_neg ha, if_pos hb]; rfl⟩
      · exact ⟨0, by rw [if_neg ha, if_neg hb]; rfl⟩
  · by_cases ha : a
    · exact ⟨-1, by rw [if_pos ha]; rfl⟩
    · by_cases hb : b
      · exact ⟨1, by rw [if_neg ha, if_pos hb]; rfl⟩
      · exact ⟨0, by rw [if_neg ha, if_neg hb]; rfl⟩

/-- the `ampdel` levels are −1 / 0 / 1 -/
theorem levelAmpdel_int (r : Seg) : IntLevel (levelAmpdel r) := (intLevel_ite3 _ _).1
theorem levelCi_int (r : Seg) : IntLevel (levelCi r) := (intLevel_ite3 _ _).2
theorem levelSem_int (r : Seg) : IntLevel (levelSem r) := by
  unfold levelSem
  cases r.sem with
  | none => exact ⟨0, rfl⟩
  | some s => exact (intLevel_ite3 _ _).2

set_option linter.unusedSimpArgs false in
/-- a run kept by `ampdel` consists only of deleted (cn = 0) or only of amplified (cn ≥ 5) segments -/
theorem ampdel_level_meaning (r : Seg) (c : Rat) (hc : r.cn = some c) :
    (levelAmpdel r = some 1 ↔ c ≥ 5) ∧ (levelAmpdel r = some (-1) ↔ c = 0) := by
  have h5 : ((5 : Int) : Rat) = 5 := rfl
  have h0 : ((0 : Int) : Rat) = 0 := rfl
  have hl : levelAmpdel r = some (if c ≥ 5 then 1 else if c = 0 then -1 else 0) := by
    simp [levelAmpdel, hc, Generated.AMPDEL_AMP_MIN, Generated.AMPDEL_DEL_EQ, h5, h0]
  rw [hl]
  by_cases h1 : c ≥ 5
  · have h2 : c ≠ 0 := by
      intro h; rw [h] at h1; exact absurd h1 (by decide)
    simp only [if_pos h1, h1, h2, iff_false, true_and, Option.some.injEq]
    decide
  · by_cases h2 : c = 0
    · simp only [if_neg h1, if_pos h2, h1, h2, Option.some.injEq, iff_false, iff_true, and_true]
      decide
    · simp only [if_neg h1, if_neg h2, h1, h2, Option.some.injEq, iff_false]
      decide

end CnvVerif
