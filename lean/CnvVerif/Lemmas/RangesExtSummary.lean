/-
  Lemmas behind Props/C07Ext.lean, part 2: the summaries `into_ranges` applies — `join_strings` (distinct strings
  in order of first appearance), `np.nanmedian` (order statistics of the non-NaN values), `first_of` / `last_of`,
  `merge_strands`.
-/
import Mathlib.Data.List.Sort
import Mathlib.Tactic.Linarith
import CnvVerif.Model.RangesExt
set_option linter.unusedSimpArgs false
namespace CnvVerif

/-! ### `pd.unique`: distinct, same members, order of first appearance -/

theorem rx_nodup_eraseDups (l : List String) : l.eraseDups.Nodup := by
  match l with
  | [] => simp
  | a :: l =>
    have hlen : (l.filter (fun b => !b == a)).length < (a :: l).length :=
      Nat.lt_succ_of_le (List.length_filter_le _ _)
    rw [List.eraseDups_cons, List.nodup_cons]
    refine ⟨?_, rx_nodup_eraseDups _⟩
    rw [List.mem_eraseDups, List.mem_filter]
    simp
termination_by l.length

theorem rx_eraseDups_sublist (l : List String) : l.eraseDups.Sublist l := by
  match l with
  | [] => simp
  | a :: l =>
    have hlen : (l.filter (fun b => !b == a)).length < (a :: l).length :=
      Nat.lt_succ_of_le (List.length_filter_le _ _)
    rw [List.eraseDups_cons]
    exact List.Sublist.cons_cons a ((rx_eraseDups_sublist _).trans List.filter_sublist)
termination_by l.length

/-- a list without repeats is left as it is -/
theorem rx_eraseDups_of_nodup (l : List String) (h : l.Nodup) : l.eraseDups = l := by
  induction l with
  | nil => rfl
  | cons a l ih =>
    obtain ⟨ha, hl⟩ := List.nodup_cons.mp h
    rw [List.eraseDups_cons]
    have : l.filter (fun b => !b == a) = l := by
      apply List.filter_eq_self.mpr
      intro b hb
      have : b ≠ a := fun hba => ha (hba ▸ hb)
      simp [this]
    rw [this, ih hl]

/-- all hits carry the same string: that string, once -/
theorem rx_joinStrings_const (l : List String) (c : String) (h : ∀ x ∈ l, x = c) (hne : l ≠ []) :
    joinStrings l = c := by
  unfold joinStrings
  have : l.eraseDups = [c] := by
    cases l with
    | nil => exact absurd rfl hne
    | cons x l =>
      have hx : x = c := h x (List.mem_cons_self ..)
      subst hx
      rw [List.eraseDups_cons]
      have : l.filter (fun b => !b == x) = [] := by
        apply List.filter_eq_nil_iff.mpr
        intro y hy
        have := h y (List.mem_cons_of_mem _ hy)
        simp [this]
      rw [this]; rfl
  rw [this]; rfl

/-! ### sorting and the median -/

theorem sortQ_perm (l : List Rat) : (sortQ l).Perm l := List.mergeSort_perm l _

theorem sortQ_length (l : List Rat) : (sortQ l).length = l.length := (sortQ_perm l).length_eq

theorem sortQ_sorted (l : List Rat) : (sortQ l).Pairwise (· ≤ ·) := by
  have := List.pairwise_mergeSort (le := fun a b : Rat => decide (a ≤ b))
    (fun a b c h₁ h₂ => by simp at *; exact le_trans h₁ h₂)
    (fun a b => by simp; exact le_total a b) l
  unfold sortQ
  simpa using this

theorem sortQ_eq_of_perm {l₁ l₂ : List Rat} (hp : l₁.Perm l₂) : sortQ l₁ = sortQ l₂ :=
  List.Perm.eq_of_pairwise' (sortQ_sorted _) (sortQ_sorted _)
    ((sortQ_perm l₁).trans (hp.trans (sortQ_perm l₂).symm))

theorem sortQ_of_sorted {l : List Rat} (h : l.Pairwise (· ≤ ·)) : sortQ l = l :=
  List.Perm.eq_of_pairwise' (sortQ_sorted _) h (sortQ_perm l)

theorem medianQ_def (l : List Rat) : medianQ l =
    if (sortQ l).length % 2 = 1 then (sortQ l).getD ((sortQ l).length / 2) 0
    else ((sortQ l).getD ((sortQ l).length / 2 - 1) 0 + (sortQ l).getD ((sortQ l).length / 2) 0) / 2 := rfl

theorem medianQ_eq_of_perm {l₁ l₂ : List Rat} (hp : l₁.Perm l₂) : medianQ l₁ = medianQ l₂ := by
  rw [medianQ_def, medianQ_def, sortQ_eq_of_perm hp]

/-- on values already in ascending order: the middle one, or the mean of the two middle ones -/
theorem medianQ_of_sorted (l : List Rat) (h : l.Pairwise (· ≤ ·)) : medianQ l =
    if l.length % 2 = 1 then l.getD (l.length / 2) 0
    else (l.getD (l.length / 2 - 1) 0 + l.getD (l.length / 2) 0) / 2 := by
  rw [medianQ_def, sortQ_of_sorted h]

theorem getD_mem (l : List Rat) (i : Nat) (h : i < l.length) : l.getD i 0 ∈ l := by
  simp [List.getD, h]

theorem medianQ_mem_range (l : List Rat) (hl : l ≠ []) (lo hi : Rat) (h : ∀ x ∈ l, lo ≤ x ∧ x ≤ hi) :
    lo ≤ medianQ l ∧ medianQ l ≤ hi := by
  have hn : 0 < (sortQ l).length := by rw [sortQ_length]; exact List.length_pos_iff.mpr hl
  have hm : ∀ i, i < (sortQ l).length → lo ≤ (sortQ l).getD i 0 ∧ (sortQ l).getD i 0 ≤ hi :=
    fun i hi' => h _ ((sortQ_perm l).mem_iff.mp (getD_mem _ _ hi'))
  rw [medianQ_def]
  split
  · exact hm _ (by omega)
  · have h1 := hm ((sortQ l).length / 2 - 1) (by omega)
    have h2 := hm ((sortQ l).length / 2) (by omega)
    constructor <;> linarith [h1.1, h1.2, h2.1, h2.2]

/-! ### `np.nanmedian` on cells -/

theorem nanMedian_of_finite (vs : List Val) (x : Rat) (xs : List Rat)
    (h : vs.filterMap Val.finite? = x :: xs) : nanMedian vs = .num (medianQ (x :: xs)) := by
  unfold nanMedian
  rw [h]

theorem nanMedian_all_nan (vs : List Val) (h : ∀ v ∈ vs, v.finite? = none) : nanMedian vs = .nan := by
  unfold nanMedian
  have : vs.filterMap Val.finite? = [] := by
    rw [List.filterMap_eq_nil_iff]
    exact h
  rw [this]

/-- the order of the hits does not matter -/
theorem nanMedian_perm (vs ws : List Val) (hp : vs.Perm ws) : nanMedian vs = nanMedian ws := by
  have hf : (vs.filterMap Val.finite?).Perm (ws.filterMap Val.finite?) := hp.filterMap _
  unfold nanMedian
  cases h1 : vs.filterMap Val.finite? with
  | nil =>
    rw [h1] at hf
    rw [hf.symm.eq_nil]
  | cons x xs =>
    cases h2 : ws.filterMap Val.finite? with
    | nil => rw [h2] at hf; exact absurd hf.eq_nil (by rw [h1]; simp)
    | cons y ys =>
      rw [h1, h2] at hf
      simp only
      rw [medianQ_eq_of_perm hf]

/-- NaN cells are ignored: dropping them does not change the summary -/
theorem nanMedian_drop_nan (vs : List Val) :
    nanMedian (vs.filter (fun v => v.finite?.isSome)) = nanMedian vs := by
  unfold nanMedian
  have : (vs.filter (fun v => v.finite?.isSome)).filterMap Val.finite? = vs.filterMap Val.finite? := by
    induction vs with
    | nil => rfl
    | cons v vs ih =>
      cases hv : v.finite? with
      | none => simp [List.filter_cons, List.filterMap_cons, hv, ih]
      | some q => simp [List.filter_cons, List.filterMap_cons, hv, ih]
  rw [this]

end CnvVerif
