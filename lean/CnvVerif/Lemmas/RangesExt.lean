/-
  Lemmas behind Props/C07Ext.lean: table-level statements for ANY two tables (several chromosomes, missing
  chromosomes, keep_empty on / off): the single-chromosome shortcut of `by_shared_chroms` is the general path,
  `iter_slices` / `intersection` / `in_ranges` / `into_ranges` decompose per chromosome and per query.
-/
import CnvVerif.Model.RangesExt
import CnvVerif.Lemmas.Ranges
import CnvVerif.Lemmas.RangesMulti
set_option linter.unusedSimpArgs false
namespace CnvVerif

/-! ### `by_shared_chroms`: the shortcut is not observable -/

/-- the grouped path of `by_shared_chroms` alone (the `else` branch) -/
def bySharedGeneral (table other : Table) (keepEmpty : Bool) : List (String × Table × Option Table) :=
  (groupByChrom table).filterMap fun (c, ct) =>
    let ot := other.filter (fun r => r.chrom == c)
    if !ot.isEmpty then some (c, ct, some ot)
    else if keepEmpty then some (c, ct, none)
    else none

theorem isEmpty_false_of_ne_nil {α} (l : List α) (h : l ≠ []) : l.isEmpty = false := by
  cases l with
  | nil => exact absurd rfl h
  | cons _ _ => rfl

theorem bySharedChroms_eq_general (table other : Table) (ke : Bool) :
    bySharedChroms table other ke = bySharedGeneral table other ke := by
  by_cases hfast : ((chromsInOrder table).length == 1 && (chromsInOrder other).length == 1
      && chromsInOrder table == chromsInOrder other) = true
  · have hfast' := hfast
    simp only [Bool.and_eq_true, beq_iff_eq] at hfast'
    obtain ⟨⟨h1, _⟩, h3⟩ := hfast'
    obtain ⟨c, hc⟩ := List.length_eq_one_iff.mp h1
    have hco : chromsInOrder other = [c] := by rw [← h3, hc]
    obtain ⟨ht, hnt⟩ := rm_chroms_single table c hc
    obtain ⟨ho, hno⟩ := rm_chroms_single other c hco
    unfold bySharedChroms bySharedGeneral groupByChrom
    simp only [hfast, if_true]
    rw [hc]
    simp only [List.headD_cons, List.map_cons, List.map_nil, List.filterMap_cons, List.filterMap_nil]
    rw [rm_filter_all table c ht, rm_filter_all other c ho]
    simp [isEmpty_false_of_ne_nil other hno]
  · unfold bySharedChroms bySharedGeneral
    simp only [hfast]
    simp only [Bool.false_eq_true, if_false]

theorem idxSelect_nil (qs qe : Option Int) (inner : Bool) : idxSelect [] qs qe inner = [] := by
  simp [idxSelect]

theorem selectRange_nil_q (qs qe : Option Int) (mode : Mode) : selectRange [] qs qe mode = [] := by
  unfold selectRange
  rw [idxSelect_nil]
  split <;> simp [trimRows]

/-! ### `iter_slices` chromosome by chromosome -/

theorem iterSlices_per_chromosome (table other : Table) (mode : Mode) (ke : Bool) :
    iterSlices table other mode ke =
      (chromsInOrder other).flatMap (fun c =>
        let src := table.filter (fun r => r.chrom == c)
        let qs := other.filter (fun r => r.chrom == c)
        if !src.isEmpty then
          (qs.map (fun b => idxSelect src (some b.s) (some b.e) (mode == .inner))).filter
            (fun sel => ke || !sel.isEmpty)
        else if ke then qs.map (fun _ => [])
        else []) := by
  unfold iterSlices
  rw [bySharedChroms_eq_general]
  unfold bySharedGeneral groupByChrom
  rw [rm_flatMap_filterMap_map]
  apply rm_flatMap_congr
  intro c _
  by_cases hsrc : (table.filter (fun r => r.chrom == c)).isEmpty = true
  · cases ke <;> simp [hsrc]
  · simp [hsrc]

/-- the query rows in the order `by_shared_chroms` visits them: grouped by chromosome in order of first
    appearance (= the table itself when its chromosomes are contiguous) -/
def queriesInOrder (dest : Table) : Table :=
  (chromsInOrder dest).flatMap (fun c => dest.filter (fun r => r.chrom == c))

/-- the rows of `source` one query row selects: the slice of the rows of ITS chromosome -/
def hitsOf (source : Table) (inner : Bool) (q : Row) : Table :=
  idxSelect (source.filter (fun r => r.chrom == q.chrom)) (some q.s) (some q.e) inner

theorem map_flatMap' {α β γ : Type} (l : List α) (f : α → List β) (g : β → γ) :
    (l.flatMap f).map g = l.flatMap (fun a => (f a).map g) := by
  induction l with
  | nil => rfl
  | cons a l ih => simp [List.flatMap_cons, ih]

/-- with `keep_empty` every query row gets exactly one slice: that of its own chromosome's rows (empty when the
    chromosome is missing from the queried table) -/
theorem iterSlices_keep (table other : Table) (mode : Mode) :
    iterSlices table other mode true = (queriesInOrder other).map (hitsOf table (mode == .inner)) := by
  rw [iterSlices_per_chromosome]
  unfold queriesInOrder
  rw [map_flatMap']
  apply rm_flatMap_congr
  intro c _
  have hcongr : ∀ (l : Table), (∀ b ∈ l, b.chrom = c) →
      l.map (hitsOf table (mode == .inner)) =
        l.map (fun b => idxSelect (table.filter (fun r => r.chrom == c)) (some b.s) (some b.e) (mode == .inner)) := by
    intro l hl
    apply List.map_congr_left
    intro b hb
    unfold hitsOf
    rw [hl b hb]
  have hmem : ∀ b ∈ other.filter (fun r => r.chrom == c), b.chrom = c := by
    intro b hb
    rw [List.mem_filter] at hb
    simpa using hb.2
  rw [hcongr _ hmem]
  by_cases hsrc : (table.filter (fun r => r.chrom == c)).isEmpty = true
  · have hnil : table.filter (fun r => r.chrom == c) = [] := by simpa using hsrc
    simp [hnil, idxSelect_nil]
  · simp [hsrc, filter_const_true]

/-- without `keep_empty` the empty slices are left out, nothing else changes -/
theorem iterSlices_drop (table other : Table) (mode : Mode) :
    iterSlices table other mode false =
      ((queriesInOrder other).map (hitsOf table (mode == .inner))).filter (fun sel => !sel.isEmpty) := by
  rw [← iterSlices_keep, iterSlices_per_chromosome, iterSlices_per_chromosome, List.filter_flatMap]
  apply rm_flatMap_congr
  intro c _
  by_cases hsrc : (table.filter (fun r => r.chrom == c)).isEmpty = true
  · simp [hsrc]
  · simp [hsrc, filter_const_true]

/-! ### the slice of one query in the words of the property -/

/-- a well-formed table of several chromosomes: within each chromosome sorted by start (the chromosomes may come
    in any order, even interleaved), non-negative coordinates, positive length -/
def WFGenomeQ (t : Table) : Prop :=
  t.Pairwise (fun a b => a.chrom = b.chrom → a.s ≤ b.s) ∧ ∀ r ∈ t, 0 ≤ r.s ∧ r.s < r.e

instance (t : Table) : Decidable (WFGenomeQ t) := by unfold WFGenomeQ; infer_instance

/-- … then every chromosome's rows form a well-formed table -/
theorem WFGenomeQ.chrom {t : Table} (h : WFGenomeQ t) (c : String) :
    WFTable (t.filter (fun r => r.chrom == c)) := by
  constructor
  · apply List.Pairwise.imp_of_mem _ (h.1.filter _)
    intro a b ha hb hab
    rw [List.mem_filter] at ha hb
    have h1 : a.chrom = c := by simpa using ha.2
    have h2 : b.chrom = c := by simpa using hb.2
    exact hab (h1.trans h2.symm)
  · intro r hr
    exact h.2 r (List.mem_filter.mp hr).1

theorem hitsOf_exact (source : Table) (h : WFGenomeQ source) (inner : Bool) (q : Row) (hq : 0 ≤ q.s) :
    hitsOf source inner q =
      source.filter (fun r => r.chrom == q.chrom && selFilter (some q.s) (some q.e) inner r) := by
  unfold hitsOf
  rw [idxSelect_exact _ (h.chrom q.chrom) (some q.s) (some q.e) (by intro s hs; cases hs; exact hq) inner,
    List.filter_filter]
  apply List.filter_congr
  intro r _
  exact Bool.and_comm _ _

/-! ### `intersection` -/

theorem flatten_filter_nonempty {α} (L : List (List α)) :
    (L.filter (fun sel => !sel.isEmpty)).flatten = L.flatten := by
  induction L with
  | nil => rfl
  | cons x L ih =>
    cases x with
    | nil => simpa using ih
    | cons a x => simp [List.filter_cons, ih]

theorem byRangesDf_per_query (table other : Table) (mode : Mode) (ke : Bool) :
    (byRanges table other mode ke).flatMap (·.2) =
      (queriesInOrder other).flatMap (fun b =>
        selectRange (table.filter (fun r => r.chrom == b.chrom)) (some b.s) (some b.e) mode) := by
  have hflat : ∀ (L : List (Row × Table)),
      (L.filter (fun p => !p.2.isEmpty || ke)).flatMap (·.2) = L.flatMap (·.2) := by
    intro L
    induction L with
    | nil => rfl
    | cons p L ih =>
      obtain ⟨b, sel⟩ := p
      cases sel with
      | nil => cases ke <;> simpa [List.filter_cons] using ih
      | cons a x => simp [List.filter_cons, ih]
  unfold byRanges
  rw [hflat, byRangesDf_per_chromosome]
  unfold queriesInOrder
  rw [List.flatMap_assoc, List.flatMap_assoc]
  apply rm_flatMap_congr
  intro c _
  have hmem : ∀ b ∈ other.filter (fun r => r.chrom == c), b.chrom = c := by
    intro b hb
    rw [List.mem_filter] at hb
    simpa using hb.2
  have hR : (other.filter (fun r => r.chrom == c)).flatMap (fun b =>
        selectRange (table.filter (fun r => r.chrom == b.chrom)) (some b.s) (some b.e) mode) =
      (other.filter (fun r => r.chrom == c)).flatMap (fun b =>
        selectRange (table.filter (fun r => r.chrom == c)) (some b.s) (some b.e) mode) := by
    apply rm_flatMap_congr
    intro b hb
    rw [hmem b hb]
  rw [hR]
  by_cases hsrc : (table.filter (fun r => r.chrom == c)).isEmpty = true
  · have hnil : table.filter (fun r => r.chrom == c) = [] := by simpa using hsrc
    cases ke <;> simp [hnil, selectRange_nil_q, List.flatMap_map]
  · simp [hsrc, List.flatMap_map]

/-- `intersection(other, mode)` for ANY two tables: the concatenation, over the query rows grouped by chromosome in
    order of first appearance, of each query's selection from the rows of its own chromosome -/
theorem intersection_per_query (table other : Table) (mode : Mode) :
    intersection table other mode =
      (queriesInOrder other).flatMap (fun b =>
        selectRange (table.filter (fun r => r.chrom == b.chrom)) (some b.s) (some b.e) mode) := by
  unfold intersection
  by_cases hm : mode = .trim
  · subst hm
    simp only [beq_self_eq_true, if_true]
    rw [← byRangesDf_per_query table other .trim false, List.flatMap_def]
  · have hne : (mode == Mode.trim) = false := by cases mode <;> simp_all
    rw [hne]
    simp only [Bool.false_eq_true, if_false]
    rw [iterSlices_drop, flatten_filter_nonempty, ← List.flatMap_def]
    apply rm_flatMap_congr
    intro b _
    unfold hitsOf selectRange
    rw [hne]
    simp

/-! ### `in_ranges` -/

/-- one query of `in_ranges` in the words of the property: the rows the query names, clipped in trim mode -/
def rangeSpec (rows : Table) (qs qe : Option Int) (mode : Mode) : Table :=
  let sel := rows.filter (selFilter qs qe (mode == .inner))
  if mode == .trim then trimRows sel qs qe else sel

theorem selectRange_exact (t : Table) (h : WFTable t) (qs qe : Option Int)
    (hq : ∀ s, qs = some s → 0 ≤ s) (mode : Mode) :
    selectRange t qs qe mode = rangeSpec t qs qe mode := by
  unfold selectRange rangeSpec
  rw [idxSelect_exact t h qs qe hq]

/-- the rows `in_ranges` works on -/
def chromRows (t : Table) (chrom : Option String) : Table :=
  match chrom with
  | some c => if c.isEmpty then t else t.filter (fun r => r.chrom == c)
  | none => t

theorem inRangesOpt_exact (t : Table) (chrom : Option String) (starts ends : Option (List Int)) (mode : Mode)
    (h : WFTable (chromRows t chrom)) (hq : ∀ ss, starts = some ss → ∀ s ∈ ss, 0 ≤ s) :
    inRangesOpt t chrom starts ends mode =
      (zipBounds starts ends).flatMap (fun q => rangeSpec (chromRows t chrom) q.1 q.2 mode) := by
  unfold inRangesOpt
  show (if (chromRows t chrom).isEmpty = true then chromRows t chrom else _) = _
  by_cases he : (chromRows t chrom).isEmpty = true
  · rw [if_pos he]
    have hnil : chromRows t chrom = [] := by simpa using he
    rw [hnil]
    symm
    rw [List.flatMap_eq_nil_iff]
    intro q _
    unfold rangeSpec
    split <;> simp [trimRows]
  · rw [if_neg he, List.flatMap_def]
    congr 1
    apply List.map_congr_left
    intro q hqm
    apply selectRange_exact _ h
    intro s hs
    -- a start value of a query is an element of `starts`
    unfold zipBounds at hqm
    cases starts with
    | none =>
      cases ends with
      | none => simp at hqm; rw [hqm] at hs; cases hs
      | some es =>
        simp only [List.mem_map] at hqm
        obtain ⟨e, _, rfl⟩ := hqm
        cases hs
    | some ss =>
      cases ends with
      | none =>
        simp only [List.mem_map] at hqm
        obtain ⟨s', hs', rfl⟩ := hqm
        cases hs
        exact hq ss rfl _ hs'
      | some es =>
        simp only [List.mem_map] at hqm
        obtain ⟨p, hp, rfl⟩ := hqm
        cases hs
        exact hq ss rfl _ (List.of_mem_zip hp).1

/-! ### `into_ranges` -/

theorem intoRanges_length' (source dest : Table) (col : Row → Val) (d : Val) (s : Summary) :
    (intoRanges source dest col d s).length = dest.length := by
  unfold intoRanges
  cases source with
  | nil => simp
  | cons r0 rest =>
    by_cases hd : dest.isEmpty = true
    · have : dest = [] := by simpa using hd
      simp [this]
    · simp only [hd]
      simp only [Bool.false_eq_true, if_false, List.length_map]
      exact iterSlices_length _ _ _

/-- the value `into_ranges` reports for each query row -/
theorem intoRanges_per_query (r0 : Row) (rest dest : Table) (col : Row → Val) (d : Val) (s : Summary) :
    intoRanges (r0 :: rest) dest col d s =
      (queriesInOrder dest).map (fun q =>
        seriesToValue d (pickSummary s (col r0)) ((hitsOf (r0 :: rest) false q).map col)) := by
  unfold intoRanges
  by_cases hd : dest.isEmpty = true
  · have : dest = [] := by simpa using hd
    subst this
    simp [queriesInOrder, chromsInOrder]
  · simp only [hd]
    simp only [Bool.false_eq_true, if_false]
    rw [iterSlices_keep, List.map_map]
    rfl

/-! ### the visiting order keeps every query row -/

theorem mem_queriesInOrder (dest : Table) (r : Row) : r ∈ queriesInOrder dest ↔ r ∈ dest := by
  unfold queriesInOrder
  rw [List.mem_flatMap]
  constructor
  · rintro ⟨c, _, hr⟩
    exact (List.mem_filter.mp hr).1
  · intro hr
    exact ⟨r.chrom, (rm_mem_chromsInOrder dest r.chrom).mpr ⟨r, hr, rfl⟩, List.mem_filter.mpr ⟨hr, by simp⟩⟩

theorem length_queriesInOrder (dest : Table) : (queriesInOrder dest).length = dest.length := by
  unfold queriesInOrder chromsInOrder
  rw [List.length_flatMap]
  exact sum_groups _ dest (by intro r hr; exact List.mem_map_of_mem hr)

/-- a table of one chromosome is visited as it stands -/
theorem queriesInOrder_single (dest : Table) (c : String) (h : ∀ r ∈ dest, r.chrom = c) :
    queriesInOrder dest = dest := by
  cases hd : dest with
  | nil => rfl
  | cons r0 rest =>
    rw [← hd]
    unfold queriesInOrder
    rw [chromsInOrder_const dest c h (by rw [hd]; simp)]
    simp [rm_filter_all dest c h]

/-- `intersection` in the words of the property, for well-formed tables of any number of chromosomes -/
theorem intersection_exact (table other : Table) (mode : Mode) (h : WFGenomeQ table)
    (hq : ∀ b ∈ other, 0 ≤ b.s) :
    intersection table other mode =
      (queriesInOrder other).flatMap (fun b =>
        rangeSpec (table.filter (fun r => r.chrom == b.chrom)) (some b.s) (some b.e) mode) := by
  rw [intersection_per_query]
  apply rm_flatMap_congr
  intro b hb
  apply selectRange_exact _ (h.chrom b.chrom)
  intro s hs
  cases hs
  exact hq b ((mem_queriesInOrder other b).mp hb)

/-- the slice of a query is what the driver's oracle `selectSpec` (the property's wording, evaluated on the REAL
    output) computes -/
theorem hitsOf_eq_selectSpec (source : Table) (h : WFGenomeQ source) (q : Row) (hq : 0 ≤ q.s) :
    hitsOf source false q = selectSpec source q.chrom q.s q.e .outer := by
  rw [hitsOf_exact source h false q hq]
  unfold selectSpec rowsOf
  simp only [List.filter_filter]
  apply List.filter_congr
  intro r _
  simp [selFilter, Bool.and_comm]

theorem intoRanges_spec (r0 : Row) (rest dest : Table) (col : Row → Val) (d : Val) (s : Summary)
    (h : WFGenomeQ (r0 :: rest)) (hq : ∀ q ∈ dest, 0 ≤ q.s) :
    intoRanges (r0 :: rest) dest col d s =
      (queriesInOrder dest).map (fun q =>
        seriesToValue d (pickSummary s (col r0)) ((selectSpec (r0 :: rest) q.chrom q.s q.e .outer).map col)) := by
  rw [intoRanges_per_query]
  apply List.map_congr_left
  intro q hqm
  rw [hitsOf_eq_selectSpec _ h q (hq q ((mem_queriesInOrder dest q).mp hqm))]

/-! ### `by_ranges` in the words of the property -/

theorem rangeSpec_nil (qs qe : Option Int) (mode : Mode) : rangeSpec [] qs qe mode = [] := by
  unfold rangeSpec
  split <;> simp [trimRows]

theorem byRanges_exact (table other : Table) (mode : Mode) (ke : Bool) (h : WFGenomeQ table)
    (hq : ∀ b ∈ other, 0 ≤ b.s) :
    byRanges table other mode ke =
      ((queriesInOrder other).map (fun b =>
        (b, rangeSpec (table.filter (fun r => r.chrom == b.chrom)) (some b.s) (some b.e) mode))).filter
        (fun p => !p.2.isEmpty || ke) := by
  unfold byRanges
  rw [byRangesDf_per_chromosome]
  unfold queriesInOrder
  rw [map_flatMap', List.filter_flatMap, List.filter_flatMap]
  apply rm_flatMap_congr
  intro c hc
  have hmem : ∀ b ∈ other.filter (fun r => r.chrom == c), b.chrom = c ∧ 0 ≤ b.s := by
    intro b hb
    rw [List.mem_filter] at hb
    exact ⟨by simpa using hb.2, hq b hb.1⟩
  have hR : (other.filter (fun r => r.chrom == c)).map (fun b =>
        (b, rangeSpec (table.filter (fun r => r.chrom == b.chrom)) (some b.s) (some b.e) mode)) =
      (other.filter (fun r => r.chrom == c)).map (fun b =>
        (b, selectRange (table.filter (fun r => r.chrom == c)) (some b.s) (some b.e) mode)) := by
    apply List.map_congr_left
    intro b hb
    obtain ⟨hbc, hb0⟩ := hmem b hb
    rw [hbc, selectRange_exact _ (h.chrom c) (some b.s) (some b.e) (by intro s hs; cases hs; exact hb0)]
  rw [hR]
  by_cases hsrc : (table.filter (fun r => r.chrom == c)).isEmpty = true
  · have hnil : table.filter (fun r => r.chrom == c) = [] := by simpa using hsrc
    cases ke <;> simp [hnil, selectRange_nil_q, List.filter_map, Function.comp_def]
  · simp [hsrc]

end CnvVerif
