/-
  C06 tie to the source TEXT -- subdivide: the keep-test, the bin count (`round`, `int`, `or`) and the cut position of `_split_targets`.
  The pieces that the translator re-reads on every run (Generated/ExprsInterval.lean) are the expressions the hand-written
  model (Model/Interval.lean) is built from.  Each generated piece is first brought to a NORMAL FORM (`src_*_nf`, proved
  by `rfl`, else `omega` / rewriting, so that an equivalent spelling of the same test or formula in the source keeps it
  green); the model functions are then shown to be those normal forms put together.  One lemma file per source function
  so that an edit names exactly the obligations about that function.
-/
import CnvVerif.Generated.ExprsInterval
import CnvVerif.Model.Interval
import CnvVerif.Lemmas.IntervalSubdivide
import Mathlib.Data.Rat.Floor
import Mathlib.Tactic.Ring
import Mathlib.Tactic.FieldSimp
set_option linter.unusedTactic false
set_option linter.unreachableTactic false
namespace CnvVerif.Src
open CnvVerif CnvVerif.Generated

theorem src_split_keeps_nf (s e m : Int) : src_split_keeps s e m = decide (e - s ≥ m) := by
  unfold src_split_keeps
  first
  | rfl
  | (simp only [decide_eq_decide]; omega)

/-- the translator's spelling of one-argument `round` is the model's `roundHalfEven` -/
theorem pyRound_eq (x : Rat) :
    (if x - ((x.floor : Int) : Rat) < (1 : Rat) / 2 then ((x.floor : Int) : Rat)
      else if x - ((x.floor : Int) : Rat) > (1 : Rat) / 2 then ((x.floor : Int) : Rat) + 1
      else if x.floor % 2 = 0 then ((x.floor : Int) : Rat) else ((x.floor : Int) : Rat) + 1) =
    ((roundHalfEven x : Int) : Rat) := by
  unfold roundHalfEven
  simp only [beq_iff_eq]
  split_ifs <;> push_cast <;> rfl

/-- the translator's spelling of `int(e)` applied to a value that is already an integer -/
theorem pyTrunc_intCast (z : Int) :
    (if (z : Rat) < 0 then ((((z : Rat)).ceil : Int) : Rat) else ((((z : Rat)).floor : Int) : Rat)) = (z : Rat) := by
  rw [Rat.ceil_intCast, Rat.floor_intCast]; split <;> rfl

/-- the bin count of the model: `int(round(span / avg)) or 1` -/
def binCount (avg : Rat) (r : Row) : Nat :=
  let nb0 := roundHalfEven (((r.e - r.s : Int) : Rat) / avg)
  if nb0 == 0 then 1 else nb0.toNat

/-- `splitRow` is: keep-test, bin count, equal split -/
theorem splitRow_binCount (avg : Rat) (minSize : Int) (r : Row) :
    splitRow avg minSize r =
      if src_split_keeps r.s r.e minSize = true then
        (if binCount avg r == 1 then [r] else splitInto r (binCount avg r))
      else [] := by
  rw [src_split_keeps_nf]
  simp only [splitRow, binCount, decide_eq_true_eq]
  rfl

theorem binCount_cast (avg : Rat) (havg : 0 < avg) (r : Row) (hlen : r.s ≤ r.e) :
    ((binCount avg r : Nat) : Rat) =
      (if ((roundHalfEven (((r.e - r.s : Int) : Rat) / avg) : Int) : Rat) ≠ 0
        then ((roundHalfEven (((r.e - r.s : Int) : Rat) / avg) : Int) : Rat) else 1) ∧ 1 ≤ binCount avg r := by
  have hq : 0 ≤ ((r.e - r.s : Int) : Rat) / avg :=
    div_nonneg (by exact_mod_cast (by omega : 0 ≤ r.e - r.s)) (le_of_lt havg)
  have hnn := roundHalfEven_nonneg_sub _ hq
  unfold binCount
  simp only
  generalize roundHalfEven (((r.e - r.s : Int) : Rat) / avg) = z at hnn ⊢
  by_cases hz : z = 0
  · subst hz; simp
  · have hb : (z == 0) = false := by simpa using hz
    have hz' : ((z : Int) : Rat) ≠ 0 := by exact_mod_cast hz
    simp only [hb, Bool.false_eq_true, if_false, hz', ne_eq, not_false_eq_true, if_true]
    refine ⟨?_, by omega⟩
    have : ((z.toNat : Nat) : Int) = z := Int.toNat_of_nonneg hnn
    rw [← Int.cast_natCast, this]

/-- `nbins = int(round(span / avg_size)) or 1` is the model's bin count -/
theorem src_split_nbins_eq (avg : Rat) (havg : 0 < avg) (r : Row) (hlen : r.s ≤ r.e) :
    src_split_nbins (r.s : Rat) (r.e : Rat) avg = ((binCount avg r : Nat) : Rat) := by
  rw [(binCount_cast avg havg r hlen).1]
  unfold src_split_nbins
  simp only [pyRound_eq, pyTrunc_intCast, Int.cast_sub]

/-- the translator's spelling of `int(e)` on a non-negative quotient of integers, however the quotient is spelled -/
theorem pyTrunc_of_eq (x : Rat) (z : Int) (n : Nat) (hz : 0 ≤ z) (h : x = (z : Rat) / (n : Rat)) :
    (if x < 0 then ((x.ceil : Int) : Rat) else ((x.floor : Int) : Rat)) = ((z / (n : Int) : Int) : Rat) := by
  have hnn : (0 : Rat) ≤ x := by
    rw [h]; exact div_nonneg (by exact_mod_cast hz) (by exact_mod_cast (Nat.zero_le n))
  rw [if_neg (not_lt.mpr hnn), h]
  have hfl : ((z : Rat) / (n : Rat)).floor = z / (n : Int) := Rat.floor_intCast_div_natCast z n
  rw [hfl]

/-- `bin_end = row.start + int(i * bin_size)` is the model's cut `start + ⌊i·span/n⌋` -/
theorem src_split_bin_end_eq (avg : Rat) (havg : 0 < avg) (r : Row) (hlen : r.s ≤ r.e) (i : Nat) :
    src_split_bin_end (r.s : Rat) (r.e : Rat) avg (i : Rat) =
      ((r.s + ((i : Int) * (r.e - r.s)) / ((binCount avg r : Nat) : Int) : Int) : Rat) := by
  obtain ⟨hcast, hpos⟩ := binCount_cast avg havg r hlen
  have hn0 : ((binCount avg r : Nat) : Rat) ≠ 0 := by
    have : (0 : Rat) < ((binCount avg r : Nat) : Rat) := by exact_mod_cast hpos
    exact ne_of_gt this
  have hz : (0 : Int) ≤ (i : Int) * (r.e - r.s) := Int.mul_nonneg (by omega) (by omega)
  unfold src_split_bin_end
  simp only [pyRound_eq, pyTrunc_intCast]
  rw [← Int.cast_sub, ← hcast, Int.cast_add]
  -- robust against equivalent spellings of the sum and of the argument of `int( )`
  first
  | (congr 1
     apply pyTrunc_of_eq _ _ _ hz
     push_cast
     first | ring | (field_simp))
  | (rw [add_comm]
     congr 1
     apply pyTrunc_of_eq _ _ _ hz
     push_cast
     first | ring | (field_simp))

end CnvVerif.Src
