import CnvVerif.Model.CallCmdCenterExt5c
import CnvVerif.Lemmas.Center
namespace CnvVerif.C01Ctr
open CnvVerif

theorem zip_map_self {α β γ : Type} (l : List α) (f : α → β) (g : α × β → γ) :
    (l.zip (l.map f)).map g = l.map (fun a => g (a, f a)) := by
  induction l with
  | nil => rfl
  | cons a l ih => simp [ih]

theorem centerRows_eq_shiftRows (est : List Rat → Rat) (skipLow : Bool) (par : Option String) (pow2 : Rat → Rat)
    (rows : List SegRow) :
    centerRows est skipLow par pow2 rows = shiftRows pow2 (-(centerConst est skipLow par rows)) rows := by
  unfold centerRows shiftRows centerConst centerEstimate centerAll binsOf
  rw [List.map_map, zip_map_self]
  apply List.map_congr_left
  intro r _
  cases hv : r.v <;> simp [hv]

theorem binsOf_shiftRows (pow2 : Rat → Rat) (sh : Rat) (rows : List SegRow) (h : allPresent rows = true) :
    binsOf (shiftRows pow2 sh rows) = (binsOf rows).map (fun b => { b with log2 := b.log2 + sh }) := by
  unfold binsOf shiftRows
  rw [List.map_map, List.map_map]
  apply List.map_congr_left
  intro r hr
  have : r.v.isSome = true := by
    unfold allPresent at h
    exact List.all_eq_true.mp h r hr
  cases hv : r.v with
  | none => simp [hv] at this
  | some x => simp [hv]

end CnvVerif.C01Ctr

namespace CnvVerif.C01Ctr
open CnvVerif

def addLog2 (c : Rat) (b : CBin) : CBin := { b with log2 := b.log2 + c }

theorem autosomesOf_map_addLog2 (first : String) (par : Option String) (c : Rat) (t : List CBin) :
    autosomesOf first par (t.map (addLog2 c)) = (autosomesOf first par t).map (addLog2 c) := by
  unfold autosomesOf
  rw [List.any_map, List.filter_map]
  have h1 : ((fun b : CBin => isAutosomeName b.chrom) ∘ addLog2 c) = (fun b : CBin => isAutosomeName b.chrom) := by
    funext b; rfl
  rw [h1]
  split
  · rfl
  · congr 1

theorem centerShift_map_addLog2 (est : List Rat → Rat) (par : Option String) (c : Rat) (t : List CBin) :
    centerShift est true false par (t.map (addLog2 c)) =
      if (autosomesOf ((t.head?.map (·.chrom)).getD "") par t).isEmpty then 0
      else -(est (centerValues est true ((autosomesOf ((t.head?.map (·.chrom)).getD "") par t).map (addLog2 c)))) := by
  have hfirst : (((t.map (addLog2 c)).head?.map (·.chrom)).getD "") = ((t.head?.map (·.chrom)).getD "") := by
    cases t <;> rfl
  unfold centerShift
  simp only [hfirst, Bool.false_eq_true, if_false, autosomesOf_map_addLog2, List.isEmpty_map]

/-- without `--drop-low-coverage`: re-estimating the centre of the centred table gives 0 -/
theorem centerShift_of_centered (est : List Rat → Rat) (he : TransEquiv est) (par : Option String) (t : List CBin)
    (hsel : autosomesOf ((t.head?.map (·.chrom)).getD "") par t ≠ []) :
    centerShift est true false par (t.map (addLog2 (centerShift est true false par t))) = 0 := by
  have hne : (autosomesOf ((t.head?.map (·.chrom)).getD "") par t).isEmpty = false := by
    cases h : autosomesOf ((t.head?.map (·.chrom)).getD "") par t with
    | nil => exact absurd h hsel
    | cons _ _ => rfl
  have hcs : centerShift est true false par t
      = -(est (centerValues est true (autosomesOf ((t.head?.map (·.chrom)).getD "") par t))) := by
    simp [centerShift, hne]
  rw [centerShift_map_addLog2, hne, hcs]
  have := CnvVerif.center_zeroes_estimator est he true _ hsel
  unfold addLog2
  simp only [Bool.false_eq_true, if_false]
  rw [this]; simp

end CnvVerif.C01Ctr
