/-
  Lemmas behind Props/C14Sq.lean: the maximum of a list (`Series.max`), the cells of `squashRowX`.
-/
import Mathlib.Tactic.Linarith
import Mathlib.Tactic.FieldSimp
import CnvVerif.Model.SegFilterExt5
import CnvVerif.Lemmas.SegFilter
import CnvVerif.Lemmas.RangesExtSummary
set_option linter.unusedSimpArgs false
namespace CnvVerif.C14Sq
open CnvVerif

theorem sq_le_rmax_left (a b : Rat) : a ≤ rmax a b := by
  unfold rmax; split <;> [assumption; exact le_refl a]

theorem sq_le_rmax_right (a b : Rat) : b ≤ rmax a b := by
  unfold rmax; split
  · exact le_refl b
  · rename_i h; exact le_of_lt (not_le.mp h)

theorem sq_rmax_choice (a b : Rat) : rmax a b = a ∨ rmax a b = b := by
  unfold rmax; split <;> simp

theorem sq_foldl_rmax_ge (xs : List Rat) (x : Rat) :
    x ≤ xs.foldl rmax x ∧ ∀ y ∈ xs, y ≤ xs.foldl rmax x := by
  induction xs generalizing x with
  | nil => simp
  | cons a xs ih =>
    obtain ⟨h1, h2⟩ := ih (rmax x a)
    refine ⟨le_trans (sq_le_rmax_left x a) h1, ?_⟩
    intro y hy
    rcases List.mem_cons.mp hy with rfl | hy
    · exact le_trans (sq_le_rmax_right x y) h1
    · exact h2 y hy

theorem sq_foldl_rmax_mem (xs : List Rat) (x : Rat) : xs.foldl rmax x ∈ x :: xs := by
  induction xs generalizing x with
  | nil => simp
  | cons a xs ih =>
    have h := ih (rmax x a)
    simp only [List.foldl_cons]
    rcases List.mem_cons.mp h with h | h
    · rcases sq_rmax_choice x a with e | e <;> rw [h, e] <;> simp
    · exact List.mem_cons_of_mem _ (List.mem_cons_of_mem _ h)

/-- `maxL` of a non-empty list is an upper bound of the list and one of its members -/
theorem sq_maxL_spec (l : List Rat) (hne : l ≠ []) : (∀ y ∈ l, y ≤ maxL l) ∧ maxL l ∈ l := by
  cases l with
  | nil => exact absurd rfl hne
  | cons x xs =>
    refine ⟨?_, sq_foldl_rmax_mem xs x⟩
    intro y hy
    rcases List.mem_cons.mp hy with rfl | hy
    · exact (sq_foldl_rmax_ge xs y).1
    · exact (sq_foldl_rmax_ge xs x).2 y hy

theorem sq_numCol_weight : numCol "weight" = fun r => r.weight := by funext r; simp [numCol]
theorem sq_numCol_depth : numCol "depth" = fun r => r.depth := by funext r; simp [numCol]
theorem sq_numCol_baf : numCol "baf" = fun r => r.baf := by funext r; simp [numCol]
theorem sq_numCol_pb : numCol "p_bintest" = fun r => r.pb := by funext r; simp [numCol]

/-- the cell of an optional column that the table has -/
theorem sq_cell_depth (cols : List String) (rows : List XRow) (h : cols.contains "depth" = true) :
    cellOf "depth" (squashRowX cols rows) = some (.num (wmeanCell (redsOf cols rows) "depth")) := by
  have h' : (redsOf cols rows).has "depth" = true := h
  simp [cellOf, squashRowX, squashCols, List.find?, h']

theorem sq_cell_baf (cols : List String) (rows : List XRow) (h : cols.contains "baf" = true) :
    cellOf "baf" (squashRowX cols rows) = some (.num (wmeanCell (redsOf cols rows) "baf")) := by
  have h' : (redsOf cols rows).has "baf" = true := h
  cases hd : (redsOf cols rows).has "depth" <;> simp [cellOf, squashRowX, squashCols, List.find?, h', hd]

theorem sq_cell_pb (cols : List String) (rows : List XRow) (h : cols.contains "p_bintest" = true) :
    cellOf "p_bintest" (squashRowX cols rows) = some (.num ((redsOf cols rows).max "p_bintest")) := by
  have h' : (redsOf cols rows).has "p_bintest" = true := h
  cases (redsOf cols rows).has "depth" <;> cases (redsOf cols rows).has "baf" <;>
    cases (redsOf cols rows).has "cn" <;> cases (redsOf cols rows).has "cn1" <;>
    simp [cellOf, squashRowX, squashCols, List.find?, h']

/-- the weight-averaged cell with weight in the run -/
theorem sq_wmean_pos (cols : List String) (rows : List XRow) (k : String)
    (hw : sumRat (rows.map (·.weight)) > 0) :
    wmeanCell (redsOf cols rows) k =
      sumRat (rows.map (fun r => numCol k r * r.weight)) / sumRat (rows.map (·.weight)) := by
  simp only [wmeanCell, redsOf, sq_numCol_weight]
  rw [if_pos (by simpa using hw)]

theorem sq_wmean_nonpos (cols : List String) (rows : List XRow) (k : String)
    (hw : ¬ sumRat (rows.map (·.weight)) > 0) :
    wmeanCell (redsOf cols rows) k = sumRat (rows.map (numCol k)) / (rows.length : Rat) := by
  simp only [wmeanCell, redsOf, sq_numCol_weight]
  rw [if_neg (by simpa using hw)]

theorem sq_cast_sumInt (l : List Int) : ((sumInt l : Int) : Rat) = sumRat (List.map (fun (i : Int) => (i : Rat)) l) := by
  induction l with
  | nil => simp [sumInt, sumRat]
  | cons a l ih => rw [sumInt_cons, List.map_cons, sumRat_cons, ← ih]; push_cast; rfl

theorem sq_numCol_log2 : numCol "log2" = fun r => r.log2 := by funext r; simp [numCol]
theorem sq_numCol_probes : numCol "probes" = fun r => (r.probes : Rat) := by funext r; simp [numCol]
theorem sq_numCol_end : numCol "end" = fun r => (r.e : Rat) := by funext r; simp [numCol]
theorem sq_numCol_start : numCol "start" = fun r => (r.s : Rat) := by funext r; simp [numCol]
theorem sq_strCol_gene : strCol "gene" = fun r => r.gene := by funext r; simp [strCol]
theorem sq_strCol_chrom : strCol "chromosome" = fun r => r.chrom := by funext r; simp [strCol]

theorem sq_getLast_e (h : Bool) (l : List XRow) (hne : l ≠ []) :
    ((l.map (toSeg h)).getLast (by simpa using hne)).e = (l.getLast hne).e := by
  rw [List.getLast_map]; rfl

end CnvVerif.C14Sq
