/-
  The hand-written pieces of the `HaarConv` model equal the expressions the translator reads off ONE iteration of
  the loop in the current source (Generated/ExprsHaar.lean, regenerated from /repo on every run; reading rules at the
  top of harness/exprtrans.py).  Proofs go through `omega` / `ring`, so algebraically equivalent rewrites of the
  source (`stepHalfSize + k - 1`, `highEnd > signalSize - 1`, `2 * signalSize - 1 - highEnd`, reordered operands)
  keep them green; a changed formula does not.
-/
import CnvVerif.Generated.ExprsHaar
import CnvVerif.Model.HaarExt
import Mathlib.Tactic.Ring
import Mathlib.Tactic.Linarith
import Mathlib.Tactic.SplitIfs
import Mathlib.Tactic.FieldSimp
set_option linter.unusedTactic false
set_option linter.unreachableTactic false
set_option linter.unusedSimpArgs false
namespace CnvVerif.Src
open CnvVerif CnvVerif.Haar CnvVerif.Generated

/-- `highEnd` with its mirror rule: for `1 <= k < n`, `h <= n` the model's natural-number index is the source's integer -/
theorem hiIdx_is_source (n h k : Nat) (hk : 1 ≤ k) (hkn : k < n) (hh : h ≤ n) :
    (hiIdx n h k : Int) = src_haarconv_highEnd (k : Int) (n : Int) (h : Int) := by
  unfold hiIdx src_haarconv_highEnd
  split_ifs <;> omega

/-- `lowEnd` with its mirror rule -/
theorem loIdx_is_source (h k : Nat) :
    (loIdx h k : Int) = src_haarconv_lowEnd (k : Int) (h : Int) := by
  unfold loIdx src_haarconv_lowEnd
  split_ifs <;> omega

/-- the unweighted update -/
theorem rawUpdate_is_source (prev sHi sLo sK : Rat) :
    rawUpdate prev sHi sLo sK = src_haarconv_result_unweighted prev sHi sK sLo := by
  unfold rawUpdate src_haarconv_result_unweighted
  first
  | rfl
  | ring
  | (simp only []; split_ifs <;> ring)

/-- the four running sums of the weighted branch -/
theorem wStep_is_source (acc : WAcc) (sLo wLo sHi wHi sK wK : Rat) :
    (wStep acc sLo wLo sHi wHi sK wK).lowN = src_haarconv_lowNonNormed acc.lowN sK sLo wK wLo ∧
    (wStep acc sLo wLo sHi wHi sK wK).highN = src_haarconv_highNonNormed acc.highN sHi sK wHi wK ∧
    (wStep acc sLo wLo sHi wHi sK wK).lowW = src_haarconv_lowWeightSum acc.lowW wK wLo ∧
    (wStep acc sLo wLo sHi wHi sK wK).highW = src_haarconv_highWeightSum acc.highW wHi wK := by
  unfold wStep src_haarconv_lowNonNormed src_haarconv_highNonNormed src_haarconv_lowWeightSum
    src_haarconv_highWeightSum
  refine ⟨?_, ?_, ?_, ?_⟩ <;> first | rfl | (simp only []; ring)

/-- the value the weighted branch stores -/
theorem wValue_is_source (fac : Rat) (acc : WAcc) (sLo wLo sHi wHi sK wK : Rat) :
    wValue fac (wStep acc sLo wLo sHi wHi sK wK)
      = src_haarconv_result_weighted acc.highN acc.highW acc.lowN acc.lowW sHi sK sLo fac wHi wK wLo := by
  unfold wValue wStep src_haarconv_result_weighted
  first
  | rfl
  | (simp only []; ring)
  | (simp only []
     by_cases h1 : acc.lowW + (wK - wLo) = 0
     · simp [h1]; try ring
     · by_cases h2 : acc.highW + (wHi - wK) = 0
       · simp [h2]; try ring
       · field_simp; try ring)

/-! the model loops really run these step functions -/

theorem haarRawGo_runs_rawUpdate (a : Array Rat) (n h fuel k : Nat) (prev : Rat) :
    haarRawGo a n h (fuel + 1) k prev
      = rawUpdate prev (nth a (hiIdx n h k)) (nth a (loIdx h k)) (nth a (k - 1)) ::
        haarRawGo a n h fuel (k + 1) (rawUpdate prev (nth a (hiIdx n h k)) (nth a (loIdx h k)) (nth a (k - 1))) := rfl

theorem haarWGo_runs_wStep (s w : Array Rat) (n h : Nat) (fac : Rat) (fuel k : Nat) (acc : WAcc) :
    haarWGo s w n h fac (fuel + 1) k acc
      = (let acc' := wStep acc (nth s (loIdx h k)) (nth w (loIdx h k)) (nth s (hiIdx n h k)) (nth w (hiIdx n h k))
                      (nth s (k - 1)) (nth w (k - 1))
         if acc'.lowW = 0 ∨ acc'.highW = 0 then none else
         match haarWGo s w n h fac fuel (k + 1) acc' with
         | none => none
         | some rest => some (wValue fac acc' :: rest)) := rfl

end CnvVerif.Src
