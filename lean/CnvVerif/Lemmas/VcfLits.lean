/-
  The literals and defaults of the VCF reader and of load_het_snps that the model uses are the ones the translator
  reads off the source (Generated/VcfConsts.lean).
-/
import CnvVerif.Model.Vcf
import CnvVerif.Generated.VcfConsts
set_option linter.unusedSimpArgs false
set_option linter.unusedVariables false
namespace CnvVerif.Vcf
open CnvVerif

/-! ## literals of the reader -/

theorem rejected_eq_generated (r : Rec) :
    rejected r = r.filt.any (fun f => !(Generated.vcfPassFilters.contains f)) := by
  unfold rejected Generated.vcfPassFilters
  congr 1
  funext f
  first
    | rfl
    | simp only [List.contains_cons, List.contains_nil, Bool.or_false, Bool.or_assoc]
    | (simp [List.contains_cons, Bool.or_assoc]; try rfl)

theorem effectiveZygFreq_fallback (o : HetOpts) (tb : VTable) (hz : o.zygFreq = none)
    (hp : tb.paired = true) (hn : normalUntyped tb.rows = true) :
    effectiveZygFreq o tb = some (Generated.lhsFallbackZygFreq, 1 - Generated.lhsFallbackZygFreq) := by
  unfold effectiveZygFreq
  rw [hz]
  simp only [hp, hn, Bool.and_self, if_true]
  decide +kernel

end CnvVerif.Vcf
