import CnvVerif.Model.Fix
import CnvVerif.Lemmas.Fix
import CnvVerif.Lemmas.FixAlign
namespace CnvVerif

/-! ### helpers -/

theorem sortS_nil : sortS [] = [] := by
  unfold sortS
  exact List.mergeSort_nil

/-- with every bias correction off, a class of bins comes out of loading / masking / centring as exactly the good
    sample bins in genomic order, each log2 moved by ONE constant for the class -/
theorem loadAdjust_nocorr (samp : List SRow) (ref : List RRow) (skipLow : Bool) (par : Option String)
    (perm : List Nat) (wing : Nat) (ek : Option (List Rat)) (cn : List SRow) (rf : List RRow) (sl : Rat)
    (h : loadAdjust samp ref skipLow false false false par perm wing ek = .ok (cn, rf, sl)) :
    ∃ c : Rat, cn = (goodRows (sortS samp) ref).map (fun r => { r with log2 := r.log2 + c }) := by
  unfold loadAdjust at h
  by_cases he : samp.isEmpty
  · rw [if_pos he] at h
    cases h
    have : samp = [] := by simpa using he
    subst this
    refine ⟨0, ?_⟩
    rw [sortS_nil]
    rfl
  · rw [if_neg he] at h
    extract_lets samp' at h
    split at h
    · cases h
    · rename_i refM hm
      extract_lets keep cn0 rf' cn1 nOk cn2 ekeys cn3 cn4 exact slack at h
      obtain ⟨hcn0, _⟩ := mask_eq_goodRows ref samp' refM (matchRef_lookup ref samp' refM hm)
      have hcn0' : cn0 = goodRows samp' ref := hcn0
      have hcn1 : cn1 = (goodRows (sortS samp) ref).map
          (fun r => { r with log2 := r.log2 + centerShift medianR true skipLow par (cn0.map toCBin) }) := by
        show centerS skipLow par cn0 = _
        unfold centerS
        rw [hcn0']
      have hcn4 : cn4 = cn1 := by
        show (if (false && rf'.all (·.rmask.isSome) && !rf'.isEmpty) = true then _ else cn3) = cn1
        rw [Bool.false_and, Bool.false_and, if_neg (by simp)]
        show (if false = true then _ else cn2) = cn1
        rw [if_neg (by simp)]
        show (if (false && rf'.all (·.gc.isSome) && !rf'.isEmpty) = true then _ else cn1) = cn1
        rw [Bool.false_and, Bool.false_and, if_neg (by simp)]
      refine ⟨centerShift medianR true skipLow par (cn0.map toCBin), ?_⟩
      split at h
      · have h' := Except.ok.inj h
        rw [Prod.mk.injEq, Prod.mk.injEq] at h'
        rw [← h'.1]; exact hcn1
      · have h' := Except.ok.inj h
        rw [Prod.mk.injEq, Prod.mk.injEq] at h'
        rw [← h'.1, hcn4]; exact hcn1

/-! ### the genomic order on coordinates -/

/-- a row carrying given coordinates -/
def rowOfKey (k : String × Int × Int) : SRow :=
  { chrom := k.1, s := k.2.1, e := k.2.2, gene := "", log2 := 0, depth := 0 }

theorem kLe_eq_sSortLe (a b : String × Int × Int) : kLe a b = sSortLe (rowOfKey a) (rowOfKey b) := rfl

theorem kLe_trans (a b c : String × Int × Int) (h1 : kLe a b = true) (h2 : kLe b c = true) : kLe a c = true := by
  rw [kLe_eq_sSortLe] at *
  exact sSortLe_trans _ _ _ h1 h2

theorem kLe_total (a b : String × Int × Int) : (kLe a b || kLe b a) = true := by
  rw [kLe_eq_sSortLe, kLe_eq_sSortLe]
  exact sSortLe_total _ _

/-- `rSortLe` is the same comparison on coordinates as `sSortLe` -/
theorem rSortLe_eq_kLe (a b : RRow) : rSortLe a b = kLe (rKey a) (rKey b) := rfl

theorem rSortLe_trans (a b c : RRow) (h1 : rSortLe a b = true) (h2 : rSortLe b c = true) : rSortLe a c = true := by
  rw [rSortLe_eq_kLe] at *
  exact kLe_trans _ _ _ h1 h2

theorem rSortLe_total (a b : RRow) : (rSortLe a b || rSortLe b a) = true := by
  rw [rSortLe_eq_kLe, rSortLe_eq_kLe]
  exact kLe_total _ _

theorem sortR_sorted (t : List RRow) : (sortR t).Pairwise (fun a b => rSortLe a b = true) :=
  List.pairwise_mergeSort rSortLe_trans rSortLe_total t

theorem sorted_iff_keys (l : List SRow) :
    l.Pairwise (fun a b => sSortLe a b = true) ↔ (l.map sKey).Pairwise (fun a b => kLe a b = true) := by
  rw [List.pairwise_map]
  exact Iff.rfl

theorem rsorted_iff_keys (l : List RRow) :
    l.Pairwise (fun a b => rSortLe a b = true) ↔ (l.map rKey).Pairwise (fun a b => kLe a b = true) := by
  rw [List.pairwise_map]
  exact Iff.rfl

theorem keysSortable_left (a b : List SRow) (h : KeysSortable (a ++ b)) : KeysSortable a :=
  fun x hx y hy => h x (List.mem_append_left _ hx) y (List.mem_append_left _ hy)

theorem keysSortable_right (a b : List SRow) (h : KeysSortable (a ++ b)) : KeysSortable b :=
  fun x hx y hy => h x (List.mem_append_right _ hx) y (List.mem_append_right _ hy)

/-- ALIGNMENT: sample rows and reference rows, each in genomic order and carrying the same multiset of
    coordinates, carry the same coordinates position by position -/
theorem keys_aligned (S : List SRow) (hks : KeysSortable S) (rows : List SRow) (refs : List RRow)
    (hsub : ∀ a ∈ rows, sKey a ∈ S.map sKey)
    (s1 : rows.Pairwise (fun a b => sSortLe a b = true))
    (s2 : refs.Pairwise (fun a b => rSortLe a b = true))
    (hp : (refs.map rKey).Perm (rows.map sKey)) : refs.map rKey = rows.map sKey := by
  have hin : ∀ k ∈ rows.map sKey, ∃ a ∈ S, sKey a = k := by
    intro k hk
    obtain ⟨a, ha, rfl⟩ := List.mem_map.mp hk
    exact List.mem_map.mp (hsub a ha)
  refine List.Perm.eq_of_pairwise (le := fun a b => kLe a b = true) ?_ ?_ ?_ hp
  · intro ka kb ha hb hab hba
    obtain ⟨a', ha', rfl⟩ := hin ka (hp.mem_iff.mp ha)
    obtain ⟨b', hb', rfl⟩ := hin kb hb
    exact hks a' ha' b' hb' hab hba
  · exact (rsorted_iff_keys refs).mp s2
  · exact (sorted_iff_keys rows).mp s1

theorem zip_keys {α β κ} (f : α → κ) (g : β → κ) (l1 : List α) (l2 : List β) (h : l1.map f = l2.map g) :
    ∀ p ∈ l1.zip l2, f p.1 = g p.2 := by
  induction l1 generalizing l2 with
  | nil => intro p hp; simp at hp
  | cons a t ih =>
    cases l2 with
    | nil => intro p hp; simp at hp
    | cons b u =>
      rw [List.map_cons, List.map_cons, List.cons.injEq] at h
      intro p hp
      rw [List.zip_cons_cons, List.mem_cons] at hp
      rcases hp with rfl | hp
      · exact h.1
      · exact ih u h.2 p hp

/-! ### the body of `doFix` -/

/-- the body of `doFix` once the rows and the reference rows are fixed -/
def fixBody (rows : List SRow) (refs : List RRow) (cfg : FixCfg) (P : FixParams) : List FixOut :=
  let sub := (rows.zip refs).map fun p => { p.1 with log2 := p.1.log2 - p.2.log2 }
  let sq (r : SRow) : Rat := ((P.sqrtSize.find? (fun kv => kv.1 == sKey r)).map (·.2)).getD 1
  let ws := applyWeights ((sub.zip refs).map fun p => (p.1, p.2, sq p.1)) P.varT P.varA
  let final := centerS true cfg.par sub
  (final.zip ws).map fun p => { row := p.1, weight := p.2 }

/-- the body of `doFix` after the two classes are loaded -/
def fixCore (cnT cnA : List SRow) (rfT rfA : List RRow) (cfg : FixCfg) (P : FixParams) : List FixOut :=
  fixBody (if cnA.isEmpty then cnT else sortS (cnT ++ cnA)) (if cnA.isEmpty then rfT else sortR (rfT ++ rfA)) cfg P

theorem doFix_eq (tgt anti : List SRow) (ref : List RRow) (cfg : FixCfg) (P : FixParams) :
    doFixCore tgt anti ref cfg P =
      match loadAdjust tgt ref true cfg.gc cfg.edge false cfg.par P.permT P.wingT P.edgeKeysT with
      | .error e => .error e
      | .ok (cnT, rfT, _) =>
        match loadAdjust anti ref false cfg.gc false cfg.rmask cfg.par P.permA P.wingA with
        | .error e => .error e
        | .ok (cnA, rfA, _) => .ok (fixCore cnT cnA rfT rfA cfg P) := by
  unfold doFixCore
  cases loadAdjust tgt ref true cfg.gc cfg.edge false cfg.par P.permT P.wingT P.edgeKeysT with
  | error e => rfl
  | ok x =>
    obtain ⟨cnT, rfT, s1⟩ := x
    cases loadAdjust anti ref false cfg.gc false cfg.rmask cfg.par P.permA P.wingA with
    | error e => rfl
    | ok y =>
      obtain ⟨cnA, rfA, s2⟩ := y
      rfl

/-- the emitted rows are the paired rows with log2 := sample − reference + one constant -/
theorem fixBody_rows (rows : List SRow) (refs : List RRow) (cfg : FixCfg) (P : FixParams)
    (hlen : refs.length = rows.length) :
    ∃ c : Rat, (fixBody rows refs cfg P).map (·.row) =
      (rows.zip refs).map (fun p => { p.1 with log2 := p.1.log2 - p.2.log2 + c }) := by
  unfold fixBody
  extract_lets sub sq ws final
  have hsub : sub.length = rows.length := by
    show ((rows.zip refs).map _).length = rows.length
    rw [List.length_map, List.length_zip]; omega
  have hws : ws.length = rows.length := by
    show (applyWeights _ _ _).length = rows.length
    rw [applyWeights_length, List.length_map, List.length_zip]; omega
  have hfin : final.length = rows.length := by
    show (centerS true cfg.par sub).length = rows.length
    unfold centerS
    rw [List.length_map]; exact hsub
  refine ⟨centerShift medianR true true cfg.par (sub.map toCBin), ?_⟩
  rw [List.map_map]
  have hf : ((fun o : FixOut => o.row) ∘ fun p : SRow × Rat => ({ row := p.1, weight := p.2 } : FixOut)) = Prod.fst := rfl
  rw [hf, List.map_fst_zip (by omega)]
  show centerS true cfg.par sub = _
  unfold centerS
  show List.map _ ((rows.zip refs).map _) = _
  rw [List.map_map]
  rfl

/-- everything the main statement says about the output, for any rows / reference rows that are aligned by
    coordinate -/
theorem fixBody_final (cnT cnA : List SRow) (ref : List RRow) (cfg : FixCfg) (P : FixParams)
    (rows : List SRow) (refs : List RRow)
    (hperm : rows.Perm (cnT ++ cnA)) (hs : rows.Pairwise (fun a b => sSortLe a b = true))
    (hgood : ∀ q ∈ refs, badBin q = false ∧ q ∈ ref)
    (hk : refs.map rKey = rows.map sKey) :
    ∃ c : Rat,
      (fixBody rows refs cfg P).length = (cnT ++ cnA).length ∧
      ((fixBody rows refs cfg P).map (fun o => sKey o.row)).Perm ((cnT ++ cnA).map sKey) ∧
      ((fixBody rows refs cfg P).map (·.row)).Pairwise (fun a b => sSortLe a b = true) ∧
      ∀ o ∈ fixBody rows refs cfg P, ∃ s ∈ cnT ++ cnA, ∃ q ∈ ref, sKey s = sKey o.row ∧ rKey q = sKey o.row ∧
        badBin q = false ∧ o.row.log2 = s.log2 - q.log2 + c := by
  have hlen : refs.length = rows.length := by simpa using congrArg List.length hk
  obtain ⟨c, hc⟩ := fixBody_rows rows refs cfg P hlen
  generalize fixBody rows refs cfg P = outs at hc
  have hkeys : (outs.map (·.row)).map sKey = rows.map sKey := by
    rw [hc, List.map_map]
    have : (sKey ∘ fun p : SRow × RRow => { p.1 with log2 := p.1.log2 - p.2.log2 + c }) = sKey ∘ Prod.fst := rfl
    rw [this, ← List.map_map, List.map_fst_zip (by omega)]
  refine ⟨c, ?_, ?_, ?_, ?_⟩
  · have := congrArg List.length hkeys
    simp only [List.length_map] at this
    rw [this]; exact hperm.length_eq
  · have : outs.map (fun o => sKey o.row) = (outs.map (·.row)).map sKey := by rw [List.map_map]; rfl
    rw [this, hkeys]; exact hperm.map sKey
  · rw [sorted_iff_keys, hkeys, ← sorted_iff_keys]; exact hs
  · intro o ho
    have : o.row ∈ outs.map (·.row) := List.mem_map_of_mem ho
    rw [hc] at this
    obtain ⟨p, hp, hpe⟩ := List.mem_map.mp this
    obtain ⟨hp1, hp2⟩ := List.of_mem_zip (a := p.1) (b := p.2) hp
    have hkk := zip_keys sKey rKey rows refs hk.symm p hp
    refine ⟨p.1, hperm.mem_iff.mp hp1, p.2, (hgood p.2 hp2).2, ?_, ?_, (hgood p.2 hp2).1, ?_⟩
    · rw [← hpe]; rfl
    · rw [← hpe, ← hkk]; rfl
    · rw [← hpe]

/-- the corrected rows of a class carry coordinates of its sample -/
theorem aligned_sub (samp : List SRow) (ref : List RRow) (cn : List SRow)
    (hp : (cn.map sKey).Perm ((goodRows samp ref).map sKey)) : ∀ a ∈ cn, sKey a ∈ samp.map sKey := by
  intro a ha
  have : sKey a ∈ (goodRows samp ref).map sKey := hp.mem_iff.mp (List.mem_map_of_mem ha)
  obtain ⟨b, hb, hab⟩ := List.mem_map.mp this
  rw [← hab]
  exact List.mem_map_of_mem (List.mem_filter.mp hb).1

/-- the whole of `do_fix`, for ANY enabled corrections, permutations, windows and weights: every emitted bin's log2
    is the (class-adjusted) sample log2 of the bin with the SAME coordinates minus the log2 of a good reference bin
    with the SAME coordinates, plus one constant (the final centring) -- the subtraction is bin-for-bin by
    coordinate although targets and antitargets are adjusted separately, concatenated and re-sorted on both sides.
    Side conditions: the two shuffling permutations are permutations; no coordinate occurs twice among the sample
    bins; ties of the genomic order have equal coordinates (`KeysSortable`, see `keysSortable_of_distinct_names`). -/
theorem doFixCore_bin_for_bin (tgt anti : List SRow) (ref : List RRow) (cfg : FixCfg) (P : FixParams) (outs : List FixOut)
    (h : doFixCore tgt anti ref cfg P = .ok outs)
    (hpT : IsPerm P.permT (goodRows (sortS tgt) ref).length)
    (hpA : IsPerm P.permA (goodRows (sortS anti) ref).length)
    (hks : KeysSortable (tgt ++ anti)) (hnd : hasDup ((tgt ++ anti).map sKey) = false) :
    ∃ (cnT cnA : List SRow) (rfT rfA : List RRow) (s1 s2 c : Rat),
      loadAdjust tgt ref true cfg.gc cfg.edge false cfg.par P.permT P.wingT P.edgeKeysT = .ok (cnT, rfT, s1) ∧
      loadAdjust anti ref false cfg.gc false cfg.rmask cfg.par P.permA P.wingA = .ok (cnA, rfA, s2) ∧
      outs.length = (cnT ++ cnA).length ∧
      (outs.map (fun o => sKey o.row)).Perm ((cnT ++ cnA).map sKey) ∧
      (outs.map (·.row)).Pairwise (fun a b => sSortLe a b = true) ∧
      ∀ o ∈ outs, ∃ s ∈ cnT ++ cnA, ∃ q ∈ ref, sKey s = sKey o.row ∧ rKey q = sKey o.row ∧ badBin q = false ∧
        o.row.log2 = s.log2 - q.log2 + c := by
  have _ := hnd
  rw [doFix_eq] at h
  cases hT : loadAdjust tgt ref true cfg.gc cfg.edge false cfg.par P.permT P.wingT P.edgeKeysT with
  | error e => rw [hT] at h; cases h
  | ok x =>
    obtain ⟨cnT, rfT, s1⟩ := x
    rw [hT] at h
    simp only [] at h
    cases hA : loadAdjust anti ref false cfg.gc false cfg.rmask cfg.par P.permA P.wingA with
    | error e => rw [hA] at h; cases h
    | ok y =>
      obtain ⟨cnA, rfA, s2⟩ := y
      rw [hA] at h
      simp only [] at h
      have hout := Except.ok.inj h
      subst hout
      obtain ⟨pT, sT, kT, gT⟩ := loadAdjust_aligned tgt ref true cfg.gc cfg.edge false cfg.par P.permT P.wingT
        P.edgeKeysT cnT rfT s1 hpT (keysSortable_left _ _ hks) hT
      obtain ⟨pA, sA, kA, gA⟩ := loadAdjust_aligned anti ref false cfg.gc false cfg.rmask cfg.par P.permA P.wingA
        none cnA rfA s2 hpA (keysSortable_right _ _ hks) hA
      have hsubT := aligned_sub tgt ref cnT pT
      have hsubA := aligned_sub anti ref cnA pA
      unfold fixCore
      by_cases hE : cnA.isEmpty = true
      · rw [if_pos hE, if_pos hE]
        have hnil : cnA = [] := by simpa using hE
        subst hnil
        obtain ⟨c, hc⟩ := fixBody_final cnT [] ref cfg P cnT rfT (by simp) sT gT kT
        exact ⟨cnT, [], rfT, rfA, s1, s2, c, rfl, rfl, hc⟩
      · rw [if_neg hE, if_neg hE]
        have hpr : (sortS (cnT ++ cnA)).Perm (cnT ++ cnA) := List.mergeSort_perm _ _
        have hpf : (sortR (rfT ++ rfA)).Perm (rfT ++ rfA) := List.mergeSort_perm _ _
        have hgood : ∀ q ∈ sortR (rfT ++ rfA), badBin q = false ∧ q ∈ ref := by
          intro q hq
          rcases List.mem_append.mp (hpf.mem_iff.mp hq) with hq | hq
          · exact gT q hq
          · exact gA q hq
        have hsub : ∀ a ∈ sortS (cnT ++ cnA), sKey a ∈ (tgt ++ anti).map sKey := by
          intro a ha
          rw [List.map_append]
          rcases List.mem_append.mp (hpr.mem_iff.mp ha) with ha | ha
          · exact List.mem_append_left _ (hsubT a ha)
          · exact List.mem_append_right _ (hsubA a ha)
        have hp : ((sortR (rfT ++ rfA)).map rKey).Perm ((sortS (cnT ++ cnA)).map sKey) := by
          refine (hpf.map rKey).trans ?_
          rw [List.map_append, kT, kA, ← List.map_append]
          exact (hpr.map sKey).symm
        have hk := keys_aligned (tgt ++ anti) hks _ _ hsub (sortS_sorted _) (sortR_sorted _) hp
        obtain ⟨c, hc⟩ := fixBody_final cnT cnA ref cfg P _ _ hpr (sortS_sorted _) hgood hk
        exact ⟨cnT, cnA, rfT, rfA, s1, s2, c, rfl, rfl, hc⟩

/-- the statement for `doFix` itself (which first refuses a bin shared by the two sample tables) -/
theorem doFix_bin_for_bin (tgt anti : List SRow) (ref : List RRow) (cfg : FixCfg) (P : FixParams) (outs : List FixOut)
    (h : doFix tgt anti ref cfg P = .ok outs)
    (hpT : IsPerm P.permT (goodRows (sortS tgt) ref).length)
    (hpA : IsPerm P.permA (goodRows (sortS anti) ref).length)
    (hks : KeysSortable (tgt ++ anti)) (hnd : hasDup ((tgt ++ anti).map sKey) = false) :
    ∃ (cnT cnA : List SRow) (rfT rfA : List RRow) (s1 s2 c : Rat),
      loadAdjust tgt ref true cfg.gc cfg.edge false cfg.par P.permT P.wingT P.edgeKeysT = .ok (cnT, rfT, s1) ∧
      loadAdjust anti ref false cfg.gc false cfg.rmask cfg.par P.permA P.wingA = .ok (cnA, rfA, s2) ∧
      outs.length = (cnT ++ cnA).length ∧
      (outs.map (fun o => sKey o.row)).Perm ((cnT ++ cnA).map sKey) ∧
      (outs.map (·.row)).Pairwise (fun a b => sSortLe a b = true) ∧
      ∀ o ∈ outs, ∃ s ∈ cnT ++ cnA, ∃ q ∈ ref, sKey s = sKey o.row ∧ rKey q = sKey o.row ∧ badBin q = false ∧
        o.row.log2 = s.log2 - q.log2 + c := by
  unfold doFix at h
  split at h
  · exact absurd h (by simp)
  · exact doFixCore_bin_for_bin tgt anti ref cfg P outs h hpT hpA hks hnd

/-- a bin occurring in both sample tables is refused -/
theorem doFix_rejects_shared_bin (tgt anti : List SRow) (ref : List RRow) (cfg : FixCfg) (P : FixParams)
    (r : SRow) (ht : r ∈ tgt) (a : SRow) (ha : a ∈ anti) (hk : sKey r = sKey a) :
    doFix tgt anti ref cfg P = .error .dupSample := by
  unfold doFix
  have : (tgt.map sKey).any (fun k => (anti.map sKey).contains k) = true := by
    simp only [List.any_eq_true, List.mem_map]
    exact ⟨sKey r, ⟨r, ht, rfl⟩, by simp only [List.contains_iff_mem, List.mem_map]; exact ⟨a, ha, hk.symm⟩⟩
  rw [if_pos this]

end CnvVerif
