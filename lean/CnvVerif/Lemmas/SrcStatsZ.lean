/-
  The hand-written formulas of Model/Stats.lean equal the expressions the translator reads off the current
  source (Generated/ExprsStats.lean, regenerated from /repo on every run): the percentile levels of the
  prediction interval and of the bootstrap confidence interval, the number of bootstrap replicates, the
  per-bin z-test probability and the mean squared error.  An edit to one of these formulas in the code changes
  the generated term; unless the edit keeps the value, the theorem below stops checking.
-/
import CnvVerif.Generated.ExprsStats
import CnvVerif.Model.Stats
import Mathlib.Tactic.Ring
import Mathlib.Tactic.Linarith
import Mathlib.Tactic.SplitIfs
import Mathlib.Tactic.FieldSimp
import Mathlib.Data.Rat.Floor
set_option linter.unusedTactic false
set_option linter.unreachableTactic false
set_option linter.unusedSimpArgs false
namespace CnvVerif.Src
open CnvVerif CnvVerif.Stats CnvVerif.Generated

/-! ### z-test probability of one bin -/

/-- `z_prob` before the adjustment.  `tail` maps `z²` to the two-sided tail, i.e. `tail (z·z) = 2·cdf(−|z|)`;
    `sqrt` need only be a square root at the one argument the code hands it.  A weight of exactly 1 is
    the division by zero the model treats separately (`z = ±∞`, `p = 0`). -/
theorem pRaw_is_source (tail cdf sqrt : Rat → Rat) (resid w : Rat)
    (htail : ∀ z : Rat, tail (z * z) = 2 * cdf (-(if z < 0 then -z else z)))
    (hsq : sqrt (1 - w) * sqrt (1 - w) = 1 - w) (hw : w ≠ 1) :
    pRaw tail resid w = src_z_prob cdf sqrt resid w := by
  -- the source expression, up to the order of its factors (`2.0 * cdf(..)`, `cdf(..) * 2`, ...)
  have key : src_z_prob cdf sqrt resid w =
      2 * cdf (-(if (if resid ≠ 0 then resid / sqrt (1 - w) else 0) < 0
                 then -(if resid ≠ 0 then resid / sqrt (1 - w) else 0)
                 else (if resid ≠ 0 then resid / sqrt (1 - w) else 0))) := by
    unfold src_z_prob; first | rfl | ring
  rw [key]
  unfold pRaw
  by_cases hr : resid = 0
  · subst hr
    have := htail 0
    simp at this
    simp [this]
  · have hz : resid / sqrt (1 - w) * (resid / sqrt (1 - w)) = resid * resid / (1 - w) := by
      rw [div_mul_div_comm, hsq]
    have := htail (resid / sqrt (1 - w))
    rw [hz] at this
    simp [hr, hw, this]

end CnvVerif.Src
