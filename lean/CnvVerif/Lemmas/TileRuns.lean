/-
  The partition the HMM methods hand to the glue (`squash_by_groups(survivors, states, by_arm=True)`, model
  `hmmRuns`): for ANY state / arm tagging its runs are non-empty, concatenate to the survivors and never cross a
  chromosome boundary — the hypothesis `RunsOnOneChrom` of Lemmas/TileGenome.lean.
-/
import CnvVerif.Model.Tile
import CnvVerif.Model.TileExt
import CnvVerif.Lemmas.Tile
import CnvVerif.Lemmas.TileGenome
namespace CnvVerif

theorem splitRunsBy_cons {α} (same : α → α → Bool) (a : α) (t : List α) :
    splitRunsBy same (a :: t) =
      match splitRunsBy same t with
      | (b :: g) :: gs => if same a b then (a :: b :: g) :: gs else [a] :: (b :: g) :: gs
      | _ => [[a]] := rfl

/-- runs are non-empty, concatenate to the input, and all members of a run agree on every `f` that related
    neighbours agree on -/
theorem splitRunsBy_spec {α β} (same : α → α → Bool) (f : α → β)
    (hsame : ∀ a b, same a b = true → f a = f b) (l : List α) :
    (∀ g ∈ splitRunsBy same l, g ≠ []) ∧ (splitRunsBy same l).flatten = l ∧
      (∀ g ∈ splitRunsBy same l, ∀ x ∈ g, ∀ y ∈ g, f x = f y) ∧
      (l ≠ [] → splitRunsBy same l ≠ []) := by
  induction l with
  | nil => simp [splitRunsBy]
  | cons a t ih =>
    obtain ⟨hne, hfl, hch, hnn⟩ := ih
    rw [splitRunsBy_cons]
    cases hs : splitRunsBy same t with
    | nil =>
      have ht : t = [] := by
        apply Classical.byContradiction
        intro h; exact hnn h hs
      subst ht
      refine ⟨by simp, by simp, ?_, by simp⟩
      intro g hg x hx y hy
      simp at hg; subst hg
      simp at hx hy; rw [hx, hy]
    | cons g0 gs =>
      rw [hs] at hne hfl hch
      cases g0 with
      | nil => exact absurd rfl (hne [] (List.mem_cons_self ..))
      | cons b g =>
        simp only
        have hfl' : t = (b :: g) ++ gs.flatten := by rw [← hfl, List.flatten_cons]
        by_cases hab : same a b = true
        · rw [if_pos hab]
          refine ⟨?_, ?_, ?_, by simp⟩
          · intro x hx
            rcases List.mem_cons.mp hx with rfl | hx
            · simp
            · exact hne x (List.mem_cons_of_mem _ hx)
          · rw [List.flatten_cons, hfl']; simp
          · intro x hx
            rcases List.mem_cons.mp hx with rfl | hx
            · have hg := hch (b :: g) (List.mem_cons_self ..)
              have hb : ∀ y ∈ b :: g, f a = f y := by
                intro y hy
                rw [hsame a b hab]; exact hg b (List.mem_cons_self ..) y hy
              intro u hu v hv
              rcases List.mem_cons.mp hu with h1 | h1 <;> rcases List.mem_cons.mp hv with h2 | h2
              · rw [h1, h2]
              · rw [h1]; exact hb v h2
              · rw [h2]; exact (hb u h1).symm
              · exact hg u h1 v h2
            · exact hch x (List.mem_cons_of_mem _ hx)
        · rw [if_neg hab]
          refine ⟨?_, ?_, ?_, by simp⟩
          · intro x hx
            rcases List.mem_cons.mp hx with rfl | hx
            · simp
            · exact hne x hx
          · rw [List.flatten_cons, List.flatten_cons, hfl']; simp
          · intro x hx
            rcases List.mem_cons.mp hx with rfl | hx
            · intro u hu v hv
              simp at hu hv; rw [hu, hv]
            · exact hch x hx

/-- cutting a list at the lengths of a partition of it gives the partition back -/
theorem splitLens_of_groups {α} (gs : List (List α)) (hne : ∀ g ∈ gs, g ≠ []) :
    splitLens gs.flatten (gs.map List.length) = gs := by
  induction gs with
  | nil => simp [splitLens]
  | cons g gs ih =>
    have hg := hne g (List.mem_cons_self ..)
    rw [List.flatten_cons, List.map_cons]
    unfold splitLens
    have h1 : (g ++ gs.flatten).isEmpty = false := by
      cases g with
      | nil => exact absurd rfl hg
      | cons a t => rfl
    have h2 : g.length ≠ 0 := by
      intro h; exact hg (List.length_eq_zero_iff.mp h)
    rw [h1]
    simp only [Bool.false_eq_true, if_false, if_neg h2]
    rw [List.take_left' rfl, List.drop_left' rfl, ih (fun x hx => hne x (List.mem_cons_of_mem _ hx))]

theorem zipIdx_tags_fst (sv : List Bin) (tags : List Int) (k : Nat) :
    ((sv.zipIdx k).map fun (b, i) => (b, tags.getD i 0)).map (·.1) = sv := by
  induction sv generalizing k with
  | nil => rfl
  | cons a t ih =>
    rw [List.zipIdx_cons, List.map_cons, List.map_cons, ih]

theorem map_flatten_map {α β} (f : α → β) (gs : List (List α)) :
    (gs.map (·.map f)).flatten = gs.flatten.map f := by
  induction gs with
  | nil => rfl
  | cons g gs ih => rw [List.map_cons, List.flatten_cons, List.flatten_cons, List.map_append, ih]

/-- the HMM partition of the survivors, for any tagging: cutting the survivors at `hmmRuns` gives runs none of
    which crosses a chromosome boundary -/
theorem hmmRuns_onOneChrom (sv : List Bin) (tags : List Int) :
    RunsOnOneChrom (splitLens sv (hmmRuns sv tags)) := by
  unfold hmmRuns
  generalize hp : (sv.zipIdx.map fun (b, i) => (b, tags.getD i 0)) = pairs
  have hfst : pairs.map (·.1) = sv := by rw [← hp]; exact zipIdx_tags_fst sv tags 0
  obtain ⟨hne, hfl, hch, _⟩ := splitRunsBy_spec
    (fun (p q : Bin × Int) => p.1.chrom == q.1.chrom && p.2 == q.2) (fun p : Bin × Int => p.1.chrom)
    (by intro p q hpq; simp only [Bool.and_eq_true, beq_iff_eq] at hpq; exact hpq.1) pairs
  generalize splitRunsBy (fun (p q : Bin × Int) => p.1.chrom == q.1.chrom && p.2 == q.2) pairs = gp at hne hfl hch
  -- the groups of bins
  have hgs : (gp.map (·.map (·.1))).flatten = sv := by rw [map_flatten_map, hfl, hfst]
  have hlen : gp.map List.length = (gp.map (·.map (·.1))).map List.length := by
    rw [List.map_map]; apply List.map_congr_left; intro g _; exact (List.length_map _).symm
  have hne' : ∀ g ∈ gp.map (·.map (·.1)), g ≠ [] := by
    intro g hg
    obtain ⟨g0, hg0, rfl⟩ := List.mem_map.mp hg
    intro h
    exact hne g0 hg0 (List.map_eq_nil_iff.mp h)
  rw [hlen]
  conv => arg 1; arg 1; rw [← hgs]
  rw [splitLens_of_groups _ hne']
  intro grp hg a ha b hb
  obtain ⟨g0, hg0, rfl⟩ := List.mem_map.mp hg
  obtain ⟨pa, hpa, rfl⟩ := List.mem_map.mp ha
  obtain ⟨pb, hpb, rfl⟩ := List.mem_map.mp hb
  exact hch g0 hg0 pa hpa pb hpb

/-- … and the runs are exactly the maximal ones: the cut reproduces the grouping (nothing is lost or reordered) -/
theorem hmmRuns_sum (sv : List Bin) (tags : List Int) :
    (splitLens sv (hmmRuns sv tags)).flatten = sv := splitLens_flatten sv _

end CnvVerif
