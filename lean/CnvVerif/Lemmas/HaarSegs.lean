/-
  Lemmas behind Props/C11.lean, part 4: `SegmentByPeaks` (per-segment (weighted) mean, constant inside each segment).
-/
import CnvVerif.Model.Haar
import Mathlib.Tactic.Linarith
import Mathlib.Tactic.Ring
import Mathlib.Tactic.FieldSimp
import Mathlib.Tactic.NormNum
set_option linter.unusedSimpArgs false
set_option linter.unusedVariables false
namespace CnvVerif.Haar

/-! ### SegmentByPeaks -/

/-- breakpoints strictly increasing, strictly inside `(0, n)` -/
def StrictInside (peaks : List Nat) (n : Nat) : Prop :=
  peaks.Pairwise (· < ·) ∧ ∀ p ∈ peaks, 0 < p ∧ p < n


theorem assign_length (segs : List Rat) (s e : Nat) (v : Rat) (h : s < e) (hs : s < segs.length) :
    (assign segs s e v).length = segs.length := by
  unfold assign
  simp only [List.length_append, List.length_take, List.length_replicate, List.length_drop]
  omega

/-- value written over the segment `se` -/
def segV (data : List Rat) (wt : Option (List Rat)) (se : Nat × Nat) : Rat :=
  segValue (slice data se.1 se.2) (wt.map fun w => slice w se.1 se.2)

/-- one step of the fold of `segmentByPeaks` -/
def segStep (data : List Rat) (wt : Option (List Rat)) (segs : List Rat) (se : Nat × Nat) : List Rat :=
  if se.1 < se.2 ∧ se.1 < data.length then assign segs se.1 se.2 (segV data wt se) else segs

theorem segmentByPeaks_def (data : List Rat) (peaks : List Nat) (wt : Option (List Rat)) :
    segmentByPeaks data peaks wt
      = (bounds peaks data.length).foldl (segStep data wt) (List.replicate data.length 0) := rfl

theorem segStep_length (data : List Rat) (wt : Option (List Rat)) (acc : List Rat) (se : Nat × Nat)
    (h : acc.length = data.length) : (segStep data wt acc se).length = data.length := by
  unfold segStep
  split
  next hg => rw [assign_length _ _ _ _ hg.1 (by rw [h]; exact hg.2)]; exact h
  next => exact h

theorem foldl_segStep_length (data : List Rat) (wt : Option (List Rat)) (bs : List (Nat × Nat))
    (acc : List Rat) (h : acc.length = data.length) :
    (bs.foldl (segStep data wt) acc).length = data.length := by
  induction bs generalizing acc with
  | nil => simpa using h
  | cons b bs ih =>
    rw [List.foldl_cons]
    exact ih _ (segStep_length data wt acc b h)

theorem assign_pre (pre : List Rat) (s0 p n : Nat) (v : Rat) (hl : pre.length = s0) (h1 : s0 < p)
    (h2 : p ≤ n) :
    assign (pre ++ List.replicate (n - s0) 0) s0 p v
      = (pre ++ List.replicate (p - s0) v) ++ List.replicate (n - p) 0 := by
  subst hl
  unfold assign
  have hlen : (pre ++ List.replicate (n - pre.length) (0 : Rat)).length = n := by
    simp only [List.length_append, List.length_replicate]; omega
  rw [hlen, Nat.min_eq_left h2, List.take_left', List.drop_append, List.drop_replicate,
    List.drop_eq_nil_of_le (by omega), List.nil_append]
  have : n - pre.length - (p - pre.length) = n - p := by omega
  rw [this]
  rfl

theorem fold_segStep_eq (data : List Rat) (wt : Option (List Rat)) :
    ∀ (peaks : List Nat) (s0 : Nat) (pre : List Rat), pre.length = s0 → s0 ≤ data.length →
      peaks.Pairwise (· < ·) → (∀ p ∈ peaks, s0 < p ∧ p < data.length) →
      ((s0 :: peaks).zip (peaks ++ [data.length])).foldl (segStep data wt)
          (pre ++ List.replicate (data.length - s0) 0)
        = pre ++ ((s0 :: peaks).zip (peaks ++ [data.length])).flatMap
            (fun se => List.replicate (se.2 - se.1) (segV data wt se)) := by
  intro peaks
  induction peaks with
  | nil =>
    intro s0 pre hl hle _ _
    simp only [List.nil_append, List.zip_cons_cons, List.zip_nil_right, List.foldl_cons,
      List.foldl_nil, List.flatMap_cons, List.flatMap_nil, List.append_nil]
    unfold segStep
    by_cases hlt : s0 < data.length
    · rw [if_pos ⟨hlt, hlt⟩]
      show assign _ s0 data.length _ = _
      rw [assign_pre pre s0 data.length data.length _ hl hlt (Nat.le_refl _)]
      simp
    · have : s0 = data.length := by omega
      rw [if_neg (by simp only [not_and]; intro h; exact absurd h hlt)]
      simp [this]
  | cons p ps ih =>
    intro s0 pre hl hle hpw hin
    have hp := hin p (List.mem_cons_self)
    have hpw' := List.pairwise_cons.mp hpw
    rw [List.cons_append, List.zip_cons_cons, List.foldl_cons, List.flatMap_cons]
    have hstep : segStep data wt (pre ++ List.replicate (data.length - s0) 0) (s0, p)
        = (pre ++ List.replicate (p - s0) (segV data wt (s0, p)))
            ++ List.replicate (data.length - p) 0 := by
      unfold segStep
      rw [if_pos ⟨hp.1, by show s0 < data.length; omega⟩]
      exact assign_pre pre s0 p data.length _ hl hp.1 (Nat.le_of_lt hp.2)
    rw [hstep, ih p (pre ++ List.replicate (p - s0) (segV data wt (s0, p)))
      (by simp only [List.length_append, List.length_replicate]; omega) (Nat.le_of_lt hp.2) hpw'.2
      (fun q hq => ⟨hpw'.1 q hq, (hin q (List.mem_cons_of_mem _ hq)).2⟩)]
    rw [List.append_assoc]

theorem zip_mul_sum_const (c : Rat) : ∀ (ws d : List Rat), (∀ x ∈ d, x = c) → ws.length ≤ d.length →
    ((d.zip ws).map (fun p => p.1 * p.2)).sum = c * ws.sum := by
  intro ws
  induction ws with
  | nil => intro d _ _; simp
  | cons w ws ih =>
    intro d hc hl
    cases d with
    | nil => simp at hl
    | cons x d =>
      have hx : x = c := hc x (List.mem_cons_self)
      simp only [List.zip_cons_cons, List.map_cons, List.sum_cons]
      rw [ih d (fun y hy => hc y (List.mem_cons_of_mem _ hy))
        (by simp only [List.length_cons] at hl; omega), hx]
      ring

theorem sum_const (c : Rat) : ∀ (d : List Rat), (∀ x ∈ d, x = c) → d.sum = (d.length : Rat) * c := by
  intro d
  induction d with
  | nil => intro _; simp
  | cons x d ih =>
    intro hc
    rw [List.sum_cons, ih (fun y hy => hc y (List.mem_cons_of_mem _ hy)), hc x (List.mem_cons_self)]
    simp only [List.length_cons, Nat.cast_add, Nat.cast_one]
    ring

theorem mean_const (c : Rat) (d : List Rat) (hd : d ≠ []) (hc : ∀ x ∈ d, x = c) :
    d.sum / (d.length : Rat) = c := by
  rw [sum_const c d hc]
  have : (d.length : Rat) ≠ 0 := by
    have : d.length ≠ 0 := by
      intro h; exact hd (List.length_eq_zero_iff.mp h)
    exact_mod_cast this
  field_simp

theorem segmentByPeaks_length (data : List Rat) (peaks : List Nat) (wt : Option (List Rat)) :
    (segmentByPeaks data peaks wt).length = data.length := by
  rw [segmentByPeaks_def]
  exact foldl_segStep_length data wt _ _ (List.length_replicate ..)

/-- the value written over a segment: its weighted mean when the weights sum to something positive, else its mean -/
theorem segmentByPeaks_eq (data : List Rat) (peaks : List Nat) (wt : Option (List Rat))
    (hp : StrictInside peaks data.length) :
    segmentByPeaks data peaks wt
      = (bounds peaks data.length).flatMap (fun se =>
          List.replicate (se.2 - se.1)
            (segValue (slice data se.1 se.2) (wt.map fun w => slice w se.1 se.2))) := by
  have h := fold_segStep_eq data wt peaks 0 [] rfl (Nat.zero_le _) hp.1 hp.2
  simp only [List.nil_append, Nat.sub_zero] at h
  rw [segmentByPeaks_def]
  exact h

/-- the (weighted) mean of a constant stretch is that constant -/
theorem segValue_const (c : Rat) (d : List Rat) (w : Option (List Rat)) (hd : d ≠ [])
    (hc : ∀ x ∈ d, x = c) (hw : ∀ ws, w = some ws → ws.length = d.length) : segValue d w = c := by
  unfold segValue
  cases w with
  | none => exact mean_const c d hd hc
  | some ws =>
    show (if 0 < ws.sum then _ else _) = c
    split
    next hpos =>
      rw [zip_mul_sum_const c ws d hc (Nat.le_of_eq (hw ws rfl))]
      have : ws.sum ≠ 0 := ne_of_gt hpos
      field_simp
    next => exact mean_const c d hd hc

end CnvVerif.Haar
