/-
  The model's `centerShift` (Model/Center.lean) equals the branch structure the translator reads off
  CopyNumArray.center_all (Generated/ExprsCenter.lean, regenerated from /repo on every run).
-/
import CnvVerif.Generated.ExprsCenter
import CnvVerif.Model.Center
import CnvVerif.Lemmas.Center
set_option linter.unusedTactic false
set_option linter.unreachableTactic false
set_option linter.unusedSimpArgs false
namespace CnvVerif.Src
open CnvVerif CnvVerif.Generated

/-- `by_chromosome()` of a table, as the list of the chromosomes' log2 lists (`groupby(sort=False)`: order of first
    appearance) -/
def chromGroups (sel : List CBin) : List (List Rat) :=
  ((sel.map (·.chrom)).eraseDups).map fun c => (sel.filter (·.chrom == c)).map (·.log2)

/-- no group is empty, so the `if len(subarr)` filter of the comprehension keeps every chromosome -/
theorem chromGroups_nonempty (sel : List CBin) : ∀ g ∈ chromGroups sel, (g.length != 0) = true := by
  intro g hg
  unfold chromGroups at hg
  rw [List.mem_map] at hg
  obtain ⟨c, hc, rfl⟩ := hg
  rw [List.mem_eraseDups, List.mem_map] at hc
  obtain ⟨b0, hb0, hb0c⟩ := hc
  have hmem : b0 ∈ sel.filter (fun b => b.chrom == c) := by
    rw [List.mem_filter]; exact ⟨hb0, by simp [hb0c]⟩
  have hpos : 0 < (sel.filter (fun b => b.chrom == c)).length := List.length_pos_of_mem hmem
  simp only [List.length_map, bne_iff_ne, ne_eq]
  omega

theorem centerShift_is_source (est : List Rat → Rat) (byChrom skipLow : Bool) (par : Option String)
    (t : List CBin) :
    centerShift est byChrom skipLow par t =
      (let first := (t.head?.map (·.chrom)).getD ""
       let sel := src_center_selection (autosomesOf first par) dropLow skipLow t
       src_center_shift est byChrom (!sel.isEmpty) (chromGroups sel) (sel.map (·.log2))) := by
  unfold centerShift src_center_selection src_center_shift centerValues
  simp only []
  have hf : ∀ sel : List CBin, (chromGroups sel).filter (fun g => g.length != 0) = chromGroups sel :=
    fun sel => List.filter_eq_self.mpr (chromGroups_nonempty sel)
  generalize autosomesOf ((t.head?.map (·.chrom)).getD "") par (if skipLow = true then dropLow t else t) = sel
  cases hE : sel.isEmpty
  · cases byChrom
    · simp
    · simp only [Bool.not_false, if_true, hf]
      unfold chromGroups
      simp [List.map_map, Function.comp_def]
  · simp

end CnvVerif.Src
