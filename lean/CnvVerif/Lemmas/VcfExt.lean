/-
  Helper lemmas for the growth of property C18: the composition of the reading, het-selection, TumorBoost and BAF
  steps ("frequencies stay attached", end to end), one value per range.  (Command-line glue: Lemmas/VcfCli.lean;
  literals read off the source: Lemmas/VcfLits.lean.)
-/
import CnvVerif.Lemmas.Vcf
set_option linter.unusedSimpArgs false
set_option linter.unusedVariables false
set_option linter.unusedTactic false
set_option linter.unreachableTactic false
namespace CnvVerif.Vcf
open CnvVerif

/-! ## frequencies stay attached: read → retype → T/N-somatic drop → heterozygous → TumorBoost -/

/-- `row` carries the site, flag, depth, alt count and the normal's numbers of `r0` -/
def Carries (row r0 : VRow) : Prop :=
  row.chrom = r0.chrom ∧ row.s = r0.s ∧ row.e = r0.e ∧ row.ref = r0.ref ∧ row.alt = r0.alt ∧
  row.somatic = r0.somatic ∧ row.t.depth = r0.t.depth ∧ row.t.altCount = r0.t.altCount ∧
  row.n.map (fun g => (g.depth, g.altCount, g.altFreq)) = r0.n.map (fun g => (g.depth, g.altCount, g.altFreq))

theorem Carries.refl (r : VRow) : Carries r r := ⟨rfl, rfl, rfl, rfl, rfl, rfl, rfl, rfl, rfl⟩

theorem carries_reZyg (het hom : Rat) (r : VRow) :
    Carries { r with t := reZyg het hom r.t, n := r.n.map (reZyg het hom) } r := by
  refine ⟨rfl, rfl, rfl, rfl, rfl, rfl, rfl, rfl, ?_⟩
  cases r.n <;> simp [reZyg]

theorem boostRow_reZyg (het hom : Rat) (r : VRow) :
    boostRow { r with t := reZyg het hom r.t, n := r.n.map (reZyg het hom) } = boostRow r := by
  unfold boostRow
  cases h : r.n <;> simp [reZyg, h]

theorem boostRow_congr (row r0 : VRow) (hc : Carries row r0) (hf : row.t.altFreq = r0.t.altFreq) :
    boostRow row = boostRow r0 := by
  obtain ⟨_, _, _, _, _, _, _, _, hn⟩ := hc
  unfold boostRow
  cases h1 : row.n <;> cases h2 : r0.n <;> simp [h1, h2] at hn ⊢
  · exact hf
  · rw [hf, hn.2.2]

theorem retype_carries (zf : Option (Rat × Rat)) (rows rows1 : List VRow) (h : retype zf rows = .ok rows1) :
    ∀ row ∈ rows1, ∃ r0 ∈ rows, Carries row r0 ∧ row.t.altFreq = r0.t.altFreq := by
  intro row hrow
  unfold retype at h
  split at h
  · split at h
    · cases h
      obtain ⟨r0, hr0, rfl⟩ := List.mem_map.mp hrow
      exact ⟨r0, hr0, carries_reZyg _ _ r0, rfl⟩
    · cases h
  · cases h
    exact ⟨row, hrow, Carries.refl row, rfl⟩

theorem mem_heterozygous_sub (rows : List VRow) (r : VRow) (h : r ∈ heterozygous rows) : r ∈ rows := by
  unfold heterozygous at h
  split at h
  · exact (List.mem_filter.mp h).1
  · exact h

theorem mem_hetStage_sub (paired : Bool) (rows : List VRow) (r : VRow) (h : r ∈ hetStage paired rows) :
    r ∈ rows := by
  unfold hetStage at h
  have := mem_heterozygous_sub _ _ h
  split at this
  · exact (List.mem_filter.mp this).1
  · exact this

/-- **`load_het_snps`, every option**: each row it returns carries the site, the SOMATIC flag, the depth and alt count
    (and the normal's numbers) of a row of the table read; its frequency is that row's own count / depth, or -- with
    TumorBoost -- the boosted value of that row's own tumour and normal frequencies -/
theorem loadHetSnps_attached (samples : List String) (tags : List PedTag) (recs : List Rec)
    (o : HetOpts) (tb out : VTable)
    (hr : readVcf samples tags recs
            { sid := o.sid, nid := o.nid, minDepth := o.minDepth,
              skipReject := false, skipSomatic := true } = .ok tb)
    (ho : loadHetSnps samples tags recs o = .ok out) :
    out.paired = tb.paired ∧
    ∀ row ∈ out.rows, ∃ r0 ∈ tb.rows, Carries row r0 ∧
      row.t.altFreq = (if o.tumorBoost then boostRow r0 else r0.t.altFreq) := by
  unfold loadHetSnps at ho
  rw [hr] at ho
  simp only [bind, Except.bind] at ho
  cases h1 : retype (effectiveZygFreq o tb) tb.rows with
  | error e => rw [h1] at ho; cases ho
  | ok rows1 =>
    rw [h1] at ho
    simp only at ho
    cases h2 : boostStage o.tumorBoost tb.paired (hetStage tb.paired rows1) with
    | error e => rw [h2] at ho; cases ho
    | ok rows2 =>
      rw [h2] at ho
      simp only [pure, Except.pure, Except.ok.injEq] at ho
      subst ho
      refine ⟨rfl, ?_⟩
      intro row hrow
      simp only at hrow
      unfold boostStage at h2
      cases hb : o.tumorBoost
      · simp only [hb, Bool.false_eq_true, if_false, Except.ok.injEq] at h2
        subst h2
        obtain ⟨r0, hr0, hc, hf⟩ := retype_carries _ _ _ h1 row (mem_hetStage_sub _ _ _ hrow)
        exact ⟨r0, hr0, hc, by simpa using hf⟩
      · simp only [hb, if_true] at h2
        split at h2
        · simp only [Except.ok.injEq] at h2
          subst h2
          obtain ⟨r1, hr1, rfl⟩ := List.mem_map.mp hrow
          obtain ⟨r0, hr0, hc, hf⟩ := retype_carries _ _ _ h1 r1 (mem_hetStage_sub _ _ _ hr1)
          refine ⟨r0, hr0, ?_, ?_⟩
          · obtain ⟨a1, a2, a3, a4, a5, a6, a7, a8, a9⟩ := hc
            exact ⟨a1, a2, a3, a4, a5, a6, a7, a8, a9⟩
          · simp only [if_true]
            exact boostRow_congr r1 r0 hc hf
        · cases h2

/-! ## one value per range, in the order of the ranges (finding AZ) -/

theorem bafByRanges_length (tb : VTable) (segs : List (String × Int × Int)) (above : Option Bool) (boost : Bool) :
    (bafByRanges tb segs above boost).length = segs.length := by
  unfold bafByRanges
  simp only
  split
  · simp
  · rw [List.length_map, iterSlices_length, List.length_map]

/-! ## the rows of a table read are well-formed -/

theorem sortedV_of_readVcf (samples : List String) (tags : List PedTag) (recs : List Rec) (o : ReadOpts)
    (tb : VTable) (h : readVcf samples tags recs o = .ok tb) : SortedV tb.rows := by
  cases hc : chooseSamples samples tags o.sid o.nid with
  | error e => rw [readVcf_error _ _ _ _ e hc] at h; cases h
  | ok p =>
    obtain ⟨sid, nid⟩ := p
    rw [readVcf_eq _ _ _ _ sid nid hc] at h
    cases h
    exact sortV_sorted _

end CnvVerif.Vcf
