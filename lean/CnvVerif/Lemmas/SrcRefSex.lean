/-
  `reference.shift_sex_chroms` and `CopyNumArray.expect_flat_log2`: the model's sexAdjust / expectFlat equal the
  expressions the translator reads off the current source (Generated/ExprsRef.lean).
-/
import CnvVerif.Generated.ExprsRef
import CnvVerif.Model.Reference
import Mathlib.Tactic.Ring
import Mathlib.Tactic.Linarith
import Mathlib.Tactic.SplitIfs
import Mathlib.Tactic.NormNum
import Mathlib.Tactic.FieldSimp
import Mathlib.Tactic.Push
set_option linter.unusedTactic false
set_option linter.unreachableTactic false
set_option linter.unusedSimpArgs false
namespace CnvVerif.Src
open CnvVerif CnvVerif.Generated CnvVerif.Ref

/-- `shift_sex_chroms`, one bin: the model's decision table IS the source's in-place update of `cnarr["log2"]`
    (masks: the bin is on X / on Y outside the PARs; `is_xx`: the truthiness of the sample's recorded sex) -/
theorem sexAdjust_is_source (isXX : Bool) (cls : CClass) (flat v : Rat) :
    sexAdjust isXX cls flat v = src_shift_sex_chroms (cls == .x) (cls == .y) isXX flat v := by
  unfold sexAdjust src_shift_sex_chroms
  cases isXX <;> cases cls <;> simp <;> first | rfl | ring

/-- `expect_flat_log2`: every value of the model's flat profile IS the source expression on the bin's masks -/
theorem expectFlat_is_source_ref (hapX : Bool) (par : Option String) (t : List CBin) :
    expectFlat hapX par t = t.map (fun b =>
      src_expect_flat_log2 hapX
        (classOf ((t.head?.map (·.chrom)).getD "") par b.chrom b.s b.e == .x)
        (classOf ((t.head?.map (·.chrom)).getD "") par b.chrom b.s b.e == .y)
        (b.chrom == yLabel ((t.head?.map (·.chrom)).getD ""))) := by
  unfold expectFlat src_expect_flat_log2
  apply List.map_congr_left
  intro b _
  cases hapX <;> simp <;> split_ifs <;> first | rfl | simp_all

end CnvVerif.Src
