/-
  C08 glue lemmas: every read is sorted, the second write is a fixed point, the same regions
  written in different formats read back to the same coordinates, auto-detection picks an
  equivalent reader.
-/
import CnvVerif.Lemmas.Formats2
import CnvVerif.Lemmas.FormatsSniff
namespace CnvVerif.Fmt
open CnvVerif CnvVerif.Generated

/-! ## every table `tabio.read` returns is sorted -/

theorem bind_ok {α β} {x : Except String α} {f : α → Except String β} {y : β}
    (h : (x >>= f) = .ok y) : ∃ u, x = .ok u ∧ f u = .ok y := by
  cases x with
  | error e => exact absurd h (by simp [bind, Except.bind])
  | ok u => exact ⟨u, rfl, h⟩

theorem finish_sorted (cna : Bool) (t t' : FTab) (h : finish cna t = .ok t') : SortedRows t'.rows := by
  unfold finish at h
  dsimp only at h
  have key : ∀ u : FTab, (pure { names := u.names, rows := sortF u.rows } : Except String FTab) = .ok t' →
      SortedRows t'.rows := by
    intro u hu
    simp only [pure, Except.pure] at hu
    injection hu with hu
    subst hu
    exact sortF_sorted _
  split at h
  · obtain ⟨u, _, hu⟩ := bind_ok h
    exact key u hu
  · obtain ⟨u, _, hu⟩ := bind_ok h
    exact key u hu

theorem readFmt_sorted (fmt : String) (cna : Bool) (sel : SampleSel) (lines : List Line) (t : FTab)
    (h : readFmt fmt cna sel lines = .ok t) : SortedRows t.rows := by
  unfold readFmt at h
  obtain ⟨u, _, hu⟩ := bind_ok h
  exact finish_sorted _ _ _ hu

/-! ## sortedness only looks at the coordinates -/

theorem sortedRows_map_coords (rows : List FRow) (f : FRow → FRow) (hf : ∀ r, (f r).toRow = r.toRow) :
    SortedRows (rows.map f) ↔ SortedRows rows := by
  unfold SortedRows
  rw [List.pairwise_map]
  constructor <;> intro h <;> refine h.imp ?_ <;> intro a b hab
  · simpa [rowLe, hf] using hab
  · simpa [rowLe, hf] using hab

theorem perm_forall {α} {p : α → Prop} {l l' : List α} (hp : l'.Perm l) (h : ∀ x ∈ l, p x) :
    ∀ x ∈ l', p x := fun x hx => h x (hp.mem_iff.mp hx)

/-! ## the second write is a fixed point -/

/-- tab: read (write t) = t1, and writing / reading t1 again changes nothing — so the third file
    equals the second byte for byte (at the field level) -/
theorem tab_rewrite_fixpoint (t : FTab) (h : WFTab t) (sel : SampleSel) :
    ∃ t1, readFmt "tab" false sel (renderLines (writeTab t)) = .ok t1 ∧
      readFmt "tab" false sel (renderLines (writeTab t1)) = .ok t1 := by
  refine ⟨{ names := t.names, rows := sortF t.rows }, tab_roundtrip t h sel, ?_⟩
  have hperm := sortF_perm t.rows
  have h1 : WFTab { names := t.names, rows := sortF t.rows } := by
    obtain ⟨a, b, c, d, e⟩ := h
    refine ⟨a, b, c, perm_forall hperm d, ?_⟩
    intro j hj
    rcases e j hj with ⟨e0, e1⟩ | e1
    · exact Or.inl ⟨e0, perm_forall hperm e1⟩
    · exact Or.inr (perm_forall hperm e1)
  have := tab_roundtrip _ h1 sel
  simpa [sortF_idem] using this

/-- a table that is already sorted is written, read and written again to the very same lines -/
theorem tab_rewrite_same_lines (t : FTab) (h : WFTab t) (hs : SortedRows t.rows) (sel : SampleSel) :
    ∃ t1, readFmt "tab" false sel (renderLines (writeTab t)) = .ok t1 ∧
      renderLines (writeTab t1) = renderLines (writeTab t) := by
  refine ⟨{ names := t.names, rows := sortF t.rows }, tab_roundtrip t h sel, ?_⟩
  rw [sortF_of_sorted _ hs]

theorem writeBed3_coords (names : List String) (rows : List FRow) :
    writeBed3 { names := names, rows := rows.map coordsOnly } = writeBed3 { names := [], rows := rows } := by
  simp [writeBed3, List.map_map, Function.comp_def, coordsOnly]

/-- BED3: the table read back is a fixed point of write-then-read -/
theorem bed3_rewrite_fixpoint (t : FTab) (hn : ∀ r ∈ t.rows, NoTrackName r.chrom) (sel : SampleSel) :
    ∃ t1, readFmt "bed3" false sel (renderLines (writeBed3 t)) = .ok t1 ∧
      readFmt "bed3" false sel (renderLines (writeBed3 t1)) = .ok t1 := by
  refine ⟨_, bed3_roundtrip t hn sel, ?_⟩
  have hn1 : ∀ r ∈ sortF (t.rows.map coordsOnly), NoTrackName r.chrom := by
    refine perm_forall (p := fun r => NoTrackName r.chrom) (sortF_perm _) ?_
    intro r hr
    obtain ⟨x, hx, rfl⟩ := List.mem_map.mp hr
    exact hn x hx
  have := bed3_roundtrip { names := [], rows := sortF (t.rows.map coordsOnly) } hn1 sel
  rw [this]
  have hc : (sortF (t.rows.map coordsOnly)).map coordsOnly = sortF (t.rows.map coordsOnly) := by
    rw [sortF_map_coords, List.map_map]
    have : (coordsOnly ∘ coordsOnly) = coordsOnly := by funext r; rfl
    rw [this]
  simp only [hc, sortF_idem]

/-! ## the same regions in different formats -/

/-- the coordinate projection of a read -/
def coordsT (x : Except String FTab) : Except String (List FRow) := x.map (fun t => t.rows.map coordsOnly)

theorem coordsT_ok' (names : List String) (rows : List FRow) :
    coordsT (.ok { names := names, rows := sortF rows }) = .ok (sortF (rows.map coordsOnly)) := by
  simp only [coordsT, Except.map]
  rw [sortF_map_coords]

theorem coordsT_ok (names : List String) (rows : List FRow) (f : FRow → FRow)
    (hf : ∀ r, coordsOnly (f r) = coordsOnly r) :
    coordsT (.ok { names := names, rows := sortF (rows.map f) }) = .ok (sortF (rows.map coordsOnly)) := by
  simp only [coordsT, Except.map]
  rw [sortF_map_coords, List.map_map]
  have : (coordsOnly ∘ f) = coordsOnly := by funext r; exact hf r
  rw [this]

/-- one table written as BED3, BED4, interval list and chr:start-end text: the four files read
    back to the same coordinates, namely those of the table, sorted -/
theorem cross_format_coords (t : FTab) (sel : SampleSel)
    (hn : ∀ r ∈ t.rows, NoTrackName r.chrom) (hg : WFGene t) (hi : WFInterval t)
    (hl : ∀ r ∈ t.rows, LabelName r.chrom) (hpos : ∀ r ∈ t.rows, 0 ≤ r.s ∧ 0 ≤ r.e) :
    coordsT (readFmt "bed3" false sel (renderLines (writeBed3 t))) = .ok (sortF (t.rows.map coordsOnly)) ∧
    coordsT (readFmt "bed4" false sel (renderLines (writeBed4 t))) = .ok (sortF (t.rows.map coordsOnly)) ∧
    coordsT (readFmt "interval" false sel (renderLines (writeInterval t))) = .ok (sortF (t.rows.map coordsOnly)) ∧
    coordsT (readFmt "text" false sel (renderLines (writeText t))) = .ok (sortF (t.rows.map coordsOnly)) := by
  refine ⟨?_, ?_, ?_, ?_⟩
  · rw [bed3_roundtrip t hn sel]
    exact coordsT_ok _ _ coordsOnly (fun _ => rfl)
  · rw [bed4_roundtrip t hn hg sel]
    exact coordsT_ok _ _ _ (fun _ => rfl)
  · rw [interval_roundtrip t hi sel]
    exact coordsT_ok _ _ _ (fun _ => rfl)
  · rw [text_roundtrip t hl hpos sel]
    exact coordsT_ok _ _ _ (fun _ => rfl)

/-! ## auto-detection selects a reader that yields the same table -/

theorem auto_bed3_equivalent (t : FTab) (ext : String) (hx : NoHint ext)
    (hw : ∀ r ∈ t.rows, WordName r.chrom) (hp : NonNegRows t) (sel : SampleSel) :
    ∃ fmt, autoFormat ext (renderLines (writeBed3 t)) = .ok fmt ∧
      coordsT (readFmt fmt false sel (renderLines (writeBed3 t))) =
        coordsT (readFmt "bed3" false sel (renderLines (writeBed3 t))) := by
  have hn : ∀ r ∈ t.rows, NoTrackName r.chrom := fun r hr => (hw r hr).2
  by_cases hne : t.rows = []
  · refine ⟨"bed3", ?_, rfl⟩
    have : renderLines (writeBed3 t) = [] := by simp [renderLines, writeBed3, hne]
    rw [this]; exact sniff_empty ext
  · refine ⟨"bed", sniff_written_bed3 t ext hx hne hw hp, ?_⟩
    rw [bed3_read_as_bed t hn sel, bed3_roundtrip t hn sel, coordsT_ok', coordsT_ok']
    simp [List.map_map, Function.comp_def, coordsOnly]

theorem auto_bed4_equivalent (t : FTab) (ext : String) (hx : NoHint ext)
    (hw : ∀ r ∈ t.rows, WordName r.chrom) (hp : NonNegRows t) (hg : WFGene t) (sel : SampleSel) :
    ∃ fmt, autoFormat ext (renderLines (writeBed4 t)) = .ok fmt ∧
      coordsT (readFmt fmt false sel (renderLines (writeBed4 t))) =
        coordsT (readFmt "bed4" false sel (renderLines (writeBed4 t))) := by
  have hn : ∀ r ∈ t.rows, NoTrackName r.chrom := fun r hr => (hw r hr).2
  by_cases hne : t.rows = []
  · refine ⟨"bed3", ?_, ?_⟩
    · have : renderLines (writeBed4 t) = [] := by simp [renderLines, writeBed4, hne]
      rw [this]; exact sniff_empty ext
    · have : renderLines (writeBed4 t) = [] := by simp [renderLines, writeBed4, hne]
      rw [this]; rfl
  · refine ⟨"bed", sniff_written_bed4 t ext hx hne hw hp hg, ?_⟩
    rw [bed4_read_as_bed t hn hg sel, bed4_roundtrip t hn hg sel, coordsT_ok', coordsT_ok']
    simp [List.map_map, Function.comp_def, coordsOnly]

end CnvVerif.Fmt
