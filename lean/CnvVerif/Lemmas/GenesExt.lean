/-
  C16, round 4: what `by_gene` does when the property's hypothesis FAILS (interleaved genes, comma-joined
  multi-gene bins), stated for all tables -- and with it the converse of the partition theorem.
  Core Lean only.
-/
import CnvVerif.Model.Genes
import CnvVerif.Lemmas.Genes
namespace CnvVerif.Genes
open CnvVerif

/-- how many bins the groups hold together (a bin yielded twice counts twice) -/
def totalLen (gs : List (String × List Bin)) : Nat := ((gs.map (·.2)).flatten).length

theorem totalLen_nil : totalLen [] = 0 := rfl

theorem totalLen_cons (p : String × List Bin) (l : List (String × List Bin)) :
    totalLen (p :: l) = p.2.length + totalLen l := by
  simp [totalLen]

theorem totalLen_append (a b : List (String × List Bin)) : totalLen (a ++ b) = totalLen a + totalLen b := by
  simp [totalLen]

theorem length_slice {α} (rs : List α) (a b : Nat) : (slice rs a b).length = min b rs.length - a := by
  simp [slice]

/-- the last index of a key of the gene map (0 for a name that is no key) -/
def lastOf (T : List (Nat × String)) (g : String) : Nat := (geneIdx T g).getLast?.getD 0

/-- `prev_idx` never has to go backwards: each gene that is not ignored starts at or after the position reached -/
def Chain (ign : List String) (T : List (Nat × String)) : Nat → List (Nat × String) → Prop
  | _, [] => True
  | prev, (f, g) :: ks =>
    if ign.contains g then Chain ign T prev ks else prev ≤ f ∧ Chain ign T (lastOf T g + 1) ks

theorem key_last_lt {rs : List Bin} {f : Nat} {g : String}
    (hk : (f, g) ∈ firstByName (taggedFrom 0 rs)) :
    ∃ la, (geneIdx (taggedFrom 0 rs) g).head? = some f ∧ (geneIdx (taggedFrom 0 rs) g).getLast? = some la ∧
      lastOf (taggedFrom 0 rs) g = la ∧ f ≤ la ∧ la < rs.length := by
  obtain ⟨la, hh, hl, hfl, _, ⟨b, hb, _⟩, _⟩ := key_facts hk
  refine ⟨la, hh, hl, by simp [lastOf, hl], hfl, ?_⟩
  by_cases hlt : la < rs.length
  · exact hlt
  · rw [List.getElem?_eq_none (by omega)] at hb
    cases hb

/-- the groups never hold fewer bins than the rows from `prev` on, and hold exactly as many only if `prev_idx`
    never goes backwards -/
theorem goPos_length {rs : List Bin} {ign : List String} :
    ∀ (ks : List (Nat × String)) (prev : Nat), KeysOK (taggedFrom 0 rs) ks → prev ≤ rs.length →
      rs.length ≤ totalLen (goPos rs ign (taggedFrom 0 rs) prev ks) + prev ∧
      (totalLen (goPos rs ign (taggedFrom 0 rs) prev ks) + prev = rs.length →
        Chain ign (taggedFrom 0 rs) prev ks) := by
  intro ks
  induction ks with
  | nil =>
    intro prev _ hp
    simp only [goPos, Chain, implies_true, and_true]
    split
    · simp [totalLen]; omega
    · simp [totalLen]; omega
  | cons k ks ih =>
    intro prev hok hp
    obtain ⟨f, g⟩ := k
    by_cases hc : ign.contains g = true
    · rw [goPos_skip hc]
      simp only [Chain, hc, ↓reduceIte]
      exact ih prev hok.tail hp
    · have hc' : ign.contains g = false := by simpa using hc
      obtain ⟨la, hh, hl, hlast, hfl, hlt⟩ := key_last_lt (hok.sub (f, g) (by simp))
      rw [goPos_step hc' hh hl]
      obtain ⟨ih1, ih2⟩ := ih (la + 1) hok.tail (by omega)
      simp only [Chain, hc', Bool.false_eq_true, ↓reduceIte, hlast]
      rw [totalLen_append, totalLen_cons]
      have hs : (slice rs f (la + 1)).length = la + 1 - f := by rw [length_slice]; omega
      simp only [hs]
      by_cases hpf : prev < f
      · have hg : (slice rs prev f).length = f - prev := by rw [length_slice]; omega
        simp only [hpf, ↓reduceIte, totalLen_cons, totalLen_nil, hg]
        refine ⟨by omega, fun heq => ⟨by omega, ih2 (by omega)⟩⟩
      · simp only [hpf, ↓reduceIte, totalLen_nil]
        refine ⟨by omega, fun heq => ⟨by omega, ih2 (by omega)⟩⟩

/-- along a chain every later gene starts at or after the position reached -/
theorem Chain.lower {rs : List Bin} {ign : List String} :
    ∀ (ks : List (Nat × String)) (prev : Nat), (∀ x ∈ ks, x ∈ firstByName (taggedFrom 0 rs)) →
      Chain ign (taggedFrom 0 rs) prev ks → ∀ y ∈ ks, ign.contains y.2 = false → prev ≤ y.1 := by
  intro ks
  induction ks with
  | nil => intro _ _ _ y hy; cases hy
  | cons k ks ih =>
    intro prev hsub hch y hy hyc
    obtain ⟨f, g⟩ := k
    have hsub' : ∀ x ∈ ks, x ∈ firstByName (taggedFrom 0 rs) := fun x hx => hsub x (List.mem_cons_of_mem _ hx)
    by_cases hc : ign.contains g = true
    · simp only [Chain, hc, ↓reduceIte] at hch
      rcases List.mem_cons.mp hy with rfl | hy'
      · have hyc' : ign.contains g = false := hyc
        rw [hc] at hyc'; cases hyc'
      · exact ih prev hsub' hch y hy' hyc
    · have hc' : ign.contains g = false := by simpa using hc
      simp only [Chain, hc', Bool.false_eq_true, ↓reduceIte] at hch
      rcases List.mem_cons.mp hy with rfl | hy'
      · exact hch.1
      · obtain ⟨la, _, _, hlast, hfl, _⟩ := key_last_lt (hsub (f, g) (by simp))
        have := ih _ hsub' hch.2 y hy' hyc
        omega

/-- along a chain the genes that are not ignored occupy disjoint, increasing stretches -/
theorem Chain.pairwise {rs : List Bin} {ign : List String} :
    ∀ (ks : List (Nat × String)) (prev : Nat), (∀ x ∈ ks, x ∈ firstByName (taggedFrom 0 rs)) →
      Chain ign (taggedFrom 0 rs) prev ks →
      ks.Pairwise (fun x y => ign.contains x.2 = false → ign.contains y.2 = false →
        lastOf (taggedFrom 0 rs) x.2 + 1 ≤ y.1) := by
  intro ks
  induction ks with
  | nil => intro _ _ _; exact List.Pairwise.nil
  | cons k ks ih =>
    intro prev hsub hch
    obtain ⟨f, g⟩ := k
    have hsub' : ∀ x ∈ ks, x ∈ firstByName (taggedFrom 0 rs) := fun x hx => hsub x (List.mem_cons_of_mem _ hx)
    by_cases hc : ign.contains g = true
    · simp only [Chain, hc, ↓reduceIte] at hch
      refine List.pairwise_cons.mpr ⟨?_, ih prev hsub' hch⟩
      intro y _ hgc
      rw [hc] at hgc; cases hgc
    · have hc' : ign.contains g = false := by simpa using hc
      simp only [Chain, hc', Bool.false_eq_true, ↓reduceIte] at hch
      refine List.pairwise_cons.mpr ⟨?_, ih _ hsub' hch.2⟩
      intro y hy _ hyc
      exact Chain.lower ks _ hsub' hch.2 y hy hyc

theorem pairwise_either {α} {R : α → α → Prop} {l : List α} (h : l.Pairwise R) {x y : α}
    (hx : x ∈ l) (hy : y ∈ l) (hne : x ≠ y) : R x y ∨ R y x := by
  induction l with
  | nil => cases hx
  | cons a l ih =>
    obtain ⟨hhead, htail⟩ := List.pairwise_cons.mp h
    rcases List.mem_cons.mp hx with rfl | hx' <;> rcases List.mem_cons.mp hy with rfl | hy'
    · exact absurd rfl hne
    · exact Or.inl (hhead _ hy')
    · exact Or.inr (hhead _ hx')
    · exact ih htail hx' hy'

/-- a chain over the whole gene map is the property's hypothesis -/
theorem contiguous_of_chain {rs : List Bin} {ign : List String}
    (hch : Chain ign (taggedFrom 0 rs) 0 (firstByName (taggedFrom 0 rs))) : Contiguous ign rs := by
  intro i j k bi bj bk hij hjk hbi hbj hbk g hgi hgk h hhj
  by_cases hne : h = g
  · exact hne
  exfalso
  obtain ⟨hgi', hgc⟩ := mem_named.mp hgi
  obtain ⟨hgk', _⟩ := mem_named.mp hgk
  obtain ⟨hhj', hhc⟩ := mem_named.mp hhj
  have hTi : (i, g) ∈ taggedFrom 0 rs := mem_taggedFrom.mpr ⟨Nat.zero_le _, bi, by simpa using hbi, hgi'⟩
  have hTk : (k, g) ∈ taggedFrom 0 rs := mem_taggedFrom.mpr ⟨Nat.zero_le _, bk, by simpa using hbk, hgk'⟩
  have hTj : (j, h) ∈ taggedFrom 0 rs := mem_taggedFrom.mpr ⟨Nat.zero_le _, bj, by simpa using hbj, hhj'⟩
  obtain ⟨fg, hfg⟩ := firstByName_covers hTi
  obtain ⟨fh, hfh⟩ := firstByName_covers hTj
  simp only at hfg hfh
  obtain ⟨lg, _, hlg, _, _, _, hrg⟩ := key_facts hfg
  obtain ⟨lh, _, hlh, _, _, _, hrh⟩ := key_facts hfh
  have hLg : lastOf (taggedFrom 0 rs) g = lg := by simp [lastOf, hlg]
  have hLh : lastOf (taggedFrom 0 rs) h = lh := by simp [lastOf, hlh]
  have hpw := Chain.pairwise (firstByName (taggedFrom 0 rs)) 0 (fun _ hx => hx) hch
  have hxy : ((fg, g) : Nat × String) ≠ (fh, h) := by
    intro he
    exact hne (by have := congrArg Prod.snd he; simpa using this.symm)
  have := hrg i hTi
  have := hrg k hTk
  have := hrh j hTj
  rcases pairwise_either hpw hfg hfh hxy with hR | hR
  · have := hR hgc hhc
    simp only [hLg] at this
    omega
  · have := hR hhc hgc
    simp only [hLh] at this
    omega

/-! ### `by_gene` on one chromosome, without any hypothesis -/

/-- never fewer bins than the chromosome has -/
theorem byGeneChrom_length_ge (ignore : List String) (rs : List Bin) :
    rs.length ≤ totalLen (byGeneChrom ignore rs) := by
  have := (goPos_length (ign := fullIgnore ignore) (firstByName (taggedFrom 0 rs)) 0 (keysOK_all rs)
    (Nat.zero_le _)).1
  simpa [byGeneChrom] using this

/-- exactly as many bins as the chromosome has only under the property's hypothesis -/
theorem contiguous_of_length_eq (ignore : List String) (rs : List Bin)
    (h : totalLen (byGeneChrom ignore rs) = rs.length) : Contiguous (fullIgnore ignore) rs := by
  have := (goPos_length (ign := fullIgnore ignore) (firstByName (taggedFrom 0 rs)) 0 (keysOK_all rs)
    (Nat.zero_le _)).2
  exact contiguous_of_chain (this (by simpa [byGeneChrom] using h))

theorem byGeneChrom_length_eq_iff (ignore : List String) (rs : List Bin) :
    totalLen (byGeneChrom ignore rs) = rs.length ↔ Contiguous (fullIgnore ignore) rs := by
  constructor
  · exact contiguous_of_length_eq ignore rs
  · intro h
    unfold totalLen
    rw [byGeneChrom_partition' ignore rs h]

theorem byGeneChrom_partition_iff' (ignore : List String) (rs : List Bin) :
    ((byGeneChrom ignore rs).map (·.2)).flatten = rs ↔ Contiguous (fullIgnore ignore) rs := by
  constructor
  · intro h
    apply contiguous_of_length_eq
    unfold totalLen
    rw [h]
  · exact byGeneChrom_partition' ignore rs

/-- no bin is lost, whatever the table: every row from `prev` on is in some group -/
theorem goPos_covers {rs : List Bin} {ign : List String} :
    ∀ (ks : List (Nat × String)) (prev : Nat), (∀ x ∈ ks, x ∈ firstByName (taggedFrom 0 rs)) →
      ∀ b ∈ rs.drop prev, ∃ p ∈ goPos rs ign (taggedFrom 0 rs) prev ks, b ∈ p.2 := by
  intro ks
  induction ks with
  | nil =>
    intro prev _ b hb
    simp only [goPos]
    split
    · exact ⟨(antitarget, rs.drop prev), by simp, hb⟩
    · rename_i h
      rw [List.drop_eq_nil_of_le (Nat.le_of_not_lt h)] at hb
      cases hb
  | cons k ks ih =>
    intro prev hsub b hb
    obtain ⟨f, g⟩ := k
    have hsub' : ∀ x ∈ ks, x ∈ firstByName (taggedFrom 0 rs) := fun x hx => hsub x (List.mem_cons_of_mem _ hx)
    by_cases hc : ign.contains g = true
    · rw [goPos_skip hc]
      exact ih prev hsub' b hb
    · have hc' : ign.contains g = false := by simpa using hc
      obtain ⟨la, hh, hl, hfl, _⟩ := key_facts (hsub (f, g) (by simp))
      rw [goPos_step hc' hh hl]
      -- the rows from `f` on: the gene's slice, then the rest
      have hsplit : rs.drop f = slice rs f (la + 1) ++ rs.drop (la + 1) :=
        (slice_append_drop rs (by omega : f ≤ la + 1)).symm
      have hfrom_f : ∀ b ∈ rs.drop f, ∃ p ∈ ((if prev < f then [(antitarget, slice rs prev f)] else [])
          ++ (g, slice rs f (la + 1)) :: goPos rs ign (taggedFrom 0 rs) (la + 1) ks), b ∈ p.2 := by
        intro b hb
        rw [hsplit] at hb
        rcases List.mem_append.mp hb with hb | hb
        · exact ⟨(g, slice rs f (la + 1)), by simp, hb⟩
        · obtain ⟨p, hp, hbp⟩ := ih (la + 1) hsub' b hb
          exact ⟨p, by simp [hp], hbp⟩
      by_cases hpf : prev < f
      · rw [← slice_append_drop rs (Nat.le_of_lt hpf)] at hb
        rcases List.mem_append.mp hb with hb | hb
        · exact ⟨(antitarget, slice rs prev f), by simp [hpf], hb⟩
        · exact hfrom_f b hb
      · have hsub_drop : (rs.drop prev).Sublist (rs.drop f) := by
          have : rs.drop prev = (rs.drop f).drop (prev - f) := by
            rw [List.drop_drop]; congr 1; omega
          rw [this]; exact List.drop_sublist _ _
        exact hfrom_f b (hsub_drop.subset hb)

theorem byGeneChrom_covers (ignore : List String) (rs : List Bin) :
    ∀ b ∈ rs, ∃ p ∈ byGeneChrom ignore rs, b ∈ p.2 := by
  intro b hb
  exact goPos_covers (firstByName (taggedFrom 0 rs)) 0 (fun _ hx => hx) b (by simpa using hb)

/-- a bin belongs to the group of EACH gene its name lists (comma-joined names included) -/
theorem byGeneChrom_bin_in_each_gene (ignore : List String) (rs : List Bin) (i : Nat) (b : Bin) (g : String)
    (hb : rs[i]? = some b) (hn : g ∈ names b) (hg : (fullIgnore ignore).contains g = false) :
    ∃ grp, (g, grp) ∈ byGeneChrom ignore rs ∧ b ∈ grp := by
  have hlab := (byGeneChrom_genes_once' ignore rs).2 g
  have hmem : g ∈ ((byGeneChrom ignore rs).map (·.1)).filter (fun g => !(fullIgnore ignore).contains g) :=
    hlab.mpr ⟨hg, b, List.mem_of_getElem? hb, hn⟩
  obtain ⟨hm, _⟩ := List.mem_filter.mp hmem
  obtain ⟨p, hp, rfl⟩ := List.mem_map.mp hm
  obtain ⟨f, l, _, hgrp, _, _, hrange⟩ := byGeneChrom_gene_group' ignore rs p.1 p.2 hp hg
  obtain ⟨hfi, hil⟩ := hrange i b hb hn
  refine ⟨p.2, hp, ?_⟩
  rw [hgrp]
  apply List.mem_of_getElem? (i := i - f)
  rw [getElem?_slice, if_pos (by omega)]
  have : f + (i - f) = i := by omega
  rw [this]; exact hb

/-! ### whole tables -/

theorem totalLen_flatMap {α} (l : List α) (F : α → List (String × List Bin)) :
    totalLen (l.flatMap F) = (l.map (fun x => totalLen (F x))).sum := by
  induction l with
  | nil => rfl
  | cons a l ih => rw [List.flatMap_cons, totalLen_append, ih]; simp

theorem sum_le_sum {α} (l : List α) (f g : α → Nat) (h : ∀ x ∈ l, f x ≤ g x) :
    (l.map f).sum ≤ (l.map g).sum := by
  induction l with
  | nil => simp
  | cons a l ih =>
    have h1 := h a (by simp)
    have h2 := ih (fun x hx => h x (List.mem_cons_of_mem _ hx))
    simp only [List.map_cons, List.sum_cons]; omega

theorem eq_of_sum_eq {α} (l : List α) (f g : α → Nat) (h : ∀ x ∈ l, f x ≤ g x)
    (hs : (l.map g).sum = (l.map f).sum) : ∀ x ∈ l, g x = f x := by
  induction l with
  | nil => intro x hx; cases hx
  | cons a l ih =>
    have h1 := h a (by simp)
    have h2 := sum_le_sum l f g (fun x hx => h x (List.mem_cons_of_mem _ hx))
    simp only [List.map_cons, List.sum_cons] at hs
    intro x hx
    rcases List.mem_cons.mp hx with rfl | hx'
    · omega
    · exact ih (fun x hx => h x (List.mem_cons_of_mem _ hx)) (by omega) x hx'

theorem byChrom_length (t : List Bin) : ((byChrom t).map (fun p => p.2.length)).sum = t.length := by
  have := (byChrom_perm t).length_eq
  rw [List.length_flatten] at this
  simpa [List.map_map, Function.comp_def] using this

/-- never fewer bins than the table has -/
theorem byGene_length_ge (ignore : List String) (t : List Bin) : t.length ≤ totalLen (byGene ignore t) := by
  unfold byGene
  rw [totalLen_flatMap, ← byChrom_length t]
  exact sum_le_sum _ _ _ (fun p _ => byGeneChrom_length_ge ignore p.2)

theorem byGene_length_eq_iff (ignore : List String) (t : List Bin) :
    totalLen (byGene ignore t) = t.length ↔ TableContiguous (fullIgnore ignore) t := by
  constructor
  · intro h p hp
    unfold byGene at h
    rw [totalLen_flatMap, ← byChrom_length t] at h
    have := eq_of_sum_eq (byChrom t) (fun p => p.2.length) (fun p => totalLen (byGeneChrom ignore p.2))
      (fun p _ => byGeneChrom_length_ge ignore p.2) h p hp
    exact contiguous_of_length_eq ignore p.2 this
  · intro h
    unfold totalLen
    exact (byGene_each_bin_once' ignore t h).length_eq

theorem byGene_each_bin_once_iff' (ignore : List String) (t : List Bin) :
    (((byGene ignore t).map (·.2)).flatten).Perm t ↔ TableContiguous (fullIgnore ignore) t := by
  constructor
  · intro h
    exact (byGene_length_eq_iff ignore t).mp h.length_eq
  · exact byGene_each_bin_once' ignore t

theorem byGene_covers (ignore : List String) (t : List Bin) :
    ∀ b ∈ t, ∃ p ∈ byGene ignore t, b ∈ p.2 := by
  intro b hb
  have hb' : b ∈ ((byChrom t).map (·.2)).flatten := (byChrom_perm t).mem_iff.mpr hb
  obtain ⟨l, hl, hbl⟩ := List.mem_flatten.mp hb'
  obtain ⟨c, hc, rfl⟩ := List.mem_map.mp hl
  obtain ⟨p, hp, hbp⟩ := byGeneChrom_covers ignore c.2 b hbl
  exact ⟨p, List.mem_flatMap.mpr ⟨c, hc, hp⟩, hbp⟩

end CnvVerif.Genes
