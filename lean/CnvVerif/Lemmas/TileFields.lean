import CnvVerif.Model.Tile
import CnvVerif.Lemmas.Tile
namespace CnvVerif

/-! ### helpers -/

theorem tf_nodup_eraseDups (l : List String) : l.eraseDups.Nodup := by
  match l with
  | [] => simp
  | a :: l =>
    have hlen : (l.filter (fun b => !b == a)).length < (a :: l).length :=
      Nat.lt_succ_of_le (List.length_filter_le _ _)
    rw [List.eraseDups_cons, List.nodup_cons]
    refine ⟨?_, tf_nodup_eraseDups _⟩
    rw [List.mem_eraseDups, List.mem_filter]
    simp
termination_by l.length

theorem segOfRun_some_fields (run : List Bin) (g : SegO) (h : segOfRun run = some g) :
    run ≠ [] ∧ g.probes = (run.length : Int) ∧ g.log2 = wmeanLog2 run := by
  cases run with
  | nil => simp [segOfRun] at h
  | cons a t =>
    have h' : some _ = some g := h
    injection h' with h'
    subst h'
    exact ⟨by simp, rfl, rfl⟩

/-- the pair (probes, log2) of every assembled segment is that of one of the raw run segments -/
theorem assembleUnit_mem_segs0 (u : List Bin) (runs : List Nat) :
    ∀ g ∈ assembleUnit u runs, ∃ g0 ∈ (splitLens (u.filter (·.keep)) runs).filterMap segOfRun,
      g0.probes = g.probes ∧ g0.log2 = g.log2 := by
  cases u with
  | nil => simp [assembleUnit_nil]
  | cons first t =>
    rw [assembleUnit_cons_eq]
    split
    · simp
    · intro g hg
      have hm := List.mem_map_of_mem (f := fun g : SegO => (g.probes, g.log2)) hg
      rw [List.map_map] at hm
      have hc : ((fun g : SegO => (g.probes, g.log2)) ∘ aggregate (first :: t)) =
          fun g : SegO => (g.probes, g.log2) := rfl
      rw [hc, setLast_map_inv _ (fun g : SegO => (g.probes, g.log2)) (by
          intro y
          show ((if (y.chrom == _) = true then { y with e := _ } else y).probes,
            (if (y.chrom == _) = true then { y with e := _ } else y).log2) = (y.probes, y.log2)
          split <;> rfl),
        setFirst_map_inv _ (fun g : SegO => (g.probes, g.log2)) (by
          intro y
          show ((if (y.chrom == _) = true then { y with s := _ } else y).probes,
            (if (y.chrom == _) = true then { y with s := _ } else y).log2) = (y.probes, y.log2)
          split <;> rfl)] at hm
      obtain ⟨g0, h0, h1⟩ := List.mem_map.mp hm
      have h2 := Prod.mk.inj h1
      exact ⟨g0, h0, h2.1, h2.2⟩

/-- every reported segment is one run of the segmenter's partition of the survivors: its probes count that run and
    its log2 is the run's weighted mean (the stretch of the end points and the aggregation of gene / weight / depth
    leave both alone) -/
theorem assembleUnit_log2_probes (u : List Bin) (runs : List Nat) :
    ∀ g ∈ assembleUnit u runs, ∃ run ∈ splitLens (u.filter (·.keep)) runs,
      run ≠ [] ∧ g.probes = (run.length : Int) ∧ g.log2 = wmeanLog2 run := by
  intro g hg
  obtain ⟨g0, h0, hp, hl⟩ := assembleUnit_mem_segs0 u runs g hg
  obtain ⟨run, hr, hs⟩ := List.mem_filterMap.mp h0
  obtain ⟨h1, h2, h3⟩ := segOfRun_some_fields run g0 hs
  exact ⟨run, hr, h1, by rw [← hp]; exact h2, by rw [← hl]; exact h3⟩

/-- the weighted mean really is Σ wᵢ·log2ᵢ / Σ wᵢ whenever some surviving bin of the run has weight -/
theorem wmeanLog2_def (run : List Bin) (hw : 0 < sumQ (run.map (·.weight))) :
    wmeanLog2 run * sumQ (run.map (·.weight)) = sumQ (run.map (fun b => b.log2 * b.weight)) := by
  show (if sumQ (run.map (·.weight)) > 0 then
      sumQ (run.map (fun b => b.log2 * b.weight)) / sumQ (run.map (·.weight))
    else sumQ (run.map (·.log2)) / (run.length : Rat)) * _ = _
  rw [if_pos hw]
  exact Rat.div_mul_cancel (Rat.ne_of_gt hw)

/-- the gene field: the distinct names of all input bins the segment spans, in order of first appearance, without
    the ignored / antitarget names; "-" when none is left -/
theorem aggregate_gene (unit : List Bin) (g : SegO) :
    (aggregate unit g).gene =
      (let names := (((unit.filter (fun b => b.chrom == g.chrom && decide (b.e > g.s) && decide (b.s < g.e))).map
          (·.gene)).eraseDups).filter meaningful
       if names.isEmpty then "-" else ",".intercalate names) := by
  rfl

/-- the names kept are exactly the meaningful names of the spanned bins, each once -/
theorem aggregate_names (unit : List Bin) (g : SegO) :
    let sel := unit.filter (fun b => b.chrom == g.chrom && decide (b.e > g.s) && decide (b.s < g.e))
    let names := ((sel.map (·.gene)).eraseDups).filter meaningful
    names.Nodup ∧ ∀ n, n ∈ names ↔ (meaningful n = true ∧ ∃ b ∈ sel, b.gene = n) := by
  intro sel names
  refine ⟨(tf_nodup_eraseDups _).filter _, ?_⟩
  intro n
  show n ∈ ((sel.map (·.gene)).eraseDups).filter meaningful ↔ _
  rw [List.mem_filter, List.mem_eraseDups, List.mem_map]
  exact and_comm

end CnvVerif
