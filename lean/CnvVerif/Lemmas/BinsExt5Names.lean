/-
  C12 (round 5): what `shorten_labels` emits.  Every label of the output is built from a name of the very input label
  it replaces (a token of that label, `DB|` prefix trimmed), there is always at least one candidate (so
  `min(…, key=len)` never sees an empty set), and while the loop runs the carried set `curr_names` is a set of tokens
  COMMON to all the labels of the open group.
-/
import CnvVerif.Model.Bins
import Mathlib.Data.List.Basic
namespace CnvVerif.C12N
open CnvVerif

theorem filterNames_subset (names : List String) : ∀ n ∈ filterNames names, n ∈ names := by
  intro n hn
  unfold filterNames at hn
  split at hn
  · dsimp only at hn
    split at hn
    · exact hn
    · exact (List.mem_filter.mp hn).1
  · exact hn

theorem filterNames_ne_nil (names : List String) (h : names ≠ []) : filterNames names ≠ [] := by
  unfold filterNames
  split
  · dsimp only
    split
    · exact h
    · rename_i _ h2
      intro h3
      simp [h3] at h2
  · exact h

theorem splitCommaGo_ne_nil (cur l : List Char) : splitCommaGo cur l ≠ [] := by
  induction l generalizing cur with
  | nil => simp [splitCommaGo]
  | cons c cs ih =>
    unfold splitCommaGo
    split
    · simp
    · exact ih _

theorem ne_nil_of_mem {α} {l : List α} {a : α} (h : a ∈ l) : l ≠ [] := by
  intro h2; simp [h2] at h

theorem labelNames_ne_nil (label : String) : labelNames label ≠ [] := by
  unfold labelNames
  cases h : splitCommaGo [] (rstripChars label.toList) with
  | nil => exact absurd h (splitCommaGo_ne_nil _ _)
  | cons a as =>
    exact ne_nil_of_mem (a := String.ofList a) (List.mem_eraseDups.mpr (by simp))

/-- the running minimum of `foldl min` is the initial value or one of the elements … -/
theorem foldl_min_mem (l : List Nat) (m0 : Nat) : l.foldl min m0 = m0 ∨ l.foldl min m0 ∈ l := by
  induction l generalizing m0 with
  | nil => left; rfl
  | cons a as ih =>
    rw [List.foldl_cons]
    rcases ih (min m0 a) with h | h
    · rw [h]
      rcases Nat.le_total m0 a with h1 | h1
      · left; exact Nat.min_eq_left h1
      · right; rw [Nat.min_eq_right h1]; simp
    · right; exact List.mem_cons_of_mem _ h

/-- … so some name of a non-empty set has exactly the minimal length -/
theorem minsByLen_ne_nil (f : List String) (h : f ≠ []) :
    f.filter (fun n => n.length == (f.map String.length).foldl min (f.headD "").length) ≠ [] := by
  cases f with
  | nil => exact absurd rfl h
  | cons a as =>
    have hm := foldl_min_mem ((a :: as).map String.length) ((a :: as).headD "").length
    have : ∃ n ∈ (a :: as), n.length = ((a :: as).map String.length).foldl min ((a :: as).headD "").length := by
      rcases hm with h1 | h1
      · exact ⟨a, by simp, by rw [h1]; rfl⟩
      · obtain ⟨n, hn, hl⟩ := List.mem_map.mp h1
        exact ⟨n, hn, hl⟩
    obtain ⟨n, hn, hl⟩ := this
    exact ne_nil_of_mem (a := n) (List.mem_filter.mpr ⟨hn, by simp [hl]⟩)

theorem shortestNames_from (names : List String) :
    ∀ c ∈ shortestNames names, ∃ n ∈ names, c = pipeTrim n := by
  intro c hc
  unfold shortestNames at hc
  dsimp only at hc
  rw [List.mem_eraseDups, List.mem_map] at hc
  obtain ⟨n, hn, rfl⟩ := hc
  exact ⟨n, filterNames_subset names n (List.mem_filter.mp hn).1, rfl⟩

theorem shortestNames_ne_nil (names : List String) (h : names ≠ []) : shortestNames names ≠ [] := by
  unfold shortestNames
  dsimp only
  have h1 := minsByLen_ne_nil (filterNames names) (filterNames_ne_nil names h)
  cases h2 : (filterNames names).filter
      (fun n => n.length == ((filterNames names).map String.length).foldl min ((filterNames names).headD "").length) with
  | nil => exact absurd h2 h1
  | cons a as => exact ne_nil_of_mem (a := pipeTrim a) (List.mem_eraseDups.mpr (by simp))

/-- positional relation between the input labels and the emitted candidate lists -/
def Each (R : String → List String → Prop) : List String → List (List String) → Prop
  | [], [] => True
  | a :: as, b :: bs => R a b ∧ Each R as bs
  | _, _ => False

theorem Each_append {R} : ∀ (as₁ : List String) (bs₁ : List (List String)) (as₂ : List String)
    (bs₂ : List (List String)), Each R as₁ bs₁ → Each R as₂ bs₂ → Each R (as₁ ++ as₂) (bs₁ ++ bs₂)
  | [], [], _, _, _, h2 => by simpa using h2
  | [], _ :: _, _, _, h1, _ => by simp [Each] at h1
  | _ :: _, [], _, _, h1, _ => by simp [Each] at h1
  | a :: as, b :: bs, as₂, bs₂, h1, h2 => by
    simp only [List.cons_append, Each] at h1 ⊢
    exact ⟨h1.1, Each_append as bs as₂ bs₂ h1.2 h2⟩

theorem Each_replicate {R} (x : List String) : ∀ (pre : List String), (∀ lab ∈ pre, R lab x) →
    Each R pre (List.replicate pre.length x)
  | [], _ => by simp [Each]
  | a :: as, h => by
    simp only [List.length_cons, List.replicate_succ, Each]
    exact ⟨h a (by simp), Each_replicate x as (fun lab hl => h lab (List.mem_cons_of_mem _ hl))⟩

/-- what one emitted candidate list has to do with the label it replaces -/
def FromLabel (lab : String) (cands : List String) : Prop :=
  cands ≠ [] ∧ ∀ c ∈ cands, ∃ n ∈ labelNames lab, c = pipeTrim n

theorem fromLabel_of_common (cur : List String) (hne : cur ≠ []) (lab : String)
    (h : ∀ n ∈ cur, n ∈ labelNames lab) : FromLabel lab (shortestNames cur) := by
  refine ⟨shortestNames_ne_nil cur hne, fun c hc => ?_⟩
  obtain ⟨n, hn, rfl⟩ := shortestNames_from cur c hc
  exact ⟨n, h n hn, rfl⟩

/-- the loop invariant: `pre` = the labels of the open group (`cnt` of them), `cur` = `curr_names` is non-empty once
    a group is open and holds only tokens common to every label of the group -/
theorem shortenGo_each (rest : List String) : ∀ (cur : List String) (pre : List String),
    (pre ≠ [] → cur ≠ []) → (∀ lab ∈ pre, ∀ n ∈ cur, n ∈ labelNames lab) →
    Each FromLabel (pre ++ rest) (shortenGo cur pre.length rest) := by
  induction rest with
  | nil =>
    intro cur pre hne hcom
    simp only [shortenGo, List.append_nil]
    apply Each_replicate
    intro lab hl
    exact fromLabel_of_common cur (hne (ne_nil_of_mem hl)) lab (hcom lab hl)
  | cons label rest ih =>
    intro cur pre hne hcom
    unfold shortenGo
    dsimp only
    split
    · rename_i hov
      have hsub : ∀ n ∈ filterNames (cur.filter (fun n => (labelNames label).contains n)),
          n ∈ cur ∧ n ∈ labelNames label := by
        intro n hn
        have := List.mem_filter.mp (filterNames_subset _ n hn)
        exact ⟨this.1, by simpa using this.2⟩
      have := ih (filterNames (cur.filter (fun n => (labelNames label).contains n))) (pre ++ [label])
        (fun _ => filterNames_ne_nil _ (by intro h; rw [h] at hov; simp at hov))
        (by
          intro lab hl n hn
          rcases List.mem_append.mp hl with h1 | h1
          · exact hcom lab h1 n (hsub n hn).1
          · simp at h1; subst h1; exact (hsub n hn).2)
      simpa [List.append_assoc] using this
    · have h1 : Each FromLabel pre (List.replicate pre.length (shortestNames cur)) := by
        apply Each_replicate
        intro lab hl
        exact fromLabel_of_common cur (hne (ne_nil_of_mem hl)) lab (hcom lab hl)
      have h2 := ih (labelNames label) [label] (fun _ => labelNames_ne_nil label)
        (by intro lab hl n hn; simp at hl; subst hl; exact hn)
      exact Each_append _ _ _ _ h1 (by simpa using h2)

theorem shortenLabels_each (labels : List String) : Each FromLabel labels (shortenLabels labels) := by
  have := shortenGo_each labels [] [] (fun h => absurd rfl h) (by simp)
  simpa [shortenLabels] using this

/-- the positional relation, by index -/
theorem Each_get {R} : ∀ (as : List String) (bs : List (List String)), Each R as bs →
    ∀ (i : Nat) (h1 : i < as.length) (h2 : i < bs.length), R as[i] bs[i]
  | [], [], _, i, h1, _ => by simp at h1
  | [], _ :: _, h, _, _, _ => by simp [Each] at h
  | _ :: _, [], h, _, _, _ => by simp [Each] at h
  | a :: as, b :: bs, h, i, h1, h2 => by
    simp only [Each] at h
    cases i with
    | zero => exact h.1
    | succ k =>
      simp only [List.getElem_cons_succ]
      exact Each_get as bs h.2 k (by simpa using h1) (by simpa using h2)

theorem takeWhile_sat {α} (p : α → Bool) : ∀ (l : List α), ∀ x ∈ l.takeWhile p, p x = true
  | [], _, h => by simp at h
  | a :: as, x, h => by
    rw [List.takeWhile_cons] at h
    split at h
    · rename_i hp
      rcases List.mem_cons.mp h with h1 | h1
      · rw [h1]; exact hp
      · exact takeWhile_sat p as x h1
    · simp at h

end CnvVerif.C12N
