/-
  C13 (round 5): the interpreted body of `do_access` (`Generated.DO_ACCESS_PROG`, read from the source by
  harness/extractors/access_prog.py) equals the hand-written model `doAccess`.  Statement by statement: the scan,
  the name filter under `if skip_noncanonical:`, `GA.from_rows`, the exclude loop (invariant: the accumulator holds
  the table minus the sorted rows of the files seen so far; `min_gap_size` untouched), `join_regions`.
-/
import CnvVerif.Model.AccessExt5
import CnvVerif.Generated.AccessProg
namespace CnvVerif.C13P
open CnvVerif

/-- the exclude loop: if one pass of the body `b` (loop variable `v` bound to a file) replaces the table in variable
    `acc` by itself minus the sorted rows of the file and leaves the variables of `frame` alone, then the whole loop
    folds `subtractTable` over the files, in order -/
theorem foldlM_exclude (b : AStmt) (v acc : Nat) (frame : List Nat)
    (hstep : ∀ (env : Env) (t x : Table), env.lookup acc = some (.table t) →
      ∃ env', execS b ((v, .bedFile x) :: env) = .ok (env', none) ∧
        env'.lookup acc = some (.table (subtractTable t (sortTable x))) ∧
        ∀ n ∈ frame, env'.lookup n = env.lookup n)
    (l : List Table) (env : Env) (t : Table) (h : env.lookup acc = some (.table t)) :
    ∃ env', l.foldlM (fun e x => do let r ← execS b ((v, .bedFile x) :: e); pure r.1) env = .ok env' ∧
      env'.lookup acc = some (.table (l.foldl (fun a ex => subtractTable a (sortTable ex)) t)) ∧
      ∀ n ∈ frame, env'.lookup n = env.lookup n := by
  induction l generalizing env t with
  | nil => exact ⟨env, rfl, h, fun _ _ => rfl⟩
  | cons x xs ih =>
    obtain ⟨e1, h1, ha, hf⟩ := hstep env t x h
    obtain ⟨e2, h2, ha2, hf2⟩ := ih e1 _ ha
    refine ⟨e2, ?_, ha2, fun n hn => (hf2 n hn).trans (hf n hn)⟩
    rw [List.foldlM_cons, h1]
    exact h2

@[simp] theorem callFn_getRegions (ls : List FLine) :
    callFn .getRegions [.fasta ls] = (match getRegions ls with | .ok r => .ok (.regs r) | .error e => .error e) := by
  simp only [callFn]; cases getRegions ls <;> rfl
@[simp] theorem callFn_drop (r : List Region) : callFn .dropNoncanonical [.regs r] = .ok (.regs (keepRegions true r)) := rfl
@[simp] theorem callFn_fromRows_regs (r : List Region) : callFn .fromRows [.regs r] = .ok (.table (r.map regionRow)) := rfl
@[simp] theorem callFn_fromRows_rows (t : Table) : callFn .fromRows [.rows t] = .ok (.table t) := rfl
@[simp] theorem callFn_read (t : Table) : callFn .tabioRead [.bedFile t, .text "bed3"] = .ok (.table (sortTable t)) := rfl
@[simp] theorem callFn_join (t : Table) (g : Option Int) :
    callFn .joinRegions [.table t, .gap g] = (match joinRegions g t with | .ok r => .ok (.rows r) | .error e => .error e) := by
  simp only [callFn]; cases joinRegions g t <;> rfl

theorem execS_forIn (v it : Nat) (b : AStmt) (env : Env) (l : List Table) (h : env.lookup it = some (.files l)) :
    execS (.forIn v it b) env =
      (do let env' ← l.foldlM (fun e x => do let r ← execS b ((v, .bedFile x) :: e); pure r.1) env
          pure (env', none)) := by
  simp [execS, h]

theorem execS_seq_none {a b : AStmt} {env e1 : Env} (h : execS a env = .ok (e1, none)) :
    execS (.seq a b) env = execS b e1 := by
  simp [execS, h, bind, Except.bind]

/-- the body of the exclude loop as the reader numbers it -/
def loopBody : AStmt :=
  .seq (.assign 7 (.call2 .tabioRead (.var 6) (.str "bed3"))) (.assign 5 (.subtract (.var 5) (.var 7)))

/-- `do_access` from `access_regions = GA.from_rows(fa_regions)` on -/
def tailProg : AStmt :=
  .seq (.assign 5 (.call1 .fromRows (.var 4)))
    (.seq (.forIn 6 1 loopBody) (.ret (.call1 .fromRows (.call2 .joinRegions (.var 5) (.var 2)))))

theorem loopBody_step (env : Env) (t x : Table) (h : env.lookup 5 = some (.table t)) :
    ∃ env', execS loopBody ((6, .bedFile x) :: env) = .ok (env', none) ∧
      env'.lookup 5 = some (.table (subtractTable t (sortTable x))) ∧
      ∀ n ∈ [2], env'.lookup n = env.lookup n := by
  refine ⟨(5, .table (subtractTable t (sortTable x))) :: (7, .table (sortTable x)) :: (6, .bedFile x) :: env,
    ?_, ?_, ?_⟩
  · simp [loopBody, execS, evalE, List.lookup, h, bind, Except.bind, pure, Except.pure]
  · simp [List.lookup]
  · intro n hn
    simp at hn
    subst hn
    simp [List.lookup]

theorem tailProg_eq (excl : List Table) (gap : Option Int) (env : Env) (regs : List Region)
    (h4 : env.lookup 4 = some (.regs regs)) (h1 : env.lookup 1 = some (.files excl))
    (h2 : env.lookup 2 = some (.gap gap)) :
    (execS tailProg env).map Prod.snd =
      (joinRegions gap (excl.foldl (fun acc ex => subtractTable acc (sortTable ex)) (regs.map regionRow))).map
        (fun t => some (.table t)) := by
  have s1 : execS (.assign 5 (.call1 .fromRows (.var 4))) env =
      .ok ((5, .table (regs.map regionRow)) :: env, none) := by
    simp [execS, evalE, h4, bind, Except.bind, pure, Except.pure]
  unfold tailProg
  rw [execS_seq_none s1]
  obtain ⟨e2, hfold, hacc, hfr⟩ := foldlM_exclude loopBody 6 5 [2] loopBody_step excl
    ((5, .table (regs.map regionRow)) :: env) (regs.map regionRow) (by simp [List.lookup])
  have s2 : execS (.forIn 6 1 loopBody) ((5, .table (regs.map regionRow)) :: env) = .ok (e2, none) := by
    rw [execS_forIn _ _ _ _ excl (by simp [List.lookup, h1]), hfold]; rfl
  rw [execS_seq_none s2]
  have h2' : e2.lookup 2 = some (.gap gap) := by rw [hfr 2 (by simp)]; simp [List.lookup, h2]
  simp only [execS, evalE, hacc, h2', bind, Except.bind, pure, Except.pure, callFn_join]
  cases joinRegions gap _ <;> simp [Except.map]

theorem prog_shape : Generated.DO_ACCESS_PROG =
    .seq (.assign 4 (.call1 .getRegions (.var 0)))
      (.seq (.ifVar 3 (.assign 4 (.call1 .dropNoncanonical (.var 4)))) tailProg) := rfl

theorem runDoAccess_eq (lines : List FLine) (excl : List Table) (gap : Option Int) (skip : Bool) :
    runDoAccess Generated.DO_ACCESS_PROG lines excl gap skip = doAccess lines excl gap skip := by
  rw [prog_shape]
  unfold runDoAccess doAccess
  cases hg : getRegions lines with
  | error e => simp [execS, evalE, List.lookup, hg, bind, Except.bind, pure, Except.pure]
  | ok regs =>
    have s1 : execS (.assign 4 (.call1 .getRegions (.var 0)))
        [(0, .fasta lines), (1, .files excl), (2, .gap gap), (3, .flag skip)] =
        .ok ((4, .regs regs) :: [(0, .fasta lines), (1, .files excl), (2, .gap gap), (3, .flag skip)], none) := by
      simp [execS, evalE, List.lookup, hg, bind, Except.bind, pure, Except.pure]
    rw [execS_seq_none s1]
    have s2 : ∃ e2, execS (.ifVar 3 (.assign 4 (.call1 .dropNoncanonical (.var 4))))
        ((4, .regs regs) :: [(0, .fasta lines), (1, .files excl), (2, .gap gap), (3, .flag skip)]) = .ok (e2, none) ∧
        e2.lookup 4 = some (.regs (keepRegions skip regs)) ∧ e2.lookup 1 = some (.files excl) ∧
        e2.lookup 2 = some (.gap gap) := by
      cases skip
      · exact ⟨_, by simp [execS, List.lookup]; rfl, by simp [List.lookup, keepRegions], by simp [List.lookup],
          by simp [List.lookup]⟩
      · exact ⟨(4, .regs (keepRegions true regs)) :: (4, .regs regs) ::
            [(0, .fasta lines), (1, .files excl), (2, .gap gap), (3, .flag true)],
          by simp [execS, evalE, List.lookup, bind, Except.bind, pure, Except.pure], by simp [List.lookup],
          by simp [List.lookup], by simp [List.lookup]⟩
    obtain ⟨e2, hs2, h4, h1, h2⟩ := s2
    rw [execS_seq_none hs2]
    have := tailProg_eq excl gap e2 _ h4 h1 h2
    simp only [bind, Except.bind, pure, Except.pure]
    cases hj : joinRegions gap (excl.foldl (fun acc ex => subtractTable acc (sortTable ex))
        ((keepRegions skip regs).map regionRow)) with
    | error e =>
      rw [hj] at this
      cases ht : execS tailProg e2 with
      | error e' => rw [ht] at this; simp [Except.map] at this; subst this; rfl
      | ok r => rw [ht] at this; simp [Except.map] at this
    | ok t =>
      rw [hj] at this
      cases ht : execS tailProg e2 with
      | error e' => rw [ht] at this; simp [Except.map] at this
      | ok r => rw [ht] at this; simp [Except.map] at this; simp [this]
end CnvVerif.C13P
