/-
  The TEXT layer of the FASTA scanner model (`splitLines`, `parseLine`, `parseFasta` of
  Model/Access.lean): for any FASTA text written in the usual way (any line widths, LF or CRLF line
  ends, blanks/tabs after a sequence line, blank lines, a description after the sequence name) the
  parser yields exactly the records, and `getRegions` on the text yields each record's maximal
  non-'N' runs.
-/
import CnvVerif.Lemmas.Access
namespace CnvVerif

/-- one physical sequence line as written: the sequence characters, then trailing blanks (spaces,
    tabs, the '\r' of a CRLF line end) -/
structure TLine where
  body : List Char
  trail : List Char

/-- one FASTA record as written: `>name` + `desc` (empty, or whitespace followed by anything, e.g.
    " description\r") + '\n', then its lines -/
structure TRec where
  name : List Char
  desc : List Char
  lines : List TLine

def renderLine (l : TLine) : List Char := l.body ++ l.trail ++ ['\n']
def renderRec (r : TRec) : List Char :=
  ('>' :: r.name) ++ r.desc ++ ['\n'] ++ r.lines.flatMap renderLine
def renderText (recs : List TRec) : List Char := recs.flatMap renderRec

/-- well-formedness of the written text (decidable, explicit) -/
def WFLine (l : TLine) : Prop :=
  (∀ c ∈ l.trail, isPySpace c = true ∧ c ≠ '\n') ∧ '\n' ∉ l.body ∧ l.body.head? ≠ some '>' ∧
  (∀ c, l.body.getLast? = some c → isPySpace c = false)
def WFRec (r : TRec) : Prop :=
  (∀ c ∈ r.name, isPySpace c = false) ∧ '\n' ∉ r.desc ∧
  (∀ c, r.desc.head? = some c → isPySpace c = true) ∧ ∀ l ∈ r.lines, WFLine l

/-- the records as the scanner-level theorems see them -/
def recordsOfText (recs : List TRec) : List (String × List (List Char)) :=
  recs.map (fun r => (String.ofList r.name, r.lines.map (·.body)))

/-! ### splitting at newlines -/

theorem splitLinesGo_line (cur l rest : List Char) (h : '\n' ∉ l) :
    splitLinesGo cur (l ++ '\n' :: rest) = (cur.reverse ++ l) :: splitLinesGo [] rest := by
  induction l generalizing cur with
  | nil => simp [splitLinesGo]
  | cons c cs ih =>
    have hc : c ≠ '\n' := by intro e; apply h; simp [e]
    have hcs : '\n' ∉ cs := fun e => h (List.mem_cons_of_mem _ e)
    simp only [List.cons_append, splitLinesGo, hc, if_false]
    rw [ih _ hcs]; simp

theorem splitLines_line (l rest : List Char) (h : '\n' ∉ l) :
    splitLinesGo [] (l ++ '\n' :: rest) = l :: splitLinesGo [] rest := by
  simpa using splitLinesGo_line [] l rest h

/-! ### `rstrip` -/

theorem dropWhile_append_of_all {α} (p : α → Bool) (a b : List α) (h : ∀ c ∈ a, p c = true) :
    (a ++ b).dropWhile p = b.dropWhile p := by
  induction a with
  | nil => rfl
  | cons x xs ih =>
    have hx : p x = true := h x (by simp)
    simp only [List.cons_append, List.dropWhile_cons, hx, if_true]
    exact ih (fun c hc => h c (List.mem_cons_of_mem _ hc))

theorem rstripChars_body_trail (body trail : List Char)
    (ht : ∀ c ∈ trail, isPySpace c = true)
    (hb : ∀ c, body.getLast? = some c → isPySpace c = false) :
    rstripChars (body ++ trail) = body := by
  unfold rstripChars
  rw [List.reverse_append, dropWhile_append_of_all _ _ _ (by simpa using ht)]
  cases hr : body.reverse with
  | nil =>
    have : body = [] := by simpa using hr
    simp [this]
  | cons x xs =>
    have hx : isPySpace x = false := by
      apply hb
      rw [List.getLast?_eq_head?_reverse, hr]; rfl
    rw [List.dropWhile_cons_of_neg (by simp [hx]), ← hr, List.reverse_reverse]

/-! ### one line -/

theorem parseLine_gt (rest : List Char) :
    parseLine ('>' :: rest) = .header (String.ofList (rest.takeWhile (fun c => !isPySpace c))) := rfl

theorem parseLine_not_gt (l : List Char) (h : l.head? ≠ some '>') :
    parseLine l = .body (rstripChars l) := by
  unfold parseLine
  split
  · exact absurd rfl h
  · rfl

theorem takeWhile_name_desc (name desc : List Char)
    (hn : ∀ c ∈ name, isPySpace c = false)
    (hd : ∀ c, desc.head? = some c → isPySpace c = true) :
    (name ++ desc).takeWhile (fun c => !isPySpace c) = name := by
  induction name with
  | nil =>
    cases desc with
    | nil => rfl
    | cons d ds =>
      have : isPySpace d = true := hd d rfl
      simp [this]
  | cons x xs ih =>
    have hx : isPySpace x = false := hn x (by simp)
    simp only [List.cons_append, List.takeWhile_cons, hx, Bool.not_false, if_true]
    rw [ih (fun c hc => hn c (List.mem_cons_of_mem _ hc))]

theorem parseLine_header (name desc : List Char)
    (hn : ∀ c ∈ name, isPySpace c = false)
    (hd : ∀ c, desc.head? = some c → isPySpace c = true) :
    parseLine ('>' :: name ++ desc) = .header (String.ofList name) := by
  rw [List.cons_append, parseLine_gt, takeWhile_name_desc name desc hn hd]

theorem parseLine_body (l : TLine) (h : WFLine l) : parseLine (l.body ++ l.trail) = .body l.body := by
  obtain ⟨ht, _, hgt, hlast⟩ := h
  have hhead : (l.body ++ l.trail).head? ≠ some '>' := by
    cases hb : l.body with
    | nil =>
      cases htr : l.trail with
      | nil => simp
      | cons t ts =>
        have := (ht t (by simp [htr])).1
        intro e
        simp only [List.nil_append, List.head?_cons, Option.some.injEq] at e
        subst e
        exact absurd this (by decide)
    | cons b bs =>
      rw [hb] at hgt
      simpa using hgt
  rw [parseLine_not_gt _ hhead, rstripChars_body_trail _ _ (fun c hc => (ht c hc).1) hlast]

/-! ### the whole text -/

/-- the physical lines of a written text -/
def textLines (recs : List TRec) : List (List Char) :=
  recs.flatMap (fun r => ('>' :: r.name ++ r.desc) :: r.lines.map (fun l => l.body ++ l.trail))

theorem splitLines_renderLines (ls : List TLine) (h : ∀ l ∈ ls, WFLine l) (rest : List Char) :
    splitLinesGo [] (ls.flatMap renderLine ++ rest) =
      ls.map (fun l => l.body ++ l.trail) ++ splitLinesGo [] rest := by
  induction ls with
  | nil => rfl
  | cons l ls ih =>
    obtain ⟨ht, hb, _, _⟩ := h l (by simp)
    have hnl : '\n' ∉ l.body ++ l.trail := by
      intro hm
      rcases List.mem_append.mp hm with hm | hm
      · exact hb hm
      · exact (ht _ hm).2 rfl
    have e : (l :: ls).flatMap renderLine ++ rest =
        (l.body ++ l.trail) ++ '\n' :: (ls.flatMap renderLine ++ rest) := by
      simp [renderLine, List.flatMap_cons, List.append_assoc]
    rw [e, splitLines_line _ _ hnl, ih (fun x hx => h x (List.mem_cons_of_mem _ hx))]
    rfl

theorem splitLines_renderRec (r : TRec) (h : WFRec r) (rest : List Char) :
    splitLinesGo [] (renderRec r ++ rest) =
      ('>' :: r.name ++ r.desc) :: r.lines.map (fun l => l.body ++ l.trail) ++
        splitLinesGo [] rest := by
  obtain ⟨hn, hd, _, hl⟩ := h
  have hnl : '\n' ∉ '>' :: r.name ++ r.desc := by
    intro hm
    rcases List.mem_append.mp hm with hm | hm
    · rcases List.mem_cons.mp hm with hm | hm
      · exact absurd hm (by decide)
      · exact absurd (hn _ hm) (by decide)
    · exact hd hm
  have e : renderRec r ++ rest =
      ('>' :: r.name ++ r.desc) ++ '\n' :: (r.lines.flatMap renderLine ++ rest) := by
    simp [renderRec, List.append_assoc]
  rw [e, splitLines_line _ _ hnl, splitLines_renderLines _ hl]
  rfl

theorem splitLines_renderText_append (recs : List TRec) (h : ∀ r ∈ recs, WFRec r) (rest : List Char) :
    splitLinesGo [] (renderText recs ++ rest) = textLines recs ++ splitLinesGo [] rest := by
  induction recs with
  | nil => rfl
  | cons r rs ih =>
    have e : renderText (r :: rs) ++ rest = renderRec r ++ (renderText rs ++ rest) := by
      simp [renderText, List.flatMap_cons, List.append_assoc]
    rw [e, splitLines_renderRec r (h r (by simp)),
      ih (fun x hx => h x (List.mem_cons_of_mem _ hx))]
    simp [textLines, List.flatMap_cons, List.append_assoc]

/-- the physical lines of a well-formed text are the lines as written -/
theorem splitLines_renderText (recs : List TRec) (h : ∀ r ∈ recs, WFRec r) :
    splitLines (renderText recs) = textLines recs := by
  have := splitLines_renderText_append recs h []
  simpa [splitLines, splitLinesGo] using this

theorem map_parseLine_textLines (recs : List TRec) (h : ∀ r ∈ recs, WFRec r) :
    (textLines recs).map parseLine = renderRecords (recordsOfText recs) := by
  induction recs with
  | nil => rfl
  | cons r rs ih =>
    obtain ⟨hn, _, hd, hl⟩ := h r (by simp)
    have hlines : (r.lines.map (fun l => l.body ++ l.trail)).map parseLine =
        (r.lines.map (·.body)).map FLine.body := by
      rw [List.map_map, List.map_map]
      apply List.map_congr_left
      intro l hm
      exact parseLine_body l (hl l hm)
    have ih' := ih (fun x hx => h x (List.mem_cons_of_mem _ hx))
    simp only [textLines, recordsOfText, renderRecords, List.flatMap_cons, List.map_cons,
      List.map_append, List.cons_append] at ih' ⊢
    have hh := parseLine_header r.name r.desc hn hd
    rw [List.cons_append] at hh
    rw [hh, hlines, ih']

/-- **text → records**: parsing a FASTA text written in the usual way yields exactly the records -/
theorem parseFasta_renderText (recs : List TRec) (h : ∀ r ∈ recs, WFRec r) :
    parseFasta (String.ofList (renderText recs)) = renderRecords (recordsOfText recs) := by
  unfold parseFasta
  rw [String.toList_ofList, splitLines_renderText recs h, map_parseLine_textLines recs h]

/-- **text → regions**: `get_regions` on the text reports each record's maximal non-'N' runs -/
theorem getRegions_renderText (recs : List TRec) (h : ∀ r ∈ recs, WFRec r) :
    getRegions (parseFasta (String.ofList (renderText recs))) =
      .ok (recs.flatMap (fun r => tagRuns (String.ofList r.name) (maxRuns (r.lines.flatMap (·.body))))) := by
  rw [parseFasta_renderText recs h, getRegions_records]
  unfold recordsOfText
  rw [List.flatMap_map]
  simp only [List.flatMap_def]

/-! ### a missing final newline -/

/-- a trailing blank line changes nothing (`scanFile` skips it) -/
theorem scanFile_append_blank (chrom : Option String) (st : Scan) (ls : List FLine) :
    scanFile chrom st (ls ++ [FLine.body []]) = scanFile chrom st ls := by
  induction ls generalizing chrom st with
  | nil => simp [scanFile]
  | cons x xs ih =>
    cases x with
    | header name => simp only [List.cons_append, scanFile, ih]
    | body line =>
      cases hl : line.isEmpty with
      | true => simp only [List.cons_append, scanFile, hl, if_true, ih]
      | false =>
        cases chrom with
        | none => simp only [List.cons_append, scanFile, hl, Bool.false_eq_true, if_false]
        | some c => simp only [List.cons_append, scanFile, hl, Bool.false_eq_true, if_false, ih]

/-- one more '\n' at the end of a text adds at most one empty line -/
theorem splitLinesGo_append_newline (cur t : List Char) :
    ∃ b : Bool, splitLinesGo cur (t ++ ['\n']) = splitLinesGo cur t ++ (if b then [[]] else []) := by
  induction t generalizing cur with
  | nil =>
    cases cur with
    | nil => exact ⟨true, by simp [splitLinesGo]⟩
    | cons c cs => exact ⟨false, by simp [splitLinesGo]⟩
  | cons c cs ih =>
    by_cases hc : c = '\n'
    · obtain ⟨b, hb⟩ := ih []
      exact ⟨b, by simp only [List.cons_append, splitLinesGo, hc, if_true, hb]⟩
    · obtain ⟨b, hb⟩ := ih (c :: cur)
      exact ⟨b, by simp only [List.cons_append, splitLinesGo, hc, if_false, hb]⟩

/-- for ANY text: the regions do not depend on whether the text ends with one more newline -/
theorem getRegions_append_newline (t : List Char) :
    getRegions (parseFasta (String.ofList (t ++ ['\n']))) =
      getRegions (parseFasta (String.ofList t)) := by
  unfold parseFasta getRegions splitLines
  rw [String.toList_ofList, String.toList_ofList]
  obtain ⟨b, hb⟩ := splitLinesGo_append_newline [] t
  rw [hb]
  cases b with
  | false => simp
  | true =>
    have e : parseLine [] = FLine.body [] := rfl
    simp only [if_true, List.map_append, List.map_cons, List.map_nil, e]
    exact scanFile_append_blank _ _ _

theorem flatMap_renderLine_ends (ls : List TLine) (h : ls ≠ []) :
    ∃ X, ls.flatMap renderLine = X ++ ['\n'] := by
  induction ls with
  | nil => exact absurd rfl h
  | cons l ls ih =>
    by_cases hls : ls = []
    · subst hls
      exact ⟨l.body ++ l.trail, by simp [renderLine]⟩
    · obtain ⟨X, hX⟩ := ih hls
      exact ⟨renderLine l ++ X, by simp [List.flatMap_cons, hX]⟩

theorem renderRec_ends (r : TRec) : ∃ X, renderRec r = X ++ ['\n'] := by
  by_cases hls : r.lines = []
  · exact ⟨'>' :: r.name ++ r.desc, by simp [renderRec, hls]⟩
  · obtain ⟨X, hX⟩ := flatMap_renderLine_ends r.lines hls
    exact ⟨'>' :: r.name ++ r.desc ++ ['\n'] ++ X, by simp [renderRec, hX]⟩

theorem renderText_ends (recs : List TRec) (h : recs ≠ []) :
    ∃ X, renderText recs = X ++ ['\n'] := by
  induction recs with
  | nil => exact absurd rfl h
  | cons r rs ih =>
    by_cases hrs : rs = []
    · subst hrs
      obtain ⟨X, hX⟩ := renderRec_ends r
      exact ⟨X, by simp [renderText, hX]⟩
    · obtain ⟨X, hX⟩ := ih hrs
      refine ⟨renderRec r ++ X, ?_⟩
      have : renderText (r :: rs) = renderRec r ++ renderText rs := by
        simp [renderText, List.flatMap_cons]
      rw [this, hX, List.append_assoc]

/-- **missing final newline**: the same regions are reported when the last line of the file is not
    terminated (a final blank line may disappear from the parse; `scanFile` skips it anyway).
    Well-formedness is not needed for this. -/
theorem getRegions_renderText_noFinalNewline (recs : List TRec) (_h : ∀ r ∈ recs, WFRec r) :
    getRegions (parseFasta (String.ofList (renderText recs).dropLast)) =
      getRegions (parseFasta (String.ofList (renderText recs))) := by
  by_cases hr : recs = []
  · subst hr; rfl
  · obtain ⟨X, hX⟩ := renderText_ends recs hr
    rw [hX, List.dropLast_concat, getRegions_append_newline]

/-! ### non-vacuity: a concrete text -/

/-- two records: CRLF line ends, a header description, a trailing tab, a blank line, a '>' inside a
    sequence line, interior blank in a sequence line, LF line ends in the second record -/
def exampleRecs : List TRec :=
  [ { name := "chr1".toList, desc := " desc one\r".toList,
      lines := [⟨"ACGT>NN".toList, "\t\r".toList⟩, ⟨[], "\r".toList⟩, ⟨"NNAC".toList, "\r".toList⟩] },
    { name := "chr2".toList, desc := [],
      lines := [⟨"AC GT".toList, []⟩, ⟨[], []⟩] } ]

example : ∀ r ∈ exampleRecs, WFRec r := by
  simp [exampleRecs, WFRec, WFLine, isPySpace]

example : String.ofList (renderText exampleRecs) =
    ">chr1 desc one\r\nACGT>NN\t\r\n\r\nNNAC\r\n>chr2\nAC GT\n\n" := by
  decide

example : recordsOfText exampleRecs =
    [("chr1", ["ACGT>NN".toList, [], "NNAC".toList]), ("chr2", ["AC GT".toList, []])] := by
  decide

example : getRegions (parseFasta ">chr1 desc one\r\nACGT>NN\t\r\n\r\nNNAC\r\n>chr2\nAC GT\n\n") =
    .ok [("chr1", 0, 5), ("chr1", 9, 11), ("chr2", 0, 5)] := by
  rfl

end CnvVerif
