/-
  C08 (extension) — tab files (.cnn/.cnr/.cns) WITH float columns, at the level of the characters in the
  file: the lines `tabio.write` prints (`renderLinesF (writeTab t)`, floats spelled by `%.6g`) are read back
  by `readTab` to the same table with every float rounded to 6 significant digits (a float column whose
  printed values are all integer literals comes back as an integer column of the same values), and
  printing that table again gives the same characters.
-/
import CnvVerif.Lemmas.FormatsSpell
import CnvVerif.Lemmas.Formats2
namespace CnvVerif.Fmt
open CnvVerif CnvVerif.Generated

/-- the line `write_tab` + `to_csv` print for a row, every cell spelled by `ren` -/
def lineG (ren : Cell → String) (r : FRow) : Line :=
  r.chrom :: toString (r.s + WRITE_SHIFT_tab) :: toString r.e :: r.cols.map ren

/-- generic form of `readTab_lines`: whatever the spelling of the cells, if every column of the body is
    typed back (by pandas' inference, or as text for the gene column) to `back k` of its cells, the file is
    read to the table with these cells -/
theorem readTab_linesG (names : List String) (rows : List FRow) (ren : Cell → String) (back : Nat → Cell → Cell)
    (hnames : ∀ n ∈ names, n ≠ "chromosome" ∧ n ≠ "start" ∧ n ≠ "end")
    (hrows : ∀ r ∈ rows, isNA r.chrom = false ∧ r.cols.length = names.length)
    (hcol : ∀ k, k < names.length →
      (if (TAB_GENE_AS_TEXT && names.getD k "" == "gene") = true
        then strColumn (rows.map fun r => ren (r.cols.getD k .na))
        else typeColumn (rows.map fun r => ren (r.cols.getD k .na))) =
      rows.map fun r => back k (r.cols.getD k .na))
    (hlog : names.contains "log2" = true →
      ∀ r ∈ rows, back (names.idxOf "log2") (r.cols.getD (names.idxOf "log2") .na) ≠ .na) :
    readTab (("chromosome" :: "start" :: "end" :: names) :: rows.map (lineG ren)) =
      .ok { names := names,
            rows := rows.map fun r => ⟨r.chrom, r.s + WRITE_SHIFT_tab + READ_SHIFT_tab, r.e,
              (List.range names.length).map fun k => back k (r.cols.getD k .na)⟩ } := by
  generalize hhdr : ("chromosome" :: "start" :: "end" :: names) = hdr
  generalize hbody : rows.map (lineG ren) = body
  have hlen : hdr.length = 3 + names.length := by rw [← hhdr]; simp; omega
  have hdb : dropBlank (hdr :: body) = hdr :: body := by
    unfold dropBlank
    rw [List.filter_eq_self]
    intro l hl
    rcases List.mem_cons.mp hl with rfl | hl
    · rw [← hhdr]; simp
    · rw [← hbody] at hl
      obtain ⟨r, _, rfl⟩ := List.mem_map.mp hl
      simp [lineG]
  have hreq : (["chromosome", "start", "end"].all hdr.contains) = true := by
    rw [← hhdr]; simp
  have hrag : body.any (fun l => l.length != hdr.length) = false := by
    rw [List.any_eq_false]
    intro l hl
    rw [← hbody] at hl
    obtain ⟨r, hr, rfl⟩ := List.mem_map.mp hl
    rw [hlen]
    simp [lineG, (hrows r hr).2]; omega
  have hi0 : hdr.idxOf "chromosome" = 0 := by rw [← hhdr]; simp
  have hi1 : hdr.idxOf "start" = 1 := by rw [← hhdr]; simp [List.idxOf_cons]
  have hi2 : hdr.idxOf "end" = 2 := by rw [← hhdr]; simp [List.idxOf_cons]
  have hc0 : column 0 body = rows.map (fun r => r.chrom) := by
    rw [← hbody]; unfold column; rw [List.map_map]; rfl
  have hc1 : column 1 body = rows.map (fun r => toString (r.s + WRITE_SHIFT_tab)) := by
    rw [← hbody]; unfold column; rw [List.map_map]; rfl
  have hc2 : column 2 body = rows.map (fun r => toString r.e) := by
    rw [← hbody]; unfold column; rw [List.map_map]; rfl
  have hna : (rows.map (fun r => r.chrom)).any isNA = false := by
    rw [List.any_eq_false]
    intro c hc
    obtain ⟨r, hr, rfl⟩ := List.mem_map.mp hc
    rw [(hrows r hr).1]; decide
  have hss : intColumn "start" (rows.map (fun r => toString (r.s + WRITE_SHIFT_tab))) =
      .ok (rows.map (fun r => r.s + WRITE_SHIFT_tab)) := by
    unfold intColumn
    apply mapM_map_ok
    intro r _
    rw [parseInt_toString]
  have hes : intColumn "end" (rows.map (fun r => toString r.e)) = .ok (rows.map (fun r => r.e)) := by
    unfold intColumn
    apply mapM_map_ok
    intro r _
    rw [parseInt_toString]
  have hidx : (List.range hdr.length).filter
      (fun j => !["chromosome", "start", "end"].contains (hdr.getD j "")) =
      (List.range names.length).map (3 + ·) := by
    rw [hlen, List.range_add, List.filter_append]
    have h3 : List.range 3 = [0, 1, 2] := by decide
    have hA : (List.range 3).filter (fun j => !["chromosome", "start", "end"].contains (hdr.getD j "")) = [] := by
      rw [h3, ← hhdr]; simp
    have hB : ((List.range names.length).map (3 + ·)).filter
        (fun j => !["chromosome", "start", "end"].contains (hdr.getD j "")) =
        (List.range names.length).map (3 + ·) := by
      rw [List.filter_eq_self]
      intro j hj
      obtain ⟨k, hk, rfl⟩ := List.mem_map.mp hj
      have hk' : k < names.length := List.mem_range.mp hk
      rw [← hhdr, getD_three, List.getD_eq_getElem?_getD, List.getElem?_eq_getElem hk']
      have hm := hnames names[k] (List.getElem_mem hk')
      simp [hm.1, hm.2.1, hm.2.2]
    rw [hA, hB, List.nil_append]
  have hnm : ((List.range names.length).map (3 + ·)).map (fun j => hdr.getD j "") = names := by
    rw [List.map_map, ← hhdr]
    simp only [Function.comp_def, getD_three]
    exact range_map_getD names "" _ rfl
  have hcolumn : ∀ k, k < names.length →
      column (3 + k) body = rows.map fun r => ren (r.cols.getD k .na) := by
    intro k hk
    rw [← hbody]
    unfold column
    rw [List.map_map]
    apply List.map_congr_left
    intro r hr
    have hkr : k < r.cols.length := by rw [(hrows r hr).2]; exact hk
    simp only [Function.comp_def, lineG, getD_three]
    simp only [List.getD_eq_getElem?_getD, List.getElem?_map, List.getElem?_eq_getElem hkr]
    rfl
  have hextra : ((List.range names.length).map (3 + ·)).map (fun j =>
        if (TAB_GENE_AS_TEXT && hdr.getD j "" == "gene") = true then strColumn (column j body)
        else typeColumn (column j body)) =
      ((List.range names.length).map (fun k => fun r : FRow => back k (r.cols.getD k .na))).map (fun f => rows.map f) := by
    rw [List.map_map, List.map_map]
    apply List.map_congr_left
    intro k hk
    have hk' : k < names.length := List.mem_range.mp hk
    have hget : hdr.getD (3 + k) "" = names.getD k "" := by rw [← hhdr, getD_three]
    simp only [Function.comp_def]
    rw [hget, hcolumn k hk']
    exact hcol k hk'
  have hmk := mkRows_map rows (fun r => r.chrom) (fun r => r.s + WRITE_SHIFT_tab + READ_SHIFT_tab) (fun r => r.e)
    ((List.range names.length).map (fun k => fun r : FRow => back k (r.cols.getD k .na)))
  have hfilt : (rows.map fun r => (⟨r.chrom, r.s + WRITE_SHIFT_tab + READ_SHIFT_tab, r.e,
        (List.range names.length).map fun k => back k (r.cols.getD k .na)⟩ : FRow)).filter
      (fun r => r.cols.getD (names.idxOf "log2") .na != .na) =
      (rows.map fun r => (⟨r.chrom, r.s + WRITE_SHIFT_tab + READ_SHIFT_tab, r.e,
        (List.range names.length).map fun k => back k (r.cols.getD k .na)⟩ : FRow)) ∨
      names.contains "log2" = false := by
    cases hct : names.contains "log2" with
    | false => right; rfl
    | true =>
      left
      have hli : names.idxOf "log2" < names.length :=
        List.idxOf_lt_length_of_mem (List.contains_iff_mem.mp hct)
      rw [List.filter_eq_self]
      intro x hx
      obtain ⟨r, hr, rfl⟩ := List.mem_map.mp hx
      have := hlog hct r hr
      simp only [List.getD_eq_getElem?_getD, List.getElem?_map, List.getElem?_range hli, Option.map_some,
        Option.getD_some, bne_iff_ne, ne_eq]
      simpa [List.getD_eq_getElem?_getD] using this
  unfold readTab
  simp only [hdb, hreq, hrag, hi0, hi1, hi2, hc0, hc1, hc2, hna, hss, hes, hidx, hnm, hextra, bind, Except.bind,
    pure, Except.pure, Bool.false_eq_true, ↓reduceIte, Bool.not_true, List.map_map, Function.comp_def]
  simp only [List.map_map, Function.comp_def] at hmk
  rw [hmk]
  rcases hfilt with h1 | h1
  · rw [h1, ite_self]
  · rw [h1]; rfl

/-! ### float columns -/

/-- is the `k`-th column printed as integer literals in every row? (then pandas reads it as int64) -/
def colAllInt (rows : List FRow) (k : Nat) : Bool :=
  rows.all fun r => isIntLit (renderCellF (r.cols.getD k .na)).toList

/-- what a cell of column `k` comes back as: floats rounded to 6 significant digits — as integers when
    the whole column was printed as integer literals; every other cell unchanged -/
def colBack (rows : List FRow) (k : Nat) : Cell → Cell
  | .flt q => if colAllInt rows k then .int ((parseInt (fmt6g q)).getD 0) else .flt (sixg q)
  | c => c

theorem typeColumn_floatcol (rows : List FRow) (k : Nat)
    (h : ∀ r ∈ rows, (∃ q, r.cols[k]? = some (Cell.flt q)) ∨ r.cols[k]? = some Cell.na) :
    typeColumn (rows.map fun r => renderCellF (r.cols.getD k .na)) =
      rows.map fun r => colBack rows k (r.cols.getD k .na) := by
  have hcell : ∀ r ∈ rows, (∃ q, r.cols.getD k .na = Cell.flt q) ∨ r.cols.getD k .na = Cell.na := by
    intro r hr
    rcases h r hr with ⟨q, hq⟩ | hq
    · left; exact ⟨q, by simp [List.getD_eq_getElem?_getD, hq]⟩
    · right; simp [List.getD_eq_getElem?_getD, hq]
  have hall : (rows.map fun r => renderCellF (r.cols.getD k .na)).all (fun v => isIntLit v.toList) =
      colAllInt rows k := by
    unfold colAllInt; rw [List.all_map]; rfl
  unfold typeColumn
  rw [hall]
  cases hai : colAllInt rows k with
  | true =>
    simp only [if_true, List.map_map]
    apply List.map_congr_left
    intro r hr
    have hlit : isIntLit (renderCellF (r.cols.getD k .na)).toList = true := by
      unfold colAllInt at hai; rw [List.all_eq_true] at hai; exact hai r hr
    rcases hcell r hr with ⟨q, hq⟩ | hq
    · simp only [Function.comp_def, hq, renderCellF, colBack, hai, if_true] at hlit ⊢
      obtain ⟨i, _, hi, _⟩ := fmt6g_int q hlit
      simp [hi]
    · rw [hq] at hlit; exact absurd hlit (by decide)
  | false =>
    have h2 : (rows.map fun r => renderCellF (r.cols.getD k .na)).all
        (fun v => isNA v || (parseDec v.toList).isSome) = true := by
      rw [List.all_map, List.all_eq_true]
      intro r hr
      rcases hcell r hr with ⟨q, hq⟩ | hq
      · simp only [Function.comp_def, hq, renderCellF, parseDec_fmt6g, Option.isSome_some, Bool.or_true]
      · simp only [Function.comp_def, hq, renderCellF]; decide
    simp only [Bool.false_eq_true, if_false, h2, if_true, List.map_map]
    apply List.map_congr_left
    intro r hr
    rcases hcell r hr with ⟨q, hq⟩ | hq
    · simp only [Function.comp_def, hq, renderCellF, colBack, hai, Bool.false_eq_true, if_false, fmt6g_not_na,
        parseDec_fmt6g]
    · simp only [Function.comp_def, hq, renderCellF, colBack]; decide

/-- tab-separated CNVkit tables whose extra columns hold integers, text, or floats (NaN allowed outside
    `log2`: a bin without a log2 value is dropped by the reader) -/
def WFTabF (t : FTab) : Prop :=
  t.names.Nodup ∧ sortNames t.names = t.names ∧
  (∀ n ∈ t.names, n ≠ "chromosome" ∧ n ≠ "start" ∧ n ≠ "end") ∧
  (∀ r ∈ t.rows, isNA r.chrom = false ∧ r.cols.length = t.names.length) ∧
  (∀ j, j < t.names.length →
      (t.names[j]? ≠ some "gene" ∧ ∀ r ∈ t.rows, ∃ i, r.cols[j]? = some (Cell.int i)) ∨
      (∀ r ∈ t.rows, ∃ g, r.cols[j]? = some (Cell.str g) ∧ (PlainLabel g ∨ t.names[j]? = some "gene")) ∨
      (t.names[j]? ≠ some "gene" ∧ ∀ r ∈ t.rows, (∃ q, r.cols[j]? = some (Cell.flt q)) ∨
        (r.cols[j]? = some Cell.na ∧ t.names[j]? ≠ some "log2")))

/-- the row that comes back -/
def backRow (t : FTab) (r : FRow) : FRow :=
  { r with cols := (List.range t.names.length).map fun k => colBack t.rows k (r.cols.getD k .na) }

theorem renderCellF_cellOut (c : Cell) : renderCellF (cellOut c) = renderCellF c := by
  cases c <;> simp [cellOut, renderCellF, fmt6g_sixg]

theorem renderCellF_str (s : String) : renderCellF (.str s) = s := rfl
theorem renderCellF_int (i : Int) : renderCellF (.int i) = toString i := rfl

theorem renderLinesF_writeTab (t : FTab) :
    renderLinesF (writeTab t) = ("chromosome" :: "start" :: "end" :: t.names) :: t.rows.map (lineG renderCellF) := by
  simp [renderLinesF, writeTab, renderCellF_str, renderCellF_int, lineG, Function.comp_def, renderCellF_cellOut]

theorem readTab_floats (t : FTab) (h : WFTabF t) :
    readTab (renderLinesF (writeTab t)) = .ok { names := t.names, rows := t.rows.map (backRow t) } := by
  obtain ⟨_, _, hnames, hrows, hcols⟩ := h
  rw [renderLinesF_writeTab]
  have hgetD : ∀ k, k < t.names.length → t.names[k]? = some (t.names.getD k "") := by
    intro k hk; simp [List.getD_eq_getElem?_getD, List.getElem?_eq_getElem hk]
  have hmain := readTab_linesG t.names t.rows renderCellF (colBack t.rows) hnames hrows
    (by
      intro k hk
      have hsome := hgetD k hk
      by_cases hgene : t.names.getD k "" = "gene"
      · have hcond : (TAB_GENE_AS_TEXT && t.names.getD k "" == "gene") = true := by
          simp only [TAB_GENE_AS_TEXT, hgene]; decide
        rw [if_pos hcond]
        have hstr : ∀ r ∈ t.rows, ∃ g, r.cols[k]? = some (Cell.str g) := by
          rcases hcols k hk with ⟨hng, _⟩ | hstr | ⟨hng, _⟩
          · exact absurd (by rw [hsome, hgene]) hng
          · intro r hr; obtain ⟨g, hg, _⟩ := hstr r hr; exact ⟨g, hg⟩
          · exact absurd (by rw [hsome, hgene]) hng
        unfold strColumn
        rw [List.map_map]
        apply List.map_congr_left
        intro r hr
        obtain ⟨g, hg⟩ := hstr r hr
        simp [Function.comp_def, List.getD_eq_getElem?_getD, hg, renderCellF, colBack]
      · have hcond : ¬ (TAB_GENE_AS_TEXT && t.names.getD k "" == "gene") = true := by
          simp only [TAB_GENE_AS_TEXT, Bool.true_and, beq_iff_eq]; exact hgene
        rw [if_neg hcond]
        rcases hcols k hk with ⟨_, hint⟩ | hstr | ⟨_, hflt⟩
        · have h1 : (t.rows.map fun r => renderCellF (r.cols.getD k .na)) =
              (t.rows.map (fun r => cellInt (r.cols.getD k .na))).map toString := by
            rw [List.map_map]
            apply List.map_congr_left
            intro r hr
            obtain ⟨i, hi⟩ := hint r hr
            simp [Function.comp_def, List.getD_eq_getElem?_getD, hi, renderCellF, cellInt]
          rw [h1, typeColumn_ints, List.map_map]
          apply List.map_congr_left
          intro r hr
          obtain ⟨i, hi⟩ := hint r hr
          simp [Function.comp_def, List.getD_eq_getElem?_getD, hi, cellInt, colBack]
        · have h1 : (t.rows.map fun r => renderCellF (r.cols.getD k .na)) =
              t.rows.map (fun r => cellStr (r.cols.getD k .na)) := by
            apply List.map_congr_left
            intro r hr
            obtain ⟨g, hg, _⟩ := hstr r hr
            simp [List.getD_eq_getElem?_getD, hg, renderCellF, cellStr]
          rw [h1, typeColumn_plain, List.map_map]
          · apply List.map_congr_left
            intro r hr
            obtain ⟨g, hg, _⟩ := hstr r hr
            simp [Function.comp_def, List.getD_eq_getElem?_getD, hg, cellStr, colBack]
          · intro v hv
            obtain ⟨r, hr, rfl⟩ := List.mem_map.mp hv
            obtain ⟨g, hg, hp⟩ := hstr r hr
            simp only [List.getD_eq_getElem?_getD, hg, Option.getD_some, cellStr]
            rcases hp with hp | hp
            · exact hp
            · rw [hsome] at hp; exact absurd (Option.some.inj hp) hgene
        · apply typeColumn_floatcol
          intro r hr
          rcases hflt r hr with hq | ⟨hq, _⟩
          · exact Or.inl hq
          · exact Or.inr hq)
    (by
      intro hct r hr
      have hli : t.names.idxOf "log2" < t.names.length :=
        List.idxOf_lt_length_of_mem (List.contains_iff_mem.mp hct)
      have hnm : t.names[t.names.idxOf "log2"]? = some "log2" := by
        rw [List.getElem?_eq_getElem hli, List.getElem_idxOf]
      rcases hcols _ hli with ⟨_, hint⟩ | hstr | ⟨_, hflt⟩
      · obtain ⟨i, hi⟩ := hint r hr
        simp [List.getD_eq_getElem?_getD, hi, colBack]
      · obtain ⟨g, hg, _⟩ := hstr r hr
        simp [List.getD_eq_getElem?_getD, hg, colBack]
      · rcases hflt r hr with ⟨q, hq⟩ | ⟨_, hne⟩
        · simp only [List.getD_eq_getElem?_getD, hq, Option.getD_some, colBack]
          split <;> simp
        · exact absurd hnm hne)
  rw [hmain]
  have hshift : ∀ s : Int, s + WRITE_SHIFT_tab + READ_SHIFT_tab = s := by
    intro s; simp only [WRITE_SHIFT_tab, READ_SHIFT_tab]; omega
  congr 2
  apply List.map_congr_left
  intro r _
  simp only [backRow, hshift]

/-- tab files with float columns: writing then reading returns the table with every float rounded to
    6 significant digits (`backRow`), sorted -/
theorem tabF_roundtrip (t : FTab) (h : WFTabF t) (sel : SampleSel) :
    readFmt "tab" false sel (renderLinesF (writeTab t)) =
      .ok { names := t.names, rows := sortF (t.rows.map (backRow t)) } := by
  have hread := readTab_floats t h
  obtain ⟨hnd, hs, _, _, _⟩ := h
  simp only [readFmt, hread, bind, Except.bind]
  exact finish_ga_id { names := t.names, rows := t.rows.map (backRow t) } hnd hs
    (by intro r hr; obtain ⟨r0, _, rfl⟩ := List.mem_map.mp hr; simp [backRow])

/-- numbers equal to 6 significant digits; every other cell identical -/
theorem colBack_value (rows : List FRow) (k : Nat) (r : FRow) (hr : r ∈ rows) :
    (∀ q, r.cols.getD k .na = Cell.flt q → cellVal (colBack rows k (Cell.flt q)) = some (sixg q)) ∧
    (∀ c, r.cols.getD k .na = c → (∀ q, c ≠ Cell.flt q) → colBack rows k c = c) := by
  constructor
  · intro q hq
    unfold colBack
    cases hai : colAllInt rows k with
    | false => simp [cellVal]
    | true =>
      have hlit : isIntLit (renderCellF (r.cols.getD k .na)).toList = true := by
        unfold colAllInt at hai; rw [List.all_eq_true] at hai; exact hai r hr
      rw [hq] at hlit
      obtain ⟨i, _, hi, hv⟩ := fmt6g_int q hlit
      simp [cellVal, hi, hv]
  · intro c _ hne
    cases c with
    | flt q => exact absurd rfl (hne q)
    | _ => rfl

/-- the cell that comes back is printed with the same characters -/
theorem colBack_render (rows : List FRow) (k : Nat) (r : FRow) (hr : r ∈ rows) :
    renderCellF (colBack rows k (r.cols.getD k .na)) = renderCellF (r.cols.getD k .na) := by
  cases hc : r.cols.getD k .na with
  | flt q =>
    unfold colBack
    cases hai : colAllInt rows k with
    | false => simp [renderCellF, fmt6g_sixg]
    | true =>
      have hlit : isIntLit (renderCellF (r.cols.getD k .na)).toList = true := by
        unfold colAllInt at hai; rw [List.all_eq_true] at hai; exact hai r hr
      rw [hc] at hlit
      obtain ⟨i, hs, hi, _⟩ := fmt6g_int q hlit
      simp only [if_true, hi, Option.getD_some, renderCellF]
      exact hs.symm
  | int i => simp [colBack]
  | str s => simp [colBack]
  | na => simp [colBack]

theorem lineG_backRow (t : FTab) (r : FRow) (hr : r ∈ t.rows) (hlen : r.cols.length = t.names.length) :
    lineG renderCellF (backRow t r) = lineG renderCellF r := by
  simp only [lineG, backRow, List.map_map, Function.comp_def]
  congr 3
  have : (List.range t.names.length).map (fun k => renderCellF (colBack t.rows k (r.cols.getD k .na))) =
      (List.range t.names.length).map (fun k => (r.cols.map renderCellF).getD k "") := by
    apply List.map_congr_left
    intro k hk
    have hk' : k < r.cols.length := by rw [hlen]; exact List.mem_range.mp hk
    rw [colBack_render t.rows k r hr]
    simp [List.getD_eq_getElem?_getD, List.getElem?_eq_getElem hk']
  rw [this]
  exact range_map_getD _ _ _ (by simp [hlen])

/-- second write: the table read back is printed to the same body lines, stably re-ordered by
    (chromosome, start, end); identical files when the table was already sorted -/
theorem tabF_second_write (t : FTab) (h : WFTabF t) (sel : SampleSel) :
    ∃ t1, readFmt "tab" false sel (renderLinesF (writeTab t)) = .ok t1 ∧
      (renderLinesF (writeTab t1)).head? = (renderLinesF (writeTab t)).head? ∧
      ((renderLinesF (writeTab t1)).tail).Perm ((renderLinesF (writeTab t)).tail) ∧
      (SortedRows t.rows → renderLinesF (writeTab t1) = renderLinesF (writeTab t)) := by
  refine ⟨_, tabF_roundtrip t h sel, ?_⟩
  obtain ⟨_, _, _, hrows, _⟩ := h
  rw [renderLinesF_writeTab, renderLinesF_writeTab]
  have hbody : (t.rows.map (backRow t)).map (lineG renderCellF) = t.rows.map (lineG renderCellF) := by
    rw [List.map_map]
    apply List.map_congr_left
    intro r hr
    exact lineG_backRow t r hr (hrows r hr).2
  refine ⟨rfl, ?_, ?_⟩
  · simp only [List.tail_cons]
    rw [← hbody]
    exact (sortF_perm _).map _
  · intro hs
    have hs' : SortedRows (t.rows.map (backRow t)) := by
      unfold SortedRows at hs ⊢
      rw [List.pairwise_map]
      exact hs.imp (fun {a b} hab => by simpa [backRow, rowLe, FRow.toRow] using hab)
    simp only [sortF_of_sorted _ hs', hbody]

end CnvVerif.Fmt
