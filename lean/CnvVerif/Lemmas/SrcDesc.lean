/-
  The estimators of cnvlib/descriptives.py: the models (Model/Descriptives.lean) equal the definitions the typed
  translator reads off the current source (Generated/ExprsDesc.lean, regenerated from /repo on every run by
  harness/vectrans.py).  First the numpy vocabulary (`Np.sel`, `Np.take`, `Np.cumsum`, ...) is related to the list
  functions the models are written with, then one theorem per function.
-/
import CnvVerif.Generated.ExprsDesc
import CnvVerif.Lemmas.DescBiweight
namespace CnvVerif.Src
open CnvVerif CnvVerif.Desc CnvVerif.Generated

set_option linter.unusedSimpArgs false
set_option linter.unusedVariables false

/-! ### the numpy vocabulary -/

/-- `f(d)[p(d)]` keeps the entries of `d` that satisfy `p`, then applies `f` -/
theorem sel_map_map (d : List Rat) (f : Rat → Rat) (p : Rat → Bool) :
    Np.sel (d.map f) (d.map p) = (d.filter p).map f := by
  unfold Np.sel
  induction d with
  | nil => rfl
  | cons x t ih =>
    simp only [List.map_cons, List.zip_cons_cons, List.filter_cons]
    cases hp : p x <;> simp [hp, ih]

theorem sel_self_map (d : List Rat) (p : Rat → Bool) : Np.sel d (d.map p) = d.filter p := by
  have := sel_map_map d id p
  simpa using this

theorem count_true_map (d : List Rat) (p : Rat → Bool) : List.count true (d.map p) = (d.filter p).length := by
  rw [List.count_eq_countP, List.countP_map, List.countP_eq_length_filter]
  congr 1
  apply List.filter_congr
  intro x _
  simp

theorem zipWith_map_same (h : Rat → Rat → Rat) (f g : Rat → Rat) (l : List Rat) :
    List.zipWith h (l.map f) (l.map g) = l.map (fun x => h (f x) (g x)) := by
  rw [List.zipWith_map, List.zipWith_self]

theorem zipWith_map_same' {α : Type} (h : Rat → Rat → Rat) (f g : α → Rat) (l : List α) :
    List.zipWith h (l.map f) (l.map g) = l.map (fun x => h (f x) (g x)) := by
  rw [List.zipWith_map, List.zipWith_self]

theorem zipWith_eq_zip_map' {α β γ : Type} (f : α → β → γ) (a : List α) (b : List β) :
    List.zipWith f a b = (a.zip b).map (fun p => f p.1 p.2) := by
  rw [← List.map_uncurry_zip_eq_zipWith]; rfl

theorem zipWith_mul_eq_zip_map (a b : List Rat) :
    List.zipWith (fun u v => u * v) a b = (a.zip b).map (fun p => p.1 * p.2) := by
  rw [← List.map_uncurry_zip_eq_zipWith]; rfl

/-- `(a.zip w)` reordered and projected = the columns reordered -/
theorem permute_zip_fst (order : List Nat) (a w : List Rat) (h : a.length = w.length) :
    (permute order (a.zip w)).map (·.1) = Np.take a order := by
  unfold permute Np.take
  rw [List.map_map]
  apply List.map_congr_left
  intro i _
  simp only [Function.comp, List.getD_eq_getElem?_getD, List.getElem?_zip_eq_some]
  by_cases hi : i < a.length
  · have hi' : i < w.length := h ▸ hi
    have hz : i < (a.zip w).length := by simp [List.length_zip]; omega
    rw [List.getElem?_eq_getElem hz, List.getElem?_eq_getElem hi]; simp
  · have hz : ¬ i < (a.zip w).length := by simp [List.length_zip]; omega
    rw [List.getElem?_eq_none (by omega), List.getElem?_eq_none (by omega)]; rfl

theorem permute_zip_snd (order : List Nat) (a w : List Rat) (h : a.length = w.length) :
    (permute order (a.zip w)).map (·.2) = Np.take w order := by
  unfold permute Np.take
  rw [List.map_map]
  apply List.map_congr_left
  intro i _
  simp only [Function.comp, List.getD_eq_getElem?_getD]
  by_cases hi : i < a.length
  · have hi' : i < w.length := h ▸ hi
    have hz : i < (a.zip w).length := by simp [List.length_zip]; omega
    rw [List.getElem?_eq_getElem hz, List.getElem?_eq_getElem hi']; simp
  · have hz : ¬ i < (a.zip w).length := by simp [List.length_zip]; omega
    rw [List.getElem?_eq_none (by omega), List.getElem?_eq_none (by omega)]; rfl

theorem searchLeft_cumsum (w : List Rat) (v : Rat) :
    Np.searchLeft (Np.cumsum w) v = firstIdx (fun i => decide (v ≤ cumAt w i)) w.length := by
  unfold Np.searchLeft Np.cumsum firstIdx
  rw [List.findIdx_map]; rfl

theorem searchRight_cumsum (w : List Rat) (v : Rat) :
    Np.searchRight (Np.cumsum w) v = firstIdx (fun i => decide (v < cumAt w i)) w.length := by
  unfold Np.searchRight Np.cumsum firstIdx
  rw [List.findIdx_map]; rfl

/-! ### MAD, IQR -/

/-- `median_absolute_deviation`: the model is the source expression (both values of `scale_to_sd`) -/
theorem mad_is_source (a : List Rat) (b : Bool) : src_median_absolute_deviation a b = madCore a b := by
  unfold src_median_absolute_deviation madCore MAD_SCALE
  simp only [List.map_map]
  cases b <;> rfl

/-- `interquartile_range` -/
theorem iqr_is_source (a : List Rat) : src_interquartile_range a = iqrCore a := by
  unfold src_interquartile_range iqrCore IQR_Q_HI IQR_Q_LO
  norm_num

/-! ### Qn: the finite-sample factor chain and the quartile -/

/-- `q_n` after its double loop, the list `vals` being the pairwise distances the loop collects -/
theorem qn_is_source (a : List Rat) : src_q_n a (pairDiffs a) = qnCore a := by
  unfold src_q_n qnCore qnScale QN_Q QN_N_SMALL QN_N_MID_LO QN_N_LARGE QN_SCALE_SMALL QN_SCALE_MID_BASE QN_SCALE_LARGE QN_NUM
  simp only []
  have hq : ((25 : Rat) / 100) = (((25 : Nat) : Rat) / 100) := by norm_num
  rw [hq]
  split_ifs <;> rfl

/-! ### weighted standard deviation -/

theorem zip_weight_sum (a w : List Rat) (h : a.length = w.length) : ((a.zip w).map (·.2)).sum = w.sum := by
  have : (a.zip w).map (·.2) = w := List.map_snd_zip (by omega)
  rw [this]

theorem wavg_zip (a w : List Rat) (h : a.length = w.length) (v : Rat) (hv : wavg (a.zip w) = some v) :
    Np.average a w = v := by
  unfold wavg at hv
  unfold Np.average
  rw [zip_weight_sum a w h] at hv
  simp only [] at hv
  split at hv
  · exact absurd hv (by simp)
  · rw [zipWith_mul_eq_zip_map]
    exact Option.some.inj hv

/-- `weighted_std`: where the model returns a variance (total weight not 0), the source returns its root -/
theorem wstd_is_source (a w : List Rat) (h : a.length = w.length) (v : Rat)
    (hv : weightedVarCore (a.zip w) = some v) : src_weighted_std a w = ScaleOut.root v := by
  unfold weightedVarCore at hv
  unfold src_weighted_std
  simp only []
  cases hm : wavg (a.zip w) with
  | none => rw [hm] at hv; exact absurd hv (by simp)
  | some mean =>
    rw [hm] at hv
    simp only [] at hv
    rw [wavg_zip a w h mean hm]
    have hz : (a.zip w).map (fun q => (sq (q.1 - mean), q.2)) = ((a.map (fun v => v - mean)).map (fun v => v ^ 2)).zip w := by
      rw [List.map_map]
      apply List.ext_getElem (by simp [List.length_zip])
      intro i h1 h2
      simp [Desc.sq, pow_two]
    rw [hz] at hv
    rw [wavg_zip _ w (by simp [h]) v hv]

/-! ### biweight location: one step -/

/-- the nested step function of `biweight_location` is the model's `bilocIter`, for every cut-off `c` and floor `ε` -/
theorem biloc_iter_is_source (a : List Rat) (init c eps : Rat) :
    src_biloc_iter a init c eps = bilocIter c eps a init := by
  unfold src_biloc_iter bilocIter
  simp only []
  generalize hd : a.map (fun v => v - init) = d
  generalize hs : max (c * median (d.map absR)) eps = s
  have hmask : ((d.map (fun v => v / s)).map absR).map (fun v => decide (v < (1 : Rat))) =
      d.map (fun x => decide (absR (x / s) < 1)) := by
    rw [List.map_map, List.map_map]; rfl
  have hw : (((d.map (fun v => v / s)).map (fun v => v ^ 2)).map (fun v => (1 : Rat) - v)).map (fun v => v ^ 2) =
      d.map (fun x => Desc.sq (1 - Desc.sq (x / s))) := by
    rw [List.map_map, List.map_map, List.map_map]
    apply List.map_congr_left; intro x _; simp [Desc.sq, pow_two]
  rw [hmask, hw, sel_map_map, sel_self_map, zipWith_mul_eq_zip_map]

/-! ### biweight midvariance -/

/-- the part of the model's `bivarCore` after the deviations `d`, the scale `s` and the MAD fall-back value `fb` are known -/
def bivarTailModel (d : List Rat) (s fb : Rat) : ScaleOut :=
  let kept := d.filter (fun x => decide (absR (x / s) < 1))
  if (kept.map (· / s)).sum = 0 then .direct fb
  else
    let n : Rat := (kept.length : Rat)
    let num := (kept.map (fun x => Desc.sq x * Desc.sq (Desc.sq (1 - Desc.sq (x / s))))).sum
    let den := (kept.map (fun x => (1 - Desc.sq (x / s)) * (1 - 5 * Desc.sq (x / s)))).sum
    if den = 0 then .undefined else .root (n * num / Desc.sq den)

/-- the same part of the source expression -/
def bivarTailSrc (d : List Rat) (s fb : Rat) : ScaleOut :=
  let w : List Rat := (d.map (fun v => v / s))
  let mask : List Bool := ((w.map Desc.absR).map (fun v => decide (v < (1 : Rat))))
  if (((Np.sel w mask)).sum = (0 : Rat)) then
    Desc.ScaleOut.direct fb
  else
    let n : Nat := (List.count true mask)
    let d_ : List Rat := (Np.sel d mask)
    let w_ : List Rat := (Np.sel (w.map (fun v => v ^ 2)) mask)
    Desc.ScaleOut.root ((((n : Nat) : Rat) * ((List.zipWith (fun u v => u * v) (d_.map (fun v => v ^ 2)) ((w_.map (fun v => (1 : Rat) - v)).map (fun v => v ^ 4)))).sum) / (((List.zipWith (fun u v => u * v) (w_.map (fun v => (1 : Rat) - v)) ((w_.map (fun v => (5 : Rat) * v)).map (fun v => (1 : Rat) - v)))).sum ^ 2))

theorem bivarTail_eq (d : List Rat) (s fb : Rat) :
    bivarTailModel d s fb = ScaleOut.undefined ∨ bivarTailModel d s fb = bivarTailSrc d s fb := by
  unfold bivarTailModel bivarTailSrc
  simp only []
  have hmask : ((d.map (fun v => v / s)).map absR).map (fun v => decide (v < (1 : Rat))) =
      d.map (fun x => decide (absR (x / s) < 1)) := by
    rw [List.map_map, List.map_map]; rfl
  have hw2 : (d.map (fun v => v / s)).map (fun v => v ^ 2) = d.map (fun x => (x / s) ^ 2) := by
    rw [List.map_map]; rfl
  rw [hmask, hw2, sel_map_map, sel_map_map, sel_self_map, count_true_map]
  generalize hk : d.filter (fun x => decide (absR (x / s) < 1)) = kept
  by_cases h0 : (kept.map (fun v => v / s)).sum = 0
  · right; rw [if_pos h0, if_pos h0]
  · rw [if_neg h0, if_neg h0]
    have hnum : (List.zipWith (fun u v => u * v) (kept.map (fun v => v ^ 2))
        (((kept.map (fun x => (x / s) ^ 2)).map (fun v => (1 : Rat) - v)).map (fun v => v ^ 4))) =
        kept.map (fun x => Desc.sq x * Desc.sq (Desc.sq (1 - Desc.sq (x / s)))) := by
      rw [List.map_map, List.map_map, zipWith_map_same]
      apply List.map_congr_left; intro x _; simp only [Function.comp, Desc.sq]; ring
    have hden : (List.zipWith (fun u v => u * v) ((kept.map (fun x => (x / s) ^ 2)).map (fun v => (1 : Rat) - v))
        (((kept.map (fun x => (x / s) ^ 2)).map (fun v => (5 : Rat) * v)).map (fun v => (1 : Rat) - v))) =
        kept.map (fun x => (1 - Desc.sq (x / s)) * (1 - 5 * Desc.sq (x / s))) := by
      rw [List.map_map, List.map_map, List.map_map, zipWith_map_same]
      apply List.map_congr_left; intro x _; simp only [Function.comp, Desc.sq]; ring
    rw [hnum, hden]
    by_cases hden0 : (kept.map (fun x => (1 - Desc.sq (x / s)) * (1 - 5 * Desc.sq (x / s)))).sum = 0
    · left; rw [if_pos hden0]
    · right; rw [if_neg hden0]; simp only [Desc.sq, pow_two]

theorem bivarCore_tail (a : List Rat) (init : Rat) :
    bivarCore false a (some init) =
      bivarTailModel (a.map (· - init)) (max (BIVAR_C * median ((a.map (· - init)).map absR)) BIVAR_EPS)
        (median ((a.map (· - init)).map absR) * MAD_SCALE_BIVAR) := rfl

theorem src_bivar_tail (a : List Rat) (init c eps : Rat) :
    src_biweight_midvariance a init c eps =
      bivarTailSrc (a.map (· - init)) (max (c * median ((a.map (· - init)).map absR)) eps)
        (median ((a.map (· - init)).map absR) * MAD_SCALE_BIVAR) := rfl

/-- `biweight_midvariance` about a given centre: the model returns what the source computes -- the MAD fall-back on
    exactly symmetric data, otherwise the root of the same radicand -- except where the source divides by zero
    (`.undefined`: inf / NaN in Python) -/
theorem bivar_is_source (a : List Rat) (init : Rat) :
    bivarCore false a (some init) = ScaleOut.undefined ∨
      bivarCore false a (some init) = src_biweight_midvariance a init BIVAR_C BIVAR_EPS := by
  rw [bivarCore_tail, src_bivar_tail]
  exact bivarTail_eq _ _ _

/-! ### weighted median -/

/-- `weighted_median` behind its decorator (equal lengths): the model run on the (value, weight) pairs with the
    permutation `argsort` returned is the source expression -/
theorem wmedian_is_source (a w : List Rat) (order : List Nat) (h : a.length = w.length) :
    src_weighted_median a w order = weightedMedianCore false order (a.zip w) := by
  unfold src_weighted_median weightedMedianCore wmedSorted wmedTol
  simp only [Bool.false_eq_true, if_false]
  have hlen : (permute order (a.zip w)).length = (Np.take w order).length := by simp [permute, Np.take]
  have hlenA : (Np.take a order).length = (Np.take w order).length := by simp [Np.take]
  rw [permute_zip_fst order a w h, permute_zip_snd order a w h, hlen, hlenA]
  generalize Np.take a order = A
  generalize Np.take w order = W
  rw [searchLeft_cumsum, searchRight_cumsum, List.any_map]
  have hmid : (1 : Rat) / 2 * W.sum = W.sum / 2 := by ring
  rw [hmid]
  split_ifs with h1 h2 h2
  · rfl
  · exact absurd h1 h2
  · exact absurd h2 h1
  · ring

/-! ### gapper -/

theorem diffs_length' (s : List Rat) : (diffs s).length = s.length - 1 := by
  unfold diffs; simp [List.length_zip]

/-- `gapper_scale`: the source value is the model's (which leaves out the factor `√π`) times `√π` -/
theorem gapper_is_source (a : List Rat) (sqrt_pi : Rat) : src_gapper_scale a sqrt_pi = gapperCore a * sqrt_pi := by
  unfold src_gapper_scale gapperCore Np.arange
  simp only [sortR_length]
  generalize hs : sortR a = s
  have hn : s.length = a.length := by rw [← hs, sortR_length]
  generalize hg : diffs s = g
  have hL : g.length = a.length - 1 := by rw [← hg, diffs_length', hn]
  have hw : (List.zipWith (fun u v => u * v) (List.map (fun (i : Nat) => (i : Rat)) (List.range' 1 (a.length - 1)))
      (List.map (fun v => ((a.length : Nat) : Rat) - v) (List.map (fun (i : Nat) => (i : Rat)) (List.range' 1 (a.length - 1))))) =
      (List.range g.length).map (fun i => (((i + 1) * (a.length - (i + 1)) : Nat) : Rat)) := by
    rw [List.map_map, zipWith_map_same', List.range'_eq_map_range, List.map_map, hL]
    apply List.map_congr_left
    intro i hi
    have hi' : i < a.length - 1 := List.mem_range.mp hi
    simp only [Function.comp]
    rw [Nat.cast_mul, Nat.cast_sub (by omega)]
    push_cast; ring
  rw [hw, List.zipWith_map_right, zipWith_eq_zip_map']
  ring

end CnvVerif.Src
