/-
  `GenomicArray.by_arm`: the margin `max(min_arm_bins, int(round(0.1 * len(subtable))))` as the translator reads it
  off the current source (Generated/ExprsByArm.lean) against the model's `max minArmBins (roundTenth n)`.
  In a module of its own so that an edit to the margin breaks exactly the margin obligations.
-/
import CnvVerif.Generated.ExprsByArm
import CnvVerif.Model.Tile
import Mathlib.Data.Rat.Floor
import Mathlib.Tactic.Linarith
namespace CnvVerif.Src
open CnvVerif CnvVerif.Generated

/-! ### the margin -/

/-- the translator's rendering of Python's `round` never exceeds `k` below `k + 1/2` -/
theorem pyRound_le (r : Rat) (k : Int) (h : r < (k : Rat) + 1 / 2) :
    (let r_ : Rat := r; let f_ : Int := r_.floor;
      if 2 * (r_ - (f_ : Rat)) < 1 then (f_ : Rat) else if 2 * (r_ - (f_ : Rat)) > 1 then ((f_ + 1 : Int) : Rat)
      else if f_ % 2 = 0 then (f_ : Rat) else ((f_ + 1 : Int) : Rat)) ≤ (k : Rat) := by
  simp only []
  have hf : ((r.floor : Int) : Rat) ≤ r := Rat.floor_le r
  have hfk : r.floor ≤ k := by
    have : ((r.floor : Int) : Rat) < ((k + 1 : Int) : Rat) := by push_cast; linarith
    have := Int.cast_lt.mp this
    omega
  rcases Int.lt_or_eq_of_le hfk with hlt | heq
  · have h1 : ((r.floor : Int) : Rat) ≤ (k : Rat) := by exact_mod_cast hfk
    have h2 : ((r.floor + 1 : Int) : Rat) ≤ (k : Rat) := by exact_mod_cast hlt
    split_ifs <;> assumption
  · have h1 : 2 * (r - ((r.floor : Int) : Rat)) < 1 := by rw [heq]; linarith
    rw [if_pos h1, heq]

/-- for every chromosome of at most 504 bins (the property quantifies over 1..400) the margin is the default
    `min_arm_bins` = 50, as in the model (`roundTenth n ≤ 50`) -/
theorem margin_small (n : Nat) (h : n ≤ 504) :
    src_by_arm_margin src_by_arm_default_min_arm_bins (n : Rat) = 50 ∧ max 50 (roundTenth n) = 50 := by
  constructor
  · unfold src_by_arm_margin src_by_arm_default_min_arm_bins
    apply max_eq_left
    have hn : (n : Rat) ≤ 504 := by exact_mod_cast h
    have h50 : ((50 : Int) : Rat) = 50 := by norm_num
    rw [← h50]
    refine pyRound_le _ 50 ?_
    rw [h50]
    linarith
  · unfold roundTenth
    simp only []
    split_ifs <;> omega

/-- the translator's rendering of Python's `round` on a value within 1/100 above `q + d/10`, `d ≠ 5` a digit -/
theorem pyRound_tenth (r : Rat) (q d : Nat) (hd : d < 10) (hd5 : d ≠ 5)
    (h0 : (q : Rat) + (d : Rat) / 10 ≤ r) (h1 : r < (q : Rat) + (d : Rat) / 10 + 1 / 100) :
    (let r_ : Rat := r; let f_ : Int := r_.floor;
      if 2 * (r_ - (f_ : Rat)) < 1 then (f_ : Rat) else if 2 * (r_ - (f_ : Rat)) > 1 then ((f_ + 1 : Int) : Rat)
      else if f_ % 2 = 0 then (f_ : Rat) else ((f_ + 1 : Int) : Rat)) = (((if d < 5 then q else q + 1 : Nat)) : Rat) := by
  simp only []
  have hdR : (d : Rat) ≤ 9 := by exact_mod_cast (by omega : d ≤ 9)
  have hd0 : (0 : Rat) ≤ (d : Rat) := by positivity
  have hfl : r.floor = (q : Int) := by
    have : ⌊r⌋ = (q : Int) := Int.floor_eq_iff.mpr ⟨by push_cast; linarith, by push_cast; linarith⟩
    exact this
  rw [hfl]
  by_cases hlt : d < 5
  · have hdR' : (d : Rat) ≤ 4 := by exact_mod_cast (by omega : d ≤ 4)
    have h2 : 2 * (r - ((q : Int) : Rat)) < 1 := by push_cast; linarith
    rw [if_pos h2, if_pos hlt]; push_cast; rfl
  · have hdR' : (6 : Rat) ≤ (d : Rat) := by exact_mod_cast (by omega : 6 ≤ d)
    have h2 : ¬ 2 * (r - ((q : Int) : Rat)) < 1 := by push_cast; linarith
    have h3 : 2 * (r - ((q : Int) : Rat)) > 1 := by push_cast; linarith
    rw [if_neg h2, if_pos h3, if_neg hlt]; push_cast; rfl

/-- for every chromosome whose bin count does not end in 5 (and below 10^15) the source's margin -- `round` applied to
    the EXACT product of the double 0.1 and the bin count -- is the model's `max min_arm_bins (roundTenth n)`.
    (For counts ending in 5 the exact product lies just above the half and Python's float product lands on it; the
    model rounds n/10 half-to-even, as the float computation does: compared on the real code by the harness.) -/
theorem margin_general (k n : Nat) (h5 : n % 10 ≠ 5) (hn : n < 10 ^ 15) :
    src_by_arm_margin (k : Rat) (n : Rat) = ((max k (roundTenth n) : Nat) : Rat) := by
  unfold src_by_arm_margin
  obtain ⟨q, d, hd, rfl⟩ : ∃ q d : Nat, d < 10 ∧ n = 10 * q + d := ⟨n / 10, n % 10, by omega, by omega⟩
  have hd5 : d ≠ 5 := by omega
  have hnR : ((10 * q + d : Nat) : Rat) < 10 ^ 15 := by exact_mod_cast hn
  have hn0 : (0 : Rat) ≤ ((10 * q + d : Nat) : Rat) := by positivity
  have hnE : ((10 * q + d : Nat) : Rat) = 10 * (q : Rat) + (d : Rat) := by push_cast; ring
  have hrt : roundTenth (10 * q + d) = if d < 5 then q else q + 1 := by
    unfold roundTenth
    simp only []
    have e1 : (10 * q + d) / 10 = q := by omega
    have e2 : (10 * q + d) % 10 = d := by omega
    rw [e1, e2]
    split_ifs <;> omega
  rw [hrt, pyRound_tenth _ q d hd hd5 (by linarith) (by linarith)]
  push_cast
  rfl

end CnvVerif.Src
