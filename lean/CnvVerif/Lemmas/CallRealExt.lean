/-
  ℝ layer for the general monotonicity criterion of threshold calls (growth round, C02): the bound
  "r·2^v exceeds (largest step value − 1) at every v above the last threshold L" holds iff it holds, non-strictly,
  AT L — so whether a threshold vector is monotone is decided by one comparison.
-/
import CnvVerif.Lemmas.CallReal
namespace CnvVerif

/-- sufficient: the bound at the last threshold `L` gives the strict bound everywhere above it -/
theorem bound_above_of_bound_at_last (r s L v : ℝ) (hr : 0 < r) (h : s - 1 ≤ r * (2 : ℝ) ^ L) (hv : L < v) :
    s - 1 < r * (2 : ℝ) ^ v := by
  have : (2 : ℝ) ^ L < (2 : ℝ) ^ v := Real.rpow_lt_rpow_of_exponent_lt (by norm_num) hv
  nlinarith

/-- necessary: if the bound fails at `L`, there is a log2 value above `L` where `r·2^v` is exactly `s − 1`, i.e.
    `ceil(r·2^v) = s − 1`: one less than the step value just below `L` -/
theorem exists_drop_above_last (r s L : ℝ) (hr : 0 < r) (h : r * (2 : ℝ) ^ L < s - 1) :
    ∃ v, L < v ∧ r * (2 : ℝ) ^ v = s - 1 := by
  have hpos : 0 < (s - 1) / r := by
    have : 0 < r * (2 : ℝ) ^ L := mul_pos hr (Real.rpow_pos_of_pos (by norm_num) L)
    exact div_pos (lt_trans this h) hr
  refine ⟨Real.logb 2 ((s - 1) / r), ?_, ?_⟩
  · rw [Real.lt_logb_iff_rpow_lt (by norm_num) hpos, lt_div_iff₀ hr]
    linarith
  · rw [Real.rpow_logb (by norm_num) (by norm_num) hpos]
    field_simp

end CnvVerif
