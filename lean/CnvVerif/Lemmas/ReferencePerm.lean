/-
  Lemmas behind Props/C05Perm.lean: the pooled reference does not depend on the ORDER of the sample files.
  Two independent reasons, both proved: (a) Tukey's biweight location and midvariance are symmetric functions of
  their arguments (so any row order of the sample matrix gives the same summaries), and (b) `load_sample_block`
  sorts the files by sample name first (so, names being distinct, every order of the file list is the same run).
-/
import CnvVerif.Model.ReferenceExt
import CnvVerif.Lemmas.Reference
import Mathlib.Data.List.Nodup
set_option linter.unusedSimpArgs false
set_option linter.unusedVariables false
namespace CnvVerif.Ref
open CnvVerif

/-! ### (a) the estimators are symmetric -/

theorem bilocIter_perm (c eps : Rat) {a a' : List Rat} (h : a.Perm a') (init : Rat) :
    Desc.bilocIter c eps a init = Desc.bilocIter c eps a' init := by
  rw [Desc.bilocIter_def, Desc.bilocIter_def]
  have hd : (a.map (· - init)).Perm (a'.map (· - init)) := h.map _
  have hm : Desc.median ((a.map (· - init)).map Desc.absR) = Desc.median ((a'.map (· - init)).map Desc.absR) :=
    Desc.median_eq_of_perm (hd.map _)
  simp only [hm]
  have hk := hd.filter (fun x => decide (Desc.absR (x / max (c * Desc.median ((a'.map (· - init)).map Desc.absR)) eps) < 1))
  rw [(hk.map (Desc.biw _)).sum_eq, (hk.map (fun x => x * Desc.biw _ x)).sum_eq]

theorem biweightLocationCore_perm {a a' : List Rat} (h : a.Perm a') :
    Desc.biweightLocationCore false a none = Desc.biweightLocationCore false a' none := by
  rw [Desc.biweightLocationCore_def, Desc.biweightLocationCore_def]
  have : Desc.bilocIter Generated.BILOC_C Generated.BILOC_EPS a = Desc.bilocIter Generated.BILOC_C Generated.BILOC_EPS a' :=
    funext (bilocIter_perm _ _ h)
  rw [this]
  simp only [Option.getD_none, Desc.median_eq_of_perm h]

theorem bivarCore_perm {a a' : List Rat} (h : a.Perm a') (c : Rat) :
    Desc.bivarCore false a (some c) = Desc.bivarCore false a' (some c) := by
  unfold Desc.bivarCore
  simp only [Option.getD_some]
  have hd : (a.map (· - c)).Perm (a'.map (· - c)) := h.map _
  have hm : Desc.median ((a.map (· - c)).map Desc.absR) = Desc.median ((a'.map (· - c)).map Desc.absR) :=
    Desc.median_eq_of_perm (hd.map _)
  simp only [hm]
  have hk := hd.filter (fun x => decide (Desc.absR (x / max (Generated.BIVAR_C * Desc.median ((a'.map (· - c)).map Desc.absR)) Generated.BIVAR_EPS) < 1))
  rw [(hk.map (· / _)).sum_eq, hk.length_eq, (hk.map (fun x => Desc.sq x * Desc.sq (Desc.sq (1 - Desc.sq (x / _))))).sum_eq,
    (hk.map (fun x => (1 - Desc.sq (x / _)) * (1 - 5 * Desc.sq (x / _)))).sum_eq]

theorem perm_shape {l l' : List Rat} (h : l.Perm l') :
    (l = [] ∧ l' = []) ∨ (∃ x, l = [x] ∧ l' = [x]) ∨ (∃ a b t a' b' t', l = a :: b :: t ∧ l' = a' :: b' :: t') := by
  have hl := h.length_eq
  rcases l with _ | ⟨a, _ | ⟨b, t⟩⟩
  · left; cases l' with
    | nil => exact ⟨rfl, rfl⟩
    | cons _ _ => simp at hl
  · right; left
    rcases l' with _ | ⟨a', _ | ⟨b', t'⟩⟩
    · simp at hl
    · have : a' ∈ [a] := h.symm.subset (by simp)
      simp at this
      exact ⟨a, rfl, by rw [this]⟩
    · simp at hl
  · right; right
    rcases l' with _ | ⟨a', _ | ⟨b', t'⟩⟩
    · simp at hl
    · simp at hl
    · exact ⟨a, b, t, a', b', t', rfl, rfl⟩

/-- the location of a bin does not depend on the order of its values -/
theorem locOf_perm {l l' : List Rat} (h : l.Perm l') : locOf l = locOf l' := by
  rcases perm_shape h with ⟨h1, h2⟩ | ⟨x, h1, h2⟩ | ⟨a, b, t, a', b', t', h1, h2⟩
  · rw [h1, h2]
  · rw [h1, h2]
  · subst h1; subst h2
    rw [locOf_cons_cons, locOf_cons_cons]
    exact biweightLocationCore_perm h

/-- the spread of a bin does not depend on the order of its values -/
theorem spreadOf_perm {l l' : List Rat} (h : l.Perm l') (c : Rat) : spreadOf l c = spreadOf l' c := by
  rcases perm_shape h with ⟨h1, h2⟩ | ⟨x, h1, h2⟩ | ⟨a, b, t, a', b', t', h1, h2⟩
  · rw [h1, h2]
  · rw [h1, h2]
  · subst h1; subst h2
    rw [spreadOf_cons_cons, spreadOf_cons_cons]
    exact bivarCore_perm h c

/-- column j of a matrix whose rows are permuted is a permutation of column j -/
theorem column_perm (n : Nat) (flat : List Rat) {mat mat' : List (List Rat)} (h : mat.Perm mat') :
    List.Forall₂ List.Perm (columns n (flat :: mat)) (columns n (flat :: mat')) := by
  unfold columns
  rw [List.forall₂_map_left_iff, List.forall₂_map_right_iff]
  apply List.forall₂_same.mpr
  intro j _
  simp only [List.map_cons]
  exact List.Perm.cons _ (h.map _)

theorem map_summary_of_forall₂ {cs cs' : List (List Rat)} (h : List.Forall₂ List.Perm cs cs') :
    cs.map (fun c => (locOf c, spreadOf c (locOf c))) = cs'.map (fun c => (locOf c, spreadOf c (locOf c))) := by
  induction h with
  | nil => rfl
  | cons hp _ ih =>
    simp only [List.map_cons, ih, locOf_perm hp, spreadOf_perm hp]

/-- `summarize_info` on a sample matrix whose rows (the samples, below the pseudo-sample) come in another order -/
theorem summarize_perm (n : Nat) (flat : List Rat) {mat mat' : List (List Rat)} (h : mat.Perm mat') :
    (columns n (flat :: mat)).map (fun c => (locOf c, spreadOf c (locOf c))) =
    (columns n (flat :: mat')).map (fun c => (locOf c, spreadOf c (locOf c))) := by
  exact map_summary_of_forall₂ (column_perm n flat h)

/-! ### (b) the files are sorted by sample name first -/

theorem sortSamples_perm (l : List Sample) : (sortSamples l).Perm l := List.mergeSort_perm l _

theorem sortSamples_sorted (l : List Sample) : (sortSamples l).Pairwise (fun a b => a.name ≤ b.name) := by
  have := List.pairwise_mergeSort (le := fun a b : Sample => decide (a.name ≤ b.name))
    (by intro a b c; simp only [decide_eq_true_eq]; exact String.le_trans)
    (by intro a b; simp only [Bool.or_eq_true, decide_eq_true_eq]; exact String.le_total a.name b.name) l
  unfold sortSamples
  simpa using this

/-- with distinct sample names every order of the file list is sorted into the same list -/
theorem sortSamples_eq_of_perm {l l' : List Sample} (h : l.Perm l') (hn : (l.map (·.name)).Nodup) :
    sortSamples l = sortSamples l' := by
  apply List.Perm.eq_of_pairwise (le := fun a b : Sample => a.name ≤ b.name)
  · intro a b ha hb h1 h2
    have ha' : a ∈ l := (sortSamples_perm l).subset ha
    have hb' : b ∈ l := h.symm.subset ((sortSamples_perm l').subset hb)
    exact List.inj_on_of_nodup_map hn ha' hb' (String.le_antisymm h1 h2)
  · exact sortSamples_sorted l
  · exact sortSamples_sorted l'
  · exact (sortSamples_perm l).trans (h.trans (sortSamples_perm l').symm)

theorem refBlock_file_order (hapX : Bool) (par : Option String) (skipLow : Bool) (sexes : List (String × Bool))
    {l l' : List Sample} (h : l.Perm l') (hn : (l.map (·.name)).Nodup) :
    refBlock hapX par skipLow sexes l = refBlock hapX par skipLow sexes l' := by
  unfold refBlock
  rw [sortSamples_eq_of_perm h hn]

theorem refBlockOn_file_order (cfg : CorrCfg) (hapX : Bool) (par : Option String) (skipLow : Bool)
    (sexes : List (String × Bool)) {l l' : List Sample} (h : l.Perm l') (hn : (l.map (·.name)).Nodup) :
    refBlockOn cfg hapX par skipLow sexes l = refBlockOn cfg hapX par skipLow sexes l' := by
  unfold refBlockOn
  rw [sortSamples_eq_of_perm h hn]

theorem doReferenceOn_file_order (cfgT cfgA : CorrCfg) (hapX : Bool) (par : Option String)
    (sexes : List (String × Bool)) {t t' a a' : List Sample} (ht : t.Perm t') (ha : a.Perm a')
    (hnt : (t.map (·.name)).Nodup) (hna : (a.map (·.name)).Nodup) :
    doReferenceOn cfgT cfgA hapX par sexes t (some a) = doReferenceOn cfgT cfgA hapX par sexes t' (some a') := by
  have e1 := refBlockOn_file_order cfgT hapX par true sexes ht hnt
  have e2 := refBlockOn_file_order cfgA hapX par false sexes ha hna
  have e3 : a.isEmpty = a'.isEmpty := by
    have := ha.length_eq
    cases a <;> cases a' <;> simp_all
  unfold doReferenceOn
  dsimp only
  rw [e1, e2, e3, ht.length_eq, ha.length_eq]

end CnvVerif.Ref
