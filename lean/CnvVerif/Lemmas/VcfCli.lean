/-
  Helper lemmas for the command-line glue of property C18 (Model/VcfExt.lean, driven by Generated/VcfConsts.lean).
-/
import CnvVerif.Model.VcfExt
set_option linter.unusedSimpArgs false
set_option linter.unusedVariables false
namespace CnvVerif.Vcf
open CnvVerif

/-! ## the command line -/

/-- what every command's binding looks like as long as it passes its options by name -/
def stdBinding : Binding :=
  { sampleId := some "args.sample_id", normalId := some "args.normal_id",
    minVariantDepth := some "args.min_variant_depth", zygosityFreq := some "args.zygosity_freq",
    tumorBoost := none, depthDefault := some 20, zygConst := some (1/4), zygDefaultIsNone := true,
    idsDefaultNone := true }

theorem cliBinding_std : ∀ cmd ∈ Generated.cliVcfCommands, cliBinding cmd = some stdBinding := by
  decide +kernel

theorem cliLhsArgs_of_binding (cmd : String) (a : CliVcfArgs) (h : cliBinding cmd = some stdBinding) :
    cliLhsArgs cmd a = some (cliDocumented a) := by
  unfold cliLhsArgs
  rw [h]
  obtain ⟨sid, nid, md, zf⟩ := a
  cases md <;> rcases zf with _ | _ | f <;>
    simp [stdBinding, parseVcfOptions, strAttr, intAttr, ratAttr, cliDocumented, bind, Option.bind, pure]

theorem cliLhsArgs_documented (cmd : String) (hc : cmd ∈ Generated.cliVcfCommands) (a : CliVcfArgs) :
    cliLhsArgs cmd a = some (cliDocumented a) :=
  cliLhsArgs_of_binding cmd a (cliBinding_std cmd hc)

end CnvVerif.Vcf
