import CnvVerif.Model.Ranges
import CnvVerif.Lemmas.Ranges
namespace CnvVerif

theorem rm_mem_chromsInOrder (t : Table) (c : String) :
    c ∈ chromsInOrder t ↔ ∃ r ∈ t, r.chrom = c := by
  simp only [chromsInOrder, List.mem_eraseDups, List.mem_map]

theorem rm_chroms_single (t : Table) (c : String) (h : chromsInOrder t = [c]) :
    (∀ r ∈ t, r.chrom = c) ∧ t ≠ [] := by
  constructor
  · intro r hr
    have : r.chrom ∈ chromsInOrder t := (rm_mem_chromsInOrder t r.chrom).mpr ⟨r, hr, rfl⟩
    rw [h] at this
    simpa using this
  · intro ht
    subst ht
    simp [chromsInOrder] at h

theorem rm_filter_all (t : Table) (c : String) (h : ∀ r ∈ t, r.chrom = c) :
    t.filter (fun r => r.chrom == c) = t := by
  apply List.filter_eq_self.mpr
  intro r hr
  simp [h r hr]

theorem rm_flatMap_filterMap_map {α β γ δ : Type} (f : α → β) (g : β → Option γ) (h : γ → List δ)
    (l : List α) :
    ((l.map f).filterMap g).flatMap h =
      l.flatMap (fun a => match g (f a) with | some x => h x | none => []) := by
  induction l with
  | nil => rfl
  | cons a l ih =>
    rw [List.map_cons, List.filterMap_cons, List.flatMap_cons]
    cases hg : g (f a) with
    | none => simpa using ih
    | some x => simp only [List.flatMap_cons, ih]

theorem rm_flatMap_congr {α β : Type} (l : List α) (f g : α → List β) (h : ∀ a ∈ l, f a = g a) :
    l.flatMap f = l.flatMap g := by
  induction l with
  | nil => rfl
  | cons a l ih =>
    rw [List.flatMap_cons, List.flatMap_cons, h a (List.mem_cons_self ..),
      ih (fun b hb => h b (List.mem_cons_of_mem _ hb))]

/-- `by_ranges` over any two tables, chromosome by chromosome: the query rows are visited grouped by chromosome in
    order of first appearance; each is paired with the selection from the queried table's rows of THAT chromosome;
    a chromosome missing from the queried table contributes nothing (`keep_empty = False`) or empty selections
    (`keep_empty = True`).  The single-chromosome fast path is not observable. -/
theorem byRangesDf_per_chromosome (table other : Table) (mode : Mode) (ke : Bool) :
    byRangesDf table other mode ke =
      (chromsInOrder other).flatMap (fun c =>
        let src := table.filter (fun r => r.chrom == c)
        let qs := other.filter (fun r => r.chrom == c)
        if !src.isEmpty then qs.map (fun b => (b, selectRange src (some b.s) (some b.e) mode))
        else if ke then qs.map (fun b => (b, []))
        else []) := by
  by_cases hfast : ((chromsInOrder other).length == 1 && (chromsInOrder table).length == 1
      && chromsInOrder other == chromsInOrder table) = true
  · -- fast path
    simp only [Bool.and_eq_true, beq_iff_eq] at hfast
    obtain ⟨⟨h1, _⟩, h3⟩ := hfast
    obtain ⟨c, hc⟩ := List.length_eq_one_iff.mp h1
    have hct : chromsInOrder table = [c] := by rw [← h3, hc]
    obtain ⟨ho, hno⟩ := rm_chroms_single other c hc
    obtain ⟨ht, hnt⟩ := rm_chroms_single table c hct
    rw [byRangesDf_single c table other ht ho hnt hno mode ke, hc]
    simp only [List.flatMap_cons, List.flatMap_nil, List.append_nil]
    rw [rm_filter_all table c ht, rm_filter_all other c ho]
    have : table.isEmpty = false := by
      cases table with
      | nil => exact absurd rfl hnt
      | cons _ _ => rfl
    simp [this]
  · -- general path
    unfold byRangesDf bySharedChroms
    simp only [hfast]
    simp only [Bool.false_eq_true, if_false]
    unfold groupByChrom
    rw [rm_flatMap_filterMap_map]
    apply rm_flatMap_congr
    intro c _
    by_cases hsrc : (table.filter (fun r => r.chrom == c)).isEmpty = true
    · cases ke <;> simp [hsrc]
    · simp [hsrc]

/-- consequently every pair reported by `by_ranges` is a query row together with exactly the selection from the rows
    of its own chromosome, and rows of other chromosomes are never selected -/
theorem byRanges_selection_same_chromosome (table other : Table) (mode : Mode) (ke : Bool) :
    ∀ p ∈ byRanges table other mode ke, p.1 ∈ other ∧
      p.2 = (if (table.filter (fun r => r.chrom == p.1.chrom)).isEmpty then []
             else selectRange (table.filter (fun r => r.chrom == p.1.chrom)) (some p.1.s) (some p.1.e) mode) := by
  intro p hp
  unfold byRanges at hp
  rw [List.mem_filter, byRangesDf_per_chromosome, List.mem_flatMap] at hp
  obtain ⟨⟨c, _, hpc⟩, _⟩ := hp
  by_cases hsrc : (table.filter (fun r => r.chrom == c)).isEmpty = true
  · cases ke
    · simp [hsrc] at hpc
    · simp only [hsrc, Bool.not_true, Bool.false_eq_true, if_false, if_true, List.mem_map] at hpc
      obtain ⟨b, hb, rfl⟩ := hpc
      rw [List.mem_filter] at hb
      have hbc : b.chrom = c := by simpa using hb.2
      refine ⟨hb.1, ?_⟩
      simp only [hbc, hsrc, if_true]
  · simp only [Bool.not_eq_true] at hsrc
    simp only [hsrc, Bool.not_false, if_true, List.mem_map] at hpc
    obtain ⟨b, hb, rfl⟩ := hpc
    rw [List.mem_filter] at hb
    have hbc : b.chrom = c := by simpa using hb.2
    refine ⟨hb.1, ?_⟩
    simp only [hbc, hsrc, Bool.false_eq_true, if_false]


end CnvVerif
