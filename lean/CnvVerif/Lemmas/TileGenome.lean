/-
  The HMM path of `do_segmentation`: `_do_segmentation` is handed the WHOLE table (all chromosomes at once), so the
  unit that `transfer_fields` works on is not one arm.  The lemmas of Lemmas/Tile.lean assume a one-chromosome unit
  (`WFUnit`); here the same clauses are proved for a unit holding any number of chromosomes (`WFGenome`), for every
  partition of the survivors none of whose runs crosses a chromosome boundary (`RunsOnOneChrom` — what
  `squash_by_groups(..., by_arm=True)` returns for any state sequence, see `runsByKey_onOneChrom`).
  A one-chromosome unit is a special case (`WFUnit.toGenome`, `runsOnOneChrom_of_unit`).
-/
import CnvVerif.Model.Tile
import CnvVerif.Lemmas.Tile
namespace CnvVerif

/-- a table of bins of any number of chromosomes: positive length; the bins of ONE chromosome in order and
    non-overlapping (nothing is asked of bins on different chromosomes) -/
def WFGenome (u : List Bin) : Prop :=
  (∀ b ∈ u, b.s < b.e) ∧ u.Pairwise (fun a b => a.chrom = b.chrom → a.e ≤ b.s)

/-- no run of the partition crosses a chromosome boundary -/
def RunsOnOneChrom (gs : List (List Bin)) : Prop :=
  ∀ grp ∈ gs, ∀ a ∈ grp, ∀ b ∈ grp, a.chrom = b.chrom

/-- positive; sorted and disjoint within each chromosome -/
def GSegsOK (segs : List SegO) : Prop :=
  (∀ g ∈ segs, g.s < g.e) ∧ segs.Pairwise (fun a b => a.chrom = b.chrom → a.e ≤ b.s)

/-- both ends of the segment are bin boundaries of its own chromosome (so it lies within that chromosome's span) -/
def SegFrom (bins : List Bin) (g : SegO) : Prop :=
  (∃ b ∈ bins, b.chrom = g.chrom ∧ b.s = g.s) ∧ (∃ b ∈ bins, b.chrom = g.chrom ∧ b.e = g.e)

theorem WFUnit.toGenome {u : List Bin} (hw : WFUnit u) : WFGenome u :=
  ⟨hw.1, hw.2.imp (fun h _ => h.2)⟩

theorem WFGenome.sublist {l₁ l₂ : List Bin} (h : l₁.Sublist l₂) (hw : WFGenome l₂) : WFGenome l₁ :=
  ⟨fun b hb => hw.1 b (h.subset hb), hw.2.sublist h⟩

theorem WFGenome.toUnit {l : List Bin} (hw : WFGenome l) (h1 : ∀ a ∈ l, ∀ b ∈ l, a.chrom = b.chrom) : WFUnit l :=
  ⟨hw.1, hw.2.imp_of_mem (fun ha hb h => ⟨h1 _ ha _ hb, h (h1 _ ha _ hb)⟩)⟩

theorem runsOnOneChrom_of_unit {u : List Bin} (hw : WFUnit u) (gs : List (List Bin))
    (hfl : ∀ b ∈ gs.flatten, b ∈ u) : RunsOnOneChrom gs := by
  intro grp hg a ha b hb
  have hau : a ∈ u := hfl a (List.mem_flatten.mpr ⟨grp, hg, ha⟩)
  have hbu : b ∈ u := hfl b (List.mem_flatten.mpr ⟨grp, hg, hb⟩)
  cases u with
  | nil => simp at hau
  | cons f t =>
    have h1 := (hw.head_le a hau).1
    have h2 := (hw.head_le b hbu).1
    rw [← h1, ← h2]

theorem WFGenome.head_le {a : Bin} {t : List Bin} (hw : WFGenome (a :: t)) :
    ∀ b ∈ a :: t, a.chrom = b.chrom → a.s ≤ b.s := by
  intro b hb hc
  rcases List.mem_cons.mp hb with rfl | hb
  · exact Int.le_refl _
  · have h1 := (List.pairwise_cons.mp hw.2).1 b hb hc
    have h2 := hw.1 a (List.mem_cons_self ..)
    omega

theorem WFGenome.le_last {u : List Bin} (hw : WFGenome u) {last : Bin} (hl : u.getLast? = some last) :
    ∀ b ∈ u, b.chrom = last.chrom → b.e ≤ last.e := by
  induction u with
  | nil => simp
  | cons a t ih =>
    cases t with
    | nil =>
      simp at hl; subst hl; simp
    | cons b t =>
      rw [List.getLast?_cons_cons] at hl
      have hw' : WFGenome (b :: t) := hw.sublist (List.sublist_cons_self ..)
      have ih' := ih hw' hl
      intro x hx hc
      rcases List.mem_cons.mp hx with rfl | hx
      · have hlm : last ∈ b :: t := List.mem_of_getLast? hl
        have h1 := (List.pairwise_cons.mp hw.2).1 last hlm hc
        have h2 := hw.1 last (List.mem_cons_of_mem _ hlm)
        omega
      · exact ih' x hx hc

/-! ### the invariant for several chromosomes -/

theorem GSegsOK.tail {g segs} (h : GSegsOK (g :: segs)) : GSegsOK segs :=
  ⟨fun x hx => h.1 x (List.mem_cons_of_mem _ hx), (List.pairwise_cons.mp h.2).2⟩

theorem Cov.gonce {gs : List (List Bin)} {segs : List SegO} (hc : Cov gs segs)
    (hok : GSegsOK segs) (hpos : ∀ b ∈ gs.flatten, b.s < b.e) {b : Bin} (hb : b ∈ gs.flatten) :
    (segs.filter (containedIn b)).length = 1 := by
  induction gs generalizing segs with
  | nil => simp at hb
  | cons grp gs ih =>
    cases segs with
    | nil => simp [Cov] at hc
    | cons g segs =>
      obtain ⟨hr, hc'⟩ := hc
      have hpw := (List.pairwise_cons.mp hok.2).1
      have hbpos := hpos b hb
      rw [List.flatten_cons] at hb hpos
      rcases List.mem_append.mp hb with hb | hb
      · have h1 : containedIn b g = true := (containedIn_iff b g).mpr (hr.2.2 b hb)
        have h2 : segs.filter (containedIn b) = [] := by
          rw [List.filter_eq_nil_iff]
          intro g' hg' hcon
          have h3 := (containedIn_iff b g').mp hcon
          have h4 := hr.2.2 b hb
          have := hpw g' hg' (by rw [← h4.1, h3.1])
          omega
        rw [List.filter_cons_of_pos h1, h2]; rfl
      · obtain ⟨g', hg', h⟩ := hc'.mem hb
        have h1 : ¬ containedIn b g = true := by
          intro hcon
          have h3 := (containedIn_iff b g).mp hcon
          have := hpw g' hg' (by rw [← h3.1, h.1])
          omega
        rw [List.filter_cons_of_neg h1]
        exact ih hc' hok.tail (fun x hx => hpos x (List.mem_append_right _ hx)) hb

theorem Cov.gcount {gs : List (List Bin)} {segs : List SegO} (hc : Cov gs segs)
    (hok : GSegsOK segs) (hpos : ∀ b ∈ gs.flatten, b.s < b.e) {g : SegO} (hg : g ∈ segs) :
    g.probes = ((gs.flatten.filter (fun b => containedIn b g)).length : Int) := by
  induction gs generalizing segs with
  | nil => cases segs <;> simp [Cov] at hc hg
  | cons grp gs ih =>
    cases segs with
    | nil => simp [Cov] at hc
    | cons g1 segs =>
      obtain ⟨hr, hc'⟩ := hc
      have hpw := (List.pairwise_cons.mp hok.2).1
      rw [List.flatten_cons] at hpos ⊢
      rw [List.filter_append, List.length_append]
      rcases List.mem_cons.mp hg with rfl | hg
      · have h1 : grp.filter (fun b => containedIn b g) = grp := by
          rw [List.filter_eq_self]
          intro b hb
          exact (containedIn_iff b g).mpr (hr.2.2 b hb)
        have h2 : gs.flatten.filter (fun b => containedIn b g) = [] := by
          rw [List.filter_eq_nil_iff]
          intro b hb hcon
          have h3 := (containedIn_iff b g).mp hcon
          obtain ⟨g', hg', h⟩ := hc'.mem hb
          have := hpw g' hg' (by rw [← h3.1, h.1])
          have := hpos b (List.mem_append_right _ hb)
          omega
        rw [h1, h2, hr.2.1]; simp
      · have h1 : grp.filter (fun b => containedIn b g) = [] := by
          rw [List.filter_eq_nil_iff]
          intro b hb hcon
          have h3 := (containedIn_iff b g).mp hcon
          have h4 := hr.2.2 b hb
          have := hpw g hg (by rw [← h4.1, h3.1])
          have := hpos b (List.mem_append_left _ hb)
          omega
        rw [h1, ih hc' hok.tail (fun x hx => hpos x (List.mem_append_right _ hx)) hg]; simp

theorem SegFrom.mono {l₁ l₂ : List Bin} (h : ∀ b ∈ l₁, b ∈ l₂) {g : SegO} (hf : SegFrom l₁ g) : SegFrom l₂ g := by
  obtain ⟨⟨a, ha, h1⟩, ⟨b, hb, h2⟩⟩ := hf
  exact ⟨⟨a, h a ha, h1⟩, ⟨b, h b hb, h2⟩⟩

/-- the segments built from the runs, before the end-point stretch -/
theorem gcov_segs0 (gs : List (List Bin)) (hne : ∀ grp ∈ gs, grp ≠ [])
    (hw : WFGenome gs.flatten) (h1c : RunsOnOneChrom gs) :
    Cov gs (gs.filterMap segOfRun) ∧ GSegsOK (gs.filterMap segOfRun) ∧
      ∀ g ∈ gs.filterMap segOfRun, SegFrom gs.flatten g := by
  induction gs with
  | nil => simp [Cov, GSegsOK]
  | cons grp gs ih =>
    have hgrp := hne grp (List.mem_cons_self ..)
    cases grp with
    | nil => exact absurd rfl hgrp
    | cons a t =>
      rw [List.flatten_cons] at hw ⊢
      obtain ⟨last, hl⟩ := exists_getLast_cons a t
      obtain ⟨g, hg, hgc, hgs, hge, hgp⟩ := segOfRun_spec a t last hl
      have hone := h1c (a :: t) (List.mem_cons_self ..)
      have hwg : WFUnit (a :: t) := (hw.sublist (List.sublist_append_left ..)).toUnit hone
      have hwr : WFGenome gs.flatten := hw.sublist (List.sublist_append_right ..)
      have hcross := (List.pairwise_append.mp hw.2).2.2
      have hlast_mem : last ∈ a :: t := List.mem_of_getLast? hl
      have hhead := hwg.head_le
      have hlast := hwg.le_last hl
      have hlpos := hwg.1 last hlast_mem
      have hal := hhead last hlast_mem
      obtain ⟨ihc, ihok, ihfrom⟩ := ih (fun x hx => hne x (List.mem_cons_of_mem _ hx)) hwr
        (fun x hx => h1c x (List.mem_cons_of_mem _ hx))
      rw [List.filterMap_cons_some hg]
      refine ⟨⟨⟨hgrp, hgp, ?_⟩, ihc⟩, ⟨?_, ?_⟩, ?_⟩
      · intro b hbm
        have h1 := hhead b hbm
        have h2 := hlast b hbm
        exact ⟨by rw [hgc]; exact h1.1.symm, by omega, by omega⟩
      · intro x hx
        rcases List.mem_cons.mp hx with rfl | hx
        · omega
        · exact ihok.1 x hx
      · refine List.pairwise_cons.mpr ⟨?_, ihok.2⟩
        intro x hx hcx
        obtain ⟨⟨b, hb, hbc, hbs⟩, _⟩ := ihfrom x hx
        have := hcross last hlast_mem b hb (by rw [← hal.1, ← hgc, hcx, hbc])
        omega
      · intro x hx
        rcases List.mem_cons.mp hx with rfl | hx
        · exact ⟨⟨a, List.mem_append_left _ (List.mem_cons_self ..), hgc.symm, hgs.symm⟩,
            ⟨last, List.mem_append_left _ hlast_mem, by rw [hgc]; exact hal.1.symm, hge.symm⟩⟩
        · exact (ihfrom x hx).mono (fun b hb => List.mem_append_right _ hb)

theorem gcov_setFirst (u : List Bin) (first : Bin) (hfm : first ∈ u)
    (hle : ∀ b ∈ u, first.chrom = b.chrom → first.s ≤ b.s)
    (gs : List (List Bin)) (segs : List SegO) (hsub : ∀ b ∈ gs.flatten, b ∈ u)
    (hc : Cov gs segs) (hok : GSegsOK segs) (hfrom : ∀ g ∈ segs, SegFrom u g) :
    Cov gs (setFirst (fun g => if g.chrom == first.chrom then { g with s := first.s } else g) segs) ∧
    GSegsOK (setFirst (fun g => if g.chrom == first.chrom then { g with s := first.s } else g) segs) ∧
    ∀ g ∈ setFirst (fun g => if g.chrom == first.chrom then { g with s := first.s } else g) segs, SegFrom u g := by
  cases segs with
  | nil => exact ⟨hc, hok, hfrom⟩
  | cons g segs =>
    cases gs with
    | nil => simp [Cov] at hc
    | cons grp gs =>
      obtain ⟨hr, hc'⟩ := hc
      have hg := hok.1 g (List.mem_cons_self ..)
      have hpw := List.pairwise_cons.mp hok.2
      have hgf := hfrom g (List.mem_cons_self ..)
      show Cov (grp :: gs) ((if (g.chrom == first.chrom) = true then { g with s := first.s } else g) :: segs) ∧
        GSegsOK ((if (g.chrom == first.chrom) = true then { g with s := first.s } else g) :: segs) ∧
        ∀ x ∈ ((if (g.chrom == first.chrom) = true then { g with s := first.s } else g) :: segs), SegFrom u x
      by_cases hch : (g.chrom == first.chrom) = true
      · rw [if_pos hch]
        have hce : g.chrom = first.chrom := by simpa using hch
        obtain ⟨⟨b0, hb0, hb0c, hb0s⟩, hge⟩ := hgf
        have hlo : first.s ≤ g.s := by
          have := hle b0 hb0 (by rw [hb0c, hce]); omega
        refine ⟨⟨⟨hr.1, hr.2.1, ?_⟩, hc'⟩, ⟨?_, ?_⟩, ?_⟩
        · intro b hb
          have hin := hr.2.2 b hb
          have hbu : b ∈ u := hsub b (by rw [List.flatten_cons]; exact List.mem_append_left _ hb)
          have hfb := hle b hbu (by rw [hin.1, hce])
          exact ⟨hin.1, hfb, hin.2.2⟩
        · intro x hx
          rcases List.mem_cons.mp hx with rfl | hx
          · show first.s < g.e; omega
          · exact hok.1 x (List.mem_cons_of_mem _ hx)
        · exact List.pairwise_cons.mpr ⟨hpw.1, hpw.2⟩
        · intro x hx
          rcases List.mem_cons.mp hx with rfl | hx
          · exact ⟨⟨first, hfm, hce.symm, rfl⟩, hge⟩
          · exact hfrom x (List.mem_cons_of_mem _ hx)
      · rw [if_neg hch]
        exact ⟨⟨hr, hc'⟩, hok, hfrom⟩

theorem gcov_setLast (u : List Bin) (last : Bin) (hlm : last ∈ u)
    (hle : ∀ b ∈ u, b.chrom = last.chrom → b.e ≤ last.e)
    (gs : List (List Bin)) (segs : List SegO) (hsub : ∀ b ∈ gs.flatten, b ∈ u)
    (hc : Cov gs segs) (hok : GSegsOK segs) (hfrom : ∀ g ∈ segs, SegFrom u g) :
    Cov gs (setLast (fun g => if g.chrom == last.chrom then { g with e := last.e } else g) segs) ∧
    GSegsOK (setLast (fun g => if g.chrom == last.chrom then { g with e := last.e } else g) segs) ∧
    ∀ g ∈ setLast (fun g => if g.chrom == last.chrom then { g with e := last.e } else g) segs, SegFrom u g := by
  induction segs generalizing gs with
  | nil => exact ⟨hc, hok, hfrom⟩
  | cons g segs ih =>
    cases gs with
    | nil => simp [Cov] at hc
    | cons grp gs =>
      obtain ⟨hr, hc'⟩ := hc
      have hg := hok.1 g (List.mem_cons_self ..)
      have hpw := List.pairwise_cons.mp hok.2
      have hgf := hfrom g (List.mem_cons_self ..)
      cases segs with
      | nil =>
        show Cov (grp :: gs) [if (g.chrom == last.chrom) = true then { g with e := last.e } else g] ∧
          GSegsOK [if (g.chrom == last.chrom) = true then { g with e := last.e } else g] ∧
          ∀ x ∈ [if (g.chrom == last.chrom) = true then { g with e := last.e } else g], SegFrom u x
        by_cases hch : (g.chrom == last.chrom) = true
        · rw [if_pos hch]
          have hce : g.chrom = last.chrom := by simpa using hch
          obtain ⟨hgs, ⟨b0, hb0, hb0c, hb0e⟩⟩ := hgf
          have hhi : g.e ≤ last.e := by
            have := hle b0 hb0 (by rw [hb0c, hce]); omega
          refine ⟨⟨⟨hr.1, hr.2.1, ?_⟩, hc'⟩, ⟨?_, ?_⟩, ?_⟩
          · intro b hb
            have := hr.2.2 b hb
            exact ⟨this.1, this.2.1, by show b.e ≤ last.e; omega⟩
          · intro x hx
            rw [List.mem_singleton] at hx
            subst hx
            show g.s < last.e; omega
          · exact List.pairwise_singleton ..
          · intro x hx
            rw [List.mem_singleton] at hx
            subst hx
            exact ⟨hgs, ⟨last, hlm, hce.symm, rfl⟩⟩
        · rw [if_neg hch]
          exact ⟨⟨hr, hc'⟩, hok, hfrom⟩
      | cons g2 segs =>
        rw [setLast_cons_cons]
        obtain ⟨ihc, ihok, ihfrom⟩ := ih gs
          (fun b hb => hsub b (by rw [List.flatten_cons]; exact List.mem_append_right _ hb))
          hc' hok.tail (fun x hx => hfrom x (List.mem_cons_of_mem _ hx))
        refine ⟨⟨hr, ihc⟩, ⟨?_, ?_⟩, ?_⟩
        · intro x hx
          rcases List.mem_cons.mp hx with rfl | hx
          · exact hg
          · exact ihok.1 x hx
        · refine List.pairwise_cons.mpr ⟨?_, ihok.2⟩
          intro x hx hcx
          obtain ⟨x0, hx0, hsc⟩ := setLast_mem_inv _ (fun g : SegO => (g.chrom, g.s)) (by
            intro y; show ((if (y.chrom == last.chrom) = true then { y with e := last.e } else y).chrom,
              (if (y.chrom == last.chrom) = true then { y with e := last.e } else y).s) = (y.chrom, y.s)
            split <;> rfl) _ x hx
          have h1 : x0.chrom = x.chrom := congrArg Prod.fst hsc
          have h2 : x0.s = x.s := congrArg Prod.snd hsc
          have := hpw.1 x0 hx0 (by rw [h1]; exact hcx)
          omega
        · intro x hx
          rcases List.mem_cons.mp hx with rfl | hx
          · exact hgf
          · exact ihfrom x hx

theorem gcov_map (u : List Bin) (h : SegO → SegO)
    (hh : ∀ g, (h g).chrom = g.chrom ∧ (h g).s = g.s ∧ (h g).e = g.e ∧ (h g).probes = g.probes)
    (gs : List (List Bin)) (segs : List SegO) (hc : Cov gs segs) (hok : GSegsOK segs)
    (hfrom : ∀ g ∈ segs, SegFrom u g) :
    Cov gs (segs.map h) ∧ GSegsOK (segs.map h) ∧ ∀ g ∈ segs.map h, SegFrom u g := by
  refine ⟨?_, ⟨?_, ?_⟩, ?_⟩
  · induction gs generalizing segs with
    | nil => cases segs <;> simp [Cov] at hc ⊢
    | cons grp gs ih =>
      cases segs with
      | nil => simp [Cov] at hc
      | cons g segs =>
        obtain ⟨hr, hc'⟩ := hc
        obtain ⟨h1, h2, h3, h4⟩ := hh g
        refine ⟨⟨hr.1, by rw [h4]; exact hr.2.1, ?_⟩,
          ih segs hc' hok.tail (fun x hx => hfrom x (List.mem_cons_of_mem _ hx))⟩
        intro b hb
        rw [h1, h2, h3]; exact hr.2.2 b hb
  · intro x hx
    obtain ⟨g, hg, rfl⟩ := List.mem_map.mp hx
    obtain ⟨h1, h2, h3, h4⟩ := hh g
    rw [h2, h3]; exact hok.1 g hg
  · rw [List.pairwise_map]
    refine hok.2.imp ?_
    intro a b hab
    rw [(hh a).1, (hh b).1, (hh a).2.2.1, (hh b).2.1]; exact hab
  · intro x hx
    obtain ⟨g, hg, rfl⟩ := List.mem_map.mp hx
    obtain ⟨h1, h2, h3, h4⟩ := hh g
    obtain ⟨⟨a, ha, hac, has⟩, ⟨b, hb, hbc, hbe⟩⟩ := hfrom g hg
    exact ⟨⟨a, ha, by rw [h1]; exact hac, by rw [h2]; exact has⟩, ⟨b, hb, by rw [h1]; exact hbc, by rw [h3]; exact hbe⟩⟩

/-! ### the assembled segments of a whole table -/

theorem assembleGenome_inv (first : Bin) (t : List Bin) (hw : WFGenome (first :: t)) (runs : List Nat)
    (h1c : RunsOnOneChrom (splitLens ((first :: t).filter (·.keep)) runs)) :
    ∃ gs, gs.flatten = (first :: t).filter (·.keep) ∧
      Cov gs (assembleUnit (first :: t) runs) ∧
      GSegsOK (assembleUnit (first :: t) runs) ∧
      ∀ g ∈ assembleUnit (first :: t) runs, SegFrom (first :: t) g := by
  obtain ⟨last, hl⟩ := exists_getLast_cons first t
  have hlast_mem : last ∈ first :: t := List.mem_of_getLast? hl
  rw [assembleUnit_cons_eq, hl, Option.getD_some]
  revert h1c
  generalize hsv : (first :: t).filter (·.keep) = sv
  intro h1c
  by_cases hem : sv = []
  · subst hem
    exact ⟨[], rfl, by simp [Cov], by simp [GSegsOK], by simp⟩
  · have hie : sv.isEmpty = false := by simpa [List.isEmpty_iff] using hem
    rw [hie]
    simp only [Bool.false_eq_true, if_false]
    have hsub : sv.Sublist (first :: t) := hsv ▸ List.filter_sublist
    have hwsv : WFGenome sv := hw.sublist hsub
    have hfl := splitLens_flatten sv runs
    have hsubm : ∀ b ∈ (splitLens sv runs).flatten, b ∈ first :: t := by
      intro b hb; rw [hfl] at hb; exact hsub.subset hb
    have h0 := gcov_segs0 (splitLens sv runs) (splitLens_nonempty sv runs) (by rw [hfl]; exact hwsv) h1c
    have h0f : ∀ g ∈ (splitLens sv runs).filterMap segOfRun, SegFrom (first :: t) g :=
      fun g hg => (h0.2.2 g hg).mono hsubm
    generalize (splitLens sv runs).filterMap segOfRun = segs0 at h0 h0f
    have h1 := gcov_setFirst (first :: t) first (List.mem_cons_self ..) hw.head_le _ _ hsubm h0.1 h0.2.1 h0f
    have h2 := gcov_setLast (first :: t) last hlast_mem (hw.le_last hl) _ _ hsubm h1.1 h1.2.1 h1.2.2
    have h3 := gcov_map (first :: t) (aggregate (first :: t)) (aggregate_keeps (first :: t)) _ _ h2.1 h2.2.1 h2.2.2
    exact ⟨splitLens sv runs, hfl, h3.1, h3.2.1, h3.2.2⟩

/-- whole-table unit: positive, and sorted / disjoint within each chromosome -/
theorem assembleGenome_sorted_disjoint (u : List Bin) (hw : WFGenome u) (runs : List Nat)
    (h1c : RunsOnOneChrom (splitLens (u.filter (·.keep)) runs)) :
    (∀ g ∈ assembleUnit u runs, g.s < g.e) ∧
    (assembleUnit u runs).Pairwise (fun a b => a.chrom = b.chrom → a.e ≤ b.s) := by
  cases u with
  | nil => simp [assembleUnit_nil]
  | cons first t =>
    obtain ⟨gs, _, _, hok, _⟩ := assembleGenome_inv first t hw runs h1c
    exact hok

/-- whole-table unit: both ends of every segment are boundaries of input bins of the segment's chromosome -/
theorem assembleGenome_within (u : List Bin) (hw : WFGenome u) (runs : List Nat)
    (h1c : RunsOnOneChrom (splitLens (u.filter (·.keep)) runs)) :
    ∀ g ∈ assembleUnit u runs, SegFrom u g := by
  cases u with
  | nil => simp [assembleUnit_nil]
  | cons first t =>
    obtain ⟨gs, _, _, _, hfrom⟩ := assembleGenome_inv first t hw runs h1c
    exact hfrom

theorem assembleGenome_each_survivor_once (u : List Bin) (hw : WFGenome u) (runs : List Nat)
    (h1c : RunsOnOneChrom (splitLens (u.filter (·.keep)) runs)) :
    ∀ b ∈ u, b.keep = true → ((assembleUnit u runs).filter (containedIn b)).length = 1 := by
  cases u with
  | nil => simp
  | cons first t =>
    obtain ⟨gs, hfl, hc, hok, _⟩ := assembleGenome_inv first t hw runs h1c
    intro b hb hk
    have hbm : b ∈ gs.flatten := by rw [hfl]; exact List.mem_filter.mpr ⟨hb, hk⟩
    refine hc.gonce hok ?_ hbm
    intro x hx
    rw [hfl] at hx
    exact hw.1 x (List.mem_filter.mp hx).1

theorem assembleGenome_probes_count (u : List Bin) (hw : WFGenome u) (runs : List Nat)
    (h1c : RunsOnOneChrom (splitLens (u.filter (·.keep)) runs)) :
    ∀ g ∈ assembleUnit u runs,
      g.probes = ((u.filter (fun b => b.keep && containedIn b g)).length : Int) := by
  cases u with
  | nil => simp [assembleUnit_nil]
  | cons first t =>
    obtain ⟨gs, hfl, hc, hok, _⟩ := assembleGenome_inv first t hw runs h1c
    intro g hg
    have hpos : ∀ x ∈ gs.flatten, x.s < x.e := by
      intro x hx
      rw [hfl] at hx
      exact hw.1 x (List.mem_filter.mp hx).1
    rw [hc.gcount hok hpos hg, hfl, List.filter_filter]
    have : (fun a : Bin => containedIn a g && a.keep) = (fun b : Bin => b.keep && containedIn b g) := by
      funext a; exact Bool.and_comm _ _
    rw [this]

/-- every chromosome with a surviving bin has a segment -/
theorem assembleGenome_chrom_has_segment (u : List Bin) (hw : WFGenome u) (runs : List Nat)
    (h1c : RunsOnOneChrom (splitLens (u.filter (·.keep)) runs)) :
    ∀ b ∈ u, b.keep = true → ∃ g ∈ assembleUnit u runs, g.chrom = b.chrom := by
  intro b hb hk
  have h := assembleGenome_each_survivor_once u hw runs h1c b hb hk
  cases hf : (assembleUnit u runs).filter (containedIn b) with
  | nil => rw [hf] at h; simp at h
  | cons g rest =>
    have hg : g ∈ (assembleUnit u runs).filter (containedIn b) := by rw [hf]; exact List.mem_cons_self ..
    obtain ⟨hgm, hcon⟩ := List.mem_filter.mp hg
    exact ⟨g, hgm, ((containedIn_iff b g).mp hcon).1.symm⟩

end CnvVerif
