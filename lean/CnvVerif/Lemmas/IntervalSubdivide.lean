/-
  `subdivide` at the table level (any number of chromosomes, any row order): the bins of every chromosome are the bins
  of its merged regions of at least the minimum size, they cover exactly those regions, and they are in order and
  pairwise disjoint.  (C06; the per-region statements `subdivide_exact` / `subdivide_count` are in Interval2.lean.)
-/
import CnvVerif.Lemmas.IntervalTable
import Mathlib.Data.Rat.Floor
namespace CnvVerif

theorem cov_append (a b : List Row) (p : Int) : cov (a ++ b) p ↔ cov a p ∨ cov b p := by
  simp only [cov, List.mem_append]
  constructor
  · rintro ⟨r, hr | hr, h⟩
    · exact Or.inl ⟨r, hr, h⟩
    · exact Or.inr ⟨r, hr, h⟩
  · rintro (⟨r, hr, h⟩ | ⟨r, hr, h⟩)
    · exact ⟨r, Or.inl hr, h⟩
    · exact ⟨r, Or.inr hr, h⟩

theorem cov_flatMap_sub {α} (l : List α) (f : α → List Row) (p : Int) :
    cov (l.flatMap f) p ↔ ∃ a ∈ l, cov (f a) p := by
  simp only [cov, List.mem_flatMap]
  constructor
  · rintro ⟨r, ⟨a, ha, hr⟩, h⟩; exact ⟨a, ha, r, hr, h⟩
  · rintro ⟨a, ha, r, hr, h⟩; exact ⟨r, ⟨a, ha, hr⟩, h⟩

/-! ### consecutive cuts at a monotone sequence of positions -/

theorem cuts_mono (cut : Nat → Int) (hm : ∀ i, cut i ≤ cut (i + 1)) (i j : Nat) (h : i ≤ j) :
    cut i ≤ cut j := by
  induction j with
  | zero =>
    have : i = 0 := by omega
    subst this; exact Int.le_refl _
  | succ k ih =>
    by_cases hk : i ≤ k
    · have := ih hk; have := hm k; omega
    · have : i = k + 1 := by omega
      subst this; exact Int.le_refl _

theorem cuts_cov (r : Row) (cut : Nat → Int) (hm : ∀ i, cut i ≤ cut (i + 1)) (k : Nat) (p : Int) :
    cov ((List.range k).map fun i => { r with s := cut i, e := cut (i + 1) }) p ↔
      cut 0 ≤ p ∧ p < cut k := by
  induction k with
  | zero =>
    simp only [List.range_zero, List.map_nil, cov_nil]
    constructor
    · exact False.elim
    · intro h; omega
  | succ k ih =>
    rw [List.range_succ, List.map_append, cov_append, ih]
    simp only [List.map_cons, List.map_nil, cov_cons, cov_nil, or_false]
    have h0 := cuts_mono cut hm 0 k (by omega)
    have h1 := hm k
    show (cut 0 ≤ p ∧ p < cut k) ∨ (cut k ≤ p ∧ p < cut (k + 1)) ↔ _
    omega

theorem cuts_disjoint (r : Row) (cut : Nat → Int) (hm : ∀ i, cut i ≤ cut (i + 1)) (k : Nat) :
    ((List.range k).map fun i => ({ r with s := cut i, e := cut (i + 1) } : Row)).Pairwise
      (fun a b => a.e ≤ b.s) := by
  rw [List.pairwise_map]
  refine List.Pairwise.imp ?_ (List.pairwise_lt_range (n := k))
  intro i j hij
  exact cuts_mono cut hm (i + 1) j hij

/-! ### one region -/

theorem splitInto_cut_mono (r : Row) (n : Nat) (hn : 1 ≤ n) (hlen : 0 ≤ r.e - r.s) (i : Nat) :
    r.s + ((i : Int) * (r.e - r.s)) / (n : Int) ≤ r.s + (((i + 1 : Nat) : Int) * (r.e - r.s)) / (n : Int) := by
  have hnpos : (0 : Int) < (n : Int) := by omega
  have : (i : Int) * (r.e - r.s) ≤ ((i + 1 : Nat) : Int) * (r.e - r.s) := by
    apply Int.mul_le_mul_of_nonneg_right _ hlen
    omega
  have := Int.ediv_le_ediv hnpos this
  omega

/-- the bins of one region cover it exactly (any bin count ≥ 1, also more bins than bases) -/
theorem splitInto_cov (r : Row) (n : Nat) (hn : 1 ≤ n) (hlen : 0 ≤ r.e - r.s) (p : Int) :
    cov (splitInto r n) p ↔ r.s ≤ p ∧ p < r.e := by
  have hnpos : (0 : Int) < (n : Int) := by omega
  unfold splitInto
  simp only
  rw [cuts_cov r (fun i => r.s + ((i : Int) * (r.e - r.s)) / (n : Int))
    (splitInto_cut_mono r n hn hlen) n p]
  simp only [Int.natCast_zero, Int.zero_mul, Int.zero_ediv, Int.add_zero]
  rw [Int.mul_ediv_cancel_left _ (Int.ne_of_gt hnpos)]
  omega

theorem splitInto_disjoint (r : Row) (n : Nat) (hn : 1 ≤ n) (hlen : 0 ≤ r.e - r.s) :
    (splitInto r n).Pairwise (fun a b => a.e ≤ b.s) := by
  unfold splitInto
  exact cuts_disjoint r (fun i => r.s + ((i : Int) * (r.e - r.s)) / (n : Int))
    (splitInto_cut_mono r n hn hlen) n

theorem splitInto_within (r : Row) (n : Nat) (hn : 1 ≤ n) (hlen : 0 ≤ r.e - r.s) :
    ∀ b ∈ splitInto r n, b.chrom = r.chrom ∧ b.gene = r.gene ∧ r.s ≤ b.s ∧ b.s ≤ b.e ∧ b.e ≤ r.e := by
  have hnpos : (0 : Int) < (n : Int) := by omega
  intro b hb
  unfold splitInto at hb
  simp only [List.mem_map, List.mem_range] at hb
  obtain ⟨i, hi, rfl⟩ := hb
  refine ⟨rfl, rfl, ?_, splitInto_cut_mono r n hn hlen i, ?_⟩
  · have h0 := cuts_mono (fun i => r.s + ((i : Int) * (r.e - r.s)) / (n : Int))
      (splitInto_cut_mono r n hn hlen) 0 i (by omega)
    simp only [Int.natCast_zero, Int.zero_mul, Int.zero_ediv, Int.add_zero] at h0
    exact h0
  · have h1 := cuts_mono (fun i => r.s + ((i : Int) * (r.e - r.s)) / (n : Int))
      (splitInto_cut_mono r n hn hlen) (i + 1) n (by omega)
    rw [Int.mul_ediv_cancel_left _ (Int.ne_of_gt hnpos)] at h1
    show r.s + _ ≤ r.e
    omega

/-- Python's `round` of a non-negative number is non-negative -/
theorem roundHalfEven_nonneg_sub (q : Rat) (hq : 0 ≤ q) : 0 ≤ roundHalfEven q := by
  have hf : 0 ≤ q.floor := (Int.floor_nonneg (a := q)).mpr hq
  unfold roundHalfEven
  simp only
  split
  · exact hf
  · split
    · omega
    · split <;> omega

/-- the bin count `int(round(span / avg)) or 1` is at least one for every positive average size -/
theorem splitRow_cases (avg : Rat) (havg : 0 < avg) (minSize : Int) (r : Row) (hlen : 0 ≤ r.e - r.s) :
    splitRow avg minSize r = [] ∧ r.e - r.s < minSize ∨
    minSize ≤ r.e - r.s ∧ (splitRow avg minSize r = [r] ∨
      ∃ n : Nat, 2 ≤ n ∧ (n : Int) = roundHalfEven (((r.e - r.s : Int) : Rat) / avg) ∧
        splitRow avg minSize r = splitInto r n) := by
  by_cases hmin : minSize ≤ r.e - r.s
  · right
    refine ⟨hmin, ?_⟩
    have hq : 0 ≤ ((r.e - r.s : Int) : Rat) / avg :=
      div_nonneg (by exact_mod_cast hlen) (le_of_lt havg)
    have hnn := roundHalfEven_nonneg_sub _ hq
    unfold splitRow
    simp only
    rw [if_pos (by omega)]
    generalize roundHalfEven (((r.e - r.s : Int) : Rat) / avg) = nb at hnn ⊢
    by_cases h0 : nb = 0
    · left; subst h0; rfl
    · have hb : (nb == 0) = false := by simpa using h0
      simp only [hb, Bool.false_eq_true, if_false]
      by_cases h1 : nb.toNat = 1
      · left; simp [h1]
      · right
        refine ⟨nb.toNat, by omega, by omega, ?_⟩
        have : (nb.toNat == 1) = false := by simpa using h1
        simp [this]
  · left
    exact ⟨splitRow_small avg minSize r (by omega), by omega⟩

/-- one region: its bins cover it exactly when it is at least `minSize` long, and nothing otherwise -/
theorem splitRow_cov (avg : Rat) (havg : 0 < avg) (minSize : Int) (r : Row) (hlen : 0 ≤ r.e - r.s) (p : Int) :
    cov (splitRow avg minSize r) p ↔ minSize ≤ r.e - r.s ∧ r.s ≤ p ∧ p < r.e := by
  rcases splitRow_cases avg havg minSize r hlen with ⟨h, hlt⟩ | ⟨hge, h | ⟨n, hn, _, h⟩⟩
  · rw [h, cov_nil]; constructor
    · exact False.elim
    · intro h; omega
  · rw [h, cov_cons, cov_nil]; constructor
    · rintro (h | h)
      · exact ⟨hge, h⟩
      · exact h.elim
    · intro h; exact Or.inl h.2
  · rw [h, splitInto_cov r n (by omega) hlen]
    constructor
    · intro h; exact ⟨hge, h⟩
    · intro h; exact h.2

theorem splitRow_within_region (avg : Rat) (havg : 0 < avg) (minSize : Int) (r : Row) (hlen : 0 ≤ r.e - r.s) :
    ∀ b ∈ splitRow avg minSize r, b.chrom = r.chrom ∧ b.gene = r.gene ∧ r.s ≤ b.s ∧ b.s ≤ b.e ∧ b.e ≤ r.e := by
  rcases splitRow_cases avg havg minSize r hlen with ⟨h, _⟩ | ⟨_, h | ⟨n, hn, _, h⟩⟩
  · rw [h]; intro b hb; simp at hb
  · rw [h]; intro b hb
    simp only [List.mem_singleton] at hb
    subst hb
    exact ⟨rfl, rfl, Int.le_refl _, by omega, Int.le_refl _⟩
  · rw [h]; exact splitInto_within r n (by omega) hlen

theorem splitRow_disjoint (avg : Rat) (havg : 0 < avg) (minSize : Int) (r : Row) (hlen : 0 ≤ r.e - r.s) :
    (splitRow avg minSize r).Pairwise (fun a b => a.e ≤ b.s) := by
  rcases splitRow_cases avg havg minSize r hlen with ⟨h, _⟩ | ⟨_, h | ⟨n, hn, _, h⟩⟩
  · rw [h]; exact List.Pairwise.nil
  · rw [h]; exact List.pairwise_singleton _ _
  · rw [h]; exact splitInto_disjoint r n (by omega) hlen

/-- every bin is on the chromosome of its region -- without any hypothesis on the numbers -/
theorem splitInto_chrom (r : Row) (n : Nat) : ∀ b ∈ splitInto r n, b.chrom = r.chrom := by
  intro b hb
  unfold splitInto at hb
  simp only [List.mem_map] at hb
  obtain ⟨i, _, rfl⟩ := hb
  rfl

theorem splitRow_chrom (avg : Rat) (minSize : Int) (r : Row) : ∀ b ∈ splitRow avg minSize r, b.chrom = r.chrom := by
  intro b hb
  unfold splitRow at hb
  simp only at hb
  by_cases h1 : r.e - r.s ≥ minSize
  · rw [if_pos h1] at hb
    have key : ∀ n : Nat, b ∈ (if (n == 1) = true then [r] else splitInto r n) → b.chrom = r.chrom := by
      intro n h
      split at h
      · simp only [List.mem_singleton] at h; rw [h]
      · exact splitInto_chrom r _ b h
    exact key _ hb
  · rw [if_neg h1] at hb
    simp at hb

/-! ### the table -/

theorem rowsOf_flatMap_chrom (f : Row → List Row) (hf : ∀ r, ∀ b ∈ f r, b.chrom = r.chrom) (m : Table)
    (c : String) : rowsOf (m.flatMap f) c = (rowsOf m c).flatMap f := by
  induction m with
  | nil => rfl
  | cons r m ih =>
    unfold rowsOf at ih ⊢
    rw [List.flatMap_cons, List.filter_append, ih]
    by_cases h : r.chrom = c
    · have : (f r).filter (fun x => x.chrom == c) = f r :=
        rowsOf_eq_self _ c (fun b hb => (hf r b hb).trans h)
      simp [this, h]
    · have : (f r).filter (fun x => x.chrom == c) = [] :=
        rowsOf_eq_nil _ c (fun b hb => by rw [hf r b hb]; exact h)
      simp [this, h]

/-- the bins of one chromosome are the bins of that chromosome's merged regions, region after region -/
theorem rowsOf_subdivideTable (avg : Rat) (minSize : Int) (t : Table) (c : String) :
    rowsOf (subdivideTable avg minSize t) c = (rowsOf (mergeTable 0 t) c).flatMap (splitRow avg minSize) :=
  rowsOf_flatMap_chrom (splitRow avg minSize) (splitRow_chrom avg minSize) (mergeTable 0 t) c

/-- the bins cover exactly the merged regions that are at least `minSize` long -/
theorem subdivideTable_cov (avg : Rat) (havg : 0 < avg) (minSize : Int) (t : Table)
    (hp : ∀ r ∈ t, r.s < r.e) (c : String) (p : Int) :
    cov (rowsOf (subdivideTable avg minSize t) c) p ↔
      ∃ m ∈ rowsOf (mergeTable 0 t) c, minSize ≤ m.e - m.s ∧ m.s ≤ p ∧ p < m.e := by
  rw [rowsOf_subdivideTable, cov_flatMap_sub]
  have hcan := mergeTable_canon t hp c
  constructor
  · rintro ⟨m, hm, h⟩
    exact ⟨m, hm, (splitRow_cov avg havg minSize m (by have := hcan.1 m hm; omega) p).mp h⟩
  · rintro ⟨m, hm, h⟩
    exact ⟨m, hm, (splitRow_cov avg havg minSize m (by have := hcan.1 m hm; omega) p).mpr h⟩

/-- with no minimum size (the default `min_size = 0`, or any `min_size ≤ 1`) subdivide neither loses nor invents a
    base -/
theorem subdivideTable_cov_all (avg : Rat) (havg : 0 < avg) (minSize : Int) (hmin : minSize ≤ 1) (t : Table)
    (hp : ∀ r ∈ t, r.s < r.e) (c : String) (p : Int) :
    cov (rowsOf (subdivideTable avg minSize t) c) p ↔ cov (rowsOf t c) p := by
  rw [subdivideTable_cov avg havg minSize t hp c p, ← mergeTable_cov 0 (Int.le_refl 0) t c p]
  have hcan := mergeTable_canon t hp c
  constructor
  · rintro ⟨m, hm, _, h⟩; exact ⟨m, hm, h⟩
  · rintro ⟨m, hm, h⟩; exact ⟨m, hm, by have := hcan.1 m hm; omega, h⟩

/-- the bins of a chromosome are in order and pairwise disjoint, and each lies inside one merged region whose other
    fields it carries -/
theorem subdivideTable_disjoint (avg : Rat) (havg : 0 < avg) (minSize : Int) (t : Table)
    (hp : ∀ r ∈ t, r.s < r.e) (c : String) :
    (rowsOf (subdivideTable avg minSize t) c).Pairwise (fun a b => a.e ≤ b.s) ∧
    ∀ b ∈ rowsOf (subdivideTable avg minSize t) c, ∃ m ∈ rowsOf (mergeTable 0 t) c,
      minSize ≤ m.e - m.s ∧ b.gene = m.gene ∧ m.s ≤ b.s ∧ b.s ≤ b.e ∧ b.e ≤ m.e := by
  rw [rowsOf_subdivideTable]
  have hcan := mergeTable_canon t hp c
  have hlen : ∀ m ∈ rowsOf (mergeTable 0 t) c, 0 ≤ m.e - m.s := fun m hm => by
    have := hcan.1 m hm; omega
  refine ⟨?_, ?_⟩
  · rw [List.pairwise_flatMap]
    refine ⟨fun m hm => splitRow_disjoint avg havg minSize m (hlen m hm), ?_⟩
    refine List.Pairwise.imp_of_mem ?_ hcan.2
    intro m1 m2 h1 h2 h12 x hx y hy
    have hx' := splitRow_within_region avg havg minSize m1 (hlen m1 h1) x hx
    have hy' := splitRow_within_region avg havg minSize m2 (hlen m2 h2) y hy
    omega
  · intro b hb
    obtain ⟨m, hm, hbm⟩ := List.mem_flatMap.mp hb
    have hw := splitRow_within_region avg havg minSize m (hlen m hm) b hbm
    refine ⟨m, hm, ?_, hw.2.1, hw.2.2.1, hw.2.2.2.1, hw.2.2.2.2⟩
    by_contra hlt
    rw [splitRow_small avg minSize m (by omega)] at hbm
    simp at hbm

end CnvVerif
