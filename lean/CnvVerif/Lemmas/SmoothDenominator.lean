/-
  When can the denominator `N_i = (w ⊛ win)_i` of the weighted convolution vanish?  A window with negative
  lobes tolerates weights whose max/min ratio stays below `winPos win / winNeg win`; for the default
  7-point cubic Savitzky–Golay window that bound is 25/4 and it is sharp.
-/
import CnvVerif.Lemmas.Smoothing
set_option linter.unusedSimpArgs false
set_option linter.unusedVariables false
namespace CnvVerif.Smooth
open CnvVerif.Generated CnvVerif.Desc

/-! ### positive and negative part of a window -/

/-- total of the positive coefficients of a window -/
def winPos (c : List Rat) : Rat := (c.map (fun v => max v 0)).sum
/-- total size of the negative coefficients -/
def winNeg (c : List Rat) : Rat := (c.map (fun v => max (-v) 0)).sum

theorem winPos_nil : winPos [] = 0 := by simp [winPos]
theorem winNeg_nil : winNeg [] = 0 := by simp [winNeg]
theorem winPos_cons (a : Rat) (t : List Rat) : winPos (a :: t) = max a 0 + winPos t := by simp [winPos]
theorem winNeg_cons (a : Rat) (t : List Rat) : winNeg (a :: t) = max (-a) 0 + winNeg t := by simp [winNeg]

theorem winPos_nonneg (c : List Rat) : 0 ≤ winPos c := by
  induction c with
  | nil => simp [winPos]
  | cons a t ih => rw [winPos_cons]; exact add_nonneg (le_max_right _ _) ih

theorem winNeg_nonneg (c : List Rat) : 0 ≤ winNeg c := by
  induction c with
  | nil => simp [winNeg]
  | cons a t ih => rw [winNeg_cons]; exact add_nonneg (le_max_right _ _) ih

theorem max_sub_max_neg (v : Rat) : max v 0 - max (-v) 0 = v := by
  rcases le_total 0 v with h | h
  · rw [max_eq_left h, max_eq_right (by linarith)]; ring
  · rw [max_eq_right h, max_eq_left (by linarith)]; ring

theorem winPos_sub_winNeg (c : List Rat) : winPos c - winNeg c = c.sum := by
  induction c with
  | nil => simp [winPos, winNeg]
  | cons a t ih =>
    rw [winPos_cons, winNeg_cons, List.sum_cons, ← ih]
    have := max_sub_max_neg a
    linarith

/-! ### bounds of a signed weighted sum -/

theorem dot_ge_of_bounds (c v : List Rat) (hlen : c.length = v.length) (m M : Rat)
    (hv : ∀ u ∈ v, m ≤ u ∧ u ≤ M) : m * winPos c - M * winNeg c ≤ dot c v := by
  induction c generalizing v with
  | nil => simp [dot, winPos, winNeg]
  | cons a t ih =>
    match v, hlen with
    | u :: v', hlen =>
      have hu := hv u (by simp)
      have := ih v' (by simpa using hlen) (fun z hz => hv z (List.mem_cons_of_mem _ hz))
      rw [dot_cons, winPos_cons, winNeg_cons]
      rcases le_total 0 a with ha | ha
      · rw [max_eq_left ha, max_eq_right (by linarith)]
        nlinarith [mul_le_mul_of_nonneg_left hu.1 ha]
      · rw [max_eq_right ha, max_eq_left (by linarith)]
        nlinarith [mul_le_mul_of_nonneg_left hu.2 (by linarith : (0 : Rat) ≤ -a)]

theorem dot_le_of_bounds (c v : List Rat) (hlen : c.length = v.length) (m M : Rat)
    (hv : ∀ u ∈ v, m ≤ u ∧ u ≤ M) : dot c v ≤ M * winPos c - m * winNeg c := by
  induction c generalizing v with
  | nil => simp [dot, winPos, winNeg]
  | cons a t ih =>
    match v, hlen with
    | u :: v', hlen =>
      have hu := hv u (by simp)
      have := ih v' (by simpa using hlen) (fun z hz => hv z (List.mem_cons_of_mem _ hz))
      rw [dot_cons, winPos_cons, winNeg_cons]
      rcases le_total 0 a with ha | ha
      · rw [max_eq_left ha, max_eq_right (by linarith)]
        nlinarith [mul_le_mul_of_nonneg_left hu.2 ha]
      · rw [max_eq_right ha, max_eq_left (by linarith)]
        nlinarith [mul_le_mul_of_nonneg_left hu.1 (by linarith : (0 : Rat) ≤ -a)]

/-- values whose max/min ratio stays below `winPos c / winNeg c` have a positive signed sum -/
theorem dot_pos_of_ratio (c v : List Rat) (hlen : c.length = v.length) (m M : Rat)
    (hv : ∀ u ∈ v, m ≤ u ∧ u ≤ M) (hratio : M * winNeg c < m * winPos c) : 0 < dot c v := by
  have := dot_ge_of_bounds c v hlen m M hv
  linarith

/-! ### sharpness for the default 7-point cubic window -/

theorem cubic7_parts :
    winPos (normalise [-2/21, 3/21, 6/21, 7/21, 6/21, 3/21, -2/21]) = 25/21 ∧
    winNeg (normalise [-2/21, 3/21, 6/21, 7/21, 6/21, 3/21, -2/21]) = 4/21 := by
  decide +kernel

theorem cubic7_ratio_sharp :
    dot (normalise [-2/21, 3/21, 6/21, 7/21, 6/21, 3/21, -2/21]) [25, 4, 4, 4, 4, 4, 25] = 0 := by
  decide +kernel

/-! ### one pass on an arbitrary finite signal -/

theorem convSameOpt_map_some (win l : List Rat) : convSameOpt win (l.map some) = (convSame win l).map some := by
  unfold convSameOpt
  simp only []
  have hall : (l.map some).all (·.isSome) = true := by simp [List.all_eq_true]
  rw [if_pos hall, List.map_map]
  have : ((fun x : Option Rat => x.getD 0) ∘ some) = id := by funext x; rfl
  rw [this, List.map_id]

theorem cwStep_weights (win : List Rat) (st : List (Option Rat) × List Rat) :
    (cwStep win st).2 = convSame win st.2 := by
  obtain ⟨y, w⟩ := st
  rfl

/-- one weighted pass: the value at `i` is `D_i / N_i`, undefined exactly where `N_i = 0` -/
theorem cwStep_values (win y w : List Rat) (hlen : y.length = w.length) :
    (cwStep win (y.map some, w)).1 =
      ((convSame win ((w.zip y).map (fun p => p.1 * p.2))).zip (convSame win w)).map
        (fun p => if p.2 = 0 then none else some (p.1 / p.2)) := by
  unfold cwStep
  simp only []
  have hzip : (w.zip (y.map some)).map (fun p => p.2.map (p.1 * ·)) =
      ((w.zip y).map (fun p => p.1 * p.2)).map some := by
    apply List.ext_getElem (by simp)
    intro i h1 h2
    simp
  rw [hzip, convSameOpt_map_some]
  apply List.ext_getElem (by simp [convSame_length])
  intro i h1 h2
  simp only [List.getElem_map, List.getElem_zip]
  split
  · rfl
  · simp only [Option.map_some]

/-! ### the denominator away from the ends of the array -/

/-- where the window lies inside the array, the denominator is positive as soon as the weights stay within the
    ratio the window tolerates -/
theorem convSame_pos_of_ratio_local (win wts : List Rat) (hwd : Nat) (hwin : win.length = 2 * hwd + 1) (m M : Rat)
    (i : Nat) (hi : i + 2 * hwd + 1 ≤ wts.length)
    (hb : ∀ u ∈ (wts.drop i).take (2 * hwd + 1), m ≤ u ∧ u ≤ M) (hratio : M * winNeg win < m * winPos win)
    (hk : hwd + i < (convSame win wts).length) : 0 < (convSame win wts)[hwd + i] := by
  have hw' : (win.length - 1) / 2 = hwd := by omega
  rw [convSame_getElem, hw', windowAt_inner hwd wts i (by omega)]
  apply dot_pos_of_ratio win _ _ m M _ hratio
  · rw [List.length_reverse, List.length_take, List.length_drop, hwin]; omega
  · intro u hu
    exact hb u (List.mem_reverse.mp hu)

theorem convSame_pos_of_ratio (win wts : List Rat) (hwd : Nat) (hwin : win.length = 2 * hwd + 1) (m M : Rat)
    (hb : ∀ u ∈ wts, m ≤ u ∧ u ≤ M) (hratio : M * winNeg win < m * winPos win)
    (k : Nat) (hk1 : hwd ≤ k) (hk2 : k + hwd < wts.length) (hk : k < (convSame win wts).length) :
    0 < (convSame win wts)[k] := by
  obtain ⟨i, rfl⟩ : ∃ i, k = hwd + i := ⟨k - hwd, by omega⟩
  exact convSame_pos_of_ratio_local win wts hwd hwin m M i (by omega)
    (fun u hu => hb u (List.mem_of_mem_drop (List.mem_of_mem_take hu))) hratio hk

/-- a window inside a stretch of the array sees only values of that stretch -/
theorem mem_stretch_of_mem_window (l : List Rat) (a j len L : Nat) (hj : j + len ≤ L) :
    ∀ u ∈ (l.drop (a + j)).take len, u ∈ (l.drop a).take L := by
  intro u hu
  obtain ⟨t, ht, rfl⟩ := List.getElem_of_mem hu
  rw [List.length_take, List.length_drop] at ht
  rw [List.getElem_take, List.getElem_drop]
  apply List.mem_iff_getElem.mpr
  refine ⟨j + t, by rw [List.length_take, List.length_drop]; omega, ?_⟩
  rw [List.getElem_take, List.getElem_drop]
  congr 1; omega

/-- what `savgolGeometry` returns: the window is no wider than the padding on both sides -/
theorem savgolGeometry_width (n : Nat) (tw : Option Rat) (ww ord it : Nat) (g : Nat × Nat × Nat × Nat)
    (h : savgolGeometry n tw ww ord it = .ok g) : g.2.1 = min ww (2 * g.1 + 1) := by
  unfold savgolGeometry at h
  simp only [] at h
  split at h
  · cases h
  · injection h with h
    rw [← h]

/-- the one-pass list of `savgolWeighted` -/
theorem savgolWeighted_one_pass (x w : List Rat) (tw : Option Rat) (ww ord nIter : Nat) (coeffs : List Rat)
    (y : List (Option Rat)) (hx : 2 ≤ x.length)
    (wing ww' ord' : Nat) (hg : savgolGeometry x.length tw ww ord nIter = .ok (wing, ww', ord', 1))
    (h : savgolWeighted x w tw ww ord nIter coeffs = .ok y) :
    y = unpad (cwStep (normalise coeffs) ((padArray x wing).map some, rollOff (padArray w wing) wing)).1 wing := by
  unfold savgolWeighted at h
  rw [if_neg (by omega), hg] at h
  simp only [] at h
  injection h with h
  rw [← h]
  rfl

/-- the same with the window contents located by the centre -/
theorem convSame_pos_of_ratio_at (win wts : List Rat) (hwd : Nat) (hwin : win.length = 2 * hwd + 1) (m M : Rat)
    (k : Nat) (hk1 : hwd ≤ k) (hk2 : k + hwd < wts.length)
    (hb : ∀ u ∈ (wts.drop (k - hwd)).take (2 * hwd + 1), m ≤ u ∧ u ≤ M) (hratio : M * winNeg win < m * winPos win)
    (hk : k < (convSame win wts).length) : 0 < (convSame win wts)[k] := by
  obtain ⟨i, rfl⟩ : ∃ i, k = hwd + i := ⟨k - hwd, by omega⟩
  rw [show hwd + i - hwd = i by omega] at hb
  exact convSame_pos_of_ratio_local win wts hwd hwin m M i (by omega) hb hratio hk

/-- the denominators of the kept positions are positive; only the weights the kept windows see
    (`x.length + 2·⌊ww'/2⌋` values around the kept part) have to respect the ratio -/
theorem savgolWeighted_denominator_pos (n : Nat) (w : List Rat) (tw : Option Rat) (ww ord nIter : Nat) (coeffs : List Rat)
    (hw : w.length = n) (wing ww' ord' it : Nat) (hg : savgolGeometry n tw ww ord nIter = .ok (wing, ww', ord', it))
    (hodd : ww' % 2 = 1) (hlen : coeffs.length = ww')
    (m M : Rat)
    (hb : ∀ u ∈ ((rollOff (padArray w wing) wing).drop (wing - (ww' - 1) / 2)).take (n + 2 * ((ww' - 1) / 2)),
      m ≤ u ∧ u ≤ M)
    (hratio : M * winNeg (normalise coeffs) < m * winPos (normalise coeffs))
    (j : Nat) (hj : j < n) (hk : wing + j < (convSame (normalise coeffs) (rollOff (padArray w wing) wing)).length) :
    0 < (convSame (normalise coeffs) (rollOff (padArray w wing) wing))[wing + j] := by
  obtain ⟨h1, h2⟩ := savgolGeometry_wing _ _ _ _ _ _ hg
  have hwidth := savgolGeometry_width _ _ _ _ _ _ hg
  simp only [] at h1 h2 hwidth
  have hpw := length_padArray w wing (by omega)
  have hwl : (rollOff (padArray w wing) wing).length = n + 2 * wing := by
    rw [rollOff_length, hpw, hw]
  obtain ⟨hwd, hhwd⟩ : ∃ hwd, ww' = 2 * hwd + 1 := ⟨ww' / 2, by omega⟩
  have hhalf : (ww' - 1) / 2 = hwd := by omega
  rw [hhalf] at hb
  have hwin : (normalise coeffs).length = 2 * hwd + 1 := by rw [normalise_length, hlen, hhwd]
  apply convSame_pos_of_ratio_at (normalise coeffs) _ hwd hwin m M (wing + j) (by omega) (by rw [hwl]; omega) _ hratio
  intro u hu
  rw [show wing + j - hwd = (wing - hwd) + j by omega] at hu
  exact hb u (mem_stretch_of_mem_window _ (wing - hwd) j (2 * hwd + 1) (n + 2 * hwd) (by omega) u hu)

/-- every output is finite when the weights the kept windows see are within the ratio the window tolerates -/
theorem savgolWeighted_finite_of_ratio_seen (x w : List Rat) (tw : Option Rat) (ww ord nIter : Nat) (coeffs : List Rat)
    (y : List (Option Rat)) (hw : w.length = x.length) (hx : 2 ≤ x.length)
    (wing ww' ord' : Nat) (hg : savgolGeometry x.length tw ww ord nIter = .ok (wing, ww', ord', 1))
    (hodd : ww' % 2 = 1) (hlen : coeffs.length = ww')
    (m M : Rat)
    (hb : ∀ u ∈ ((rollOff (padArray w wing) wing).drop (wing - (ww' - 1) / 2)).take (x.length + 2 * ((ww' - 1) / 2)),
      m ≤ u ∧ u ≤ M)
    (hratio : M * winNeg (normalise coeffs) < m * winPos (normalise coeffs))
    (h : savgolWeighted x w tw ww ord nIter coeffs = .ok y) : ∀ v ∈ y, v.isSome := by
  have hy := savgolWeighted_one_pass x w tw ww ord nIter coeffs y hx wing ww' ord' hg h
  obtain ⟨h1, h2⟩ := savgolGeometry_wing _ _ _ _ _ _ hg
  simp only [] at h1 h2
  have hpx := length_padArray x wing (by omega)
  have hpw := length_padArray w wing (by omega)
  have hwl : (rollOff (padArray w wing) wing).length = x.length + 2 * wing := by
    rw [rollOff_length, hpw, hw]
  rw [cwStep_values _ _ _ (by rw [hpx, hwl])] at hy
  intro v hv
  rw [hy] at hv
  unfold unpad at hv
  obtain ⟨j, hj, rfl⟩ := List.getElem_of_mem hv
  rw [List.getElem_take, List.getElem_drop]
  simp only [List.length_take, List.length_drop, List.length_map, List.length_zip, convSame_length, hwl] at hj
  simp only [List.getElem_map, List.getElem_zip]
  have hpos := savgolWeighted_denominator_pos x.length w tw ww ord nIter coeffs hw wing ww' ord' 1 hg hodd hlen m M hb
    hratio j (by omega) (by rw [convSame_length, hwl]; omega)
  rw [if_neg (ne_of_gt hpos)]
  rfl

theorem savgolWeighted_finite_of_ratio (x w : List Rat) (tw : Option Rat) (ww ord nIter : Nat) (coeffs : List Rat)
    (y : List (Option Rat)) (hw : w.length = x.length) (hx : 2 ≤ x.length)
    (wing ww' ord' : Nat) (hg : savgolGeometry x.length tw ww ord nIter = .ok (wing, ww', ord', 1))
    (hodd : ww' % 2 = 1) (hlen : coeffs.length = ww') (hsum : coeffs.sum ≠ 0)
    (m M : Rat) (hb : ∀ u ∈ rollOff (padArray w wing) wing, m ≤ u ∧ u ≤ M)
    (hratio : M * winNeg (normalise coeffs) < m * winPos (normalise coeffs))
    (h : savgolWeighted x w tw ww ord nIter coeffs = .ok y) : ∀ v ∈ y, v.isSome :=
  savgolWeighted_finite_of_ratio_seen x w tw ww ord nIter coeffs y hw hx wing ww' ord' hg hodd hlen m M
    (fun u hu => hb u (List.mem_of_mem_drop (List.mem_of_mem_take hu))) hratio h

/-- a constant signal is reproduced exactly under the same hypotheses -/
theorem savgolWeighted_constant_of_ratio_seen (n : Nat) (c : Rat) (w : List Rat) (tw : Option Rat) (ww ord nIter : Nat)
    (coeffs : List Rat) (y : List (Option Rat)) (hw : w.length = n) (hx : 2 ≤ n)
    (wing ww' ord' : Nat) (hg : savgolGeometry n tw ww ord nIter = .ok (wing, ww', ord', 1))
    (hodd : ww' % 2 = 1) (hlen : coeffs.length = ww')
    (m M : Rat)
    (hb : ∀ u ∈ ((rollOff (padArray w wing) wing).drop (wing - (ww' - 1) / 2)).take (n + 2 * ((ww' - 1) / 2)),
      m ≤ u ∧ u ≤ M)
    (hratio : M * winNeg (normalise coeffs) < m * winPos (normalise coeffs))
    (h : savgolWeighted (List.replicate n c) w tw ww ord nIter coeffs = .ok y) :
    y = List.replicate n (some c) := by
  have hylen := savgolWeighted_length _ _ _ _ _ _ _ _ (by simpa using hw) h
  have hy := savgolWeighted_one_pass (List.replicate n c) w tw ww ord nIter coeffs y (by simpa using hx) wing ww' ord'
    (by simpa using hg) h
  obtain ⟨h1, h2⟩ := savgolGeometry_wing _ _ _ _ _ _ hg
  simp only [] at h1 h2
  have hpw := length_padArray w wing (by omega)
  have hwl : (rollOff (padArray w wing) wing).length = n + 2 * wing := by
    rw [rollOff_length, hpw, hw]
  rw [padArray_replicate n wing c (by omega), List.map_replicate, ← hwl, cwStep_const] at hy
  apply List.eq_replicate_iff.mpr
  refine ⟨by simpa using hylen, fun v hv => ?_⟩
  rw [hy] at hv
  unfold unpad at hv
  obtain ⟨j, hj, rfl⟩ := List.getElem_of_mem hv
  rw [List.getElem_take, List.getElem_drop]
  simp only [List.length_take, List.length_drop, List.length_map, convSame_length, hwl] at hj
  simp only [List.getElem_map]
  have hpos := savgolWeighted_denominator_pos n w tw ww ord nIter coeffs hw wing ww' ord' 1 hg hodd hlen m M hb
    hratio j (by omega) (by rw [convSame_length, hwl]; omega)
  rw [if_neg (ne_of_gt hpos)]

theorem savgolWeighted_constant_of_ratio (n : Nat) (c : Rat) (w : List Rat) (tw : Option Rat) (ww ord nIter : Nat)
    (coeffs : List Rat) (y : List (Option Rat)) (hw : w.length = n) (hx : 2 ≤ n)
    (wing ww' ord' : Nat) (hg : savgolGeometry n tw ww ord nIter = .ok (wing, ww', ord', 1))
    (hodd : ww' % 2 = 1) (hlen : coeffs.length = ww') (hsum : coeffs.sum ≠ 0)
    (m M : Rat) (hb : ∀ u ∈ rollOff (padArray w wing) wing, m ≤ u ∧ u ≤ M)
    (hratio : M * winNeg (normalise coeffs) < m * winPos (normalise coeffs))
    (h : savgolWeighted (List.replicate n c) w tw ww ord nIter coeffs = .ok y) :
    y = List.replicate n (some c) :=
  savgolWeighted_constant_of_ratio_seen n c w tw ww ord nIter coeffs y hw hx wing ww' ord' hg hodd hlen m M
    (fun u hu => hb u (List.mem_of_mem_drop (List.mem_of_mem_take hu))) hratio h

/-! ### the hypotheses can be met: the default geometry on eight uniform weights -/

example : savgolGeometry 8 none 7 3 1 = .ok (3, 7, 3, 1) := by decide +kernel
example : ∀ u ∈ rollOff (padArray [1, 1, 1, 1, 1, 1, 1, 1] 3) 3, (1 / 3 : Rat) ≤ u ∧ u ≤ 1 := by decide +kernel
example : (1 : Rat) * winNeg (normalise [-2/21, 3/21, 6/21, 7/21, 6/21, 3/21, -2/21]) <
    (1 / 3) * winPos (normalise [-2/21, 3/21, 6/21, 7/21, 6/21, 3/21, -2/21]) := by decide +kernel

end CnvVerif.Smooth
