/-
  C06 tie to the source TEXT -- resize_ranges: the clip expressions, `if bp < 0`, the keep-test.
  The pieces that the translator re-reads on every run (Generated/ExprsInterval.lean) are the expressions the hand-written
  model (Model/Interval.lean) is built from.  Each generated piece is first brought to a NORMAL FORM (`src_*_nf`, proved
  by `rfl`, else `omega` / rewriting, so that an equivalent spelling of the same test or formula in the source keeps it
  green); the model functions are then shown to be those normal forms put together.  One lemma file per source function
  so that an edit names exactly the obligations about that function.
-/
import CnvVerif.Generated.ExprsInterval
import CnvVerif.Model.Interval
namespace CnvVerif.Src
open CnvVerif CnvVerif.Generated

theorem src_resize_drops_nf (bp : Int) : src_resize_drops bp = decide (bp < 0) := by
  unfold src_resize_drops
  first
  | rfl
  | (simp only [decide_eq_decide]; omega)

theorem src_resize_ok_size_nf (s e : Int) : src_resize_ok_size s e = decide (e - s > 0) := by
  unfold src_resize_ok_size
  first
  | rfl
  | (simp only [decide_eq_decide]; omega)

theorem src_resize_start_nf (s bp hi : Int) : src_resize_start s bp hi = clipInt 0 (some hi) (s - bp) := by
  unfold src_resize_start clipInt
  first
  | rfl
  | (simp only []; omega)

theorem src_resize_end_nf (e bp hi : Int) : src_resize_end e bp hi = clipInt 0 (some hi) (e + bp) := by
  unfold src_resize_end clipInt
  first
  | rfl
  | (simp only []; omega)

theorem src_resize_start_nosizes_nf (s bp : Int) : src_resize_start_nosizes s bp = clipInt 0 none (s - bp) := by
  unfold src_resize_start_nosizes clipInt
  first
  | rfl
  | (simp only []; omega)

theorem src_resize_end_nosizes_nf (e bp : Int) : src_resize_end_nosizes e bp = clipInt 0 none (e + bp) := by
  unfold src_resize_end_nosizes clipInt
  first
  | rfl
  | (simp only []; omega)

theorem resizeTable_src (bp : Int) (sizes : String → Option Int) (t : Table) :
    resizeTable bp sizes t =
      (let moved := t.map fun r =>
        match sizes r.chrom with
        | some hi => { r with s := src_resize_start r.s bp hi, e := src_resize_end r.e bp hi }
        | none => { r with s := src_resize_start_nosizes r.s bp, e := src_resize_end_nosizes r.e bp }
       if src_resize_drops bp = true then moved.filter (fun q => src_resize_ok_size q.s q.e) else moved) := by
  unfold resizeTable
  simp only [src_resize_drops_nf, src_resize_ok_size_nf, src_resize_start_nf, src_resize_end_nf,
    src_resize_start_nosizes_nf, src_resize_end_nosizes_nf, decide_eq_true_eq]
  have hmap : (t.map fun r =>
      ({ r with s := clipInt 0 (sizes r.chrom) (r.s - bp), e := clipInt 0 (sizes r.chrom) (r.e + bp) } : Row)) =
      (t.map fun r => match sizes r.chrom with
        | some hi => ({ r with s := clipInt 0 (some hi) (r.s - bp), e := clipInt 0 (some hi) (r.e + bp) } : Row)
        | none => { r with s := clipInt 0 none (r.s - bp), e := clipInt 0 none (r.e + bp) }) := by
    apply List.map_congr_left
    intro r _
    cases sizes r.chrom <;> rfl
  rw [hmap]

end CnvVerif.Src
