/-
  Lemmas behind Props/C01.lean and Props/C02.lean: the calling arithmetic of cnvlib/call.py.
  (Mathlib single modules may be imported here for `field_simp`, `linarith`, `positivity`, floor lemmas.)
-/
import CnvVerif.Model.Call
import Mathlib.Tactic.Linarith
import Mathlib.Tactic.FieldSimp
import Mathlib.Tactic.Ring
import Mathlib.Tactic.Positivity
import Mathlib.Tactic.NormNum
import Mathlib.Tactic.Push
import Mathlib.Algebra.Order.Field.Basic
namespace CnvVerif

/-! ### C01: inversion of the mixing model, rounding, non-negativity -/

theorem purityActive_some (p : Rat) (hp0 : 0 < p) (hp1 : p < 1) : purityActive (some p) = some p := by
  have h : p ≠ 0 ∧ p < 1 := ⟨ne_of_gt hp0, hp1⟩
  simp only [purityActive, if_pos h]

/-- the purity-adjusted formula inverts the mixing model exactly -/
theorem absoluteOf_inverts (r x n : Nat) (p : Rat) (hp0 : 0 < p) (hp1 : p < 1) (hr : 0 < r) :
    absoluteOf r x (some p) ((p * (n : Rat) + (1 - p) * (x : Rat)) / (r : Rat)) = (n : Rat) := by
  have hr' : (0 : Rat) < (r : Rat) := by exact_mod_cast hr
  have hval : ((r : Rat) * ((p * (n : Rat) + (1 - p) * (x : Rat)) / (r : Rat)) - (x : Rat) * (1 - p)) / p
      = (n : Rat) := by
    field_simp
    ring
  have hn : (0 : Rat) ≤ (n : Rat) := by exact_mod_cast Nat.zero_le n
  unfold absoluteOf
  rw [purityActive_some p hp0 hp1]
  show max 0 _ = _
  rw [hval]
  exact max_eq_right hn

/-- without an active purity (None, 0, or ≥ 1) the absolute copy number is `r * t` -/
theorem absoluteOf_pure (r x : Nat) (purity : Option Rat) (h : purityActive purity = none) (t : Rat) :
    absoluteOf r x purity t = (r : Rat) * t := by
  unfold absoluteOf
  rw [h]

theorem roundHE_floor_le (q : Rat) : q.floor ≤ roundHE q ∧ roundHE q ≤ q.floor + 1 := by
  unfold roundHE roundHalfEven
  simp only
  split
  · omega
  · split
    · omega
    · split <;> omega

theorem roundHE_intCast (n : Int) : roundHE (n : Rat) = n := by
  unfold roundHE roundHalfEven
  simp only [Rat.floor_intCast]
  rw [if_pos (by norm_num)]

/-- numpy rounding returns a nearest integer -/
theorem roundHE_nearest (q : Rat) :
    (roundHE q : Rat) - q ≤ 1/2 ∧ q - (roundHE q : Rat) ≤ 1/2 := by
  have h1 := Rat.floor_le q
  have h2 := Rat.lt_floor_add_one q
  push_cast at h2
  unfold roundHE roundHalfEven
  simp only
  split
  · rename_i h; constructor <;> linarith
  · rename_i h
    split
    · rename_i h'; push_cast; constructor <;> linarith
    · rename_i h'
      have : q - (q.floor : Rat) = 1/2 := le_antisymm (not_lt.mp h') (not_lt.mp h)
      split
      · constructor <;> linarith
      · push_cast; constructor <;> linarith

theorem roundHE_nonneg (q : Rat) (h : 0 ≤ q) : 0 ≤ roundHE q := by
  have h0 : (0 : Int) ≤ q.floor := Rat.le_floor_iff.mpr (by exact_mod_cast h)
  have := (roundHE_floor_le q).1
  omega

theorem roundHE_mono (a b : Rat) (h : a ≤ b) : roundHE a ≤ roundHE b := by
  have hf : a.floor ≤ b.floor := Rat.floor_monotone h
  rcases Int.lt_or_eq_of_le hf with hlt | heq
  · have := (roundHE_floor_le a).2
    have := (roundHE_floor_le b).1
    omega
  · unfold roundHE roundHalfEven
    simp only
    rw [heq]
    have hd : a - (b.floor : Rat) ≤ b - (b.floor : Rat) := by linarith
    by_cases h1 : a - (b.floor : Rat) < 1/2
    · rw [if_pos h1]
      split
      · omega
      · split
        · omega
        · split <;> omega
    · rw [if_neg h1]
      have h1b : ¬ (b - (b.floor : Rat) < 1/2) := by
        intro hc; exact h1 (lt_of_le_of_lt hd hc)
      rw [if_neg h1b]
      by_cases h2 : a - (b.floor : Rat) > 1/2
      · have h2b : b - (b.floor : Rat) > 1/2 := lt_of_lt_of_le h2 hd
        rw [if_pos h2, if_pos h2b]
      · rw [if_neg h2]
        split
        · omega
        · split <;> omega

theorem absoluteOf_nonneg (r x : Nat) (purity : Option Rat) (t : Rat) (ht : 0 ≤ t) :
    0 ≤ absoluteOf r x purity t := by
  unfold absoluteOf
  split
  · exact le_max_left _ _
  · have : (0 : Rat) ≤ (r : Rat) := by exact_mod_cast Nat.zero_le r
    positivity

theorem ceil_nonneg' (q : Rat) (h : 0 ≤ q) : 0 ≤ q.ceil := by
  have h1 : q ≤ (q.ceil : Rat) := Rat.le_ceil
  have : (0 : Rat) ≤ (q.ceil : Rat) := le_trans h h1
  exact_mod_cast this

theorem thresholdCall_nonneg (thr : List Rat) (ploidy r : Nat) (v : Option Rat) (t : Rat) (ht : 0 ≤ t) :
    0 ≤ thresholdCall thr ploidy r v t := by
  unfold thresholdCall
  split
  · exact Int.natCast_nonneg r
  · split
    · split
      · exact Int.natCast_nonneg _
      · exact Int.natCast_nonneg _
    · apply ceil_nonneg'
      have : (0 : Rat) ≤ (r : Rat) := by exact_mod_cast Nat.zero_le r
      positivity


/-- the rescaled ratio is floored at the (positive) generated `min_abs_val`, then at most doubled -/
theorem rescaledRatio_nonneg (ploidy : Nat) (hapX : Bool) (cls : CClass) (a : Rat) :
    0 ≤ rescaledRatio ploidy hapX cls a Generated.MIN_ABS_VAL := by
  unfold rescaledRatio
  have h0 : (0 : Rat) ≤ Generated.MIN_ABS_VAL := by decide +kernel
  have hb : (0 : Rat) ≤ max (a / (ploidy : Rat)) Generated.MIN_ABS_VAL := le_trans h0 (le_max_right _ _)
  have hx : (0 : Rat) ≤ (if (hapX && cls == CClass.x) = true then (2 : Rat) else 1) := by split <;> norm_num
  have hy : (0 : Rat) ≤ (if (cls == CClass.y) = true then (2 : Rat) else 1) := by split <;> norm_num
  exact mul_nonneg (mul_nonneg hb hx) hy

/-- every copy number `do_call` reports is a non-negative integer, whatever log2 (ratio `t ≥ 0`),
    purity, ploidy, method, sex configuration -/
theorem callRow_cn_nonneg (cfg : CallCfg) (m : Method) (thr : List Rat) (first : String)
    (hasBaf : Bool) (row : SegRow) (ht : 0 ≤ row.t) :
    ∀ c, (callRow cfg m thr first hasBaf row).cn = some c → 0 ≤ c := by
  intro c hc
  unfold callRow at hc
  simp only at hc
  split at hc
  · cases m <;> simp only at hc
    · injection hc with hc; subst hc
      exact thresholdCall_nonneg _ _ _ _ _ (rescaledRatio_nonneg _ _ _ _)
    · injection hc with hc; subst hc
      exact roundHE_nonneg _ (absoluteOf_nonneg _ _ _ _ ht)
    · exact absurd hc (by simp)
  · cases m <;> simp only at hc
    · injection hc with hc; subst hc
      exact thresholdCall_nonneg _ _ _ _ _ ht
    · injection hc with hc; subst hc
      apply roundHE_nonneg
      have : (0 : Rat) ≤ (refCopiesPure row.chrom cfg.ploidy cfg.hapX : Rat) := by
        exact_mod_cast Nat.zero_le _
      positivity
    · exact absurd hc (by simp)

/-- clonal call on the purity path: a row whose ratio is the mixture of `n` tumour copies and the
    germline copies `x` against the reference copies `r` of its chromosome class is reported as `n` -/
theorem callRow_clonal_reports_n (cfg : CallCfg) (p : Rat) (hcfg : cfg.purity = some p)
    (hp0 : 0 < p) (hp1 : p < 1) (thr : List Rat) (first : String) (hasBaf : Bool) (row : SegRow) (n : Nat)
    (hr : 0 < (refExpect cfg.ploidy cfg.hapX cfg.female (classOf first cfg.par row.chrom row.s row.e)).1)
    (ht : row.t = (p * (n : Rat) +
            (1 - p) * ((refExpect cfg.ploidy cfg.hapX cfg.female (classOf first cfg.par row.chrom row.s row.e)).2 : Rat)) /
          ((refExpect cfg.ploidy cfg.hapX cfg.female (classOf first cfg.par row.chrom row.s row.e)).1 : Rat)) :
    (callRow cfg .clonal thr first hasBaf row).cn = some (n : Int) := by
  have hpa : purityActive cfg.purity = some p := by rw [hcfg]; exact purityActive_some p hp0 hp1
  unfold callRow
  simp only [hpa]
  rw [hcfg, ht, absoluteOf_inverts _ _ n p hp0 hp1 hr]
  have : ((n : Nat) : Rat) = ((n : Int) : Rat) := by norm_cast
  rw [this, roundHE_intCast]

/-- pure clonal call: nearest integer to `r * t` -/
theorem callRow_pure_nearest (cfg : CallCfg) (h : purityActive cfg.purity = none) (thr : List Rat)
    (first : String) (hasBaf : Bool) (row : SegRow) :
    ∃ c : Int, (callRow cfg .clonal thr first hasBaf row).cn = some c ∧
      (c : Rat) - (refCopiesPure row.chrom cfg.ploidy cfg.hapX : Rat) * row.t ≤ 1/2 ∧
      (refCopiesPure row.chrom cfg.ploidy cfg.hapX : Rat) * row.t - (c : Rat) ≤ 1/2 := by
  refine ⟨roundHE ((refCopiesPure row.chrom cfg.ploidy cfg.hapX : Rat) * row.t), ?_, roundHE_nearest _⟩
  unfold callRow
  simp only [h]


theorem natHalf_cast (k : Nat) (h : k % 2 = 0) : ((k / 2 : Nat) : Rat) = (k : Rat) / 2 := by
  obtain ⟨m, rfl⟩ : ∃ m, k = 2 * m := ⟨k / 2, by omega⟩
  rw [Nat.mul_div_cancel_left _ (by norm_num : 0 < 2)]
  push_cast
  ring

theorem rescaled_full (P n M : Rat) (hP : 0 < P) :
    max (n / P) M * 1 * 1 = max (n / P) (M * P / P) := by
  rw [mul_div_cancel_right₀ _ (ne_of_gt hP), mul_one, mul_one]

theorem rescaled_half (P n M : Rat) (hP : 0 < P) :
    max (n / P) M * 2 = max (n / (P / 2)) (M * P / (P / 2)) := by
  rw [max_mul_of_nonneg _ _ (by norm_num : (0 : Rat) ≤ 2)]
  congr 1
  · field_simp
  · field_simp

/-- … and its log2 is rewritten to the ratio of a pure sample with `n` copies against that
    reference, floored, for even ploidy and every class the reference carries (`r > 0`) -/
theorem callRow_rescaled_ratio (cfg : CallCfg) (p : Rat) (hcfg : cfg.purity = some p)
    (hp0 : 0 < p) (hp1 : p < 1) (heven : cfg.ploidy % 2 = 0) (hpl : 0 < cfg.ploidy)
    (m : Method) (thr : List Rat) (first : String) (hasBaf : Bool) (row : SegRow) (n : Nat)
    (hcls : classOf first cfg.par row.chrom row.s row.e ≠ .pary)
    (ht : row.t = (p * (n : Rat) +
            (1 - p) * ((refExpect cfg.ploidy cfg.hapX cfg.female (classOf first cfg.par row.chrom row.s row.e)).2 : Rat)) /
          ((refExpect cfg.ploidy cfg.hapX cfg.female (classOf first cfg.par row.chrom row.s row.e)).1 : Rat)) :
    (callRow cfg m thr first hasBaf row).ratio =
      some (max ((n : Rat) / ((refExpect cfg.ploidy cfg.hapX cfg.female (classOf first cfg.par row.chrom row.s row.e)).1 : Rat))
                (Generated.MIN_ABS_VAL * (cfg.ploidy : Rat) /
                  ((refExpect cfg.ploidy cfg.hapX cfg.female (classOf first cfg.par row.chrom row.s row.e)).1 : Rat))) := by
  have hpa : purityActive cfg.purity = some p := by rw [hcfg]; exact purityActive_some p hp0 hp1
  have hP : (0 : Rat) < (cfg.ploidy : Rat) := by exact_mod_cast hpl
  have hhalf : 0 < cfg.ploidy / 2 := by omega
  have hr : 0 < (refExpect cfg.ploidy cfg.hapX cfg.female (classOf first cfg.par row.chrom row.s row.e)).1 := by
    generalize classOf first cfg.par row.chrom row.s row.e = cls at hcls
    cases cls <;> simp only [refExpect]
    · exact hpl
    · split
      · exact hhalf
      · exact hpl
    · exact hhalf
    · exact hpl
    · exact absurd rfl hcls
  have hratio : (callRow cfg m thr first hasBaf row).ratio =
      some (rescaledRatio cfg.ploidy cfg.hapX (classOf first cfg.par row.chrom row.s row.e)
        (n : Rat) Generated.MIN_ABS_VAL) := by
    unfold callRow
    simp only [hpa]
    rw [hcfg, ht, absoluteOf_inverts _ _ n p hp0 hp1 hr]
    cases m <;> rfl
  rw [hratio]
  congr 1
  generalize classOf first cfg.par row.chrom row.s row.e = cls at hcls
  generalize Generated.MIN_ABS_VAL = M
  have hN : ((cfg.ploidy / 2 : Nat) : Rat) = (cfg.ploidy : Rat) / 2 := natHalf_cast _ heven
  cases cls
  · have e : rescaledRatio cfg.ploidy cfg.hapX .auto (n : Rat) M = max ((n : Rat) / cfg.ploidy) M * 1 * 1 := by
      cases cfg.hapX <;> rfl
    rw [e]; exact rescaled_full _ _ _ hP
  · cases hx : cfg.hapX
    · have e : rescaledRatio cfg.ploidy false .x (n : Rat) M = max ((n : Rat) / cfg.ploidy) M * 1 * 1 := rfl
      rw [e]; exact rescaled_full _ _ _ hP
    · have e : rescaledRatio cfg.ploidy true .x (n : Rat) M = max ((n : Rat) / cfg.ploidy) M * 2 * 1 := rfl
      rw [e, mul_one]
      show _ = max (_ / ((cfg.ploidy / 2 : Nat) : Rat)) (_ / ((cfg.ploidy / 2 : Nat) : Rat))
      rw [hN]; exact rescaled_half _ _ _ hP
  · have e : rescaledRatio cfg.ploidy cfg.hapX .y (n : Rat) M = max ((n : Rat) / cfg.ploidy) M * 1 * 2 := by
      cases cfg.hapX <;> rfl
    rw [e, mul_one]
    show _ = max (_ / ((cfg.ploidy / 2 : Nat) : Rat)) (_ / ((cfg.ploidy / 2 : Nat) : Rat))
    rw [hN]; exact rescaled_half _ _ _ hP
  · have e : rescaledRatio cfg.ploidy cfg.hapX .parx (n : Rat) M = max ((n : Rat) / cfg.ploidy) M * 1 * 1 := by
      cases cfg.hapX <;> rfl
    rw [e]; exact rescaled_full _ _ _ hP
  · exact absurd rfl hcls

/-! ### C02: threshold scan, monotonicity, allelic copy numbers -/

/-- below the last threshold the scan index is the number of thresholds strictly below log2 -/
theorem threshold_counts (thr : List Rat) (hs : thr.Pairwise (· < ·)) (v : Rat)
    (hle : ∃ th ∈ thr, v ≤ th) :
    thr.findIdx? (fun th => decide (v ≤ th)) = some (thr.countP (fun th => decide (th < v))) := by
  induction thr with
  | nil => obtain ⟨th, hm, _⟩ := hle; cases hm
  | cons a l ih =>
    have hs' := List.pairwise_cons.mp hs
    rw [List.findIdx?_cons, List.countP_cons]
    by_cases hva : v ≤ a
    · have h0 : l.countP (fun th => decide (th < v)) = 0 := by
        rw [List.countP_eq_zero]
        intro b hb
        have : a < b := hs'.1 b hb
        simp only [decide_eq_true_eq, not_lt]
        exact le_of_lt (lt_of_le_of_lt hva this)
      have hna : ¬ a < v := not_lt.mpr hva
      simp [hva, hna, h0]
    · have hav : a < v := not_le.mp hva
      have hle' : ∃ th ∈ l, v ≤ th := by
        obtain ⟨th, hm, hth⟩ := hle
        rcases List.mem_cons.mp hm with rfl | hm
        · exact absurd hth hva
        · exact ⟨th, hm, hth⟩
      rw [ih hs'.2 hle']
      simp [hva, hav]

theorem threshold_none_above (thr : List Rat) (v : Rat) (h : ∀ th ∈ thr, th < v) :
    thr.findIdx? (fun th => decide (v ≤ th)) = none := by
  rw [List.findIdx?_eq_none_iff]
  intro th hm
  simp only [decide_eq_false_iff_not, not_le]
  exact h th hm

theorem thresholdCall_below (thr : List Rat) (hs : thr.Pairwise (· < ·)) (ploidy r : Nat) (v t : Rat)
    (hle : ∃ th ∈ thr, v ≤ th) :
    thresholdCall thr ploidy r (some v) t =
      (if r ≠ ploidy then ((thr.countP (fun th => decide (th < v)) * r / ploidy : Nat) : Int)
       else (thr.countP (fun th => decide (th < v)) : Int)) := by
  unfold thresholdCall
  simp only [threshold_counts thr hs v hle]

theorem thresholdCall_above (thr : List Rat) (ploidy r : Nat) (v t : Rat) (h : ∀ th ∈ thr, th < v) :
    thresholdCall thr ploidy r (some v) t = ((r : Rat) * t).ceil := by
  unfold thresholdCall
  simp only [threshold_none_above thr v h]

theorem thresholdCall_nan (thr : List Rat) (ploidy r : Nat) (t : Rat) :
    thresholdCall thr ploidy r none t = (r : Int) := rfl

/-- the default thresholds are strictly increasing and within one ulp-ish of the decimals written -/
theorem default_thresholds_sorted : Generated.DEFAULT_THRESHOLDS.Pairwise (· < ·) := by
  unfold Generated.DEFAULT_THRESHOLDS
  decide +kernel

/-- "is 2 at log2 0 on a diploid autosome" with the default thresholds read from the source -/
theorem default_cn2_at_zero :
    thresholdCall Generated.DEFAULT_THRESHOLDS 2 (refCopiesPure "chr1" 2 false) (some 0) 1 = 2 := by
  decide +kernel

/-- at ploidy 1 the clause fails: witness kept as a theorem (open finding B) -/
theorem monotone_ploidy1_counterexample :
    thresholdCall Generated.DEFAULT_THRESHOLDS 1 1 (some (7/10 - 1/1000)) (1624/1000) = 3 ∧
    thresholdCall Generated.DEFAULT_THRESHOLDS 1 1 (some (71/100)) (1636/1000) = 2 := by
  decide +kernel

/-- cn1 + cn2 = cn with 0 ≤ cn1, cn2 ≤ cn whenever both are reported -/
theorem allelic_sum (cn : Int) (hcn : 0 ≤ cn) (a : Rat) (baf : Option Rat) (c1 c2 : Int)
    (h : allelic cn a baf = (some c1, some c2)) :
    c1 + c2 = cn ∧ 0 ≤ c1 ∧ c1 ≤ cn ∧ 0 ≤ c2 ∧ c2 ≤ cn := by
  unfold allelic at h
  simp only at h
  split at h
  · simp at h
  · simp only [Prod.mk.injEq, Option.some.injEq] at h
    obtain ⟨h1, h2⟩ := h
    omega

/-- both missing exactly where the segment has no BAF and cn > 0 -/
theorem allelic_missing_iff (cn : Int) (a : Rat) (baf : Option Rat) :
    ((allelic cn a baf).1 = none ∧ (allelic cn a baf).2 = none) ↔ (baf = none ∧ 0 < cn) := by
  unfold allelic
  simp only
  split
  · rename_i h
    simp only [Bool.and_eq_true, Option.isNone_iff_eq_none, decide_eq_true_eq] at h
    simp [h.1, h.2]
  · rename_i h
    simp only [Bool.and_eq_true, Option.isNone_iff_eq_none, decide_eq_true_eq] at h
    simp only [reduceCtorEq, and_self, false_iff, not_and, not_lt]
    intro hb; exact Int.not_lt.mp (fun hc => h ⟨hb, hc⟩)

theorem allelic_both_or_neither (cn : Int) (a : Rat) (baf : Option Rat) :
    ((allelic cn a baf).1 = none ↔ (allelic cn a baf).2 = none) := by
  unfold allelic
  simp only
  split <;> simp


theorem ceil_mono' {a b : Rat} (h : a ≤ b) : a.ceil ≤ b.ceil :=
  Rat.ceil_le_iff.mpr (le_trans h Rat.le_ceil)

theorem countP_lt_mono (l : List Rat) {v₁ v₂ : Rat} (hv : v₁ ≤ v₂) :
    l.countP (fun th => decide (th < v₁)) ≤ l.countP (fun th => decide (th < v₂)) := by
  apply List.countP_mono_left
  intro x _ hx
  simp only [decide_eq_true_eq] at hx ⊢
  exact lt_of_lt_of_le hx hv

theorem countP_lt_length_of_exists (l : List Rat) (v : Rat) (h : ∃ th ∈ l, v ≤ th) :
    l.countP (fun th => decide (th < v)) < l.length := by
  refine lt_of_le_of_ne List.countP_le_length ?_
  intro he
  rw [List.countP_eq_length] at he
  obtain ⟨th, hm, hth⟩ := h
  have := he th hm
  simp only [decide_eq_true_eq] at this
  exact absurd hth (not_le.mpr this)

/-- Monotonicity with the default thresholds, ploidy ≥ 2, any chromosome class (`r = ploidy` or
    `r = ploidy / 2`).  `t` is the ratio `2^v`: the only facts used about it are that it is
    monotone in `v` and exceeds 3/2 above the last threshold (0.7; `2^0.7 ≈ 1.62`). -/
theorem monotone_default (ploidy r : Nat) (h2 : 2 ≤ ploidy) (hr : r = ploidy ∨ r = ploidy / 2)
    (v₁ v₂ t₁ t₂ : Rat) (hv : v₁ ≤ v₂) (ht : t₁ ≤ t₂) (ht0 : 0 ≤ t₁)
    (h32 : (∀ th ∈ Generated.DEFAULT_THRESHOLDS, th < v₂) → 3/2 < t₂) :
    thresholdCall Generated.DEFAULT_THRESHOLDS ploidy r (some v₁) t₁
      ≤ thresholdCall Generated.DEFAULT_THRESHOLDS ploidy r (some v₂) t₂ := by
  have hsorted := default_thresholds_sorted
  have hlen : Generated.DEFAULT_THRESHOLDS.length = 4 := rfl
  generalize Generated.DEFAULT_THRESHOLDS = L at *
  have hr0 : (0 : Rat) ≤ (r : Rat) := by exact_mod_cast Nat.zero_le r
  by_cases hA2 : ∀ th ∈ L, th < v₂
  · rw [thresholdCall_above L ploidy r v₂ t₂ hA2]
    have ht2 : 3/2 < t₂ := h32 hA2
    by_cases hA1 : ∀ th ∈ L, th < v₁
    · rw [thresholdCall_above L ploidy r v₁ t₁ hA1]
      exact ceil_mono' (mul_le_mul_of_nonneg_left ht hr0)
    · have hB1 : ∃ th ∈ L, v₁ ≤ th := by
        by_contra hc
        apply hA1
        intro th hm
        by_contra hlt
        exact hc ⟨th, hm, not_lt.mp hlt⟩
      rw [thresholdCall_below L hsorted ploidy r v₁ t₁ hB1]
      have hc3 : L.countP (fun th => decide (th < v₁)) ≤ 3 := by
        have := countP_lt_length_of_exists L v₁ hB1
        omega
      generalize L.countP (fun th => decide (th < v₁)) = c at hc3
      by_cases hrp : r = ploidy
      · rw [if_neg (not_not.mpr hrp)]
        have h3 : ((3 : Int) : Rat) < (r : Rat) * t₂ := by
          have : (2 : Rat) ≤ (r : Rat) := by rw [hrp]; exact_mod_cast h2
          push_cast
          nlinarith
        have := Rat.lt_ceil_iff.mpr h3
        omega
      · rw [if_pos hrp]
        have hr2 : r = ploidy / 2 := by
          rcases hr with h | h
          · exact absurd h hrp
          · exact h
        have hd : c * r / ploidy < 2 := by
          rw [Nat.div_lt_iff_lt_mul (by omega)]
          have : c * r ≤ 3 * r := Nat.mul_le_mul_right r hc3
          omega
        have h1 : ((1 : Int) : Rat) < (r : Rat) * t₂ := by
          have : (1 : Rat) ≤ (r : Rat) := by
            have : 1 ≤ r := by omega
            exact_mod_cast this
          push_cast
          nlinarith
        have := Rat.lt_ceil_iff.mpr h1
        omega
  · have hB2 : ∃ th ∈ L, v₂ ≤ th := by
      by_contra hc
      apply hA2
      intro th hm
      by_contra hlt
      exact hc ⟨th, hm, not_lt.mp hlt⟩
    have hB1 : ∃ th ∈ L, v₁ ≤ th := by
      obtain ⟨th, hm, hth⟩ := hB2
      exact ⟨th, hm, le_trans hv hth⟩
    rw [thresholdCall_below L hsorted ploidy r v₁ t₁ hB1,
        thresholdCall_below L hsorted ploidy r v₂ t₂ hB2]
    have hc := countP_lt_mono L hv
    by_cases hrp : r = ploidy
    · rw [if_neg (not_not.mpr hrp), if_neg (not_not.mpr hrp)]
      exact_mod_cast hc
    · rw [if_pos hrp, if_pos hrp]
      have : L.countP (fun th => decide (th < v₁)) * r / ploidy
          ≤ L.countP (fun th => decide (th < v₂)) * r / ploidy :=
        Nat.div_le_div_right (Nat.mul_le_mul_right r hc)
      exact_mod_cast this

/-- one row of `do_call` output: whenever cn, cn1 and cn2 are all reported they split cn -/
theorem callRow_allelic (cfg : CallCfg) (m : Method) (thr : List Rat) (first : String) (hasBaf : Bool) (row : SegRow)
    (cn c1 c2 : Int) (hcn : (callRow cfg m thr first hasBaf row).cn = some cn) (h0 : 0 ≤ cn)
    (h1 : (callRow cfg m thr first hasBaf row).cn1 = some c1) (h2 : (callRow cfg m thr first hasBaf row).cn2 = some c2) :
    c1 + c2 = cn ∧ 0 ≤ c1 ∧ c1 ≤ cn ∧ 0 ≤ c2 ∧ c2 ≤ cn := by
  unfold callRow at hcn h1 h2
  cases hp : purityActive cfg.purity <;> cases m <;> cases hasBaf <;>
    simp only [hp, Bool.false_eq_true, if_false, if_true, reduceCtorEq, Option.some.injEq] at hcn h1 h2
  all_goals
    subst hcn
    exact allelic_sum _ h0 _ _ c1 c2 (Prod.ext h1 h2)

/-- the same for a whole table whose BAF column came from `variants` (purity-rescaled, possibly outside [0,1]) -/
theorem callTableV_allelic (cfg : CallCfg) (m : Method) (thr : List Rat) (fromVariants : Bool) (rows : List SegRow)
    (hpos : ∀ r ∈ rows, 0 ≤ r.t) :
    ∀ o ∈ callTableV cfg m thr fromVariants rows, ∀ cn c1 c2, o.cn = some cn → o.cn1 = some c1 → o.cn2 = some c2 →
      0 ≤ cn ∧ c1 + c2 = cn ∧ 0 ≤ c1 ∧ c1 ≤ cn ∧ 0 ≤ c2 ∧ c2 ≤ cn := by
  intro o ho cn c1 c2 hcn h1 h2
  unfold callTableV callTable at ho
  simp only [List.mem_map] at ho
  obtain ⟨row', ⟨row, hrow, rfl⟩, rfl⟩ := ho
  have ht : 0 ≤ (bafForCall cfg fromVariants row).t := by
    have := hpos row hrow
    unfold bafForCall; split <;> [split; skip] <;> simpa using this
  have h0 := callRow_cn_nonneg cfg m thr _ true _ ht cn hcn
  exact ⟨h0, callRow_allelic cfg m thr _ true _ cn c1 c2 hcn h0 h1 h2⟩

end CnvVerif
