/-
  The text side of `bedcov` (Model/CoverageExt5Cols.lean) against what the translator reads off the current source
  (Generated/ExprsCovCols.lean, regenerated from /repo on every run; reading rules in harness/coltrans.py).
-/
import CnvVerif.Generated.ExprsCovCols
import CnvVerif.Lemmas.CoverageExt5Cols
namespace CnvVerif.C09Cols
open CnvVerif.Generated

/-- the reader settings of the `read_csv` call in the current source -/
def srcReader : Reader :=
  { keepDefaultNa := BEDCOV_KEEP_DEFAULT_NA, naValues := BEDCOV_NA_VALUES.map String.toList }

theorem columnsOf_eq_src (n : Nat) :
    (columnsOf n).mapError Err.pyName = src_bedcov_columns (n : Int) := by
  unfold columnsOf src_bedcov_columns
  by_cases h3 : n < 3
  · have : (n : Int) < 3 := by omega
    simp [h3, this, Except.mapError, Err.pyName]
  by_cases e3 : n = 3
  · subst e3; simp [Except.mapError]
  by_cases e4 : n = 4
  · subst e4; simp [Except.mapError]
  have a1 : ¬ (n : Int) < 3 := by omega
  have a2 : ¬ (n : Int) = 3 := by omega
  have a3 : ¬ (n : Int) = 4 := by omega
  have a4 : Int.toNat ((n : Int) - 3 - 1) = n - 4 := by omega
  simp only [h3, e3, e4, a1, a2, a3, a4, if_false, Except.mapError, fillers]
  congr 3
  apply List.map_congr_left
  intro k _
  rw [Int.add_comm]

theorem srcReader_eq : srcReader.keepDefaultNa = false ∧ srcReader.naValues = [[]] := by
  constructor
  · rfl
  · simp [srcReader, BEDCOV_NA_VALUES]

theorem cell_src_none_iff (s : List Char) : cell srcReader s = none ↔ s = [] := by
  obtain ⟨h1, h2⟩ := srcReader_eq
  unfold cell
  rw [h1, h2]
  cases s <;> simp

theorem gene_column_iff {n : Nat} {cols : List String} (h : columnsOf n = .ok cols) :
    cols.contains "gene" = decide (4 ≤ n) := by
  unfold columnsOf at h
  by_cases h3 : n < 3
  · simp [h3] at h
  by_cases e3 : n = 3
  · subst e3; simp at h; subst h; decide
  by_cases e4 : n = 4
  · subst e4; simp at h; subst h; decide
  simp only [h3, e3, e4, if_false, Except.ok.injEq] at h
  subst h
  have : 4 ≤ n := by omega
  simp [this]

end CnvVerif.C09Cols
