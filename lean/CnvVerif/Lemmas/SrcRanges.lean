/-
  The hand-written model of skgenome/intersect.py (Model/Ranges.lean, Model/RangesExt.lean) equals the terms the
  translator reads off the current source (Generated/ExprsRanges.lean, regenerated from /repo on every run): both
  slicing paths, the path switch, the trim clipping, the summary cascade of `into_ranges`.  The proofs go by case
  analysis + `simp`, not `rfl`, so spellings that leave the meaning alone (a flipped comparison, `&` for `&=`,
  reordered independent statements, renamed locals) keep them green.
-/
import CnvVerif.Generated.ExprsRanges
import CnvVerif.Model.RangesExt
import CnvVerif.Lemmas.Ranges
set_option linter.unusedSimpArgs false
set_option linter.unusedVariables false
namespace CnvVerif.Src
open CnvVerif CnvVerif.Generated

/-- the table rows with their positions, as the elementwise reading of a row mask sees them -/
def enumRows (t : Table) : List (Nat × Row) := (List.range t.length).zip t

/-- the mask `_irange_nested` yields for one query, entry by entry from the generated term -/
def srcNestedMask (t : Table) (inner : Bool) (qs qe : Option Int) : List Bool :=
  (enumRows t).map (fun p => src_irange_nested_mask t inner qs qe p.1 p.2)

/-! ### `_irange_nested` -/

/-- the mask the model builds (the `let`s of `irangeNested`, spelled out) -/
def modelNestedMask (t : Table) (qs qe : Option Int) (inner : Bool) : List Bool :=
  let n := t.length
  let m0 : List Bool := List.replicate n true
  let m1 : List Bool :=
    match qs with
    | some s =>
      if s ≠ 0 then
        if inner then maskFrom n (ssLeft (t.map (·.s)) s)
        else t.map (fun r => decide (r.e > s))
      else m0
    | none => m0
  match qe with
  | some e =>
    if inner then (m1.zip (t.map (fun r => decide (r.e ≤ e)))).map (fun p => p.1 && p.2)
    else (m1.zip (maskUpto n (ssLeft (t.map (·.s)) e))).map (fun p => p.1 && p.2)
  | none => m1

theorem irangeNested_eq_modelMask (t : Table) (qs qe : Option Int) (inner : Bool) :
    irangeNested t qs qe inner = applyMask t (modelNestedMask t qs qe inner) := rfl

theorem ssLeft_zero_of_nonneg (t : Table) (h : ∀ r ∈ t, 0 ≤ r.s) : ssLeft (t.map (·.s)) 0 = 0 := by
  unfold ssLeft
  rw [List.countP_eq_zero]
  intro x hx
  rw [List.mem_map] at hx
  obtain ⟨r, hr, rfl⟩ := hx
  have := h r hr
  simp only [decide_eq_true_eq]
  omega

/-- on a well-formed table (coordinates ≥ 0, start < end) — so that the test `if start_val:` and the test
    `if start_val is not None:` read the same: a start bound of 0 excludes no row either way -/
theorem modelNestedMask_is_source (t : Table) (h : WFTable t) (qs qe : Option Int) (inner : Bool) :
    modelNestedMask t qs qe inner = srcNestedMask t inner qs qe := by
  have hss : ssLeft (t.map (·.s)) 0 = 0 := ssLeft_zero_of_nonneg t (fun r hr => (h.2 r hr).1)
  unfold modelNestedMask srcNestedMask enumRows
  apply List.ext_getElem
  · cases qs with
    | none => cases qe <;> cases inner <;> simp [maskFrom, maskUpto]
    | some s =>
      by_cases hs : s = 0 <;> cases qe <;> cases inner <;> simp [maskFrom, maskUpto, hs]
  · intro k h1 h2
    have hk : k < t.length := by
      simp only [List.length_map, List.length_zip, List.length_range, Nat.min_self] at h2
      exact h2
    have he : 0 < t[k].e := by
      have := h.2 t[k] (List.getElem_mem hk)
      omega
    unfold src_irange_nested_mask
    cases qs with
    | none =>
      cases qe with
      | none => simp
      | some e => cases inner <;> simp [maskFrom, maskUpto]
    | some s =>
      by_cases hs : s = 0
      · cases qe with
        | none => cases inner <;> simp [maskFrom, maskUpto, hs, hss, he]
        | some e => cases inner <;> simp [maskFrom, maskUpto, hs, hss, he]
      · cases qe with
        | none => cases inner <;> simp [maskFrom, maskUpto, hs]
        | some e => cases inner <;> simp [maskFrom, maskUpto, hs]

theorem irangeNested_mask_is_source (t : Table) (h : WFTable t) (qs qe : Option Int) (inner : Bool) :
    irangeNested t qs qe inner = applyMask t (srcNestedMask t inner qs qe) := by
  rw [irangeNested_eq_modelMask, modelNestedMask_is_source t h]

/-! ### `_irange_simple` -/

theorem irangeSimple_slice_is_source (t : Table) (qs qe : Option Int) (inner : Bool) :
    irangeSimple t qs qe inner =
      (t.take (src_irange_simple_slice t inner qs qe).2).drop (src_irange_simple_slice t inner qs qe).1 := by
  unfold irangeSimple src_irange_simple_slice
  cases qs <;> cases qe <;> cases inner <;> simp

/-! ### the path switch of `idx_ranges` -/

theorem idxSelect_path_is_source (t : Table) (qs qe : Option Int) (inner : Bool) :
    idxSelect t qs qe inner =
      (match src_idx_ranges_path t qs qe with
       | 0 => t
       | 1 => irangeNested t qs qe inner
       | _ => irangeSimple t qs qe inner) := by
  unfold idxSelect src_idx_ranges_path
  cases t with
  | nil => simp
  | cons r rest =>
    cases qs <;> cases qe <;> cases hm : isMonotone ((r :: rest).map (·.e)) <;> simp [hm]

/-! ### the trim step of `iter_ranges` -/

/-- outside trim mode the selected rows are yielded untouched -/
theorem no_clip_outside_trim (qs qe : Option Int) (s e : Int) : src_iter_ranges_clip false qs qe s e = (s, e) := by
  unfold src_iter_ranges_clip
  simp

/-- `selectRange` = the generated path choice, then the generated clipping of every SELECTED row.  Stated on
    well-formed tables and for the rows the query selects, where `if start_val:` / `if end_val:` and the `is not None`
    spellings read the same (a selected row has `0 ≤ start < end_val`, so `end_val ≠ 0`, and clipping at 0 from below
    changes nothing). -/
theorem selectRange_is_source (t : Table) (h : WFTable t) (qs qe : Option Int)
    (hq : ∀ s, qs = some s → 0 ≤ s) (mode : Mode) :
    selectRange t qs qe mode =
      (idxSelect t qs qe (mode == .inner)).map (fun r =>
        { r with s := (src_iter_ranges_clip (mode == .trim) qs qe r.s r.e).1,
                 e := (src_iter_ranges_clip (mode == .trim) qs qe r.s r.e).2 }) := by
  unfold selectRange
  by_cases hm : mode = .trim
  · subst hm
    simp only [beq_self_eq_true, if_true]
    rw [idxSelect_exact t h qs qe hq]
    unfold trimRows
    apply List.map_congr_left
    intro r hr
    rw [List.mem_filter] at hr
    obtain ⟨hrt, hsel⟩ := hr
    have h0 : 0 ≤ r.s := (h.2 r hrt).1
    have hmode : (Mode.trim == Mode.inner) = false := by decide
    rw [hmode] at hsel
    unfold src_iter_ranges_clip
    cases qs with
    | none =>
      cases qe with
      | none => simp
      | some e =>
        have he : e ≠ 0 := by
          simp [selFilter] at hsel
          omega
        simp [he]
    | some s =>
      by_cases hs : s = 0
      · cases qe with
        | none => simp [hs, Int.max_eq_left h0]
        | some e =>
          have he : e ≠ 0 := by
            simp [selFilter] at hsel
            omega
          simp [hs, he, Int.max_eq_left h0]
      · cases qe with
        | none => simp [hs]
        | some e =>
          have he : e ≠ 0 := by
            simp [selFilter] at hsel
            omega
          simp [hs, he]
  · have hne : (mode == Mode.trim) = false := by cases mode <;> simp_all
    rw [hne]
    simp only [Bool.false_eq_true, if_false, no_clip_outside_trim]
    symm
    exact List.map_id' _

/-! ### the summary cascade of `into_ranges` -/

def Val.isStr : Val → Bool
  | .str _ => true
  | _ => false
def Val.isFloat : Val → Bool
  | .num _ => true
  | .nan => true
  | _ => false
def Summary.isNone : Summary → Bool
  | .auto => true
  | _ => false
def Summary.isCallable : Summary → Bool
  | .func _ => true
  | _ => false

/-- the function each code of the generated cascade stands for -/
def summaryOfCode (s : Summary) : Nat → List Val → Val
  | 0 => joinVals
  | 1 => nanMedian
  | 2 => firstOf
  | 3 => (match s with | .const v => makeConst v | _ => firstOf)
  | _ => (match s with | .func f => f | _ => firstOf)

theorem pickSummary_is_source (s : Summary) (first : Val) :
    pickSummary s first =
      summaryOfCode s (src_into_ranges_summary (Summary.isNone s) (Summary.isCallable s) (Val.isStr first) (Val.isFloat first)) := by
  unfold pickSummary src_into_ranges_summary
  cases s with
  | auto => cases first <;> simp [Summary.isNone, Summary.isCallable, Val.isStr, Val.isFloat, summaryOfCode]
  | const v => simp [Summary.isNone, Summary.isCallable, summaryOfCode]
  | func f => simp [Summary.isNone, Summary.isCallable, summaryOfCode]

theorem seriesToValue_is_source (d : Val) (f : List Val → Val) (vs : List Val) :
    seriesToValue d f vs =
      (match src_series2value vs.length with
       | 0 => d
       | 1 => vs.headD d
       | _ => f vs) := by
  unfold seriesToValue src_series2value
  match vs with
  | [] => simp
  | [v] => simp
  | v :: w :: rest => simp

end CnvVerif.Src
