/-
  `_width2wing`: the model (Model/Smoothing.lean) equals the expression the translator reads off the current
  source (Generated/ExprsWing.lean, regenerated from /repo on every run).
-/
import CnvVerif.Generated.ExprsWing
import CnvVerif.Model.Smoothing
import Mathlib.Data.Rat.Floor
namespace CnvVerif.Src
open CnvVerif CnvVerif.Generated

/-- Python's `int(e)` rendering applied to a value that is already an integer -/
theorem intTrunc_intCast (z : Int) :
    (if (z : Rat) < 0 then ((((z : Rat)).ceil : Int) : Rat) else ((((z : Rat)).floor : Int) : Rat)) = (z : Rat) := by
  rw [Rat.ceil_intCast, Rat.floor_intCast]; split <;> rfl

/-- `int(width) == width` is the model's `width.isInt` for `width ≥ 2` -/
theorem trunc_eq_iff_isInt (width : Rat) (h : 2 ≤ width) :
    ((if width < 0 then (((width).ceil : Int) : Rat) else (((width).floor : Int) : Rat)) = width) ↔
      width.isInt = true := by
  have h0 : ¬ width < 0 := by
    intro h'; exact absurd (lt_of_le_of_lt h h') (by decide)
  rw [if_neg h0]
  unfold Rat.isInt
  rw [beq_iff_eq]
  constructor
  · intro he
    rw [← he]; exact Rat.den_intCast _
  · intro hd
    rw [Rat.floor_def, hd]
    simpa using Rat.coe_int_num_of_den_eq_one hd

/-- the model's window half-width is the source expression: the same value when the function returns, −1 on the
    ValueError branch, and a value below 1 where the source's final `assert wing >= 1` fails -/
theorem width2wing_is_source (width : Rat) (n : Nat) :
    match Smooth.width2wing width n with
    | Except.ok w => src_width2wing width ((MIN_WING : Nat) : Rat) (n : Rat) = (w : Rat) ∧ 1 ≤ w
    | Except.error Smooth.WingErr.valueError => src_width2wing width ((MIN_WING : Nat) : Rat) (n : Rat) = -1
    | Except.error Smooth.WingErr.assertionError => src_width2wing width ((MIN_WING : Nat) : Rat) (n : Rat) < 1 := by
  unfold Smooth.width2wing src_width2wing
  simp only [intTrunc_intCast]
  have key : ∀ z : Int,
      (min (max (z : Rat) ((MIN_WING : Nat) : Rat)) ((n : Rat) - 1)) =
        ((min (max z (MIN_WING : Int)) ((n : Int) - 1) : Int) : Rat) := by
    intro z; push_cast; rfl
  have fin : ∀ z : Int,
      match (if min (max z (MIN_WING : Int)) ((n : Int) - 1) ≥ 1 then
          (Except.ok (min (max z (MIN_WING : Int)) ((n : Int) - 1)).toNat : Except Smooth.WingErr Nat)
          else .error .assertionError) with
      | Except.ok w => (min (max (z : Rat) ((MIN_WING : Nat) : Rat)) ((n : Rat) - 1)) = (w : Rat) ∧ 1 ≤ w
      | Except.error Smooth.WingErr.valueError => (min (max (z : Rat) ((MIN_WING : Nat) : Rat)) ((n : Rat) - 1)) = -1
      | Except.error Smooth.WingErr.assertionError => (min (max (z : Rat) ((MIN_WING : Nat) : Rat)) ((n : Rat) - 1)) < 1 := by
    intro z
    rw [key z]
    generalize min (max z (MIN_WING : Int)) ((n : Int) - 1) = w
    by_cases hw : w ≥ 1
    · rw [if_pos hw]
      refine ⟨?_, ?_⟩
      · have : ((w.toNat : Int)) = w := Int.toNat_of_nonneg (by omega)
        rw [← Int.cast_natCast, this]
      · omega
    · rw [if_neg hw]
      show ((w : Int) : Rat) < 1
      have : w < 1 := by omega
      exact_mod_cast this
  by_cases h1 : 0 < width ∧ width < 1
  · simp only [if_pos h1]
    exact fin _
  · simp only [if_neg h1]
    by_cases h2 : 2 ≤ width
    · by_cases h3 : width.isInt = true
      · have hs : (width ≥ 2 ∧ (if width < 0 then (((width).ceil : Int) : Rat) else (((width).floor : Int) : Rat)) = width) :=
          ⟨h2, (trunc_eq_iff_isInt width h2).mpr h3⟩
        rw [if_pos hs, if_pos ⟨h2, h3⟩]
        exact fin _
      · have hs : ¬ (width ≥ 2 ∧ (if width < 0 then (((width).ceil : Int) : Rat) else (((width).floor : Int) : Rat)) = width) :=
          fun h => h3 ((trunc_eq_iff_isInt width h2).mp h.2)
        rw [if_neg hs, if_neg (fun h => h3 h.2)]
    · have hs : ¬ (width ≥ 2 ∧ (if width < 0 then (((width).ceil : Int) : Rat) else (((width).floor : Int) : Rat)) = width) :=
        fun h => h2 h.1
      rw [if_neg hs, if_neg (fun h => h2 h.1)]

end CnvVerif.Src
