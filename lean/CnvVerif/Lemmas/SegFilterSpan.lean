import CnvVerif.Model.SegFilter
import CnvVerif.Lemmas.SegFilter
namespace CnvVerif

/-! ### runs, squashed, then filtered by chromosome -/

/-- a list of runs: every run is non-empty and lies on one chromosome -/
def GoodRuns (gs : List (List Seg)) : Prop :=
  ∀ g ∈ gs, g ≠ [] ∧ ∀ a ∈ g, ∀ b ∈ g, a.chrom = b.chrom

theorem GoodRuns.tail {g : List Seg} {gs : List (List Seg)} (h : GoodRuns (g :: gs)) : GoodRuns gs :=
  fun g' hg' => h g' (List.mem_cons_of_mem _ hg')

theorem splitRuns_good (h : Bool) (f : Seg → Option Rat) (t : List Seg) :
    GoodRuns (splitRuns (fullLevel h f) t) :=
  fun g hg => ⟨splitRuns_nonempty _ t g hg,
    fun a ha b hb => (splitRuns_uniform (fullLevel h f) t g hg a ha b hb).1⟩

/-- a uniform run starting with `x` is kept whole by the chromosome filter when `x` is on `c` -/
theorem filter_run_on (c : String) (x : Seg) (xs : List Seg)
    (hu : ∀ a ∈ x :: xs, ∀ b ∈ x :: xs, a.chrom = b.chrom) (hx : (x.chrom == c) = true) :
    (x :: xs).filter (fun r => r.chrom == c) = x :: xs := by
  rw [List.filter_eq_self]
  intro a ha
  rw [hu a ha x (by simp)]
  exact hx

/-- and dropped whole when it is not -/
theorem filter_run_off (c : String) (x : Seg) (xs : List Seg)
    (hu : ∀ a ∈ x :: xs, ∀ b ∈ x :: xs, a.chrom = b.chrom) (hx : ¬ (x.chrom == c) = true) :
    (x :: xs).filter (fun r => r.chrom == c) = [] := by
  rw [List.filter_eq_nil_iff]
  intro a ha
  rw [hu a ha x (by simp)]
  exact hx

theorem runs_head_start (c : String) (gs : List (List Seg)) (hg : GoodRuns gs) :
    ((gs.filterMap squashRegion).filter (fun r => r.chrom == c)).head?.map (·.s) =
      (gs.flatten.filter (fun r => r.chrom == c)).head?.map (·.s) := by
  induction gs with
  | nil => rfl
  | cons g gs ih =>
    have ih := ih hg.tail
    obtain ⟨hne, hu⟩ := hg g (by simp)
    cases g with
    | nil => exact absurd rfl hne
    | cons x xs =>
      obtain ⟨r, hr, hch, hs, -⟩ := squashRegion_fields x xs
      rw [List.filterMap_cons, hr, List.flatten_cons, List.filter_append]
      show (List.filter (fun r => r.chrom == c) (r :: List.filterMap squashRegion gs)).head?.map (·.s) = _
      by_cases hx : (x.chrom == c) = true
      · have hrc : (r.chrom == c) = true := by rw [hch]; exact hx
        rw [filter_run_on c x xs hu hx, List.filter_cons_of_pos (p := fun r => r.chrom == c) (a := r) hrc]
        simp [hs]
      · have hrc : ¬ (r.chrom == c) = true := by rw [hch]; exact hx
        rw [filter_run_off c x xs hu hx, List.filter_cons_of_neg (p := fun r => r.chrom == c) (a := r) hrc, List.nil_append]
        exact ih

theorem runs_last_end (c : String) (gs : List (List Seg)) (hg : GoodRuns gs) :
    ((gs.filterMap squashRegion).filter (fun r => r.chrom == c)).getLast?.map (·.e) =
      (gs.flatten.filter (fun r => r.chrom == c)).getLast?.map (·.e) := by
  induction gs with
  | nil => rfl
  | cons g gs ih =>
    have ih := ih hg.tail
    obtain ⟨hne, hu⟩ := hg g (by simp)
    cases g with
    | nil => exact absurd rfl hne
    | cons x xs =>
      obtain ⟨r, hr, hch, -, he, -⟩ := squashRegion_fields x xs
      rw [List.filterMap_cons, hr, List.flatten_cons, List.filter_append]
      show (List.filter (fun r => r.chrom == c) (r :: List.filterMap squashRegion gs)).getLast?.map (·.e) = _
      by_cases hx : (x.chrom == c) = true
      · have hrc : (r.chrom == c) = true := by rw [hch]; exact hx
        rw [filter_run_on c x xs hu hx, List.filter_cons_of_pos (p := fun r => r.chrom == c) (a := r) hrc, List.getLast?_append,
          ← List.singleton_append, List.getLast?_append, Option.map_or, Option.map_or, ih]
        congr 1
        have : (x :: xs).getLast? = some ((x :: xs).getLast?.getD x) := by
          cases hl : (x :: xs).getLast? with
          | none => simp at hl
          | some l => rfl
        rw [this]
        simp [he]
      · have hrc : ¬ (r.chrom == c) = true := by rw [hch]; exact hx
        rw [filter_run_off c x xs hu hx, List.filter_cons_of_neg (p := fun r => r.chrom == c) (a := r) hrc, List.nil_append]
        exact ih

theorem runs_same_chromosomes (c : String) (gs : List (List Seg)) (hg : GoodRuns gs) :
    (∃ r ∈ gs.filterMap squashRegion, r.chrom = c) ↔ (∃ r ∈ gs.flatten, r.chrom = c) := by
  induction gs with
  | nil => simp
  | cons g gs ih =>
    have ih := ih hg.tail
    obtain ⟨hne, hu⟩ := hg g (by simp)
    cases g with
    | nil => exact absurd rfl hne
    | cons x xs =>
      obtain ⟨r, hr, hch, -⟩ := squashRegion_fields x xs
      rw [List.filterMap_cons, hr, List.flatten_cons]
      show (∃ r' ∈ r :: List.filterMap squashRegion gs, r'.chrom = c) ↔ _
      constructor
      · rintro ⟨r', hr', hc'⟩
        rcases List.mem_cons.mp hr' with rfl | hr'
        · exact ⟨x, by simp, hch ▸ hc'⟩
        · obtain ⟨a, ha, hac⟩ := ih.mp ⟨r', hr', hc'⟩
          exact ⟨a, List.mem_append_right _ ha, hac⟩
      · rintro ⟨a, ha, hac⟩
        rcases List.mem_append.mp ha with ha | ha
        · refine ⟨r, by simp, ?_⟩
          rw [hch, ← hu a ha x (by simp)]
          exact hac
        · obtain ⟨r', hr', hc'⟩ := ih.mpr ⟨a, ha, hac⟩
          exact ⟨r', List.mem_cons_of_mem _ hr', hc'⟩

/-- each chromosome's covered span is conserved by a squashing filter: on every chromosome the first output
    segment starts where the chromosome's first input segment starts and the last output segment ends where its
    last input segment ends (rows of a chromosome being consecutive in the table) -/
theorem specSquash_conserves_chrom_span (h : Bool) (f : Seg → Option Rat) (t : List Seg) (hc : ChromContig t)
    (c : String) (first last : Seg)
    (hfst : (t.filter (fun r => r.chrom == c)).head? = some first)
    (hlst : (t.filter (fun r => r.chrom == c)).getLast? = some last) :
    (((specSquash h f t).filter (fun r => r.chrom == c)).head?.map (·.s) = some first.s) ∧
    (((specSquash h f t).filter (fun r => r.chrom == c)).getLast?.map (·.e) = some last.e) := by
  have _ := hc
  have hg := splitRuns_good h f t
  constructor
  · unfold specSquash
    rw [runs_head_start c _ hg, splitRuns_flatten, hfst]
    rfl
  · unfold specSquash
    rw [runs_last_end c _ hg, splitRuns_flatten, hlst]
    rfl

/-- and no chromosome appears or disappears -/
theorem specSquash_same_chromosomes (h : Bool) (f : Seg → Option Rat) (t : List Seg) (c : String) :
    (∃ r ∈ specSquash h f t, r.chrom = c) ↔ (∃ r ∈ t, r.chrom = c) := by
  have hg := splitRuns_good h f t
  unfold specSquash
  rw [runs_same_chromosomes c _ hg, splitRuns_flatten]

end CnvVerif
