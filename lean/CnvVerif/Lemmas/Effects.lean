/-
  Lemmas for C10 (effects): numbered backups never overwrite; a constant re-seeding makes the draws
  independent of the generator state on every path of a skeleton; the ordered gather does not depend on
  the completion order; the list arguments of do_call / by_gene are left alone.
-/
import CnvVerif.Model.Effects
import Std.Data.String.ToNat
import Mathlib.Data.List.Perm.Subperm
import Mathlib.Data.List.Nodup
namespace CnvVerif.Effects

/-! ## (i) file system -/

/-- well-formed directory: one entry per name -/
def WF (fs : FS) : Prop := (names fs).Nodup

instance (fs : FS) : Decidable (WF fs) := inferInstanceAs (Decidable (names fs).Nodup)

theorem bakName_ne (p : String) (k : Nat) : bakName p k ≠ p := by
  intro h
  have := congrArg String.length h
  simp [bakName, String.length_append] at this
  have h1 : ".".length = 1 := by decide
  omega

theorem bakName_inj (p : String) {j k : Nat} (h : bakName p j = bakName p k) : j = k := by
  unfold bakName at h
  rw [String.append_assoc, String.append_assoc, String.append_right_inj, String.append_right_inj] at h
  exact Nat.repr_injective h

theorem isFile_iff (fs : FS) (n : String) : isFile fs n = true ↔ n ∈ names fs := by
  induction fs with
  | nil => simp [isFile, names]
  | cons a t ih =>
    obtain ⟨an, ac⟩ := a
    simp only [isFile, names, List.any_cons, List.map_cons, List.mem_cons, Bool.or_eq_true, beq_iff_eq] at ih ⊢
    rw [ih]
    constructor
    · rintro (h | h)
      · left; exact h.symm
      · right; exact h
    · rintro (h | h)
      · left; exact h.symm
      · right; exact h

theorem isFile_false_iff (fs : FS) (n : String) : isFile fs n = false ↔ n ∉ names fs := by
  rw [← isFile_iff]; simp

theorem removeFile_of_free {fs : FS} {n : String} (h : isFile fs n = false) : removeFile fs n = fs := by
  unfold removeFile
  rw [List.filter_eq_self]
  intro a ha
  rw [isFile_false_iff] at h
  have : a.1 ≠ n := fun e => h (by rw [← e]; exact List.mem_map_of_mem (f := (·.1)) ha)
  simpa using this

theorem removeFile_cons_eq (an ac : String) (t : FS) : removeFile ((an, ac) :: t) an = removeFile t an := by
  simp [removeFile]

theorem removeFile_cons_ne {an n : String} (ac : String) (t : FS) (h : an ≠ n) :
    removeFile ((an, ac) :: t) n = (an, ac) :: removeFile t n := by
  simp [removeFile, h]

theorem readFile_cons_eq (an ac : String) (t : FS) : readFile ((an, ac) :: t) an = some ac := by
  simp [readFile]

theorem readFile_cons_ne {an n : String} (ac : String) (t : FS) (h : an ≠ n) :
    readFile ((an, ac) :: t) n = readFile t n := by
  simp [readFile, h]

theorem isFile_cons (an ac : String) (t : FS) (n : String) :
    isFile ((an, ac) :: t) n = (an == n || isFile t n) := by
  simp [isFile]

theorem names_removeFile (fs : FS) (n : String) : names (removeFile fs n) = (names fs).filter (fun x => x != n) := by
  induction fs with
  | nil => rfl
  | cons a t ih =>
    obtain ⟨an, ac⟩ := a
    by_cases h : an = n
    · subst h; rw [removeFile_cons_eq, ih]; simp [names]
    · rw [removeFile_cons_ne _ _ h]; simp [names, h] at ih ⊢; exact ih

theorem isFile_removeFile_self (fs : FS) (n : String) : isFile (removeFile fs n) n = false := by
  rw [isFile_false_iff, names_removeFile]; simp

theorem WF_removeFile {fs : FS} (h : WF fs) (n : String) : WF (removeFile fs n) := by
  unfold WF at *; rw [names_removeFile]; exact h.sublist List.filter_sublist

theorem isFile_removeFile_of_ne {fs : FS} {n m : String} (h : n ≠ m) : isFile (removeFile fs m) n = isFile fs n := by
  rw [Bool.eq_iff_iff, isFile_iff, isFile_iff, names_removeFile]; simp [h]

theorem readFile_removeFile_of_ne {fs : FS} {n m : String} (h : n ≠ m) : readFile (removeFile fs m) n = readFile fs n := by
  induction fs with
  | nil => rfl
  | cons a t ih =>
    obtain ⟨an, ac⟩ := a
    by_cases h1 : an = m
    · subst h1
      rw [removeFile_cons_eq, ih, readFile_cons_ne _ _ (Ne.symm h)]
    · rw [removeFile_cons_ne _ _ h1]
      by_cases h2 : an = n
      · subst h2; rw [readFile_cons_eq, readFile_cons_eq]
      · rw [readFile_cons_ne _ _ h2, readFile_cons_ne _ _ h2, ih]

theorem readFile_some_of_isFile {fs : FS} {n : String} (h : isFile fs n = true) : ∃ c, readFile fs n = some c := by
  induction fs with
  | nil => simp [isFile] at h
  | cons a t ih =>
    obtain ⟨an, ac⟩ := a
    by_cases h1 : an = n
    · subst h1; exact ⟨ac, readFile_cons_eq _ _ _⟩
    · rw [isFile_cons] at h
      have : isFile t n = true := by simpa [h1] using h
      obtain ⟨c, hc⟩ := ih this
      exact ⟨c, by rw [readFile_cons_ne _ _ h1]; exact hc⟩

theorem readFile_none_of_free {fs : FS} {n : String} (h : isFile fs n = false) : readFile fs n = none := by
  induction fs with
  | nil => rfl
  | cons a t ih =>
    obtain ⟨an, ac⟩ := a
    rw [isFile_cons] at h
    have h1 : an ≠ n := by intro e; simp [e] at h
    have : isFile t n = false := by simpa [h1] using h
    rw [readFile_cons_ne _ _ h1]; exact ih this

/-- a directory is, up to order, the file at `p` plus the rest -/
theorem perm_of_readFile {fs : FS} (hw : WF fs) {p c : String} (h : readFile fs p = some c) :
    fs.Perm ((p, c) :: removeFile fs p) := by
  induction fs with
  | nil => simp [readFile] at h
  | cons a t ih =>
    obtain ⟨an, ac⟩ := a
    have hw' : an ∉ names t ∧ (names t).Nodup := List.nodup_cons.mp hw
    by_cases h1 : an = p
    · subst h1
      rw [readFile_cons_eq] at h
      have hc : ac = c := Option.some.inj h
      have hfree : isFile t an = false := (isFile_false_iff t an).mpr hw'.1
      rw [removeFile_cons_eq, removeFile_of_free hfree, hc]
    · rw [readFile_cons_ne _ _ h1] at h
      rw [removeFile_cons_ne _ _ h1]
      exact ((ih hw'.2 h).cons (an, ac)).trans (List.Perm.swap _ _ _)

/-- the bounded search either finds a free suffix or has walked over `fuel` existing backups -/
theorem firstFree_spec (fs : FS) (p : String) (fuel cnt : Nat) :
    isFile fs (bakName p (firstFree fs p fuel cnt)) = false ∨
    ∀ j, cnt ≤ j → j < cnt + fuel → isFile fs (bakName p j) = true := by
  induction fuel generalizing cnt with
  | zero => right; intro j h1 h2; omega
  | succ f ih =>
    unfold firstFree
    by_cases h : isFile fs (bakName p cnt) = true
    · rw [if_pos h]
      rcases ih (cnt + 1) with h' | h'
      · left; exact h'
      · right; intro j h1 h2
        by_cases hj : j = cnt
        · rw [hj]; exact h
        · exact h' j (by omega) (by omega)
    · rw [if_neg h]; left; simpa using h

/-- every suffix the search stepped over is taken: the chosen one is the least candidate -/
theorem firstFree_least (fs : FS) (p : String) (fuel cnt : Nat) :
    cnt ≤ firstFree fs p fuel cnt ∧
    ∀ j, cnt ≤ j → j < firstFree fs p fuel cnt → isFile fs (bakName p j) = true := by
  induction fuel generalizing cnt with
  | zero => exact ⟨Nat.le_refl _, fun j h1 h2 => by unfold firstFree at h2; omega⟩
  | succ f ih =>
    unfold firstFree
    by_cases h : isFile fs (bakName p cnt) = true
    · rw [if_pos h]
      obtain ⟨h1, h2⟩ := ih (cnt + 1)
      refine ⟨by omega, fun j hj1 hj2 => ?_⟩
      by_cases hj : j = cnt
      · rw [hj]; exact h
      · exact h2 j (by omega) hj2
    · rw [if_neg h]; exact ⟨Nat.le_refl _, fun j h1 h2 => by omega⟩

/-- pigeonhole: with `p` itself a file, the directory cannot also hold `fs.length` numbered backups -/
theorem firstFree_free {fs : FS} {p : String} (hp : isFile fs p = true) :
    isFile fs (bakName p (firstFree fs p fs.length 1)) = false := by
  rcases firstFree_spec fs p fs.length 1 with h | h
  · exact h
  · exfalso
    let L : List String := p :: (List.range' 1 fs.length).map (bakName p)
    have hnd : L.Nodup := by
      refine List.nodup_cons.mpr ⟨?_, ?_⟩
      · intro hm
        obtain ⟨k, _, hk⟩ := List.mem_map.mp hm
        exact bakName_ne p k hk
      · exact List.Nodup.map (fun a b hab => bakName_inj p hab) (List.nodup_range' (s := 1) (n := fs.length))
    have hsub : L ⊆ names fs := by
      intro x hx
      rcases List.mem_cons.mp hx with rfl | hx
      · exact (isFile_iff fs _).mp hp
      · obtain ⟨k, hk, rfl⟩ := List.mem_map.mp hx
        have := List.mem_range'_1.mp hk
        exact (isFile_iff fs _).mp (h k this.1 (by omega))
    have := (List.subperm_of_subset hnd hsub).length_le
    simp [L, names] at this
    omega

/-- one guarded write, when `p` does not exist yet -/
theorem guardedWrite_new {fs : FS} {p : String} (hp : isFile fs p = false) (c : String) :
    guardedWrite fs p c = (p, c) :: fs := by
  unfold guardedWrite ensurePath
  simp [hp, writeFile, removeFile_of_free hp]

/-- one guarded write onto an existing file: the old file moves to the first free numbered suffix -/
theorem guardedWrite_existing {fs : FS} {p c0 : String} (hp : readFile fs p = some c0) (c : String) :
    guardedWrite fs p c = (p, c) :: (bakName p (firstFree fs p fs.length 1), c0) :: removeFile fs p := by
  have hfile : isFile fs p = true := by
    cases hf : isFile fs p with
    | true => rfl
    | false => rw [readFile_none_of_free hf] at hp; cases hp
  have hfree := firstFree_free hfile
  unfold guardedWrite ensurePath
  rw [if_pos hfile]
  unfold renameFile
  rw [hp]
  generalize firstFree fs p fs.length 1 = k at hfree ⊢
  have hne : bakName p k ≠ p := bakName_ne p k
  have h1 : isFile (removeFile fs p) (bakName p k) = false := by rw [isFile_removeFile_of_ne hne]; exact hfree
  have h2 : removeFile (removeFile fs p) (bakName p k) = removeFile fs p := removeFile_of_free h1
  simp only [h2, writeFile]
  have h3 : removeFile ((bakName p k, c0) :: removeFile fs p) p = (bakName p k, c0) :: removeFile fs p := by
    apply removeFile_of_free
    have := isFile_removeFile_self fs p
    simp [isFile, hne] at this ⊢
    exact this
  rw [h3]

theorem WF_cons {fs : FS} (h : WF fs) {n c : String} (hn : isFile fs n = false) : WF ((n, c) :: fs) := by
  unfold WF; simp [names]; exact ⟨by rw [isFile_false_iff] at hn; simpa [names] using hn, h⟩

/-- the step invariant: one more file, nothing lost, nothing invented, names stay unique -/
theorem guardedWrite_step {fs : FS} (hw : WF fs) (p c : String) :
    WF (guardedWrite fs p c) ∧ (guardedWrite fs p c).length = fs.length + 1 ∧
    (contents (guardedWrite fs p c)).Perm (c :: contents fs) := by
  cases hf : isFile fs p with
  | false =>
    rw [guardedWrite_new hf]
    exact ⟨WF_cons hw hf, rfl, List.Perm.refl _⟩
  | true =>
    obtain ⟨c0, hc0⟩ := readFile_some_of_isFile hf
    rw [guardedWrite_existing hc0]
    have hperm := perm_of_readFile hw hc0
    have hfree := firstFree_free hf
    generalize firstFree fs p fs.length 1 = k at hfree
    have hne : bakName p k ≠ p := bakName_ne p k
    have hwr : WF (removeFile fs p) := WF_removeFile hw p
    have h1 : isFile (removeFile fs p) (bakName p k) = false := by rw [isFile_removeFile_of_ne hne]; exact hfree
    have hw2 : WF ((bakName p k, c0) :: removeFile fs p) := WF_cons hwr h1
    have h3 : isFile ((bakName p k, c0) :: removeFile fs p) p = false := by
      have := isFile_removeFile_self fs p
      simp [isFile, hne] at this ⊢
      exact this
    refine ⟨WF_cons hw2 h3, ?_, ?_⟩
    · have := hperm.length_eq; simp at this ⊢; omega
    · have := (hperm.map (·.2)).symm
      simp only [contents, List.map_cons] at this ⊢
      exact List.Perm.cons c this

/-- every file other than `p` keeps its name and content through a guarded write -/
theorem guardedWrite_other {fs : FS} (p c : String) {n : String} (hn : n ≠ p) :
    isFile fs n = true → readFile (guardedWrite fs p c) n = readFile fs n := by
  intro hfile
  cases hf : isFile fs p with
  | false => rw [guardedWrite_new hf, readFile_cons_ne _ _ (Ne.symm hn)]
  | true =>
    obtain ⟨c0, hc0⟩ := readFile_some_of_isFile hf
    rw [guardedWrite_existing hc0]
    have hfree := firstFree_free hf
    generalize firstFree fs p fs.length 1 = k at hfree
    have hnk : bakName p k ≠ n := by intro e; rw [e, hfile] at hfree; cases hfree
    rw [readFile_cons_ne _ _ (Ne.symm hn), readFile_cons_ne _ _ hnk, readFile_removeFile_of_ne hn]

/-- the file that was at `p` is kept, with its content, under a numbered suffix that was free -/
theorem guardedWrite_keeps_old {fs : FS} {p c0 : String} (hp : readFile fs p = some c0) (c : String) :
    ∃ k, isFile fs (bakName p k) = false ∧ readFile (guardedWrite fs p c) (bakName p k) = some c0 := by
  have hfile : isFile fs p = true := by
    cases hf : isFile fs p with
    | true => rfl
    | false => rw [readFile_none_of_free hf] at hp; cases hp
  refine ⟨firstFree fs p fs.length 1, firstFree_free hfile, ?_⟩
  rw [guardedWrite_existing hp, readFile_cons_ne _ _ (Ne.symm (bakName_ne p _)), readFile_cons_eq]

theorem guardedWrite_reads_back (fs : FS) (p c : String) : readFile (guardedWrite fs p c) p = some c := by
  unfold guardedWrite writeFile; exact readFile_cons_eq _ _ _

theorem isFile_guardedWrite_of_isFile {fs : FS} (p c : String) {n : String} (h : isFile fs n = true) :
    isFile (guardedWrite fs p c) n = true := by
  by_cases hn : n = p
  · subst hn; unfold guardedWrite writeFile; rw [isFile_cons]; simp
  · have := guardedWrite_other (fs := fs) p c hn h
    obtain ⟨c1, hc1⟩ := readFile_some_of_isFile h
    rw [hc1] at this
    cases hf : isFile (guardedWrite fs p c) n with
    | true => rfl
    | false => rw [readFile_none_of_free hf] at this; cases this

theorem guardedWrites_cons (fs : FS) (p c : String) (ws : List String) :
    guardedWrites fs p (c :: ws) = guardedWrites (guardedWrite fs p c) p ws := rfl

/-- k guarded writes: k more files, every earlier content and every written content is still there
    (as a multiset: nothing lost, nothing invented), names stay unique -/
theorem guardedWrites_history {fs : FS} (hw : WF fs) (p : String) (ws : List String) :
    WF (guardedWrites fs p ws) ∧ (guardedWrites fs p ws).length = fs.length + ws.length ∧
    (contents (guardedWrites fs p ws)).Perm (ws.reverse ++ contents fs) := by
  induction ws generalizing fs with
  | nil => exact ⟨hw, rfl, by simp [guardedWrites]⟩
  | cons c rest ih =>
    obtain ⟨h1, h2, h3⟩ := guardedWrite_step hw p c
    obtain ⟨i1, i2, i3⟩ := ih h1
    rw [guardedWrites_cons]
    refine ⟨i1, by rw [i2, h2]; simp; omega, ?_⟩
    refine i3.trans ?_
    rw [List.reverse_cons, List.append_assoc]
    exact List.Perm.append_left _ (by simpa using h3)

theorem guardedWrites_other {fs : FS} (p : String) (ws : List String) {n : String} (hn : n ≠ p)
    (hfile : isFile fs n = true) : readFile (guardedWrites fs p ws) n = readFile fs n := by
  induction ws generalizing fs with
  | nil => rfl
  | cons c rest ih =>
    rw [guardedWrites_cons, ih (isFile_guardedWrite_of_isFile p c hfile), guardedWrite_other p c hn hfile]

theorem guardedWrites_last (fs : FS) (p : String) (ws : List String) (c : String) :
    readFile (guardedWrites fs p (ws ++ [c])) p = some c := by
  induction ws generalizing fs with
  | nil => exact guardedWrite_reads_back fs p c
  | cons a rest ih => rw [List.cons_append, guardedWrites_cons]; exact ih _

/-- an unguarded writer keeps overwriting: k writes onto an existing file leave the directory size as it was -/
theorem plainWrites_length {fs : FS} (hw : WF fs) {p : String} (hp : isFile fs p = true) (ws : List String) :
    (plainWrites fs p ws).length = fs.length := by
  induction ws generalizing fs with
  | nil => rfl
  | cons c rest ih =>
    obtain ⟨c0, hc0⟩ := readFile_some_of_isFile hp
    have hperm := (perm_of_readFile hw hc0).length_eq
    have hwf : WF (writeFile fs p c) := WF_cons (WF_removeFile hw p) (isFile_removeFile_self fs p)
    have hfile : isFile (writeFile fs p c) p = true := by unfold writeFile; rw [isFile_cons]; simp
    show (plainWrites (writeFile fs p c) p rest).length = fs.length
    rw [ih hwf hfile]
    simp [writeFile] at hperm ⊢; omega

/-! ## (ii) random generator -/

theorem safeOps_mono (l : List ROp) : safeOps l false = true → safeOps l true = true := by
  induction l with
  | nil => intro; rfl
  | cons o r ih =>
    cases o with
    | seed c => cases c <;> simp [safeOps]
    | draw k => simp [safeOps]

theorem flagAfter_mono (l : List ROp) : flagAfter l false = true → flagAfter l true = true := by
  induction l with
  | nil => intro h; cases h
  | cons o r ih =>
    cases o with
    | seed c => cases c <;> simp [flagAfter]
    | draw k => simpa [flagAfter] using ih

theorem safeOps_le (l : List ROp) {b b' : Bool} (hb : b = true → b' = true) : safeOps l b = true → safeOps l b' = true := by
  cases b <;> cases b' <;> simp at hb ⊢
  exact safeOps_mono l

theorem flagAfter_le (l : List ROp) {b b' : Bool} (hb : b = true → b' = true) : flagAfter l b = true → flagAfter l b' = true := by
  cases b <;> cases b' <;> simp at hb ⊢
  exact flagAfter_mono l

theorem safeOps_append (l₁ l₂ : List ROp) (b : Bool) :
    safeOps (l₁ ++ l₂) b = (safeOps l₁ b && safeOps l₂ (flagAfter l₁ b)) := by
  induction l₁ generalizing b with
  | nil => simp [safeOps, flagAfter]
  | cons o r ih =>
    cases o with
    | seed c => cases c <;> simp [safeOps, flagAfter, ih]
    | draw k => simp [safeOps, flagAfter, ih, Bool.and_assoc]

theorem flagAfter_append (l₁ l₂ : List ROp) (b : Bool) : flagAfter (l₁ ++ l₂) b = flagAfter l₂ (flagAfter l₁ b) := by
  induction l₁ generalizing b with
  | nil => rfl
  | cons o r ih =>
    cases o with
    | seed c => cases c <;> simp [flagAfter, ih]
    | draw k => simp [flagAfter, ih]

/-- a prefix of a safe sequence is safe (early return, exception) -/
theorem safeOps_prefix {t l : List ROp} (h : t <+: l) (b : Bool) : safeOps l b = true → safeOps t b = true := by
  obtain ⟨r, rfl⟩ := h
  rw [safeOps_append]; simp; intro h1 _; exact h1

/-- the core fact: once every draw happens after a constant re-seeding, the values drawn and (if the
    path ends seeded) the generator state left behind do not depend on the state before the call -/
theorem draws_of_safe {σ ν : Type} (g : Gen σ ν) (l : List ROp) (b : Bool) (s₁ s₂ : σ)
    (hs : b = true → s₁ = s₂) (h : safeOps l b = true) :
    draws g l s₁ = draws g l s₂ ∧ (flagAfter l b = true → finalState g l s₁ = finalState g l s₂) := by
  induction l generalizing b s₁ s₂ with
  | nil => exact ⟨rfl, fun hb => hs hb⟩
  | cons o r ih =>
    cases o with
    | seed c =>
      cases c with
      | none => simpa [draws, finalState, flagAfter] using ih false (g.other s₁) (g.other s₂) (by simp) (by simpa [safeOps] using h)
      | some c => simp [draws, finalState]
    | draw k =>
      simp [safeOps] at h
      have hb : b = true := h.1
      have e : s₁ = s₂ := hs hb
      subst e
      exact ⟨rfl, fun _ => rfl⟩

theorem safeSk_seq_inv {x y : Sk} {b b' : Bool} (h : safeSk (.seq x y) b = some b') :
    ∃ b1, safeSk x b = some b1 ∧ safeSk y b1 = some b' := by
  simp only [safeSk] at h
  cases h1 : safeSk x b with
  | none => rw [h1] at h; cases h
  | some b1 => rw [h1] at h; exact ⟨b1, rfl, h⟩

theorem safeSk_alt_inv {x y : Sk} {b b' : Bool} (h : safeSk (.alt x y) b = some b') :
    ∃ b1 b2, safeSk x b = some b1 ∧ safeSk y b = some b2 ∧ b' = (b1 && b2) := by
  simp only [safeSk] at h
  cases h1 : safeSk x b with
  | none => rw [h1] at h; cases h
  | some b1 =>
    cases h2 : safeSk y b with
    | none => rw [h1, h2] at h; cases h
    | some b2 => rw [h1, h2] at h; exact ⟨b1, b2, rfl, rfl, (Option.some.inj h).symm⟩

theorem safeSk_star_inv {x : Sk} {b b' : Bool} (h : safeSk (.star x) b = some b') :
    ∃ b1 b2, safeSk x b = some b1 ∧ safeSk x (b && b1) = some b2 ∧ b' = (b && b1) := by
  simp only [safeSk] at h
  cases h1 : safeSk x b with
  | none => rw [h1] at h; cases h
  | some b1 =>
    rw [h1] at h
    dsimp only at h
    cases h2 : safeSk x (b && b1) with
    | none => rw [h2] at h; cases h
    | some b2 => rw [h2] at h; exact ⟨b1, b2, rfl, h2, (Option.some.inj h).symm⟩

theorem safeSk_star_intro {x : Sk} {b b1 b2 : Bool} (h1 : safeSk x b = some b1) (h2 : safeSk x (b && b1) = some b2) :
    safeSk (.star x) b = some (b && b1) := by
  simp only [safeSk]
  rw [h1]
  dsimp only
  rw [h2]

/-- the abstract analysis of a skeleton covers every path through it -/
theorem safeSk_sound {sk : Sk} {l : List ROp} (hp : Path sk l) :
    ∀ b b', safeSk sk b = some b' → safeOps l b = true ∧ (b' = true → flagAfter l b = true) := by
  induction hp with
  | nop => intro b b' h; simp [safeSk] at h; subst h; exact ⟨rfl, fun h => h⟩
  | op o =>
    intro b b' h
    cases o with
    | seed c => cases c <;> simp [safeSk] at h <;> subst h <;> simp [safeOps, flagAfter]
    | draw k =>
      cases b <;> simp [safeSk] at h
      subst h; simp [safeOps, flagAfter]
  | @seq a c l₁ l₂ _ _ ih₁ ih₂ =>
    intro b b' h
    obtain ⟨b1, h1, h2⟩ := safeSk_seq_inv h
    obtain ⟨s1, f1⟩ := ih₁ b b1 h1
    obtain ⟨s2, f2⟩ := ih₂ b1 b' h2
    rw [safeOps_append, flagAfter_append]
    refine ⟨?_, fun hb' => flagAfter_le l₂ f1 (f2 hb')⟩
    rw [s1, Bool.true_and]
    exact safeOps_le l₂ f1 s2
  | @altL a c l _ ih =>
    intro b b' h
    obtain ⟨b1, b2, h1, h2, hb⟩ := safeSk_alt_inv h
    obtain ⟨s1, f1⟩ := ih b b1 h1
    exact ⟨s1, fun hb' => f1 (by rw [hb] at hb'; simp at hb'; exact hb'.1)⟩
  | @altR a c l _ ih =>
    intro b b' h
    obtain ⟨b1, b2, h1, h2, hb⟩ := safeSk_alt_inv h
    obtain ⟨s1, f1⟩ := ih b b2 h2
    exact ⟨s1, fun hb' => f1 (by rw [hb] at hb'; simp at hb'; exact hb'.2)⟩
  | @starNil a =>
    intro b b' h
    obtain ⟨b1, b2, h1, h2, hb⟩ := safeSk_star_inv h
    exact ⟨rfl, fun hb' => by rw [hb] at hb'; simp at hb'; simpa [flagAfter] using hb'.1⟩
  | @starCons a l₁ l₂ _ _ ih₁ ih₂ =>
    intro b b' h
    obtain ⟨b1, b2, h1, h2, hb⟩ := safeSk_star_inv h
    obtain ⟨s1, f1⟩ := ih₁ b b1 h1
    -- the loop-head state `b && b1` is a fixed point of the analysis of the loop
    have hstar : safeSk (Sk.star a) (b && b1) = some (b && b1) := by
      cases hbb : (b && b1) with
      | false =>
        rw [hbb] at h2
        have := safeSk_star_intro h2 (by simpa using h2)
        simpa using this
      | true =>
        have hb1 : b = true ∧ b1 = true := by simpa using hbb
        rw [hb1.1] at h1
        rw [hb1.2] at h1
        have := safeSk_star_intro h1 (by simpa using h1)
        simpa using this
    obtain ⟨s2, f2⟩ := ih₂ (b && b1) (b && b1) hstar
    have hle : (b && b1) = true → flagAfter l₁ b = true := fun hc => f1 (by simp at hc; exact hc.2)
    rw [safeOps_append, flagAfter_append]
    refine ⟨?_, fun hb' => ?_⟩
    · rw [s1, Bool.true_and]; exact safeOps_le l₂ hle s2
    · rw [hb] at hb'; exact flagAfter_le l₂ hle (f2 hb')

/-- what the property needs: a skeleton the analysis accepts from an UNSEEDED generator yields, on every
    path and every prefix of a path, the same draws from any two generator states -/
theorem draws_independent_of_state {σ ν : Type} (g : Gen σ ν) {sk : Sk} {b' : Bool}
    (hsafe : safeSk sk false = some b') {l t : List ROp} (hp : Path sk l) (ht : t <+: l) (s₁ s₂ : σ) :
    draws g t s₁ = draws g t s₂ :=
  (draws_of_safe g t false s₁ s₂ (by simp) (safeOps_prefix ht false (safeSk_sound hp false b' hsafe).1)).1

/-! ## (iii) ordered gather -/

theorem find_snd_of_unique {β : Type} (done : List (Nat × β)) (i : Nat) (v : β)
    (hall : ∀ d ∈ done, d.1 = i → d.2 = v) (hex : ∃ d ∈ done, d.1 = i) :
    (done.find? (fun d => d.1 == i)).map (·.2) = some v := by
  induction done with
  | nil => obtain ⟨d, hd, _⟩ := hex; cases hd
  | cons a t ih =>
    by_cases h : a.1 = i
    · simp [h, hall a (by simp) h]
    · have hex' : ∃ d ∈ t, d.1 = i := by
        obtain ⟨d, hd, hdi⟩ := hex
        rcases List.mem_cons.mp hd with rfl | hd
        · exact absurd hdi h
        · exact ⟨d, hd, hdi⟩
      simp [h]
      simpa using ih (fun d hd => hall d (List.mem_cons_of_mem _ hd)) hex'

/-- `Executor.map`: whatever the order in which the workers finish (every task finishes at least once),
    the results come back in submission order -/
theorem poolMap_eq_map {α β : Type} (f : α → β) (xs : List α) (order : List Nat)
    (hall : ∀ i, i < xs.length → i ∈ order) : poolMap f xs order = xs.map (fun x => some (f x)) := by
  unfold poolMap gatherOrdered
  apply List.ext_getElem
  · simp
  · intro i h1 h2
    simp at h1
    simp only [List.getElem_map, List.getElem_range]
    apply find_snd_of_unique
    · intro d hd hdi
      obtain ⟨j, _, hj⟩ := List.mem_filterMap.mp hd
      cases hx : xs[j]? with
      | none => rw [hx] at hj; cases hj
      | some x =>
        rw [hx] at hj
        simp at hj
        subst hj
        simp at hdi
        subst hdi
        have : xs[j]? = some xs[j] := List.getElem?_eq_getElem h1
        rw [this] at hx
        simp at hx ⊢
        rw [hx]
    · refine ⟨(i, f xs[i]), ?_, rfl⟩
      apply List.mem_filterMap.mpr
      exact ⟨i, hall i h1, by simp [List.getElem?_eq_getElem h1]⟩

/-! ## (iv) list arguments -/

theorem hset_append_length (h : Heap) (v w : List String) : hset (h ++ [v]) h.length w = h ++ [w] := by
  unfold hset
  rw [List.set_append_right _ _ (Nat.le_refl _)]
  simp

theorem hget_append_length (h : Heap) (v : List String) : hget (h ++ [v]) h.length = v := by
  unfold hget; simp

theorem earlyFilters_own_object (h : Heap) (v : List String) :
    ∃ w e, earlyFilters (h ++ [v]) h.length = (h ++ [w], e) := by
  unfold earlyFilters
  simp only [List.foldl_cons, List.foldl_nil]
  rw [hget_append_length]
  by_cases h1 : v.contains "ci" = true
  · rw [if_pos h1, hset_append_length]
    simp only [hget_append_length]
    by_cases h2 : (v.erase "ci").contains "sem" = true
    · rw [if_pos h2, hset_append_length]; exact ⟨_, _, rfl⟩
    · rw [if_neg h2]; exact ⟨_, _, rfl⟩
  · rw [if_neg h1]
    simp only [hget_append_length]
    by_cases h2 : v.contains "sem" = true
    · rw [if_pos h2, hset_append_length]; exact ⟨_, _, rfl⟩
    · rw [if_neg h2]; exact ⟨_, _, rfl⟩

/-- `do_call` leaves every caller-owned list object as it was -/
theorem doCallFilters_heap (h : Heap) (arg : Option Nat) : ∃ own, (doCallFilters h arg).1 = h ++ own := by
  unfold doCallFilters
  cases arg with
  | none => exact ⟨[], by simp⟩
  | some r =>
    by_cases he : (hget h r).isEmpty = true
    · simp only [he, if_true]; exact ⟨[], by simp⟩
    · simp only [he]
      obtain ⟨w, e, hw⟩ := earlyFilters_own_object h (hget h r)
      simp only [halloc, hw]
      exact ⟨[w], rfl⟩

/-- the filter bookkeeping of `do_call` on a plain list value: (what is left for after calling, what is applied before) -/
def earlyPure (v : List String) : List String × List String :=
  ["ci", "sem"].foldl (fun (st : List String × List String) filt =>
    if st.1.contains filt then (st.1.erase filt, st.2 ++ [filt]) else st) (v, [])

theorem hget_hset {h : Heap} {r : Nat} (hr : r < h.length) (v : List String) : hget (hset h r v) r = v := by
  unfold hget hset; simp [hr]

theorem hset_hset (h : Heap) (r : Nat) (v w : List String) : hset (hset h r v) r w = hset h r w := by
  unfold hset; simp

theorem hset_hget {h : Heap} {r : Nat} (hr : r < h.length) : hset h r (hget h r) = h := by
  unfold hget hset
  apply List.ext_getElem
  · simp
  · intro i h1 h2
    by_cases hi : r = i
    · subst hi; simp [hr]
    · simp [List.getElem_set_ne hi]

theorem earlyFilters_eq {h : Heap} {r : Nat} (hr : r < h.length) :
    earlyFilters h r = (hset h r (earlyPure (hget h r)).1, (earlyPure (hget h r)).2) := by
  have hlen : ∀ v, r < (hset h r v).length := fun v => by unfold hset; simpa using hr
  unfold earlyFilters earlyPure
  simp only [List.foldl_cons, List.foldl_nil]
  by_cases h1 : (hget h r).contains "ci" = true
  · rw [if_pos h1, if_pos h1]
    simp only [hget_hset hr]
    by_cases h2 : ((hget h r).erase "ci").contains "sem" = true
    · rw [if_pos h2, if_pos h2, hset_hset]
    · rw [if_neg h2, if_neg h2]
  · rw [if_neg h1, if_neg h1]
    by_cases h2 : (hget h r).contains "sem" = true
    · rw [if_pos h2, if_pos h2]
    · rw [if_neg h2, if_neg h2, hset_hget hr]

/-- the repaired `do_call` applies exactly the filters the old code applied, in the same order -/
theorem doCallFilters_same_filters {h : Heap} {r : Nat} (hr : r < h.length) :
    (doCallFilters h (some r)).2 = (doCallFiltersPrefix h (some r)).2 := by
  unfold doCallFilters doCallFiltersPrefix
  by_cases he : (hget h r).isEmpty = true
  · simp [he]
  · have hl : h.length < (h ++ [hget h r]).length := by simp
    simp only [he, halloc]
    rw [earlyFilters_eq hr, earlyFilters_eq hl]
    simp only [hget_append_length, hget_hset hr, hget_hset hl]
    simp

theorem useHeap_id (h : Heap) (u : Use) : useHeap false h u = h := by
  unfold useHeap
  cases u.role with
  | filters =>
    obtain ⟨own, ho⟩ := doCallFilters_heap h (some u.ref)
    simp [ho]
  | ignoreList => rfl
  | ignoreTuple => rfl
  | readOnly => rfl

theorem stepHeap_id (h : Heap) (s : Step) : stepHeap false h s = h := by
  unfold stepHeap
  induction s.uses with
  | nil => rfl
  | cons u r ih => rw [List.foldl_cons, useHeap_id]; exact ih

theorem runHistory_spec (h : Heap) (steps : List Step) :
    runHistory false h steps = steps.map (fun s => (s.fresh, h)) := by
  induction steps with
  | nil => rfl
  | cons s r ih => simp [runHistory, stepHeap_id, ih]

end CnvVerif.Effects
