/-
  Lemmas behind Props/C03.lean: for EVERY partition of the surviving bins that a segmenter may
  return, the glue of `_do_segmentation` / `transfer_fields` (model: `assembleUnit`) produces segments
  that tile the arm and account for every surviving bin.
-/
import CnvVerif.Model.Tile
namespace CnvVerif

/-- one arm's input bins: positive length, in order, non-overlapping, one chromosome -/
def WFUnit (u : List Bin) : Prop :=
  (∀ b ∈ u, b.s < b.e) ∧ u.Pairwise (fun a b => a.chrom = b.chrom ∧ a.e ≤ b.s)

def sumI (l : List Int) : Int := l.foldl (· + ·) 0

/-! ### partitions -/

theorem splitLens_flatten {α} (l : List α) (ns : List Nat) : (splitLens l ns).flatten = l := by
  sorry

theorem splitLens_nonempty {α} (l : List α) (ns : List Nat) : ∀ g ∈ splitLens l ns, g ≠ [] := by
  sorry

/-- `by_arm` only cuts: the arms of a chromosome concatenate to its rows, in order -/
theorem armsOfChrom_flatten {α} (rows : List α) (s e : α → Int) (minGap : Int) (minArmBins : Nat) :
    (armsOfChrom rows s e minGap minArmBins).flatten = rows := by
  sorry

/-- … and there are at most two of them -/
theorem armsOfChrom_length {α} (rows : List α) (s e : α → Int) (minGap : Int) (minArmBins : Nat) :
    (armsOfChrom rows s e minGap minArmBins).length ≤ 2 := by
  sorry

/-! ### the assembled segments, for every `runs` -/

/-- probes sum to the number of surviving bins -/
theorem assembleUnit_probes_sum (u : List Bin) (runs : List Nat) :
    sumI ((assembleUnit u runs).map (·.probes)) = ((u.filter (·.keep)).length : Int) := by
  sorry

/-- a unit with a surviving bin has a segment; one without has none -/
theorem assembleUnit_nonempty_iff (u : List Bin) (runs : List Nat) :
    assembleUnit u runs ≠ [] ↔ ∃ b ∈ u, b.keep = true := by
  sorry

/-- segments have positive length, are sorted and do not overlap -/
theorem assembleUnit_sorted_disjoint (u : List Bin) (hw : WFUnit u) (runs : List Nat) :
    (∀ g ∈ assembleUnit u runs, g.s < g.e) ∧ (assembleUnit u runs).Pairwise (fun a b => a.e ≤ b.s) := by
  sorry

/-- the first segment starts at the arm's first input bin and the last ends at its last input bin,
    even when edge bins were filtered out (repaired code) -/
theorem assembleUnit_endpoints (u : List Bin) (hw : WFUnit u) (runs : List Nat)
    (hs : ∃ b ∈ u, b.keep = true) :
    ((assembleUnit u runs).head?.map (·.s)) = u.head?.map (·.s) ∧
    ((assembleUnit u runs).getLast?.map (·.e)) = u.getLast?.map (·.e) := by
  sorry

/-- all segments lie on the unit's chromosome, within the span of its input bins -/
theorem assembleUnit_within (u : List Bin) (hw : WFUnit u) (runs : List Nat) (first last : Bin)
    (hf : u.head? = some first) (hl : u.getLast? = some last) :
    ∀ g ∈ assembleUnit u runs, g.chrom = first.chrom ∧ first.s ≤ g.s ∧ g.e ≤ last.e := by
  sorry

/-- every surviving bin lies in exactly one segment -/
theorem assembleUnit_each_survivor_once (u : List Bin) (hw : WFUnit u) (runs : List Nat) :
    ∀ b ∈ u, b.keep = true → ((assembleUnit u runs).filter (containedIn b)).length = 1 := by
  sorry

/-- a segment's `probes` is the number of surviving bins it contains -/
theorem assembleUnit_probes_count (u : List Bin) (hw : WFUnit u) (runs : List Nat) :
    ∀ g ∈ assembleUnit u runs,
      g.probes = ((u.filter (fun b => b.keep && containedIn b g)).length : Int) := by
  sorry

/-- weight = sum, depth = weight-averaged depth of ALL input bins of the unit the segment spans;
    gene = their distinct meaningful names in order -/
theorem aggregate_fields (unit : List Bin) (g : SegO) :
    let sel := unit.filter (fun b => b.chrom == g.chrom && decide (b.e > g.s) && decide (b.s < g.e))
    (aggregate unit g).weight = sumQ (sel.map (·.weight)) ∧
    (0 < sumQ (sel.map (·.weight)) →
      (aggregate unit g).depth * sumQ (sel.map (·.weight)) = sumQ (sel.map (fun b => b.depth * b.weight))) ∧
    (aggregate unit g).s = g.s ∧ (aggregate unit g).e = g.e ∧ (aggregate unit g).probes = g.probes ∧
    (aggregate unit g).log2 = g.log2 := by
  sorry

theorem assembleUnit_aggregated (u : List Bin) (runs : List Nat) :
    ∀ g ∈ assembleUnit u runs, aggregate u g = g := by
  sorry

/-- the survive mask of the deterministic filters, in the property's terms -/
theorem surviveMask_iff (skipLow : Bool) (minWeight : Rat) (outlier : Bool) (log2 depth w : Rat) :
    surviveMask skipLow minWeight outlier log2 depth w = true ↔
      (skipLow = true → ¬ (log2 < Generated.NULL_LOG2_COVERAGE - Generated.MIN_REF_COVERAGE ∨ depth = 0)) ∧
      outlier = false ∧
      (if minWeight ≠ 0 then ¬ (w < minWeight) else w ≠ 0) := by
  sorry

end CnvVerif
