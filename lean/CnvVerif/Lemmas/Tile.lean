/-
  Lemmas behind Props/C03.lean: for EVERY partition of the surviving bins that a segmenter may
  return, the glue of `_do_segmentation` / `transfer_fields` (model: `assembleUnit`) produces segments
  that tile the arm and account for every surviving bin.
-/
import CnvVerif.Model.Tile
namespace CnvVerif

/-- one arm's input bins: positive length, in order, non-overlapping, one chromosome -/
def WFUnit (u : List Bin) : Prop :=
  (∀ b ∈ u, b.s < b.e) ∧ u.Pairwise (fun a b => a.chrom = b.chrom ∧ a.e ≤ b.s)

def sumI (l : List Int) : Int := l.foldl (· + ·) 0

theorem foldl_add_init (a : Int) (l : List Int) :
    l.foldl (· + ·) a = a + l.foldl (· + ·) 0 := by
  induction l generalizing a with
  | nil => simp
  | cons x xs ih =>
    simp only [List.foldl_cons]
    rw [ih (a + x), ih (0 + x)]; omega

theorem sumI_nil : sumI [] = 0 := rfl
theorem sumI_cons (x : Int) (xs : List Int) : sumI (x :: xs) = x + sumI xs := by
  unfold sumI
  rw [List.foldl_cons, foldl_add_init]; omega

/-! ### setFirst / setLast -/

theorem setLast_cons_cons {α} (f : α → α) (x y : α) (t : List α) :
    setLast f (x :: y :: t) = x :: setLast f (y :: t) := rfl

theorem setFirst_map_inv {α β} (f : α → α) (p : α → β) (h : ∀ x, p (f x) = p x) (l : List α) :
    (setFirst f l).map p = l.map p := by
  cases l with
  | nil => rfl
  | cons x xs => simp [setFirst, h]

theorem setLast_map_inv {α β} (f : α → α) (p : α → β) (h : ∀ x, p (f x) = p x) (l : List α) :
    (setLast f l).map p = l.map p := by
  induction l with
  | nil => rfl
  | cons x xs ih =>
    cases xs with
    | nil => simp [setLast, h]
    | cons y t => rw [setLast_cons_cons, List.map_cons, ih]; rfl

theorem setFirst_eq_nil {α} (f : α → α) (l : List α) : setFirst f l = [] ↔ l = [] := by
  cases l <;> simp [setFirst]

theorem setLast_eq_nil {α} (f : α → α) (l : List α) : setLast f l = [] ↔ l = [] := by
  cases l with
  | nil => simp [setLast]
  | cons x xs => cases xs <;> simp [setLast]

theorem setFirst_head? {α} (f : α → α) (l : List α) : (setFirst f l).head? = l.head?.map f := by
  cases l <;> rfl

theorem setLast_getLast? {α} (f : α → α) (l : List α) : (setLast f l).getLast? = l.getLast?.map f := by
  induction l with
  | nil => rfl
  | cons x xs ih =>
    cases xs with
    | nil => simp [setLast]
    | cons y t =>
      rw [setLast_cons_cons]
      have : setLast f (y :: t) ≠ [] := by simp [setLast_eq_nil]
      obtain ⟨z, zs, hz⟩ := List.exists_cons_of_ne_nil this
      rw [hz, List.getLast?_cons_cons, ← hz, ih, List.getLast?_cons_cons]

theorem setLast_head?_inv {α β} (f : α → α) (p : α → β) (h : ∀ x, p (f x) = p x) (l : List α) :
    (setLast f l).head?.map p = l.head?.map p := by
  rw [← List.head?_map, setLast_map_inv f p h, List.head?_map]

theorem setLast_mem_inv {α β : Type _} (f : α → α) (p : α → β) (h : ∀ x, p (f x) = p x) (l : List α) :
    ∀ g ∈ setLast f l, ∃ g0 ∈ l, p g0 = p g := by
  intro g hg
  have this := List.mem_map_of_mem (f := p) hg
  rw [setLast_map_inv f p h] at this
  obtain ⟨g0, h0, h1⟩ := List.mem_map.mp this
  exact ⟨g0, h0, h1⟩

theorem splitLens_flatten {α} (l : List α) (ns : List Nat) : (splitLens l ns).flatten = l := by
  induction ns generalizing l with
  | nil =>
    unfold splitLens
    split
    · rename_i h; simp [List.isEmpty_iff] at h; simp [h]
    · simp
  | cons n ns ih =>
    unfold splitLens
    split
    · rename_i h; simp [List.isEmpty_iff] at h; simp [h]
    · split
      · exact ih l
      · rw [List.flatten_cons, ih, List.take_append_drop]

theorem splitLens_nonempty {α} (l : List α) (ns : List Nat) : ∀ g ∈ splitLens l ns, g ≠ [] := by
  induction ns generalizing l with
  | nil =>
    unfold splitLens
    split
    · simp
    · rename_i h; simp [List.isEmpty_iff] at h; simpa using h
  | cons n ns ih =>
    unfold splitLens
    split
    · simp
    · rename_i h
      simp [List.isEmpty_iff] at h
      split
      · exact ih l
      · rename_i hn
        intro g hg
        rcases List.mem_cons.mp hg with rfl | hg
        · cases l with
          | nil => exact absurd rfl h
          | cons a t =>
            cases n with
            | zero => exact absurd rfl hn
            | succ n => simp
        · exact ih _ g hg

theorem armsOfChrom_flatten {α} (rows : List α) (s e : α → Int) (minGap : Int) (minArmBins : Nat) :
    (armsOfChrom rows s e minGap minArmBins).flatten = rows := by
  unfold armsOfChrom
  simp only
  split <;> simp

theorem armsOfChrom_length {α} (rows : List α) (s e : α → Int) (minGap : Int) (minArmBins : Nat) :
    (armsOfChrom rows s e minGap minArmBins).length ≤ 2 := by
  unfold armsOfChrom
  simp only
  split <;> simp

theorem aggregate_fields (unit : List Bin) (g : SegO) :
    let sel := unit.filter (fun b => b.chrom == g.chrom && decide (b.e > g.s) && decide (b.s < g.e))
    (aggregate unit g).weight = sumQ (sel.map (·.weight)) ∧
    (0 < sumQ (sel.map (·.weight)) →
      (aggregate unit g).depth * sumQ (sel.map (·.weight)) = sumQ (sel.map (fun b => b.depth * b.weight))) ∧
    (aggregate unit g).s = g.s ∧ (aggregate unit g).e = g.e ∧ (aggregate unit g).probes = g.probes ∧
    (aggregate unit g).log2 = g.log2 := by
  intro sel
  refine ⟨rfl, ?_, rfl, rfl, rfl, rfl⟩
  intro hpos
  show (if sumQ (sel.map (·.weight)) > 0 then sumQ (sel.map (fun b => b.depth * b.weight)) / sumQ (sel.map (·.weight)) else 0) * _ = _
  rw [if_pos hpos]
  exact Rat.div_mul_cancel (Rat.ne_of_gt hpos)

theorem aggregate_idem (u : List Bin) (g : SegO) : aggregate u (aggregate u g) = aggregate u g := rfl

theorem surviveMask_iff (skipLow : Bool) (minWeight : Rat) (outlier : Bool) (log2 depth w : Rat) :
    surviveMask skipLow minWeight outlier log2 depth w = true ↔
      (skipLow = true → ¬ (log2 < Generated.NULL_LOG2_COVERAGE - Generated.MIN_REF_COVERAGE ∨ depth = 0)) ∧
      outlier = false ∧
      (if minWeight ≠ 0 then ¬ (w < minWeight) else w ≠ 0) := by
  unfold surviveMask isLowCoverage weightTooLow
  by_cases hm : minWeight = 0 <;> cases skipLow <;> cases outlier <;> simp [hm]

/-! ### well-formed units -/

theorem WFUnit.sublist {l₁ l₂ : List Bin} (h : l₁.Sublist l₂) (hw : WFUnit l₂) : WFUnit l₁ :=
  ⟨fun b hb => hw.1 b (h.subset hb), hw.2.sublist h⟩

theorem WFUnit.head_le {a : Bin} {t : List Bin} (hw : WFUnit (a :: t)) :
    ∀ b ∈ a :: t, a.chrom = b.chrom ∧ a.s ≤ b.s := by
  intro b hb
  rcases List.mem_cons.mp hb with rfl | hb
  · exact ⟨rfl, Int.le_refl _⟩
  · have h1 := (List.pairwise_cons.mp hw.2).1 b hb
    have h2 := hw.1 a (List.mem_cons_self ..)
    exact ⟨h1.1, by omega⟩

theorem WFUnit.le_last {u : List Bin} (hw : WFUnit u) {last : Bin} (hl : u.getLast? = some last) :
    ∀ b ∈ u, b.e ≤ last.e := by
  induction u with
  | nil => simp
  | cons a t ih =>
    cases t with
    | nil =>
      simp at hl; subst hl; simp
    | cons b t =>
      rw [List.getLast?_cons_cons] at hl
      have hw' : WFUnit (b :: t) := hw.sublist (List.sublist_cons_self ..)
      have ih' := ih hw' hl
      intro x hx
      rcases List.mem_cons.mp hx with rfl | hx
      · have h1 := (List.pairwise_cons.mp hw.2).1 b (List.mem_cons_self ..)
        have h2 := hw.1 b (List.mem_cons_of_mem _ (List.mem_cons_self ..))
        have h3 := ih' b (List.mem_cons_self ..)
        omega
      · exact ih' x hx

theorem WFUnit.chrom_eq {u : List Bin} (hw : WFUnit u) {first : Bin} (hf : u.head? = some first) :
    ∀ b ∈ u, first.chrom = b.chrom ∧ first.s ≤ b.s := by
  cases u with
  | nil => simp at hf
  | cons a t => simp at hf; subst hf; exact hw.head_le

theorem containedIn_iff (b : Bin) (g : SegO) :
    containedIn b g = true ↔ b.chrom = g.chrom ∧ g.s ≤ b.s ∧ b.e ≤ g.e := by
  simp [containedIn, and_assoc]

/-! ### the invariant: groups of survivors covered by their segments -/

/-- `g` is the segment of the group `grp` (possibly stretched) -/
def SegR (grp : List Bin) (g : SegO) : Prop :=
  grp ≠ [] ∧ g.probes = (grp.length : Int) ∧ ∀ b ∈ grp, b.chrom = g.chrom ∧ g.s ≤ b.s ∧ b.e ≤ g.e

def Cov : List (List Bin) → List SegO → Prop
  | [], [] => True
  | grp :: gs, g :: segs => SegR grp g ∧ Cov gs segs
  | _, _ => False

/-- positive, within `[lo, hi]` on chromosome `c`, sorted and disjoint -/
def SegsOK (c : String) (lo hi : Int) (segs : List SegO) : Prop :=
  (∀ g ∈ segs, g.s < g.e ∧ lo ≤ g.s ∧ g.e ≤ hi ∧ g.chrom = c) ∧ segs.Pairwise (fun a b => a.e ≤ b.s)

theorem Cov.mem {gs : List (List Bin)} {segs : List SegO} (hc : Cov gs segs) {b : Bin}
    (hb : b ∈ gs.flatten) : ∃ g ∈ segs, b.chrom = g.chrom ∧ g.s ≤ b.s ∧ b.e ≤ g.e := by
  induction gs generalizing segs with
  | nil => simp at hb
  | cons grp gs ih =>
    cases segs with
    | nil => simp [Cov] at hc
    | cons g segs =>
      obtain ⟨hr, hc'⟩ := hc
      rw [List.flatten_cons] at hb
      rcases List.mem_append.mp hb with hb | hb
      · exact ⟨g, List.mem_cons_self .., hr.2.2 b hb⟩
      · obtain ⟨g', hg', h⟩ := ih hc' hb
        exact ⟨g', List.mem_cons_of_mem _ hg', h⟩

theorem SegsOK.tail {c lo hi g segs} (h : SegsOK c lo hi (g :: segs)) : SegsOK c lo hi segs :=
  ⟨fun x hx => h.1 x (List.mem_cons_of_mem _ hx), (List.pairwise_cons.mp h.2).2⟩

theorem Cov.once {c lo hi} {gs : List (List Bin)} {segs : List SegO} (hc : Cov gs segs)
    (hok : SegsOK c lo hi segs) (hpos : ∀ b ∈ gs.flatten, b.s < b.e) {b : Bin} (hb : b ∈ gs.flatten) :
    (segs.filter (containedIn b)).length = 1 := by
  induction gs generalizing segs with
  | nil => simp at hb
  | cons grp gs ih =>
    cases segs with
    | nil => simp [Cov] at hc
    | cons g segs =>
      obtain ⟨hr, hc'⟩ := hc
      have hpw := (List.pairwise_cons.mp hok.2).1
      have hbpos := hpos b hb
      rw [List.flatten_cons] at hb hpos
      rcases List.mem_append.mp hb with hb | hb
      · have h1 : containedIn b g = true := (containedIn_iff b g).mpr (hr.2.2 b hb)
        have h2 : segs.filter (containedIn b) = [] := by
          rw [List.filter_eq_nil_iff]
          intro g' hg' hcon
          have := (containedIn_iff b g').mp hcon
          have := hpw g' hg'
          have := hr.2.2 b hb
          omega
        rw [List.filter_cons_of_pos h1, h2]; rfl
      · obtain ⟨g', hg', h⟩ := hc'.mem hb
        have h1 : ¬ containedIn b g = true := by
          intro hcon
          have := (containedIn_iff b g).mp hcon
          have := hpw g' hg'
          omega
        rw [List.filter_cons_of_neg h1]
        exact ih hc' hok.tail (fun x hx => hpos x (List.mem_append_right _ hx)) hb

theorem Cov.count {c lo hi} {gs : List (List Bin)} {segs : List SegO} (hc : Cov gs segs)
    (hok : SegsOK c lo hi segs) (hpos : ∀ b ∈ gs.flatten, b.s < b.e) {g : SegO} (hg : g ∈ segs) :
    g.probes = ((gs.flatten.filter (fun b => containedIn b g)).length : Int) := by
  induction gs generalizing segs with
  | nil => cases segs <;> simp [Cov] at hc hg
  | cons grp gs ih =>
    cases segs with
    | nil => simp [Cov] at hc
    | cons g1 segs =>
      obtain ⟨hr, hc'⟩ := hc
      have hpw := (List.pairwise_cons.mp hok.2).1
      rw [List.flatten_cons] at hpos ⊢
      rw [List.filter_append, List.length_append]
      rcases List.mem_cons.mp hg with rfl | hg
      · have h1 : grp.filter (fun b => containedIn b g) = grp := by
          rw [List.filter_eq_self]
          intro b hb
          exact (containedIn_iff b g).mpr (hr.2.2 b hb)
        have h2 : gs.flatten.filter (fun b => containedIn b g) = [] := by
          rw [List.filter_eq_nil_iff]
          intro b hb hcon
          have := (containedIn_iff b g).mp hcon
          obtain ⟨g', hg', h⟩ := hc'.mem hb
          have := hpw g' hg'
          have := hpos b (List.mem_append_right _ hb)
          omega
        rw [h1, h2, hr.2.1]; simp
      · have h1 : grp.filter (fun b => containedIn b g) = [] := by
          rw [List.filter_eq_nil_iff]
          intro b hb hcon
          have := (containedIn_iff b g).mp hcon
          have := hr.2.2 b hb
          have := hpw g hg
          have := hpos b (List.mem_append_left _ hb)
          omega
        rw [h1, ih hc' hok.tail (fun x hx => hpos x (List.mem_append_right _ hx)) hg]; simp

theorem Cov.length_eq {gs : List (List Bin)} {segs : List SegO} (hc : Cov gs segs) :
    segs.length = gs.length := by
  induction gs generalizing segs with
  | nil => cases segs <;> simp [Cov] at hc ⊢
  | cons grp gs ih =>
    cases segs with
    | nil => simp [Cov] at hc
    | cons g segs => simp [ih hc.2]

/-! ### building the invariant -/

theorem segOfRun_spec (a : Bin) (t : List Bin) (last : Bin) (hl : (a :: t).getLast? = some last) :
    ∃ g, segOfRun (a :: t) = some g ∧ g.chrom = a.chrom ∧ g.s = a.s ∧ g.e = last.e ∧
      g.probes = ((a :: t).length : Int) := by
  refine ⟨_, rfl, rfl, rfl, ?_, rfl⟩
  show ((a :: t).getLast?.getD a).e = last.e
  rw [hl]; rfl

theorem cov_segs0 (c : String) (hi : Int) (gs : List (List Bin)) (hne : ∀ grp ∈ gs, grp ≠ [])
    (hw : WFUnit gs.flatten) (lo : Int)
    (hb : ∀ a ∈ gs.flatten, lo ≤ a.s ∧ a.e ≤ hi ∧ a.chrom = c) :
    Cov gs (gs.filterMap segOfRun) ∧ SegsOK c lo hi (gs.filterMap segOfRun) := by
  induction gs generalizing lo with
  | nil => simp [Cov, SegsOK]
  | cons grp gs ih =>
    have hgrp := hne grp (List.mem_cons_self ..)
    cases grp with
    | nil => exact absurd rfl hgrp
    | cons a t =>
      rw [List.flatten_cons] at hw hb
      obtain ⟨last, hl⟩ : ∃ last, (a :: t).getLast? = some last := by
        cases h : (a :: t).getLast? with
        | none => simp at h
        | some x => exact ⟨x, rfl⟩
      obtain ⟨g, hg, hgc, hgs, hge, hgp⟩ := segOfRun_spec a t last hl
      have hwg : WFUnit (a :: t) := hw.sublist (List.sublist_append_left ..)
      have hwr : WFUnit gs.flatten := hw.sublist (List.sublist_append_right ..)
      have hcross := (List.pairwise_append.mp hw.2).2.2
      have hlast_mem : last ∈ a :: t := List.mem_of_getLast? hl
      have hhead := hwg.head_le
      have hlast := hwg.le_last hl
      have hlpos := hwg.1 last hlast_mem
      have hba := hb a (List.mem_append_left _ (List.mem_cons_self ..))
      have hbl := hb last (List.mem_append_left _ hlast_mem)
      have hal := hhead last hlast_mem
      obtain ⟨ihc, ihok⟩ := ih (fun x hx => hne x (List.mem_cons_of_mem _ hx)) hwr last.e
        (fun x hx => ⟨(hcross last hlast_mem x hx).2, (hb x (List.mem_append_right _ hx)).2⟩)
      rw [List.filterMap_cons_some hg]
      refine ⟨⟨⟨hgrp, hgp, ?_⟩, ihc⟩, ?_, ?_⟩
      · intro b hbm
        have h1 := hhead b hbm
        have h2 := hlast b hbm
        exact ⟨by rw [hgc]; exact h1.1.symm, by omega, by omega⟩
      · intro x hx
        rcases List.mem_cons.mp hx with rfl | hx
        · exact ⟨by omega, by omega, by omega, by rw [hgc]; exact hba.2.2⟩
        · have := ihok.1 x hx
          exact ⟨this.1, by omega, this.2.2.1, this.2.2.2⟩
      · refine List.pairwise_cons.mpr ⟨?_, ihok.2⟩
        intro x hx
        have := ihok.1 x hx
        omega

theorem cov_setFirst (c : String) (lo hi : Int) (gs : List (List Bin)) (segs : List SegO)
    (hc : Cov gs segs) (hok : SegsOK c lo hi segs) :
    Cov gs (setFirst (fun g => if g.chrom == c then { g with s := lo } else g) segs) ∧
    SegsOK c lo hi (setFirst (fun g => if g.chrom == c then { g with s := lo } else g) segs) := by
  cases segs with
  | nil => exact ⟨hc, hok⟩
  | cons g segs =>
    cases gs with
    | nil => simp [Cov] at hc
    | cons grp gs =>
      obtain ⟨hr, hc'⟩ := hc
      have hg := hok.1 g (List.mem_cons_self ..)
      have hpw := List.pairwise_cons.mp hok.2
      have hch : (g.chrom == c) = true := by simp [hg.2.2.2]
      show Cov (grp :: gs) ((if (g.chrom == c) = true then { g with s := lo } else g) :: segs) ∧
        SegsOK c lo hi ((if (g.chrom == c) = true then { g with s := lo } else g) :: segs)
      rw [if_pos hch]
      refine ⟨⟨⟨hr.1, hr.2.1, ?_⟩, hc'⟩, ?_, ?_⟩
      · intro b hb
        have := hr.2.2 b hb
        exact ⟨this.1, by show lo ≤ b.s; omega, this.2.2⟩
      · intro x hx
        rcases List.mem_cons.mp hx with rfl | hx
        · exact ⟨by show lo < g.e; omega, Int.le_refl _, hg.2.2.1, hg.2.2.2⟩
        · exact hok.1 x (List.mem_cons_of_mem _ hx)
      · exact List.pairwise_cons.mpr ⟨hpw.1, hpw.2⟩

theorem cov_setLast (c : String) (lo hi : Int) (gs : List (List Bin)) (segs : List SegO)
    (hc : Cov gs segs) (hok : SegsOK c lo hi segs) :
    Cov gs (setLast (fun g => if g.chrom == c then { g with e := hi } else g) segs) ∧
    SegsOK c lo hi (setLast (fun g => if g.chrom == c then { g with e := hi } else g) segs) := by
  induction segs generalizing gs with
  | nil => exact ⟨hc, hok⟩
  | cons g segs ih =>
    cases gs with
    | nil => simp [Cov] at hc
    | cons grp gs =>
      obtain ⟨hr, hc'⟩ := hc
      have hg := hok.1 g (List.mem_cons_self ..)
      have hpw := List.pairwise_cons.mp hok.2
      cases segs with
      | nil =>
        have hch : (g.chrom == c) = true := by simp [hg.2.2.2]
        show Cov (grp :: gs) [if (g.chrom == c) = true then { g with e := hi } else g] ∧
          SegsOK c lo hi [if (g.chrom == c) = true then { g with e := hi } else g]
        rw [if_pos hch]
        refine ⟨⟨⟨hr.1, hr.2.1, ?_⟩, hc'⟩, ?_, ?_⟩
        · intro b hb
          have := hr.2.2 b hb
          exact ⟨this.1, this.2.1, by show b.e ≤ hi; omega⟩
        · intro x hx
          rw [List.mem_singleton] at hx
          subst hx
          exact ⟨by show g.s < hi; omega, hg.2.1, Int.le_refl _, hg.2.2.2⟩
        · exact List.pairwise_singleton ..
      | cons g2 segs =>
        rw [setLast_cons_cons]
        obtain ⟨ihc, ihok⟩ := ih gs hc' hok.tail
        refine ⟨⟨hr, ihc⟩, ?_, ?_⟩
        · intro x hx
          rcases List.mem_cons.mp hx with rfl | hx
          · exact hg
          · exact ihok.1 x hx
        · refine List.pairwise_cons.mpr ⟨?_, ihok.2⟩
          intro x hx
          obtain ⟨x0, hx0, hs⟩ := setLast_mem_inv _ (fun g : SegO => g.s) (by
            intro y; show (if (y.chrom == c) = true then { y with e := hi } else y).s = y.s
            split <;> rfl) _ x hx
          have := hpw.1 x0 hx0
          omega

theorem cov_map (c : String) (lo hi : Int) (h : SegO → SegO)
    (hh : ∀ g, (h g).chrom = g.chrom ∧ (h g).s = g.s ∧ (h g).e = g.e ∧ (h g).probes = g.probes)
    (gs : List (List Bin)) (segs : List SegO) (hc : Cov gs segs) (hok : SegsOK c lo hi segs) :
    Cov gs (segs.map h) ∧ SegsOK c lo hi (segs.map h) := by
  refine ⟨?_, ?_, ?_⟩
  · induction gs generalizing segs with
    | nil => cases segs <;> simp [Cov] at hc ⊢
    | cons grp gs ih =>
      cases segs with
      | nil => simp [Cov] at hc
      | cons g segs =>
        obtain ⟨hr, hc'⟩ := hc
        obtain ⟨h1, h2, h3, h4⟩ := hh g
        refine ⟨⟨hr.1, by rw [h4]; exact hr.2.1, ?_⟩, ih segs hc' hok.tail⟩
        intro b hb
        rw [h1, h2, h3]; exact hr.2.2 b hb
  · intro x hx
    obtain ⟨g, hg, rfl⟩ := List.mem_map.mp hx
    obtain ⟨h1, h2, h3, h4⟩ := hh g
    rw [h1, h2, h3]; exact hok.1 g hg
  · rw [List.pairwise_map]
    refine hok.2.imp ?_
    intro a b hab
    rw [(hh a).2.2.1, (hh b).2.1]; exact hab

/-! ### the assembled segments -/

theorem assembleUnit_nil (runs : List Nat) : assembleUnit [] runs = [] := rfl

theorem assembleUnit_cons_eq (first : Bin) (t : List Bin) (runs : List Nat) :
    assembleUnit (first :: t) runs =
      if ((first :: t).filter (·.keep)).isEmpty then [] else
        (setLast (fun g => if g.chrom == ((first :: t).getLast?.getD first).chrom
            then { g with e := ((first :: t).getLast?.getD first).e } else g)
          (setFirst (fun g => if g.chrom == first.chrom then { g with s := first.s } else g)
            ((splitLens ((first :: t).filter (·.keep)) runs).filterMap segOfRun))).map
          (aggregate (first :: t)) := rfl

theorem aggregate_keeps (u : List Bin) (g : SegO) :
    (aggregate u g).chrom = g.chrom ∧ (aggregate u g).s = g.s ∧ (aggregate u g).e = g.e ∧
      (aggregate u g).probes = g.probes := ⟨rfl, rfl, rfl, rfl⟩

theorem splitLens_ne_nil {α} (l : List α) (ns : List Nat) (h : l ≠ []) : splitLens l ns ≠ [] := by
  intro h0
  have := splitLens_flatten l ns
  rw [h0] at this
  exact h this.symm

theorem segs0_ne_nil (l : List Bin) (ns : List Nat) (h : l ≠ []) :
    (splitLens l ns).filterMap segOfRun ≠ [] := by
  have h1 := splitLens_ne_nil l ns h
  have h2 := splitLens_nonempty l ns
  cases hs : splitLens l ns with
  | nil => exact absurd hs h1
  | cons grp gs =>
    have := h2 grp (by rw [hs]; exact List.mem_cons_self ..)
    cases grp with
    | nil => exact absurd rfl this
    | cons a t => simp [segOfRun]

theorem assembleUnit_inv (first : Bin) (t : List Bin) (hw : WFUnit (first :: t)) (runs : List Nat)
    (last : Bin) (hl : (first :: t).getLast? = some last) :
    ∃ gs, gs.flatten = (first :: t).filter (·.keep) ∧
      Cov gs (assembleUnit (first :: t) runs) ∧
      SegsOK first.chrom first.s last.e (assembleUnit (first :: t) runs) ∧
      ((first :: t).filter (·.keep) ≠ [] →
        (assembleUnit (first :: t) runs).head?.map (·.s) = some first.s ∧
        (assembleUnit (first :: t) runs).getLast?.map (·.e) = some last.e) := by
  have hlast_mem : last ∈ first :: t := List.mem_of_getLast? hl
  have hlc : last.chrom = first.chrom := (hw.head_le last hlast_mem).1.symm
  rw [assembleUnit_cons_eq, hl, Option.getD_some, hlc]
  generalize hsv : (first :: t).filter (·.keep) = sv
  by_cases hem : sv = []
  · subst hem
    exact ⟨[], rfl, by simp [Cov], by simp [SegsOK], fun h => absurd rfl h⟩
  · have hie : sv.isEmpty = false := by simpa [List.isEmpty_iff] using hem
    rw [hie]
    simp only [Bool.false_eq_true, if_false]
    have hsub : sv.Sublist (first :: t) := hsv ▸ List.filter_sublist
    have hwsv : WFUnit sv := hw.sublist hsub
    have hbnd : ∀ a ∈ sv, first.s ≤ a.s ∧ a.e ≤ last.e ∧ a.chrom = first.chrom := by
      intro a ha
      have h1 := hw.head_le a (hsub.subset ha)
      have h2 := hw.le_last hl a (hsub.subset ha)
      exact ⟨h1.2, h2, h1.1.symm⟩
    have hfl := splitLens_flatten sv runs
    have h0 := cov_segs0 first.chrom last.e (splitLens sv runs) (splitLens_nonempty sv runs)
      (by rw [hfl]; exact hwsv) first.s (by rw [hfl]; exact hbnd)
    have hne0 := segs0_ne_nil sv runs hem
    generalize (splitLens sv runs).filterMap segOfRun = segs0 at h0 hne0
    have h1 := cov_setFirst first.chrom first.s last.e _ _ h0.1 h0.2
    have h2 := cov_setLast first.chrom first.s last.e _ _ h1.1 h1.2
    have h3 := cov_map first.chrom first.s last.e (aggregate (first :: t))
      (aggregate_keeps (first :: t)) _ _ h2.1 h2.2
    refine ⟨splitLens sv runs, hfl, h3.1, h3.2, fun _ => ⟨?_, ?_⟩⟩
    · rw [← List.head?_map, List.map_map]
      have : ((fun g : SegO => g.s) ∘ aggregate (first :: t)) = fun g : SegO => g.s := rfl
      rw [this, setLast_map_inv _ (fun g : SegO => g.s) (by
        intro y; show (if (y.chrom == first.chrom) = true then { y with e := last.e } else y).s = y.s
        split <;> rfl)]
      cases segs0 with
      | nil => exact absurd rfl hne0
      | cons g0 rest =>
        have hg0 := h0.2.1 g0 (List.mem_cons_self ..)
        have hch : (g0.chrom == first.chrom) = true := by simp [hg0.2.2.2]
        show some ((if (g0.chrom == first.chrom) = true then { g0 with s := first.s } else g0).s) = _
        rw [if_pos hch]
    · rw [List.getLast?_map, setLast_getLast?]
      generalize hs1 : setFirst (fun g : SegO => if (g.chrom == first.chrom) = true then { g with s := first.s } else g) segs0 = segs1 at h1
      have hne1 : segs1 ≠ [] := by
        rw [← hs1]; intro h; exact hne0 ((setFirst_eq_nil _ _).mp h)
      cases hx : segs1.getLast? with
      | none => rw [List.getLast?_eq_none_iff] at hx; exact absurd hx hne1
      | some x =>
        have hxm : x ∈ segs1 := List.mem_of_getLast? hx
        have hxc := (h1.2.1 x hxm).2.2.2
        have hch : (x.chrom == first.chrom) = true := by simp [hxc]
        show some ((aggregate (first :: t) (if (x.chrom == first.chrom) = true then { x with e := last.e } else x)).e) = _
        rw [if_pos hch]
        rfl

theorem exists_getLast_cons (a : Bin) (t : List Bin) : ∃ last, (a :: t).getLast? = some last := by
  cases h : (a :: t).getLast? with
  | none => simp at h
  | some x => exact ⟨x, rfl⟩

/-- probes sum to the number of surviving bins -/
theorem assembleUnit_probes_sum (u : List Bin) (runs : List Nat) :
    sumI ((assembleUnit u runs).map (·.probes)) = ((u.filter (·.keep)).length : Int) := by
  cases u with
  | nil => rfl
  | cons first t =>
    rw [assembleUnit_cons_eq]
    generalize (first :: t).filter (·.keep) = sv
    by_cases hem : sv = []
    · subst hem; rfl
    · have hie : sv.isEmpty = false := by simpa [List.isEmpty_iff] using hem
      rw [hie]
      simp only [Bool.false_eq_true, if_false]
      rw [List.map_map]
      have : ((fun g : SegO => g.probes) ∘ aggregate (first :: t)) = fun g : SegO => g.probes := rfl
      rw [this, setLast_map_inv _ (fun g : SegO => g.probes) (by
          intro y
          show (if (y.chrom == _) = true then { y with e := _ } else y).probes = y.probes
          split <;> rfl),
        setFirst_map_inv _ (fun g : SegO => g.probes) (by
          intro y
          show (if (y.chrom == _) = true then { y with s := _ } else y).probes = y.probes
          split <;> rfl)]
      have key : ∀ gs : List (List Bin),
          sumI ((gs.filterMap segOfRun).map (fun g : SegO => g.probes)) = (gs.flatten.length : Int) := by
        intro gs
        induction gs with
        | nil => rfl
        | cons grp gs ih =>
          cases grp with
          | nil =>
            rw [List.filterMap_cons_none (by rfl)]
            simpa using ih
          | cons a t' =>
            obtain ⟨last, hl⟩ := exists_getLast_cons a t'
            obtain ⟨g, hg, _, _, _, hgp⟩ := segOfRun_spec a t' last hl
            rw [List.filterMap_cons_some hg, List.map_cons, sumI_cons, ih, hgp, List.flatten_cons,
              List.length_append]
            simp
      rw [key, splitLens_flatten]

/-- a unit with a surviving bin has a segment; one without has none -/
theorem assembleUnit_nonempty_iff (u : List Bin) (runs : List Nat) :
    assembleUnit u runs ≠ [] ↔ ∃ b ∈ u, b.keep = true := by
  cases u with
  | nil => simp [assembleUnit_nil]
  | cons first t =>
    rw [assembleUnit_cons_eq]
    have hiff : (first :: t).filter (·.keep) ≠ [] ↔ ∃ b ∈ first :: t, b.keep = true := by
      rw [Ne, List.filter_eq_nil_iff]
      constructor
      · intro h
        apply Classical.byContradiction
        intro h2
        exact h (fun a ha hk => h2 ⟨a, ha, hk⟩)
      · rintro ⟨b, hb, hk⟩ h
        exact h b hb hk
    rw [← hiff]
    generalize (first :: t).filter (·.keep) = sv
    by_cases hem : sv = []
    · subst hem; simp
    · have hie : sv.isEmpty = false := by simpa [List.isEmpty_iff] using hem
      rw [hie]
      simp only [Bool.false_eq_true, if_false]
      refine ⟨fun _ => hem, fun _ h => ?_⟩
      rw [List.map_eq_nil_iff, setLast_eq_nil, setFirst_eq_nil] at h
      exact segs0_ne_nil sv runs hem h

/-- segments have positive length, are sorted and do not overlap -/
theorem assembleUnit_sorted_disjoint (u : List Bin) (hw : WFUnit u) (runs : List Nat) :
    (∀ g ∈ assembleUnit u runs, g.s < g.e) ∧ (assembleUnit u runs).Pairwise (fun a b => a.e ≤ b.s) := by
  cases u with
  | nil => simp [assembleUnit_nil]
  | cons first t =>
    obtain ⟨last, hl⟩ := exists_getLast_cons first t
    obtain ⟨gs, _, _, hok, _⟩ := assembleUnit_inv first t hw runs last hl
    exact ⟨fun g hg => (hok.1 g hg).1, hok.2⟩

/-- the first segment starts at the arm's first input bin and the last ends at its last input bin,
    even when edge bins were filtered out (repaired code) -/
theorem assembleUnit_endpoints (u : List Bin) (hw : WFUnit u) (runs : List Nat)
    (hs : ∃ b ∈ u, b.keep = true) :
    ((assembleUnit u runs).head?.map (·.s)) = u.head?.map (·.s) ∧
    ((assembleUnit u runs).getLast?.map (·.e)) = u.getLast?.map (·.e) := by
  cases u with
  | nil => simp at hs
  | cons first t =>
    obtain ⟨last, hl⟩ := exists_getLast_cons first t
    obtain ⟨gs, _, _, _, hend⟩ := assembleUnit_inv first t hw runs last hl
    have hne : (first :: t).filter (·.keep) ≠ [] := by
      obtain ⟨b, hb, hk⟩ := hs
      intro h
      exact (List.filter_eq_nil_iff.mp h) b hb hk
    obtain ⟨h1, h2⟩ := hend hne
    rw [h1, h2, hl]
    exact ⟨rfl, rfl⟩

/-- all segments lie on the unit's chromosome, within the span of its input bins -/
theorem assembleUnit_within (u : List Bin) (hw : WFUnit u) (runs : List Nat) (first last : Bin)
    (hf : u.head? = some first) (hl : u.getLast? = some last) :
    ∀ g ∈ assembleUnit u runs, g.chrom = first.chrom ∧ first.s ≤ g.s ∧ g.e ≤ last.e := by
  cases u with
  | nil => simp at hf
  | cons a t =>
    simp only [List.head?_cons, Option.some.injEq] at hf
    subst hf
    obtain ⟨gs, _, _, hok, _⟩ := assembleUnit_inv a t hw runs last hl
    intro g hg
    have := hok.1 g hg
    exact ⟨this.2.2.2, this.2.1, this.2.2.1⟩

/-- every surviving bin lies in exactly one segment -/
theorem assembleUnit_each_survivor_once (u : List Bin) (hw : WFUnit u) (runs : List Nat) :
    ∀ b ∈ u, b.keep = true → ((assembleUnit u runs).filter (containedIn b)).length = 1 := by
  cases u with
  | nil => simp
  | cons first t =>
    obtain ⟨last, hl⟩ := exists_getLast_cons first t
    obtain ⟨gs, hfl, hc, hok, _⟩ := assembleUnit_inv first t hw runs last hl
    intro b hb hk
    have hbm : b ∈ gs.flatten := by rw [hfl]; exact List.mem_filter.mpr ⟨hb, hk⟩
    refine hc.once hok ?_ hbm
    intro x hx
    rw [hfl] at hx
    exact hw.1 x (List.mem_filter.mp hx).1

/-- a segment's `probes` is the number of surviving bins it contains -/
theorem assembleUnit_probes_count (u : List Bin) (hw : WFUnit u) (runs : List Nat) :
    ∀ g ∈ assembleUnit u runs,
      g.probes = ((u.filter (fun b => b.keep && containedIn b g)).length : Int) := by
  cases u with
  | nil => simp [assembleUnit_nil]
  | cons first t =>
    obtain ⟨last, hl⟩ := exists_getLast_cons first t
    obtain ⟨gs, hfl, hc, hok, _⟩ := assembleUnit_inv first t hw runs last hl
    intro g hg
    have hpos : ∀ x ∈ gs.flatten, x.s < x.e := by
      intro x hx
      rw [hfl] at hx
      exact hw.1 x (List.mem_filter.mp hx).1
    rw [hc.count hok hpos hg, hfl, List.filter_filter]
    have : (fun a : Bin => containedIn a g && a.keep) = (fun b : Bin => b.keep && containedIn b g) := by
      funext a; exact Bool.and_comm _ _
    rw [this]

theorem assembleUnit_aggregated (u : List Bin) (runs : List Nat) :
    ∀ g ∈ assembleUnit u runs, aggregate u g = g := by
  cases u with
  | nil => simp [assembleUnit_nil]
  | cons first t =>
    rw [assembleUnit_cons_eq]
    split
    · simp
    · intro g hg
      obtain ⟨g', _, rfl⟩ := List.mem_map.mp hg
      rfl
end CnvVerif
