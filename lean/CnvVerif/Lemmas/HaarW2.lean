/-
  Lemmas behind Props/C11W.lean, part 2: the weighted `HaarConv` response to a noise-free step under positive
  weights (closed form, zero outside `(b-h, b+h)`, strictly rising to `b`, strictly falling after it), the peak
  finder on such a unimodal response, and the weighted `haarSeg` on the step.
-/
import CnvVerif.Lemmas.HaarW
import CnvVerif.Lemmas.HaarTop
import Mathlib.Tactic.Positivity
set_option linter.unusedSimpArgs false
set_option linter.unusedVariables false
namespace CnvVerif.Haar

/-! ### linearity of the window sums -/

theorem pre_lin (a c : Rat) (x y : Nat → Rat) (k : Nat) :
    pre (fun i => a * x i + c * y i) k = a * pre x k + c * pre y k := by
  induction k with
  | zero => simp [pre]
  | succ m ih => rw [pre_succ, pre_succ, pre_succ, ih]; ring

theorem lowWin_lin (a c : Rat) (x y : Nat → Rat) (h k : Nat) :
    lowWin (fun i => a * x i + c * y i) h k = a * lowWin x h k + c * lowWin y h k := by
  unfold lowWin
  split <;> simp only [pre_lin] <;> ring

theorem highWin_lin (a c : Rat) (x y : Nat → Rat) (n h k : Nat) :
    highWin (fun i => a * x i + c * y i) n h k = a * highWin x n h k + c * highWin y n h k := by
  unfold highWin
  split <;> simp only [pre_lin] <;> ring

/-! ### prefix sums of positive weights -/

theorem pre_strict (w : Nat → Rat) (n : Nat) (hpos : ∀ i, i < n → 0 < w i) :
    ∀ j i, i < j → j ≤ n → pre w i < pre w j := by
  intro j
  induction j with
  | zero => intro i hi; omega
  | succ m ih =>
    intro i hi hj
    rw [pre_succ]
    have hw := hpos m (by omega)
    by_cases e : i = m
    · subst e; linarith
    · have := ih i (by omega) (by omega); linarith

theorem pre_mono (w : Nat → Rat) (n : Nat) (hpos : ∀ i, i < n → 0 < w i) (i j : Nat) (hij : i ≤ j) (hj : j ≤ n) :
    pre w i ≤ pre w j := by
  by_cases e : i = j
  · subst e; exact le_refl _
  · exact le_of_lt (pre_strict w n hpos j i (by omega) hj)

theorem pre_upper_le (w : Nat → Rat) (b : Nat) : ∀ i, i ≤ b → pre (upperW w b) i = 0 := by
  intro i
  induction i with
  | zero => intro _; rfl
  | succ m ih =>
    intro hm
    rw [pre_succ, ih (by omega)]
    simp [upperW]; omega

theorem pre_upper_ge (w : Nat → Rat) (b : Nat) : ∀ i, b ≤ i → pre (upperW w b) i = pre w i - pre w b := by
  intro i hi
  induction i, hi using Nat.le_induction with
  | base => rw [pre_upper_le w b b (le_refl _)]; ring
  | succ m hm ih =>
    rw [pre_succ, pre_succ, ih]
    simp [upperW, hm]; ring

theorem lowWin_ge (x : Nat → Rat) (h k : Nat) (hk : h ≤ k) : lowWin x h k = pre x k - pre x (k - h) := by
  unfold lowWin
  split
  · have e : k = h := by omega
    subst e
    simp [pre]
  · rfl

/-! ### the weighted response to a step -/

/-- hypotheses shared by the lemmas of this section: a half-window that fits on both sides of the step and
positive weights on all `n` bins -/
structure StepW (w : Nat → Rat) (b n h : Nat) : Prop where
  h1 : 1 ≤ h
  hb : h ≤ b
  hn : b + h ≤ n
  pos : ∀ i, i < n → 0 < w i

theorem lowWin_pos' (w : Nat → Rat) (n h : Nat) (h1 : 1 ≤ h) (hh : h ≤ n) (pos : ∀ i, i < n → 0 < w i)
    (k : Nat) (hk : k < n) : 0 < lowWin w h k := by
  unfold lowWin
  split
  · rename_i c
    have p0 : pre w 0 = 0 := rfl
    have a1 : 0 ≤ pre w k := by rw [← p0]; exact pre_mono w n pos 0 k (by omega) (by omega)
    have a2 : 0 ≤ pre w (h - k) := by rw [← p0]; exact pre_mono w n pos 0 (h - k) (by omega) (by omega)
    by_cases e : k = 0
    · subst e
      have : pre w 0 < pre w h := pre_strict w n pos h 0 (by omega) (by omega)
      simp at *; linarith
    · have : pre w 0 < pre w k := pre_strict w n pos k 0 (by omega) (by omega)
      linarith
  · have := pre_strict w n pos k (k - h) (by omega) (by omega)
    linarith

theorem highWin_pos' (w : Nat → Rat) (n h : Nat) (h1 : 1 ≤ h) (hh : h ≤ n) (pos : ∀ i, i < n → 0 < w i)
    (k : Nat) (hk : k < n) : 0 < highWin w n h k := by
  unfold highWin
  split
  · have := pre_strict w n pos (k + h) k (by omega) (by omega)
    linarith
  · have a1 := pre_strict w n pos n k hk (le_refl _)
    have a2 := pre_mono w n pos (2 * n - k - h) n (by omega) (le_refl _)
    linarith

theorem lowWin_pos {w : Nat → Rat} {b n h : Nat} (H : StepW w b n h) (k : Nat) (hk : k < n) : 0 < lowWin w h k :=
  lowWin_pos' w n h H.h1 (by have := H.hb; have := H.hn; omega) H.pos k hk

theorem highWin_pos {w : Nat → Rat} {b n h : Nat} (H : StepW w b n h) (k : Nat) (hk : k < n) :
    0 < highWin w n h k :=
  highWin_pos' w n h H.h1 (by have := H.hb; have := H.hn; omega) H.pos k hk

theorem lowWin_upper_zero (w : Nat → Rat) (b h k : Nat) (hb : h ≤ b) (hk : k ≤ b) : lowWin (upperW w b) h k = 0 := by
  unfold lowWin
  split
  · rw [pre_upper_le w b k hk, pre_upper_le w b (h - k) (by omega)]; ring
  · rw [pre_upper_le w b k hk, pre_upper_le w b (k - h) (by omega)]; ring

theorem highWin_upper_all {w : Nat → Rat} {b n h : Nat} (H : StepW w b n h) (k : Nat) (hk : k < n) (hbk : b ≤ k) :
    highWin (upperW w b) n h k = highWin w n h k := by
  have h1 := H.h1; have hb := H.hb; have hn := H.hn
  unfold highWin
  split
  · rw [pre_upper_ge w b (k + h) (by omega), pre_upper_ge w b k hbk]; ring
  · rw [pre_upper_ge w b n (by omega), pre_upper_ge w b k hbk, pre_upper_ge w b (2 * n - k - h) (by omega)]; ring

/-- before the low edge of the step's reach: no response -/
theorem share_zero_left {w : Nat → Rat} {b n h : Nat} (H : StepW w b n h) (k : Nat) (hk : k + h ≤ b) :
    stepShareW w b n h k = 0 := by
  have hb := H.hb; have hn := H.hn
  unfold stepShareW
  rw [lowWin_upper_zero w b h k hb (by omega)]
  unfold highWin
  rw [if_pos (by omega), pre_upper_le w b (k + h) hk, pre_upper_le w b k (by omega)]
  simp

/-- rising flank: `(P(k+h) - P(b)) / (P(k+h) - P(k))` -/
theorem share_rise {w : Nat → Rat} {b n h : Nat} (H : StepW w b n h) (k : Nat) (hk : k ≤ b) (hkb : b ≤ k + h) :
    stepShareW w b n h k = (pre w (k + h) - pre w b) / (pre w (k + h) - pre w k) := by
  have hb := H.hb; have hn := H.hn
  unfold stepShareW
  rw [lowWin_upper_zero w b h k hb hk]
  unfold highWin
  rw [if_pos (by omega), if_pos (by omega), pre_upper_ge w b (k + h) hkb, pre_upper_le w b k hk]
  simp

/-- falling flank: `(P(b) - P(k-h)) / (P(k) - P(k-h))` -/
theorem share_fall {w : Nat → Rat} {b n h : Nat} (H : StepW w b n h) (k : Nat) (hk : b ≤ k) (hkn : k < n)
    (hkb : k ≤ b + h) :
    stepShareW w b n h k = (pre w b - pre w (k - h)) / (pre w k - pre w (k - h)) := by
  have hb := H.hb; have hn := H.hn
  unfold stepShareW
  rw [highWin_upper_all H k hkn hk, div_self (ne_of_gt (highWin_pos H k hkn)),
    lowWin_ge _ h k (by omega), lowWin_ge _ h k (by omega), pre_upper_ge w b k hk,
    pre_upper_le w b (k - h) (by omega)]
  have hd : 0 < pre w k - pre w (k - h) := by
    have := pre_strict w n H.pos k (k - h) (by have := H.h1; omega) (by omega); linarith
  field_simp
  ring

/-- beyond the high edge of the step's reach: no response -/
theorem share_zero_right {w : Nat → Rat} {b n h : Nat} (H : StepW w b n h) (k : Nat) (hkn : k < n)
    (hk : b + h ≤ k) : stepShareW w b n h k = 0 := by
  have hb := H.hb; have hn := H.hn
  unfold stepShareW
  rw [highWin_upper_all H k hkn (by omega), div_self (ne_of_gt (highWin_pos H k hkn)),
    lowWin_ge _ h k (by omega), lowWin_ge _ h k (by omega), pre_upper_ge w b k (by omega),
    pre_upper_ge w b (k - h) (by omega)]
  have hd : 0 < pre w k - pre w (k - h) := by
    have := pre_strict w n H.pos k (k - h) (by have := H.h1; omega) (by omega); linarith
  have : pre w k - pre w b - (pre w (k - h) - pre w b) = pre w k - pre w (k - h) := by ring
  rw [this, div_self (ne_of_gt hd)]
  ring

theorem share_rising {w : Nat → Rat} {b n h : Nat} (H : StepW w b n h) (k : Nat) (hkb : b ≤ k + h) (hk : k < b) :
    stepShareW w b n h k < stepShareW w b n h (k + 1) := by
  have h1 := H.h1; have hb := H.hb; have hn := H.hn
  rw [share_rise H k (by omega) hkb, share_rise H (k + 1) (by omega) (by omega)]
  have e : k + 1 + h = (k + h) + 1 := by omega
  rw [e]
  have x1 : pre w k < pre w (k + 1) := pre_strict w n H.pos (k + 1) k (by omega) (by omega)
  have x2 : pre w (k + 1) ≤ pre w b := pre_mono w n H.pos (k + 1) b (by omega) (by omega)
  have x3 : pre w b ≤ pre w (k + h) := pre_mono w n H.pos b (k + h) hkb (by omega)
  have x4 : pre w (k + h) < pre w (k + h + 1) := pre_strict w n H.pos (k + h + 1) (k + h) (by omega) (by omega)
  have d1 : 0 < pre w (k + h) - pre w k := by linarith
  have d2 : 0 < pre w (k + h + 1) - pre w (k + 1) := by linarith
  rw [div_lt_div_iff₀ d1 d2]
  nlinarith [mul_pos (sub_pos.mpr x4) (show 0 < pre w b - pre w k by linarith),
    mul_nonneg (sub_nonneg.mpr x3) (le_of_lt (sub_pos.mpr x1))]

theorem share_falling {w : Nat → Rat} {b n h : Nat} (H : StepW w b n h) (k : Nat) (hk : b ≤ k) (hkn : k + 1 < n)
    (hkb : k < b + h) : stepShareW w b n h (k + 1) < stepShareW w b n h k := by
  have h1 := H.h1; have hb := H.hb; have hn := H.hn
  rw [share_fall H k hk (by omega) (by omega), share_fall H (k + 1) (by omega) hkn (by omega)]
  have e : k + 1 - h = (k - h) + 1 := by omega
  rw [e]
  have x1 : pre w (k - h) < pre w (k - h + 1) := pre_strict w n H.pos (k - h + 1) (k - h) (by omega) (by omega)
  have x2 : pre w (k - h + 1) ≤ pre w b := pre_mono w n H.pos (k - h + 1) b (by omega) (by omega)
  have x3 : pre w b ≤ pre w k := pre_mono w n H.pos b k hk (by omega)
  have x4 : pre w k < pre w (k + 1) := pre_strict w n H.pos (k + 1) k (by omega) (by omega)
  have d1 : 0 < pre w k - pre w (k - h) := by linarith
  have d2 : 0 < pre w (k + 1) - pre w (k - h + 1) := by linarith
  rw [div_lt_div_iff₀ d2 d1]
  nlinarith [mul_pos (show 0 < pre w b - pre w (k - h) by linarith) (sub_pos.mpr x4),
    mul_nonneg (le_of_lt (sub_pos.mpr x1)) (sub_nonneg.mpr x3)]

theorem share_pos {w : Nat → Rat} {b n h : Nat} (H : StepW w b n h) (k : Nat) (hkn : k < n) (h1' : b < k + h)
    (h2' : k < b + h) : 0 < stepShareW w b n h k := by
  have h1 := H.h1; have hb := H.hb; have hn := H.hn
  by_cases c : k ≤ b
  · rw [share_rise H k c (by omega)]
    have a := pre_strict w n H.pos (k + h) b h1' (by omega)
    have a2 := pre_strict w n H.pos (k + h) k (by omega) (by omega)
    exact div_pos (by linarith) (by linarith)
  · rw [share_fall H k (by omega) hkn (by omega)]
    have a := pre_strict w n H.pos b (k - h) (by omega) (by omega)
    have a2 := pre_strict w n H.pos k (k - h) (by omega) (by omega)
    exact div_pos (by linarith) (by linarith)

/-- at the step itself the response is the whole step: share 1 -/
theorem share_at_step {w : Nat → Rat} {b n h : Nat} (H : StepW w b n h) : stepShareW w b n h b = 1 := by
  have h1 := H.h1; have hb := H.hb; have hn := H.hn
  rw [share_rise H b (le_refl _) (by omega)]
  have a := pre_strict w n H.pos (b + h) b (by omega) (by omega)
  exact div_self (by linarith)

/-! ### the peak finder on a unimodal response -/

theorem isPeak_scale (c x y z : Rat) (hc : c ≠ 0) (hy : 0 ≤ y) :
    isPeak (c * x) (c * y) (c * z) = true ↔ (0 < y ∧ x < y ∧ z < y) := by
  unfold isPeak
  rw [decide_eq_true_eq]
  rcases lt_or_gt_of_ne hc with hneg | hpos
  · have key : ∀ a d : Rat, c * a < c * d ↔ d < a := by
      intro a d
      constructor
      · intro hh; by_contra h'; rw [not_lt] at h'; nlinarith
      · intro hh; nlinarith
    have k0 : ∀ a : Rat, c * a < 0 ↔ 0 < a := by
      intro a; have := key a 0; simpa using this
    have k1 : ∀ a : Rat, 0 < c * a ↔ a < 0 := by
      intro a; have := key 0 a; simpa using this
    simp only [key, k0, k1]
    constructor
    · rintro (⟨a, _, _⟩ | hh)
      · exact absurd a (not_lt.mpr hy)
      · exact hh
    · intro hh; exact Or.inr hh
  · have key : ∀ a d : Rat, c * a < c * d ↔ a < d := by
      intro a d
      constructor
      · intro hh; by_contra h'; rw [not_lt] at h'; nlinarith
      · intro hh; nlinarith
    have k0 : ∀ a : Rat, c * a < 0 ↔ a < 0 := by
      intro a; have := key a 0; simpa using this
    have k1 : ∀ a : Rat, 0 < c * a ↔ 0 < a := by
      intro a; have := key 0 a; simpa using this
    simp only [key, k0, k1]
    constructor
    · rintro (hh | ⟨a, _, _⟩)
      · exact hh
      · exact absurd a (not_lt.mpr hy)
    · intro hh; exact Or.inl hh

/-- `FindLocalPeaks` of `c * t` for a non-zero `c` and a unimodal `t` (zero up to `b - h` and from `b + h` on,
strictly rising up to `b`, strictly falling after it) reports exactly `b` -/
theorem findLocalPeaks_unimodal (c : Rat) (hc : c ≠ 0) (t : Nat → Rat) (b n h : Nat) (h1 : 1 ≤ h) (hb : h ≤ b)
    (hn2 : b + 2 ≤ n)
    (U1 : ∀ k, k < n → k + h ≤ b → t k = 0) (U2 : ∀ k, k < n → b + h ≤ k → t k = 0)
    (U3 : ∀ k, b ≤ k + h → k < b → t k < t (k + 1))
    (U4 : ∀ k, b ≤ k → k + 1 < n → k < b + h → t (k + 1) < t k)
    (U5 : ∀ k, k < n → b < k + h → k < b + h → 0 < t k) :
    findLocalPeaks ((List.range n).map (fun k => c * t k)) = [b] := by
  have hlen : ((List.range n).map (fun k => c * t k)).length = n := by simp
  have hnn : ∀ k, k < n → 0 ≤ t k := by
    intro k hk
    by_cases a : k + h ≤ b
    · rw [U1 k hk a]
    · by_cases a2 : b + h ≤ k
      · rw [U2 k hk a2]
      · exact le_of_lt (U5 k hk (by omega) (by omega))
  have hsupp : ∀ k, k < n → t k ≠ 0 → b < k + h ∧ k < b + h := by
    intro k hk hne
    constructor
    · by_contra a; exact hne (U1 k hk (by omega))
    · by_contra a; exact hne (U2 k hk (by omega))
  have hnp : ∀ i, i + 1 < ((List.range n).map (fun k => c * t k)).length →
      ((List.range n).map (fun k => c * t k)).getD i 0 = ((List.range n).map (fun k => c * t k)).getD (i + 1) 0 →
      ((List.range n).map (fun k => c * t k)).getD i 0 = 0 := by
    intro i hi
    rw [hlen] at hi
    rw [peaks_getD_map_range _ _ _ (by omega), peaks_getD_map_range _ _ _ hi]
    intro e
    have e' : t i = t (i + 1) := mul_left_cancel₀ hc e
    by_contra hne
    have hti : t i ≠ 0 := fun z => hne (by show c * t i = 0; rw [z]; ring)
    obtain ⟨s1, s2⟩ := hsupp i (by omega) hti
    by_cases a : i < b
    · have := U3 i (by omega) a; linarith
    · have := U4 i (by omega) hi s2; linarith
  rw [findLocalPeaks_eq _ (by rw [hlen]; omega)]
  have hstrict := peaksGo_strict _ hnp (n - 2) 1 none none (by rw [hlen]; omega) (le_refl 1)
  simp only [Nat.sub_self, Nat.reduceAdd] at hstrict
  rw [hstrict]
  apply peaks_filter_range'_single _ b (n - 2) 1 (by omega) (by omega)
  intro i hi1 hi2
  rw [peaks_getD_map_range _ _ _ (by omega), peaks_getD_map_range _ _ _ (by omega), peaks_getD_map_range _ _ _ (by omega)]
  rw [isPeak_scale c _ _ _ hc (hnn i (by omega))]
  constructor
  · rintro ⟨p0, p1, p2⟩
    obtain ⟨s1, s2⟩ := hsupp i (by omega) (ne_of_gt p0)
    by_contra hne
    by_cases a : i < b
    · have := U3 i (by omega) a; linarith
    · have := U4 (i - 1) (by omega) (by omega) (by omega)
      rw [show i - 1 + 1 = i by omega] at this
      linarith
  · intro e
    subst e
    refine ⟨U5 i (by omega) (by omega) (by omega), ?_, U4 i (le_refl _) (by omega) (by omega)⟩
    have := U3 (i - 1) (by omega) (by omega)
    rw [show i - 1 + 1 = i by omega] at this
    exact this

end CnvVerif.Haar
