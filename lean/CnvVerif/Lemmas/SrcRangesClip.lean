/-
  Source tie of skgenome/intersect.py, part: the trim step of `iter_ranges`.  The hand-written model equals the term the translator reads
  off the current source (Generated/ExprsRanges.lean, regenerated from /repo on every run).  Proofs by case analysis
  + `simp`, not `rfl`: spellings that leave the meaning alone keep them green.  One module per tied code path, so
  that an edit breaks exactly the obligations about that path.
-/
import CnvVerif.Generated.ExprsRanges
import CnvVerif.Model.RangesExt
import CnvVerif.Lemmas.Ranges
set_option linter.unusedSimpArgs false
set_option linter.unusedVariables false
namespace CnvVerif.Src
open CnvVerif CnvVerif.Generated

/-! ### the trim step of `iter_ranges` -/

/-- outside trim mode the selected rows are yielded untouched -/
theorem no_clip_outside_trim (qs qe : Option Int) (s e : Int) : src_iter_ranges_clip false qs qe s e = (s, e) := by
  unfold src_iter_ranges_clip
  simp

/-- `selectRange` = the generated path choice, then the generated clipping of every SELECTED row.  Stated on
    well-formed tables and for the rows the query selects, where `if start_val:` / `if end_val:` and the `is not None`
    spellings read the same (a selected row has `0 ≤ start < end_val`, so `end_val ≠ 0`, and clipping at 0 from below
    changes nothing). -/
theorem selectRange_is_source (t : Table) (h : WFTable t) (qs qe : Option Int)
    (hq : ∀ s, qs = some s → 0 ≤ s) (mode : Mode) :
    selectRange t qs qe mode =
      (idxSelect t qs qe (mode == .inner)).map (fun r =>
        { r with s := (src_iter_ranges_clip (mode == .trim) qs qe r.s r.e).1,
                 e := (src_iter_ranges_clip (mode == .trim) qs qe r.s r.e).2 }) := by
  unfold selectRange
  by_cases hm : mode = .trim
  · subst hm
    simp only [beq_self_eq_true, if_true]
    rw [idxSelect_exact t h qs qe hq]
    unfold trimRows
    apply List.map_congr_left
    intro r hr
    rw [List.mem_filter] at hr
    obtain ⟨hrt, hsel⟩ := hr
    have h0 : 0 ≤ r.s := (h.2 r hrt).1
    have hmode : (Mode.trim == Mode.inner) = false := by decide
    rw [hmode] at hsel
    unfold src_iter_ranges_clip
    cases qs with
    | none =>
      cases qe with
      | none => simp
      | some e =>
        have he : e ≠ 0 := by
          simp [selFilter] at hsel
          omega
        simp [he]
    | some s =>
      by_cases hs : s = 0
      · cases qe with
        | none => simp [hs, Int.max_eq_left h0]
        | some e =>
          have he : e ≠ 0 := by
            simp [selFilter] at hsel
            omega
          simp [hs, he, Int.max_eq_left h0]
      · cases qe with
        | none => simp [hs]
        | some e =>
          have he : e ≠ 0 := by
            simp [selFilter] at hsel
            omega
          simp [hs, he]
  · have hne : (mode == Mode.trim) = false := by cases mode <;> simp_all
    rw [hne]
    simp only [Bool.false_eq_true, if_false, no_clip_outside_trim]
    symm
    exact List.map_id' _

end CnvVerif.Src
