/-
  C19 round 5b: `convolve_weighted` with `n_iter > 1`.  The loop body is the one-pass map `cwStep`; `k` passes are
  `iterate (cwStep win) k`.  Here: (1) pass `k+1` is the one-pass map applied to the result of `k` passes; (2) the
  weights after `k` passes are the `k`-fold convolution of the weights, whatever the values; (3) a constant signal is
  reproduced by EVERY number of passes as long as no window sum of any pass vanishes, and the weighted Savitzky-Golay
  smoother built on it reproduces constants for every `n_iter`; (4) conversely a vanishing window sum in pass `j`
  leaves a non-finite value in pass `j` (so the hypothesis of (3) is exactly what is needed pass by pass).
-/
import CnvVerif.Lemmas.SmoothDenominator
namespace CnvVerif.Smooth
open CnvVerif.Generated CnvVerif.Desc

/-- `iterate` unfolds at the END as well: pass `k+1` is `f` applied to the result of `k` passes -/
theorem cw5b_iterate_succ {α} (f : α → α) (k : Nat) (x : α) : iterate f (k + 1) x = f (iterate f k x) := by
  induction k generalizing x with
  | zero => rfl
  | succ n ih =>
    show iterate f (n + 1) (f x) = f (iterate f (n + 1) x)
    rw [ih (f x)]
    rfl

/-- the weights after `k` passes are the `k`-fold convolution with the window, whatever the values are -/
theorem cw5b_iter_weights (win : List Rat) (k : Nat) (st : List (Option Rat) × List Rat) :
    (iterate (cwStep win) k st).2 = iterate (convSame win) k st.2 := by
  induction k generalizing st with
  | zero => rfl
  | succ n ih =>
    show (iterate (cwStep win) n (cwStep win st)).2 = iterate (convSame win) n (convSame win st.2)
    rw [ih, cwStep_weights]

theorem cw5b_iter_convSame_length (win : List Rat) (k : Nat) (w : List Rat) :
    (iterate (convSame win) k w).length = w.length :=
  iterate_length (convSame win) (convSame_length win) k w

/-- one pass on a constant signal whose window sums are all non-zero returns the constant signal -/
theorem cw5b_step_const (win w : List Rat) (c : Rat) (h : ∀ N ∈ convSame win w, N ≠ 0) :
    cwStep win (List.replicate w.length (some c), w) = (List.replicate w.length (some c), convSame win w) := by
  apply Prod.ext
  · rw [cwStep_const]
    apply List.eq_replicate_iff.mpr
    refine ⟨by simp [convSame_length], fun v hv => ?_⟩
    obtain ⟨N, hN, rfl⟩ := List.mem_map.mp hv
    rw [if_neg (h N hN)]
  · exact cwStep_weights win _

/-- **`k` passes on a constant signal**: if no window sum of any of the `k` passes vanishes, the constant signal is
    returned, together with the `k`-fold convolved weights -/
theorem cw5b_iter_const (win : List Rat) (c : Rat) (k : Nat) (w : List Rat)
    (h : ∀ j, j < k → ∀ N ∈ iterate (convSame win) (j + 1) w, N ≠ 0) :
    iterate (cwStep win) k (List.replicate w.length (some c), w) =
      (List.replicate w.length (some c), iterate (convSame win) k w) := by
  induction k generalizing w with
  | zero => rfl
  | succ n ih =>
    show iterate (cwStep win) n (cwStep win (List.replicate w.length (some c), w)) =
      (List.replicate w.length (some c), iterate (convSame win) n (convSame win w))
    rw [cw5b_step_const win w c (h 0 (Nat.succ_pos n))]
    have := ih (convSame win w) (fun j hj N hN => h (j + 1) (Nat.succ_lt_succ hj) N hN)
    rw [convSame_length] at this
    exact this

/-- a window sum that vanishes in a pass leaves a non-finite value at that position of that pass -/
theorem cw5b_step_zero_none (win : List Rat) (y : List (Option Rat)) (w : List Rat) (i : Nat)
    (hi : i < (cwStep win (y, w)).1.length) (hN : (convSame win w)[i]? = some 0) :
    (cwStep win (y, w)).1[i] = none := by
  unfold cwStep at hi ⊢
  simp only [] at hi ⊢
  simp only [List.getElem_map, List.getElem_zip]
  have hlt : i < (convSame win w).length := by
    simp only [List.length_map, List.length_zip] at hi
    omega
  have : (convSame win w)[i] = 0 := by
    rw [List.getElem?_eq_getElem hlt] at hN
    exact Option.some.inj hN
  rw [if_pos this]

/-- **the whole function, every `n_iter`**: whatever number of passes `it` the geometry gives, if no window sum of
    any pass over the rolled-off padded weights vanishes, `savgol(constant, weights=w)` is the constant -/
theorem cw5b_savgolWeighted_const_iter (n : Nat) (c : Rat) (w : List Rat) (tw : Option Rat) (ww ord nIter : Nat)
    (coeffs : List Rat) (y : List (Option Rat)) (hw : w.length = n) (hx : 2 ≤ n)
    (wing ww' ord' it : Nat) (hg : savgolGeometry n tw ww ord nIter = .ok (wing, ww', ord', it))
    (hden : ∀ j, j < it →
      ∀ N ∈ iterate (convSame (normalise coeffs)) (j + 1) (rollOff (padArray w wing) wing), N ≠ 0)
    (h : savgolWeighted (List.replicate n c) w tw ww ord nIter coeffs = .ok y) :
    y = List.replicate n (some c) := by
  obtain ⟨h1, h2⟩ := savgolGeometry_wing _ _ _ _ _ _ hg
  simp only [] at h1 h2
  have hpw := length_padArray w wing (by omega)
  have hwl : (rollOff (padArray w wing) wing).length = n + 2 * wing := by
    rw [rollOff_length, hpw, hw]
  unfold savgolWeighted at h
  rw [if_neg (by simpa using hx)] at h
  simp only [List.length_replicate, hg] at h
  rw [padArray_replicate n wing c (by omega), List.map_replicate, ← hwl,
    cw5b_iter_const (normalise coeffs) c it _ hden] at h
  have hy : y = unpad (List.replicate (rollOff (padArray w wing) wing).length (some c)) wing :=
    (Except.ok.inj h).symm
  rw [hy, hwl]
  unfold unpad
  simp only [List.length_replicate, List.drop_replicate, List.take_replicate]
  congr 1
  omega

end CnvVerif.Smooth
