/-
  `GenomicArray.total_range_size` = the number of distinct covered bases (C06, planned clause (g)).

  The code merges with `bp = 1` (rows that OVERLAP are combined; abutting rows stay apart) and returns
  `sum(end) - sum(start)`.  Here: the groups that `merge(bp=1)` leaves on a chromosome are pairwise disjoint, so the sum
  of their lengths is the cardinality of the (finite) set of covered bases, and that set is the one the input covers.
-/
import CnvVerif.Lemmas.IntervalTable
import Mathlib.Data.Int.Interval
namespace CnvVerif

/-! ### the finite set of bases covered by a list of rows -/

/-- the bases covered by the rows of `l` (one chromosome; the chromosome field is ignored, as in `cov`) -/
def coveredBases : List Row → Finset Int
  | [] => ∅
  | r :: l => Finset.Ico r.s r.e ∪ coveredBases l

theorem mem_coveredBases (l : List Row) (p : Int) : p ∈ coveredBases l ↔ cov l p := by
  induction l with
  | nil => simp [coveredBases, cov]
  | cons r l ih =>
    rw [coveredBases, Finset.mem_union, Finset.mem_Ico, ih, cov_cons]

/-- a finite set is determined by its members: any `S` with the membership of `coveredBases` is it -/
theorem coveredBases_unique (l : List Row) (S : Finset Int) (hS : ∀ p, p ∈ S ↔ cov l p) :
    S = coveredBases l := by
  ext p; rw [hS, mem_coveredBases]

theorem coveredBases_congr (a b : List Row) (h : ∀ p, cov a p ↔ cov b p) :
    coveredBases a = coveredBases b := by
  ext p; rw [mem_coveredBases, mem_coveredBases, h]

/-- sum of the row lengths -/
def lenSum (l : List Row) : Int := (l.map (fun r => r.e - r.s)).sum

theorem lenSum_cons (r : Row) (l : List Row) : lenSum (r :: l) = (r.e - r.s) + lenSum l := by
  simp [lenSum]

theorem lenSum_append (a b : List Row) : lenSum (a ++ b) = lenSum a + lenSum b := by
  simp [lenSum, List.sum_append]

theorem sums_eq_lenSum (l : List Row) : (l.map (·.e)).sum - (l.map (·.s)).sum = lenSum l := by
  induction l with
  | nil => simp [lenSum]
  | cons r l ih =>
    rw [lenSum_cons, ← ih]
    simp only [List.map_cons, List.sum_cons]
    omega

/-- rows in order, each ending no later than the next starts (they may abut) -/
abbrev DisjointSorted (l : List Row) : Prop := l.Pairwise (fun a b => a.e ≤ b.s)

/-- pairwise disjoint rows of non-negative length: the covered set has as many elements as the lengths add up to -/
theorem card_coveredBases_disjoint (l : List Row) (hpos : ∀ r ∈ l, r.s ≤ r.e) (hd : DisjointSorted l) :
    ((coveredBases l).card : Int) = lenSum l := by
  induction l with
  | nil => simp [coveredBases, lenSum]
  | cons r l ih =>
    obtain ⟨hr, hl⟩ := List.pairwise_cons.mp hd
    have hdisj : Disjoint (Finset.Ico r.s r.e) (coveredBases l) := by
      rw [Finset.disjoint_left]
      intro p hp hq
      rw [Finset.mem_Ico] at hp
      obtain ⟨x, hx, h1, h2⟩ := (mem_coveredBases l p).mp hq
      have := hr x hx
      have := hpos x (by simp [hx])
      omega
    rw [coveredBases, Finset.card_union_of_disjoint hdisj, lenSum_cons, Int.card_Ico]
    push_cast
    rw [ih (fun x hx => hpos x (by simp [hx])) hl, Int.toNat_of_nonneg (by have := hpos r (by simp); omega)]

/-! ### `merge(bp = 1)` leaves disjoint groups -/

theorem mergeGo_one_disjoint (cur : Row) (genes : List String) (l : List Row)
    (hcur : cur.s ≤ cur.e) (hl : ∀ r ∈ l, r.s ≤ r.e) (hs : StartSorted (cur :: l)) :
    (∀ r ∈ mergeGo 1 cur genes l, r.s ≤ r.e ∧ cur.s ≤ r.s) ∧ DisjointSorted (mergeGo 1 cur genes l) := by
  induction l generalizing cur genes with
  | nil =>
    refine ⟨?_, by simp [mergeGo]⟩
    intro r hr
    simp only [mergeGo, List.mem_singleton] at hr
    subst hr; exact ⟨hcur, Int.le_refl _⟩
  | cons x xs ih =>
    unfold mergeGo
    obtain ⟨hhead, htail⟩ := List.pairwise_cons.mp hs
    have h1 : cur.s ≤ x.s := hhead x (by simp)
    have htail' := List.pairwise_cons.mp htail
    have hx : x.s ≤ x.e := hl x (by simp)
    have hxs : ∀ r ∈ xs, r.s ≤ r.e := fun r hr => hl r (by simp [hr])
    split
    · rename_i hgt
      obtain ⟨hpos, hpw⟩ := ih x [x.gene] hx hxs htail
      refine ⟨?_, List.pairwise_cons.mpr ⟨?_, hpw⟩⟩
      · intro r hr
        rcases List.mem_cons.mp hr with h | h
        · subst h; exact ⟨hcur, Int.le_refl _⟩
        · have := hpos r h; exact ⟨this.1, by omega⟩
      · intro r hr
        have := (hpos r hr).2
        show cur.e ≤ r.s
        omega
    · have hs' : StartSorted ({ cur with e := max cur.e x.e } :: xs) :=
        List.pairwise_cons.mpr ⟨fun b hb => hhead b (by simp [hb]), htail'.2⟩
      have hc' : ({ cur with e := max cur.e x.e } : Row).s ≤ ({ cur with e := max cur.e x.e } : Row).e := by
        show cur.s ≤ max cur.e x.e
        omega
      exact ih _ _ hc' hxs hs'

theorem mergeChrom_one_disjoint (l : List Row) (hs : StartSorted l) (hp : ∀ r ∈ l, r.s ≤ r.e) :
    (∀ r ∈ mergeChrom 1 l, r.s ≤ r.e) ∧ DisjointSorted (mergeChrom 1 l) := by
  cases l with
  | nil => exact ⟨by simp [mergeChrom], by simp [mergeChrom]⟩
  | cons x xs =>
    obtain ⟨h1, h2⟩ := mergeGo_one_disjoint x [x.gene] xs (hp x (by simp)) (fun r hr => hp r (by simp [hr])) hs
    exact ⟨fun r hr => (h1 r hr).1, h2⟩

/-- the fast path of `merge(bp=1)`: every start is at or after the running maximum of the earlier ends -/
theorem gapsGo_pairwise_ge (m : Int) (l : List Row)
    (h : ((l.map (·.s)).zip (m :: cummaxGo m (l.map (·.e)))).all (fun p => p.1 - p.2 > -1) = true) :
    (∀ r ∈ l, m ≤ r.s) ∧ DisjointSorted l := by
  induction l generalizing m with
  | nil => exact ⟨by simp, List.Pairwise.nil⟩
  | cons y ys ih =>
    simp only [List.map_cons, List.zip_cons_cons, cummaxGo, List.all_cons, Bool.and_eq_true,
      decide_eq_true_eq] at h
    obtain ⟨h1, h2⟩ := ih (max m y.e) h.2
    refine ⟨?_, List.pairwise_cons.mpr ⟨?_, h2⟩⟩
    · intro r hr
      rcases List.mem_cons.mp hr with rfl | hr
      · omega
      · have := h1 r hr; omega
    · intro r hr
      have := h1 r hr; omega

theorem gapSizes_one_disjoint (t : Table) (h : (gapSizes t).all (fun g => g > -1) = true) :
    DisjointSorted t := by
  cases t with
  | nil => exact List.Pairwise.nil
  | cons x xs =>
    simp only [gapSizes, List.map_cons, List.drop_one, List.tail_cons, cummax, List.all_map] at h
    have h' : (((xs.map (·.s)).zip (x.e :: cummaxGo x.e (xs.map (·.e)))).all
        (fun p => p.1 - p.2 > -1)) = true := by
      rw [← h]
      rfl
    obtain ⟨h1, h2⟩ := gapsGo_pairwise_ge x.e xs h'
    exact List.pairwise_cons.mpr ⟨fun r hr => h1 r hr, h2⟩

/-- what `merge(bp=1)` leaves on one chromosome: rows of non-negative length, pairwise disjoint, in order -/
theorem mergeTable_one_disjoint (t : Table) (hp : ∀ r ∈ t, r.s ≤ r.e) (c : String) :
    (∀ r ∈ rowsOf (mergeTable 1 t) c, r.s ≤ r.e) ∧ DisjointSorted (rowsOf (mergeTable 1 t) c) := by
  unfold mergeTable
  split
  · rename_i he
    have : t = [] := by simpa using he
    subst this
    exact ⟨by simp [rowsOf], by simp [rowsOf]⟩
  · split
    · rename_i hg
      exact ⟨fun r hr => hp r (List.mem_filter.mp hr).1,
        (gapSizes_one_disjoint t hg).sublist List.filter_sublist⟩
    · simp only
      rw [rowsOf_mergeGeneral]
      apply mergeChrom_one_disjoint _ (rowsOf_sortLex_sorted t c)
      intro r hr
      rw [mem_rowsOf_sortLex] at hr
      exact hp r (List.mem_filter.mp hr).1

/-- `merge` never puts a row on a chromosome the input does not have -/
theorem rowsOf_mergeTable_absent (bp : Int) (t : Table) (c : String) (hc : ∀ r ∈ t, r.chrom ≠ c) :
    rowsOf (mergeTable bp t) c = [] := by
  unfold mergeTable
  split
  · exact rowsOf_eq_nil t c hc
  · split
    · exact rowsOf_eq_nil t c hc
    · simp only
      rw [rowsOf_mergeGeneral]
      have : rowsOf (sortLex t) c = [] := by
        apply rowsOf_eq_nil
        intro r hr
        exact hc r ((List.mem_mergeSort).mp hr)
      rw [this]; rfl

/-! ### a sum over the rows of a table = the sum over its chromosomes of the per-chromosome sums -/

theorem sum_map_ite_nodup (ks : List String) (hks : ks.Nodup) (a : String) (x : Int) (g : String → Int) :
    (ks.map (fun c => if c = a then x + g c else g c)).sum =
      (if a ∈ ks then x else 0) + (ks.map g).sum := by
  induction ks with
  | nil => simp
  | cons k ks ih =>
    obtain ⟨hk, hks'⟩ := List.nodup_cons.mp hks
    simp only [List.map_cons, List.sum_cons, ih hks']
    by_cases hka : k = a
    · subst hka
      simp [hk]
      omega
    · have hak : ¬ a = k := fun h => hka h.symm
      simp [hka, hak]
      omega

theorem lenSum_by_chrom (m : Table) (ks : List String) (hks : ks.Nodup) (hall : ∀ r ∈ m, r.chrom ∈ ks) :
    lenSum m = (ks.map (fun c => lenSum (rowsOf m c))).sum := by
  induction m with
  | nil =>
    have h0 : ∀ ks : List String, (ks.map (fun c => lenSum (rowsOf [] c))).sum = 0 := by
      intro ks
      induction ks with
      | nil => rfl
      | cons k ks ih =>
        rw [List.map_cons, List.sum_cons, ih]
        rfl
    rw [h0]; rfl
  | cons r m ih =>
    have hfun : (fun c => lenSum (rowsOf (r :: m) c)) =
        (fun c => if c = r.chrom then (r.e - r.s) + lenSum (rowsOf m c) else lenSum (rowsOf m c)) := by
      funext c
      unfold rowsOf
      by_cases h : c = r.chrom
      · subst h; simp [lenSum_cons]
      · have h' : ¬ r.chrom = c := fun e => h e.symm
        simp [h, h']
    rw [hfun, sum_map_ite_nodup ks hks, lenSum_cons, ← ih (fun x hx => hall x (by simp [hx]))]
    simp [hall r (by simp)]

/-! ### total_range_size -/

/-- on one chromosome: the lengths of the `merge(bp=1)` groups add up to the number of covered bases -/
theorem lenSum_mergeTable_one (t : Table) (hp : ∀ r ∈ t, r.s ≤ r.e) (c : String) :
    lenSum (rowsOf (mergeTable 1 t) c) = ((coveredBases (rowsOf t c)).card : Int) := by
  obtain ⟨h1, h2⟩ := mergeTable_one_disjoint t hp c
  rw [← card_coveredBases_disjoint _ h1 h2,
    coveredBases_congr _ _ (mergeTable_cov 1 (by decide) t c)]

/-- `total_range_size()` is the number of distinct covered bases, chromosome by chromosome -/
theorem totalRangeSize_eq_card (t : Table) (hp : ∀ r ∈ t, r.s ≤ r.e) :
    totalRangeSize t =
      ((chromsInOrder t).map (fun c => ((coveredBases (rowsOf t c)).card : Int))).sum := by
  unfold totalRangeSize
  split
  · rename_i he
    have : t = [] := by simpa using he
    subst this
    rfl
  · simp only
    rw [sums_eq_lenSum,
      lenSum_by_chrom (mergeTable 1 t) (chromsInOrder t) (it_nodup_eraseDups _)]
    · apply congrArg
      apply List.map_congr_left
      intro c _
      exact lenSum_mergeTable_one t hp c
    · intro r hr
      by_contra hnot
      have hnil := rowsOf_mergeTable_absent 1 t r.chrom (fun x hx hxc =>
        hnot ((mem_chromsInOrder_tbl t r.chrom).mpr ⟨x, hx, hxc⟩))
      have : r ∈ rowsOf (mergeTable 1 t) r.chrom := List.mem_filter.mpr ⟨hr, by simp⟩
      rw [hnil] at this
      simp at this

end CnvVerif
