import CnvVerif.Basic
import CnvVerif.Model.Ranges
import CnvVerif.Model.Interval
import CnvVerif.Model.IntervalSpec
import CnvVerif.Driver.Json
import CnvVerif.Driver.Interval
import CnvVerif.Generated.Consts
