import CnvVerif.Driver.Json
import CnvVerif.Driver.Interval
import CnvVerif.Driver.Call
import CnvVerif.Driver.CallCmd
import CnvVerif.Driver.CallExt5
import CnvVerif.Driver.SegFilter
import CnvVerif.Driver.SegFilterExt
import CnvVerif.Driver.SegFilterExt5
import CnvVerif.Driver.Tile
import CnvVerif.Driver.Center
import CnvVerif.Driver.SexExt
import CnvVerif.Driver.Fix
import CnvVerif.Driver.FixExt5
import CnvVerif.Driver.Access
import CnvVerif.Driver.AccessExt5
import CnvVerif.Driver.Genes
import CnvVerif.Driver.GeneExt
import CnvVerif.Driver.Formats
import CnvVerif.Driver.FormatsExt
import CnvVerif.Driver.FormatsExt5Label
import CnvVerif.Driver.Export
import CnvVerif.Driver.ExportExt
import CnvVerif.Driver.ExportCiExt5
import CnvVerif.Driver.Reference
import CnvVerif.Driver.ReferenceExt5
import CnvVerif.Driver.Coverage
import CnvVerif.Driver.CoverageExt
import CnvVerif.Driver.CoverageExt5Cols
import CnvVerif.Driver.Effects
import CnvVerif.Driver.EffectsExt
import CnvVerif.Driver.EffectsWriters
import CnvVerif.Driver.Bins
import CnvVerif.Driver.Vcf
import CnvVerif.Driver.VcfExt
import CnvVerif.Driver.Descriptives
import CnvVerif.Driver.DescLoopExt5
import CnvVerif.Driver.Haar
import CnvVerif.Driver.HaarExt
import CnvVerif.Driver.Stats
import CnvVerif.Driver.StatsGlue
import CnvVerif.Driver.StatsExt5
import CnvVerif.Driver.RangesExt
import CnvVerif.Driver.RangesExt5
import CnvVerif.Driver.IntervalExt5
import CnvVerif.Driver.TileBafExt5b
import CnvVerif.Driver.AccessNoneExt5
import CnvVerif.Driver.CoverageExt5Glue
import CnvVerif.Driver.SmoothIterExt5b
import CnvVerif.Driver.FormatsExt5cSniff
import CnvVerif.Driver.RangesDualExt5c
import CnvVerif.Driver.RangesColExt5c
import CnvVerif.Driver.CallCmdCenterExt5c
import CnvVerif.Driver.StatsSmallExt5c
open Lean CnvVerif.Drv

def handlers : List (String → Json → Option Json → R (Option Json)) :=
  [handleInterval, handleRangesExt, handleCall, handleCallCmd, handleSegFilter, handleSegFilterExt, handleTile, handleCenter, handleSexExt, handleFix, handleAccess, Genes.handleGenes, handleFormats, handleFormatsExt, handleExport, handleExportExt, C20Ci.handleExportCi, Reference.handleReference, handleCoverage, handleCoverageExt, handleEffects, handleEffectsExt, handleBins, handleVcf, handleVcfExt, handleDescriptives, Haar.handleHaar, HaarExt.handleHaarExt, handleStats, handleStatsGlue, handleStatsExt5, handleSegFilterExt5, handleAccessExt5, handleDescLoopExt5, ReferenceExt5.handleReferenceExt5, handleCallWhole, handleCallWrappers, handleCoverageExt5Cols, handleFormatsLabel, handleFixExt5, GeneExt.handleGeneExt, handleRangesExt5, handleEffectsWriters, handleIntervalExt5, handleTileBaf, handleAccessNoneExt5, handleCoverageExt5Glue, handleSmoothIterExt5b, handleFormatsSniffRe, handleC07Dual, handleC07Col, handleCallCmdCenter, handleStatsSmall5c]
def dispatch (op : String) (inp : Json) (impl : Option Json) : R Json := do
  for h in handlers do
    match ← h op inp impl with
    | some r => return r
    | none => pure ()
  throw s!"unknown op {op}"

def handleLine (line : String) : String :=
  match Json.parse line with
  | .error e => (obj [("error", strJ s!"parse: {e}")]).compress
  | .ok j =>
    match (do
      let op ← getStr (← fld j "op")
      let inp ← fld j "in"
      dispatch op inp (optFld j "impl")) with
    | .ok r => r.compress
    | .error e => (obj [("error", strJ e)]).compress

partial def loop (h : IO.FS.Stream) (out : IO.FS.Stream) : IO Unit := do
  let line ← h.getLine
  if line.isEmpty then return ()
  out.putStrLn (handleLine line)
  loop h out

def main : IO Unit := do
  let out ← IO.getStdout
  loop (← IO.getStdin) out
  out.flush
