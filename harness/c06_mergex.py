"""C06 round 5b -- op `merge_x`: skgenome merge(bp, stranded, combine) on tables with extra columns, judged by the Lean
model `C06X.mergeX` (equality of the whole table, every column) and the Lean spec `C06X.mergeXSpecB` on the real output.

Numeric extra columns hold integers (weight in 1/8 units), so every combiner result is an exact integer."""
from __future__ import annotations

XCOLS = ("gene", "strand", "accession", "weight", "probes", "depth")
CMB_NAMES = ("first_of", "last_of", "join_strings", "merge_strands", "max", "min", "sum")
STRING_COLS = ("gene", "strand", "accession")


def _value(col, k, rng_salt):
    if col == "gene":
        return "g%d" % ((k * 5 + rng_salt) % 4)
    if col == "strand":
        return "+-"[((k * 7 + k // 3) + rng_salt) % 2]
    if col == "accession":
        return "NM_%d" % ((k + rng_salt) % 3)
    if col == "weight":
        return (k * 37 + rng_salt) % 11 + 1
    if col == "probes":
        return (k + rng_salt) % 5 + 1
    if col == "depth":
        return k * 2 + 1
    raise KeyError(col)


def _combine_for(rng, cols):
    """a random `combine=` dict: [[column, combiner name | ["const", value]], ...]"""
    out = []
    for c in cols:
        if c in ("chromosome", "start", "end") or rng.random() >= 0.35:
            continue
        if c in STRING_COLS:
            name = rng.choice(["first_of", "last_of", "join_strings", "merge_strands", "merge_strands", "const"])
            out.append([c, ["const", "K"] if name == "const" else name])
        else:
            name = rng.choice(["first_of", "last_of", "max", "min", "sum", "const"])
            out.append([c, ["const", 7] if name == "const" else name])
    return out


def make_case(rng, rows, bp, tag):
    """rows: [[chrom, start, end, gene], ...] of the plain generator -> a merge_x case"""
    extra = [c for c in XCOLS if rng.random() < 0.6]
    stranded = rng.random() < 0.5
    if stranded and "strand" not in extra:
        extra.append("strand")
    rng.shuffle(extra)
    cols = ["chromosome", "start", "end"] + extra
    salt = rng.randint(0, 5)
    t = [[r[0], int(r[1]), int(r[2])] + [_value(c, k, salt) for c in extra] for k, r in enumerate(rows)]
    if rng.random() < 0.3:
        rng.shuffle(t)
    return {"op": "merge_x", "tag": tag,
            "in": {"cols": cols, "t": t, "bp": bp, "stranded": stranded, "combine": _combine_for(rng, cols)}}


def _py_combiner(spec):
    from skgenome import combiners
    if isinstance(spec, list):
        return combiners.make_const(spec[1])
    return {"max": max, "min": min, "sum": sum}.get(spec) or getattr(combiners, spec)


def run(case):
    import pandas as pd
    from skgenome import GenomicArray
    i = case["in"]
    cols = i["cols"]
    df = pd.DataFrame({c: [r[k] for r in i["t"]] for k, c in enumerate(cols)}, columns=cols)
    if not i["t"]:
        df = df.astype({c: (str if c in STRING_COLS + ("chromosome",) else int) for c in cols})
    args = {}
    if i["stranded"]:
        args["stranded"] = True
    if i["combine"]:
        args["combine"] = {c: _py_combiner(s) for c, s in i["combine"]}
    out = GenomicArray(df).merge(bp=i["bp"], **args).data
    rows = []
    for tup in out.itertuples(index=False, name=None):
        row = []
        for v in tup:
            v = v.item() if hasattr(v, "item") else v
            if isinstance(v, float):
                if not v.is_integer():
                    raise ValueError("non-integer value %r" % v)
                v = int(v)
            row.append(v)
        rows.append(row)
    return {"cols": [str(c) for c in out.columns], "rows": rows}
