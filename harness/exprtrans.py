"""Python function -> Lean definition, for the small pure arithmetic functions of cnvkit.

The accepted subset is deliberately narrow; anything outside it raises `Untranslatable`, which the check treats
as a broken tie (the generated file then fails to build, or the lock differs), never as silence.

Reading of the source
* every parameter and local is a rational number (`Rat`); array parameters are read ELEMENTWISE: the numpy code
  `x[mask] -= f(y[mask])` means "where mask holds, x becomes x - f(y)", so `a[mask]` is read as `a` and a masked
  augmented assignment as a conditional update (the functions translated here contain no reductions over arrays);
* `2 ** name` (the antilog of a log2 value) becomes a fresh parameter `name_pow2` -- the models work in ratio
  space, where the exact value of that double is an input;
* `len(name)` becomes the parameter `name_len`; `name.median()` the parameter `name_median`;
* truthiness of a number (`purity and purity < 1.0`) is `≠ 0`; `x is None` / `is not None` are resolved by the
  `given` argument (which optional parameters are supplied);
* `if cond: raise ...` guards and `assert` statements are dropped (the models state these as preconditions),
  unless the raise is the only way out of an else-branch, in which case the branch yields `default_on_raise`;
* `int(e)` truncates toward zero, `math.ceil`/`np.ceil` and `//` are exact on rationals, `round` is not accepted;
* float literals are the exact doubles.

Typed reader (`TFn`, growth round: decision tables and row masks -- `Generated/ExprsTbl*.lean`)
* parameters carry the Lean type the extractor declares for them (`String`, `Nat`, `Int`, `Bool`); the Lean signature is
  exactly the declared list, in the declared order (so a renamed LOCAL never changes it);
* `self.col` / `row.col` (a column of the table, one row at a time) is the parameter `col`; a call of a declared row-mask
  method (`cnarr.chr_x_filter(g)`, `self.parx_filter(genome_build=g)`) is the Bool parameter of that name -- what was
  passed to it is recorded in `<name>_calls` (the distinct call texts, sorted) and pinned by a theorem of its own;
* `x is None` / `x is not None` for a declared optional parameter `x` is the Bool parameter `x_given`;
* `s.lower()` is `String.toLower`; `a in [l1, l2]` is `a == l1 || a == l2`; `==`/`!=` are `BEq` on strings and numbers;
  `and`/`or`/`not` and the elementwise `&`/`|`/`~` of boolean Series are `&&`/`||`/`!`; `<=` etc. are `decide (.. ≤ ..)`;
  `//` on naturals is `Nat` division; `np.repeat(e, len(df))` is `e` (one row at a time);
* `df["col"] = e` sets the column, `df.loc[mask, "col"] = e` is `col := if mask then e else col` -- later statements
  override earlier ones in source order; `if c: ...` without a return merges every local / column as `if c then .. else ..`;
  `return df` is the tuple of the declared result columns;
* truthiness of a string parameter is `!= ""` (an absent option, `None`, is read as the empty string); `logging.*(..)`
  statements are skipped;
* `a, b = params.TABLE[key]["NAME"]` binds the Int parameters `a`, `b` (values of a table the constants extractor reads);
  the `"NAME"`s are recorded in `<name>_lookups`.

Scan loops (`scan_rows`, `Generated/ExprsScan.lean`)
* in a per-row loop `for idx, row in enumerate(table)`, the statement
  `for i, x in enumerate(xs): if COND: BODY; break` with `else: ELSE` is read as the recursion "at the first `x` (index `i`)
  with COND the result is BODY, ELSE if there is none" over the list `xs` (a `Nat → List Rat → Rat` definition started at
  index 0); the loop variable `i` enters BODY as a number; ELSE may not read it;
* `if np.isnan(row.col): out[idx] = E; continue` is the separate definition `<name>_nan := E`;
* a local bound to a call the extractor declares opaque (`ref_copies = _reference_copies_pure(..)`) is a parameter with the
  declared canonical name; the call's arguments are recorded in `<name>_calls`.
"""
from __future__ import annotations

import ast
from fractions import Fraction


class Untranslatable(Exception):
    pass


def _rat(x):
    f = Fraction(x)
    if f.denominator == 1:
        return f"({f.numerator} : Rat)" if f.numerator >= 0 else f"(({f.numerator}) : Rat)"
    return f"(({f.numerator} : Rat) / {f.denominator})"


class Fn:
    def __init__(self, fn: ast.FunctionDef, given=(), absent=(), default_on_raise=None, rename=None, callees=None):
        self.callees = callees or {}
        self.fn = fn
        self.given = set(given)      # optional parameters known to be supplied (not None)
        self.absent = set(absent)    # optional parameters known to be None
        self.params = []             # Lean parameters in order of first use
        self.default_on_raise = default_on_raise
        self.rename = rename or {}

    # -- parameters ------------------------------------------------------------------------------
    def param(self, name):
        name = self.rename.get(name, name)
        if name not in self.params:
            self.params.append(name)
        return name

    # -- expressions -----------------------------------------------------------------------------
    def expr(self, e, env):
        if isinstance(e, ast.Constant):
            if isinstance(e.value, bool) or e.value is None:
                raise Untranslatable(f"constant {e.value!r} in arithmetic position")
            if isinstance(e.value, (int, float)):
                return _rat(e.value)
            raise Untranslatable(f"constant {e.value!r}")
        if isinstance(e, ast.Name):
            if e.id in env:
                return env[e.id]
            return self.param(e.id)
        if isinstance(e, ast.Subscript):
            # elementwise reading of `array[mask]`
            if isinstance(e.value, ast.Name) and isinstance(e.slice, ast.Name):
                return self.expr(e.value, env)
            raise Untranslatable("subscript " + ast.unparse(e))
        if isinstance(e, ast.UnaryOp):
            if isinstance(e.op, ast.USub):
                return f"(-{self.expr(e.operand, env)})"
            if isinstance(e.op, ast.UAdd):
                return self.expr(e.operand, env)
            raise Untranslatable(ast.unparse(e))
        if isinstance(e, ast.BinOp):
            if isinstance(e.op, ast.Pow):
                if isinstance(e.left, ast.Constant) and e.left.value == 2 and isinstance(e.right, ast.Name) \
                        and e.right.id not in env:
                    return self.param(e.right.id + "_pow2")
                if isinstance(e.right, ast.Constant) and isinstance(e.right.value, int) and e.right.value >= 0:
                    return f"({self.expr(e.left, env)} ^ {e.right.value})"
                raise Untranslatable("power " + ast.unparse(e))
            a, b = self.expr(e.left, env), self.expr(e.right, env)
            if isinstance(e.op, ast.Add):
                return f"({a} + {b})"
            if isinstance(e.op, ast.Sub):
                return f"({a} - {b})"
            if isinstance(e.op, ast.Mult):
                return f"({a} * {b})"
            if isinstance(e.op, ast.Div):
                return f"({a} / {b})"
            if isinstance(e.op, ast.FloorDiv):
                return f"(((({a}) / ({b})).floor : Int) : Rat)"
            raise Untranslatable(ast.unparse(e))
        if isinstance(e, ast.IfExp):
            return f"(if {self.cond(e.test, env)} then {self.expr(e.body, env)} else {self.expr(e.orelse, env)})"
        if isinstance(e, ast.Call):
            f = ast.unparse(e.func)
            args = e.args
            if f in ("abs", "np.abs", "np.absolute") and len(args) == 1:
                x = self.expr(args[0], env)
                return f"(if {x} < 0 then -{x} else {x})"
            if isinstance(e.func, ast.Attribute) and e.func.attr == "abs" and not args:
                x = self.expr(e.func.value, env)
                return f"(if {x} < 0 then -{x} else {x})"
            if isinstance(e.func, ast.Attribute) and e.func.attr == "median" and not args \
                    and isinstance(e.func.value, ast.Name):
                return self.param(e.func.value.id + "_median")
            if f in ("max", "np.maximum") and len(args) == 2:
                return f"(max {self.expr(args[0], env)} {self.expr(args[1], env)})"
            if f in ("min", "np.minimum") and len(args) == 2:
                return f"(min {self.expr(args[0], env)} {self.expr(args[1], env)})"
            binops = {"np.divide": "/", "np.true_divide": "/", "np.multiply": "*", "np.add": "+", "np.subtract": "-"}
            if f in binops and len(args) == 2 and not e.keywords:
                return f"({self.expr(args[0], env)} {binops[f]} {self.expr(args[1], env)})"
            if f == "np.square" and len(args) == 1:
                return f"({self.expr(args[0], env)} ^ 2)"
            if f == "np.negative" and len(args) == 1:
                return f"(-{self.expr(args[0], env)})"
            if f == "np.where" and len(args) == 3:
                return f"(if {self.cond(args[0], env)} then {self.expr(args[1], env)} else {self.expr(args[2], env)})"
            if f == "len" and len(args) == 1 and isinstance(args[0], ast.Name):
                return self.param(args[0].id + "_len")
            if f in ("math.ceil", "np.ceil") and len(args) == 1:
                return f"((({self.expr(args[0], env)}).ceil : Int) : Rat)"
            if f in ("math.floor", "np.floor") and len(args) == 1:
                return f"((({self.expr(args[0], env)}).floor : Int) : Rat)"
            if f == "int" and len(args) == 1:
                x = self.expr(args[0], env)
                return f"(if {x} < 0 then ((({x}).ceil : Int) : Rat) else ((({x}).floor : Int) : Rat))"
            if f == "float" and len(args) == 1:
                return self.expr(args[0], env)
            if isinstance(e.func, ast.Name) and e.func.id in self.callees and not e.keywords:
                # a call to another plain function of the same module is inlined: its parameters are renamed to
                # the caller's variables when the arguments are plain parameters, bound as locals otherwise
                callee = self.callees[e.func.id]
                names = [a.arg for a in callee.args.args]
                if len(args) > len(names):
                    raise Untranslatable("call " + ast.unparse(e))
                import copy
                body = copy.deepcopy(callee.body)
                ren, inner_env = {}, {}
                for nm, a in zip(names, args):
                    if isinstance(a, ast.Name) and a.id not in env:
                        ren[nm] = a.id
                    else:
                        inner_env[nm] = self.expr(a, env)

                class R(ast.NodeTransformer):
                    def visit_Name(self, node):
                        if node.id in ren:
                            return ast.copy_location(ast.Name(id=ren[node.id], ctx=node.ctx), node)
                        return node
                body = [R().visit(st) for st in body]
                return self.block(body, inner_env)
            raise Untranslatable("call " + ast.unparse(e))
        raise Untranslatable(ast.unparse(e))

    def cond(self, e, env):
        if isinstance(e, ast.BoolOp):
            op = " ∧ " if isinstance(e.op, ast.And) else " ∨ "
            return "(" + op.join(self.cond(v, env) for v in e.values) + ")"
        if isinstance(e, ast.UnaryOp) and isinstance(e.op, ast.Not):
            return f"(¬ {self.cond(e.operand, env)})"
        if isinstance(e, ast.Compare):
            parts = []
            left = e.left
            for op, right in zip(e.ops, e.comparators):
                if isinstance(op, (ast.Is, ast.IsNot)) and isinstance(right, ast.Constant) and right.value is None \
                        and isinstance(left, ast.Name):
                    if left.id in self.given:
                        parts.append("False" if isinstance(op, ast.Is) else "True")
                    elif left.id in self.absent:
                        parts.append("True" if isinstance(op, ast.Is) else "False")
                    else:
                        raise Untranslatable(f"None-test of `{left.id}` not resolved by given/absent")
                else:
                    sym = {ast.Lt: "<", ast.LtE: "≤", ast.Gt: ">", ast.GtE: "≥", ast.Eq: "=", ast.NotEq: "≠"}.get(type(op))
                    if sym is None:
                        raise Untranslatable(ast.unparse(e))
                    parts.append(f"{self.expr(left, env)} {sym} {self.expr(right, env)}")
                left = right
            if len(parts) == 1 and parts[0] in ("True", "False"):
                return parts[0]
            return "(" + " ∧ ".join(parts) + ")"
        if isinstance(e, ast.Name):
            if e.id in env:
                if env[e.id].startswith("MASK:"):
                    return env[e.id][5:]
                if env[e.id] in ("True", "False"):
                    return env[e.id]
            elif e.id in self.absent:
                return "False"
            return f"({self.expr(e, env)} ≠ 0)"   # truthiness of a number
        if isinstance(e, ast.Constant) and isinstance(e.value, bool):
            return "True" if e.value else "False"
        raise Untranslatable("condition " + ast.unparse(e))

    # -- statements ------------------------------------------------------------------------------
    @staticmethod
    def _only_raises(stmts):
        return bool(stmts) and all(isinstance(s, (ast.Raise, ast.Expr)) for s in stmts) and any(
            isinstance(s, ast.Raise) for s in stmts)

    def block(self, stmts, env):
        if not stmts:
            raise Untranslatable("function falls off its end without a return")
        s, rest = stmts[0], stmts[1:]
        if isinstance(s, ast.Expr) and isinstance(s.value, ast.Constant):
            return self.block(rest, env)  # docstring
        if isinstance(s, ast.Assert):
            return self.block(rest, env)
        if isinstance(s, ast.Return):
            return self.expr(s.value, env)
        if isinstance(s, ast.Raise):
            if self.default_on_raise is None:
                raise Untranslatable("raise reached and no default_on_raise")
            return self.default_on_raise
        if isinstance(s, ast.Assign) and len(s.targets) == 1:
            t = s.targets[0]
            if isinstance(t, ast.Name):
                # a mask (comparison) assigned to a name is kept as a condition
                if isinstance(s.value, ast.Compare):
                    env = dict(env)
                    env[t.id] = "MASK:" + self.cond(s.value, env)
                    return self.block(rest, env)
                env = dict(env)
                env[t.id] = self.expr(s.value, env)
                return self.block(rest, env)
            raise Untranslatable("assignment to " + ast.unparse(t))
        if isinstance(s, ast.AugAssign):
            op = {ast.Add: "+", ast.Sub: "-", ast.Mult: "*", ast.Div: "/"}.get(type(s.op))
            if op is None:
                raise Untranslatable(ast.unparse(s))
            t = s.target
            if isinstance(t, ast.Name):
                env = dict(env)
                env[t.id] = f"({self.expr(t, env)} {op} {self.expr(s.value, env)})"
                return self.block(rest, env)
            if isinstance(t, ast.Subscript) and isinstance(t.value, ast.Name) and isinstance(t.slice, ast.Name):
                mask = env.get(t.slice.id, "")
                if not mask.startswith("MASK:"):
                    raise Untranslatable("masked update with a mask that is not a comparison: " + ast.unparse(s))
                env = dict(env)
                cur = self.expr(t.value, env)
                env[t.value.id] = f"(if {mask[5:]} then ({cur} {op} {self.expr(s.value, env)}) else {cur})"
                return self.block(rest, env)
            raise Untranslatable(ast.unparse(s))
        if isinstance(s, ast.If):
            if self._only_raises(s.body) and not s.orelse:
                return self.block(rest, env)  # guard: a precondition of the model
            c = self.cond(s.test, env)
            if c == "True":
                return self.block(list(s.body) + rest, env)
            if c == "False":
                return self.block(list(s.orelse) + rest, env)
            th = self.block(list(s.body) + rest, dict(env))
            el = self.block(list(s.orelse) + rest, dict(env))
            return f"(if {c} then {th} else {el})"
        raise Untranslatable(type(s).__name__ + ": " + ast.unparse(s)[:80])

    def translate(self, lean_name, comment=None):
        # parameters in signature order first (so that the Lean signature is stable), then discovered ones
        body = self.block(list(self.fn.body), {})
        if "MASK:" in body:
            raise Untranslatable("a mask escaped into an arithmetic position")
        sig = [self.rename.get(a.arg, a.arg) for a in self.fn.args.args]
        ordered = [p for p in sig if p in self.params] + [p for p in self.params if p not in sig]
        # `2 ** x` parameters replace x itself when x is not otherwise used
        ps = " ".join(ordered)
        head = f"def {lean_name} ({ps} : Rat) : Rat :=\n  {body}" if ordered else f"def {lean_name} : Rat :=\n  {body}"
        doc = f"/-- {comment} -/\n" if comment else ""
        return doc + head, ordered


def emit(repo, o, specs):
    """translate each (file, function, lean name, Fn kwargs, comment); a function outside the subset leaves a
    comment instead of a definition, so that only the theorems about THAT function stop checking"""
    import os
    from .translate import parse, find_func
    for path, fname, lean, kw, comment in specs:
        try:
            tree, _src = parse(os.path.join(repo, path))
            fn = find_func(tree, fname)
            callees = {n.name: n for n in tree.body if isinstance(n, ast.FunctionDef) and n.name != fname}
            text, params = Fn(fn, callees=callees, **kw).translate(lean, comment)
        except (Untranslatable, KeyError, OSError, SyntaxError) as e:
            o.lines.append(f"-- NOT TRANSLATED: {path}:{fname}: {type(e).__name__}: {str(e)[:200]}".replace("\n", " "))
            o.info[lean] = {"error": str(e)[:200]}
            continue
        o.lines.append(text)
        o.info[lean] = {"params": params}


# ------------------------------------------------------------------------------------------------------------------
# typed reader: decision tables and row masks (see the module docstring)

class TFn:
    def __init__(self, fn, types, result, table=None, columns=(), masks=(), optional=(), lookup_params=(),
                 self_names=("self", "cnarr", "row")):
        self.fn = fn
        self.lookup_params = list(lookup_params)   # k-th table lookup binds its targets to these declared parameters
        self.types = dict(types)          # declared parameters: name -> Lean type, in signature order
        self.result = result              # Lean result type
        self.table = table                # name of the local that holds the table (`df`)
        self.columns = list(columns)      # result columns of `return df`
        self.masks = set(masks)           # row-mask methods read as Bool parameters
        self.optional = set(optional)     # parameters whose None-test becomes `<name>_given`
        self.self_names = set(self_names)
        self.calls = []                   # recorded `method(arg, ...)` texts
        self.lookups = []                 # recorded table keys

    def _param(self, name):
        name = {"end": "end_"}.get(name, name)     # `end` is a Lean keyword
        if name not in self.types:
            raise Untranslatable(f"`{name}` is not a declared parameter")
        return name, self.types[name]

    def expr(self, e, st, want=None):
        """-> (lean text, type)"""
        if isinstance(e, ast.Constant):
            v = e.value
            if isinstance(v, bool):
                return ("true" if v else "false"), "Bool"
            if isinstance(v, int):
                t = want if want in ("Nat", "Int") else "Nat"
                return (f"({v} : {t})" if v >= 0 else f"(({v}) : Int)"), (t if v >= 0 else "Int")
            if isinstance(v, str):
                import json
                return json.dumps(v), "String"
            raise Untranslatable(f"constant {v!r}")
        if isinstance(e, ast.Name):
            if e.id in st["env"]:
                return st["env"][e.id]
            return self._param(e.id)
        if isinstance(e, ast.Attribute) and isinstance(e.value, ast.Name) and e.value.id in self.self_names:
            return self._param(e.attr)
        if isinstance(e, ast.IfExp):
            c = self.boolean(e.test, st)
            a, ta = self.expr(e.body, st, want)
            b, tb = self.expr(e.orelse, st, want)
            if ta != tb:
                raise Untranslatable("branches of different type: " + ast.unparse(e))
            return f"(if {c} then {a} else {b})", ta
        if isinstance(e, ast.BinOp):
            if isinstance(e.op, (ast.BitAnd, ast.BitOr)):
                a, b = self.boolean(e.left, st), self.boolean(e.right, st)
                return f"({a} {'&&' if isinstance(e.op, ast.BitAnd) else '||'} {b})", "Bool"
            a, ta = self.expr(e.left, st, want)
            b, tb = self.expr(e.right, st, ta)
            if ta != tb or ta not in ("Nat", "Int"):
                raise Untranslatable("arithmetic on " + ta + "/" + tb + ": " + ast.unparse(e))
            sym = {ast.Add: "+", ast.Sub: "-", ast.Mult: "*", ast.FloorDiv: "/"}.get(type(e.op))
            if sym is None or (sym == "-" and ta == "Nat"):
                raise Untranslatable(ast.unparse(e))
            return f"({a} {sym} {b})", ta
        if isinstance(e, (ast.BoolOp, ast.Compare)) or (isinstance(e, ast.UnaryOp) and isinstance(e.op, (ast.Not, ast.Invert))):
            return self.boolean(e, st), "Bool"
        if isinstance(e, ast.Call):
            f = e.func
            if isinstance(f, ast.Attribute) and f.attr == "lower" and not e.args:
                x, t = self.expr(f.value, st)
                if t != "String":
                    raise Untranslatable(".lower() of a " + t)
                return f"{x}.toLower", "String"
            if isinstance(f, ast.Attribute) and isinstance(f.value, ast.Name) and f.value.id in self.self_names \
                    and f.attr in self.masks:
                self.calls.append(ast.unparse(e).split(".", 1)[1])
                return self._param(f.attr)
            if ast.unparse(f) in ("np.repeat", "numpy.repeat") and len(e.args) == 2:
                return self.expr(e.args[0], st, want)
            raise Untranslatable("call " + ast.unparse(e))
        raise Untranslatable(ast.unparse(e))

    def boolean(self, e, st):
        if isinstance(e, ast.BoolOp):
            op = " && " if isinstance(e.op, ast.And) else " || "
            return "(" + op.join(self.boolean(v, st) for v in e.values) + ")"
        if isinstance(e, ast.UnaryOp) and isinstance(e.op, (ast.Not, ast.Invert)):
            return f"(!{self.boolean(e.operand, st)})"
        if isinstance(e, ast.Compare):
            parts, left = [], e.left
            for op, right in zip(e.ops, e.comparators):
                if isinstance(op, (ast.Is, ast.IsNot)) and isinstance(right, ast.Constant) and right.value is None \
                        and isinstance(left, ast.Name) and left.id in self.optional:
                    g, _ = self._param(left.id + "_given")
                    parts.append(g if isinstance(op, ast.IsNot) else f"(!{g})")
                elif isinstance(op, (ast.In, ast.NotIn)) and isinstance(right, (ast.List, ast.Tuple, ast.Set)) and right.elts:
                    a, ta = self.expr(left, st)
                    alts = []
                    for el in right.elts:
                        b, tb = self.expr(el, st, ta)
                        if tb != ta:
                            raise Untranslatable("membership across types: " + ast.unparse(e))
                        alts.append(f"{a} == {b}")
                    m = "(" + " || ".join(alts) + ")"
                    parts.append(m if isinstance(op, ast.In) else f"(!{m})")
                else:
                    a, ta = self.expr(left, st)
                    b, tb = self.expr(right, st, ta)
                    if ta != tb:
                        raise Untranslatable("comparison across types: " + ast.unparse(e))
                    if isinstance(op, (ast.Eq, ast.NotEq)):
                        parts.append(f"({a} {'==' if isinstance(op, ast.Eq) else '!='} {b})")
                    else:
                        sym = {ast.Lt: "<", ast.LtE: "≤", ast.Gt: ">", ast.GtE: "≥"}.get(type(op))
                        if sym is None or ta not in ("Nat", "Int"):
                            raise Untranslatable(ast.unparse(e))
                        parts.append(f"decide ({a} {sym} {b})")
                left = right
            return parts[0] if len(parts) == 1 else "(" + " && ".join(parts) + ")"
        x, t = self.expr(e, st)
        if t == "String":
            return f"({x} != \"\")"          # truthiness of a string (None is read as the empty string)
        if t != "Bool":
            raise Untranslatable("truthiness of a " + t + ": " + ast.unparse(e))
        return x

    def _merge(self, c, a, b):
        out = {}
        for k in a:
            if k in b:
                (x, tx), (y, ty) = a[k], b[k]
                if tx != ty:
                    raise Untranslatable(f"`{k}` has different types in the two branches")
                out[k] = (x, tx) if x == y else (f"(if {c} then {x} else {y})", tx)
        return out

    def run(self, stmts, st):
        """-> result text if a return was reached, else None (state updated in place)"""
        for s in stmts:
            if isinstance(s, ast.Expr) and isinstance(s.value, ast.Constant):
                continue
            if isinstance(s, ast.Assert):
                continue
            if isinstance(s, ast.Expr) and isinstance(s.value, ast.Call) and ast.unparse(s.value.func).startswith("logging."):
                continue
            if isinstance(s, ast.Return):
                if isinstance(s.value, ast.Name) and s.value.id == self.table:
                    vals = []
                    for col in self.columns:
                        if col not in st["cols"]:
                            raise Untranslatable(f"column `{col}` never set")
                        vals.append(st["cols"][col][0])
                    return "(" + ", ".join(vals) + ")"
                return self.expr(s.value, st)[0]
            if isinstance(s, ast.Assign) and len(s.targets) == 1:
                t = s.targets[0]
                if isinstance(t, ast.Name):
                    if t.id == self.table:
                        continue
                    st["env"][t.id] = self.expr(s.value, st)
                    continue
                if isinstance(t, ast.Tuple) and all(isinstance(x, ast.Name) for x in t.elts) \
                        and isinstance(s.value, ast.Subscript) and isinstance(s.value.slice, ast.Constant) \
                        and isinstance(s.value.slice.value, str):
                    k = len(self.lookups)
                    if k >= len(self.lookup_params) or len(self.lookup_params[k]) != len(t.elts):
                        raise Untranslatable("table lookup not declared: " + ast.unparse(s))
                    inner = s.value.value
                    if not (isinstance(inner, ast.Subscript) and isinstance(inner.value, (ast.Attribute, ast.Name))):
                        raise Untranslatable("table lookup " + ast.unparse(s.value))
                    tname = inner.value.attr if isinstance(inner.value, ast.Attribute) else inner.value.id
                    self.lookups.append(f"{tname}[{self.expr(inner.slice, st)[0]}][{s.value.slice.value}]")
                    for x, canon in zip(t.elts, self.lookup_params[k]):
                        st["env"][x.id] = self._param(canon)
                    continue
                if isinstance(t, ast.Subscript) and isinstance(t.value, ast.Name) and t.value.id == self.table \
                        and isinstance(t.slice, ast.Constant) and isinstance(t.slice.value, str):
                    st["cols"][t.slice.value] = self.expr(s.value, st, "Nat")
                    continue
                if isinstance(t, ast.Subscript) and isinstance(t.value, ast.Attribute) and t.value.attr == "loc" \
                        and isinstance(t.value.value, ast.Name) and t.value.value.id == self.table \
                        and isinstance(t.slice, ast.Tuple) and len(t.slice.elts) == 2 \
                        and isinstance(t.slice.elts[1], ast.Constant) and isinstance(t.slice.elts[1].value, str):
                    col = t.slice.elts[1].value
                    if col not in st["cols"]:
                        raise Untranslatable(f"masked assignment to the unset column `{col}`")
                    mask = self.boolean(t.slice.elts[0], st)
                    old, told = st["cols"][col]
                    new, tnew = self.expr(s.value, st, told)
                    if tnew != told:
                        raise Untranslatable(f"column `{col}` changes type")
                    st["cols"][col] = (f"(if {mask} then {new} else {old})", told)
                    continue
                raise Untranslatable("assignment to " + ast.unparse(t))
            if isinstance(s, ast.AugAssign) and isinstance(s.target, ast.Name) and isinstance(s.op, (ast.BitAnd, ast.BitOr)):
                cur, tc = self.expr(s.target, st)
                if tc != "Bool":
                    raise Untranslatable(ast.unparse(s))
                v = self.boolean(s.value, st)
                st["env"][s.target.id] = (f"({cur} {'&&' if isinstance(s.op, ast.BitAnd) else '||'} {v})", "Bool")
                continue
            if isinstance(s, ast.If):
                c = self.boolean(s.test, st)
                a = {"env": dict(st["env"]), "cols": dict(st["cols"])}
                b = {"env": dict(st["env"]), "cols": dict(st["cols"])}
                if self.run(list(s.body), a) is not None or self.run(list(s.orelse), b) is not None:
                    raise Untranslatable("return inside a branch")
                st["env"] = self._merge(c, a["env"], b["env"])
                st["cols"] = self._merge(c, a["cols"], b["cols"])
                continue
            raise Untranslatable(type(s).__name__ + ": " + ast.unparse(s)[:80])
        return None

    def translate(self, lean_name, comment=None):
        body = self.run(list(self.fn.body), {"env": {}, "cols": {}})
        if body is None:
            raise Untranslatable("function falls off its end without a return")
        sig = " ".join(f"({n} : {t})" for n, t in self.types.items())
        doc = f"/-- {comment} -/\n" if comment else ""
        text = doc + f"def {lean_name} {sig} : {self.result} :=\n  {body}"
        import json
        lst = lambda xs: "[" + ", ".join(json.dumps(x) for x in xs) + "]"
        if self.masks:
            text += f"\n/-- what `{lean_name}` passes to the row masks it reads as parameters -/\n" \
                    f"def {lean_name}_calls : List String := {lst(sorted(set(self.calls)))}"
        if self.lookups:
            text += f"\n/-- the table keys `{lean_name}` looks its Int parameters up under -/\n" \
                    f"def {lean_name}_lookups : List String := {lst(self.lookups)}"
        return text


def emit_typed(repo, o, specs):
    """specs: (file, class or None, function, lean name, TFn kwargs, comment)"""
    import os
    from .translate import parse, find_func
    for path, cls, fname, lean, kw, comment in specs:
        try:
            tree, _src = parse(os.path.join(repo, path))
            fn = find_func(tree, fname, cls)
            text = TFn(fn, **kw).translate(lean, comment)
        except (Untranslatable, KeyError, OSError, SyntaxError) as e:
            o.lines.append(f"-- NOT TRANSLATED: {path}:{fname}: {type(e).__name__}: {str(e)[:200]}".replace("\n", " "))
            o.info[lean] = {"error": str(e)[:200]}
            continue
        o.lines.append(text)
        o.info[lean] = {"ok": True}


# ------------------------------------------------------------------------------------------------------------------
# scan loops (see the module docstring)

def scan_rows(fn, callees, lean_name, params, opaque, comment=None):
    """`fn` fills an array row by row; returns the Lean text of `<lean_name>_nan`, `<lean_name>_scan`, `<lean_name>_row`,
    `<lean_name>_calls`.  `params`: the Lean (Rat) parameters of the scan in signature order; `opaque`: callee name ->
    canonical parameter name of the local it is assigned to."""
    import copy
    import json
    outer = [s for s in fn.body if isinstance(s, ast.For)]
    if len(outer) != 1:
        raise Untranslatable("expected exactly one per-row loop")
    outer = outer[0]
    it = outer.iter
    if not (isinstance(it, ast.Call) and ast.unparse(it.func) == "enumerate" and isinstance(outer.target, ast.Tuple)
            and len(outer.target.elts) == 2 and all(isinstance(x, ast.Name) for x in outer.target.elts)):
        raise Untranslatable("per-row loop is not `for idx, row in enumerate(table)`")
    idx, row = (x.id for x in outer.target.elts)

    class RowAttr(ast.NodeTransformer):
        def visit_Attribute(self, node):
            if isinstance(node.value, ast.Name) and node.value.id == row:
                return ast.copy_location(ast.Name(id=node.attr, ctx=node.ctx), node)
            return self.generic_visit(node)
    body = [RowAttr().visit(copy.deepcopy(s)) for s in outer.body]

    def is_store(s, name=None):
        """`out[idx] = <name or expr>`"""
        return (isinstance(s, ast.Assign) and len(s.targets) == 1 and isinstance(s.targets[0], ast.Subscript)
                and isinstance(s.targets[0].slice, ast.Name) and s.targets[0].slice.id == idx)

    tr = Fn(fn, callees={k: v for k, v in callees.items() if k not in opaque})
    env, calls, nan_text, scan, result_var = {}, [], None, None, None
    for s in body:
        if isinstance(s, ast.Expr):
            continue  # logging
        if isinstance(s, ast.Assign) and len(s.targets) == 1 and isinstance(s.targets[0], ast.Name):
            name = s.targets[0].id
            if isinstance(s.value, ast.Call) and isinstance(s.value.func, ast.Name) and s.value.func.id in opaque:
                calls.append(ast.unparse(s.value))
                env[name] = tr.param(opaque[s.value.func.id])
                continue
            env[name] = tr.expr(s.value, env)
            continue
        if isinstance(s, ast.If) and isinstance(s.test, ast.Call) and ast.unparse(s.test.func) in ("np.isnan", "math.isnan") \
                and not s.orelse and scan is None:
            inner = [x for x in s.body if not isinstance(x, ast.Expr)]
            if len(inner) == 2 and is_store(inner[0]) and isinstance(inner[1], ast.Continue):
                nan_text = (ast.unparse(s.test.args[0]), tr.expr(inner[0].value, env))
                continue
            raise Untranslatable("NaN branch is not `out[idx] = E; continue`")
        if isinstance(s, ast.For) and scan is None:
            t = s.target
            if not (isinstance(s.iter, ast.Call) and ast.unparse(s.iter.func) == "enumerate" and len(s.iter.args) == 1
                    and isinstance(s.iter.args[0], ast.Name) and isinstance(t, ast.Tuple) and len(t.elts) == 2
                    and all(isinstance(x, ast.Name) for x in t.elts)):
                raise Untranslatable("scan is not `for i, x in enumerate(xs)`")
            i_name, x_name = (x.id for x in t.elts)
            if len(s.body) != 1 or not isinstance(s.body[0], ast.If) or s.body[0].orelse \
                    or not isinstance(s.body[0].body[-1], ast.Break):
                raise Untranslatable("scan body is not `if COND: ...; break`")
            hit = s.body[0]
            e_hit = dict(env)
            e_hit[i_name] = "(cnum : Rat)"
            e_hit[x_name] = "thresh"
            cond = tr.cond(hit.test, e_hit)
            ret = ast.Return(value=ast.Name(id=i_name, ctx=ast.Load()))
            body_text = tr.block(list(hit.body[:-1]) + [ret], e_hit)
            if not s.orelse:
                raise Untranslatable("scan without an else branch")
            for n in ast.walk(ast.Module(body=list(s.orelse), type_ignores=[])):
                if isinstance(n, ast.Name) and isinstance(n.ctx, ast.Load) and n.id in (i_name, x_name):
                    raise Untranslatable("the else branch reads the loop variable")
            else_text = tr.block(list(s.orelse) + [ret], dict(env))
            scan = (s.iter.args[0].id, cond, body_text, else_text)
            result_var = i_name
            continue
        if is_store(s) and scan is not None:
            if not (isinstance(s.value, ast.Name) and s.value.id == result_var):
                raise Untranslatable("the row result is not the scan variable")
            continue
        raise Untranslatable(type(s).__name__ + ": " + ast.unparse(s)[:80])
    if scan is None or nan_text is None:
        raise Untranslatable("no scan loop / NaN branch found")
    extra = [p for p in tr.params if p not in params]
    if extra:
        raise Untranslatable("undeclared parameters " + ", ".join(extra))
    ps = " ".join(params)
    xs, cond, body_text, else_text = scan
    doc = f"/-- {comment}" if comment else "/-- "
    return "\n".join([
        f"{doc}: a row whose `{nan_text[0]}` is NaN -/",
        f"def {lean_name}_nan ({ps} : Rat) : Rat :=\n  {nan_text[1]}",
        f"{doc}: the scan over `{xs}` from index `cnum` on -/",
        f"def {lean_name}_scan ({ps} : Rat) : Nat → List Rat → Rat",
        f"  | _, [] => {else_text}",
        f"  | cnum, thresh :: rest => if {cond} then {body_text} else {lean_name}_scan {ps} (cnum + 1) rest",
        f"{doc}: one row -/",
        f"def {lean_name}_row ({ps} : Rat) ({xs} : List Rat) : Rat :=\n  {lean_name}_scan {ps} 0 {xs}",
        f"/-- the opaque calls whose results `{lean_name}` reads as parameters -/",
        f"def {lean_name}_calls : List String := [" + ", ".join(json.dumps(c) for c in calls) + "]",
    ])


def guard_condition(fn, exc_name, rename_attr_of=("args",)):
    """the test of the first `if TEST: raise <exc_name>(...)` of `fn`, as a Lean Prop over Rat parameters (`args.x` is
    the parameter `x`) -> (text, params)"""
    import copy

    class A(ast.NodeTransformer):
        def visit_Attribute(self, node):
            if isinstance(node.value, ast.Name) and node.value.id in rename_attr_of:
                return ast.copy_location(ast.Name(id=node.attr, ctx=node.ctx), node)
            return self.generic_visit(node)
    tr, env = Fn(fn), {}
    for s in fn.body:
        if isinstance(s, ast.Assign) and len(s.targets) == 1 and isinstance(s.targets[0], ast.Name):
            # a plain local in front of the guard (an alias of an option) is read through
            try:
                probe = Fn(fn)
                val = probe.expr(A().visit(copy.deepcopy(s.value)), dict(env))
            except Untranslatable:
                continue
            for q in probe.params:
                tr.param(q)
            env[s.targets[0].id] = val
            continue
        if isinstance(s, ast.If) and not s.orelse and len(s.body) == 1 and isinstance(s.body[0], ast.Raise) \
                and exc_name in ast.unparse(s.body[0]):
            tr.params = []
            return tr.cond(A().visit(copy.deepcopy(s.test)), env), list(tr.params)
    raise Untranslatable(f"no `if ...: raise {exc_name}` guard")
