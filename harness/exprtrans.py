"""Python function -> Lean definition, for the small pure arithmetic functions of cnvkit.

The accepted subset is deliberately narrow; anything outside it raises `Untranslatable`, which the check treats
as a broken tie (the generated file then fails to build, or the lock differs), never as silence.

Reading of the source
* every parameter and local is a rational number (`Rat`); array parameters are read ELEMENTWISE: the numpy code
  `x[mask] -= f(y[mask])` means "where mask holds, x becomes x - f(y)", so `a[mask]` is read as `a` and a masked
  augmented assignment as a conditional update (the functions translated here contain no reductions over arrays);
* `2 ** name` (the antilog of a log2 value) becomes a fresh parameter `name_pow2` -- the models work in ratio
  space, where the exact value of that double is an input;
* `len(name)` becomes the parameter `name_len`; `name.median()` the parameter `name_median`;
* truthiness of a number (`purity and purity < 1.0`) is `≠ 0`; `x is None` / `is not None` are resolved by the
  `given` argument (which optional parameters are supplied);
* `if cond: raise ...` guards and `assert` statements are dropped (the models state these as preconditions),
  unless the raise is the only way out of an else-branch, in which case the branch yields `default_on_raise`;
* `int(e)` truncates toward zero, `math.ceil`/`np.ceil` and `//` are exact on rationals, `round` is not accepted;
* float literals are the exact doubles.

Loop-body reading (`emit_loop`, `Fn(..., loop_mode=True)`; added for C11, used by `extractors/exprs_haar.py` only)
* the body of ONE iteration of a `for` loop is read as a function: the value a target (a local name or an element
  `result[k]`) holds at the END of the iteration, in terms of the values at its START.  Statements the target does
  not depend on are dropped (backward slice at statement granularity; an `if` is one statement);
* an element read `name[index]` whose index is not a mask becomes the parameter `name_at_<index text>` (`signal[k - 1]`
  -> `signal_at_k_1`): the VALUE of that element is an input of the formula; WHICH element it is, is tied separately
  through the index expressions (`highEnd`, `lowEnd`), which are translated with `typ="Int"` (integer arithmetic:
  `+ - *`, comparisons, no division);
* a local bound once in the iteration to an expression without element reads (`prev = k - 1`) is inlined where it
  is used as an index, so that `signal[prev]` and `signal[k - 1]` are the same parameter;
* `math.sqrt(e)` becomes the parameter `sqrt_<text of e>` (the double is an input of the models);
* the parameters of a loop-body definition are listed in alphabetical order (not in order of first mention), so
  that reordering operands or independent statements keeps the signature.
"""
from __future__ import annotations

import ast
from fractions import Fraction


class Untranslatable(Exception):
    pass


def _rat(x):
    f = Fraction(x)
    if f.denominator == 1:
        return f"({f.numerator} : Rat)" if f.numerator >= 0 else f"(({f.numerator}) : Rat)"
    return f"(({f.numerator} : Rat) / {f.denominator})"


def _ident(text):
    """source text -> identifier fragment (`k - 1` -> `k_1`, `stepHalfSize / 2` -> `stepHalfSize_2`)"""
    import re
    return re.sub(r"_+", "_", re.sub(r"[^A-Za-z0-9]+", "_", text)).strip("_")


def _elem_name(sub):
    return sub.value.id + "_at_" + _ident(ast.unparse(sub.slice))


class Fn:
    def __init__(self, fn: ast.FunctionDef, given=(), absent=(), default_on_raise=None, rename=None, callees=None,
                 loop_mode=False, typ="Rat"):
        self.loop_mode = loop_mode   # loop-body reading: element reads are parameters (see the module docstring)
        self.typ = typ               # "Rat" (default) or "Int" (index arithmetic)
        self.callees = callees or {}
        self.fn = fn
        self.given = set(given)      # optional parameters known to be supplied (not None)
        self.absent = set(absent)    # optional parameters known to be None
        self.params = []             # Lean parameters in order of first use
        self.default_on_raise = default_on_raise
        self.rename = rename or {}

    # -- parameters ------------------------------------------------------------------------------
    def param(self, name):
        name = self.rename.get(name, name)
        if name not in self.params:
            self.params.append(name)
        return name

    # -- expressions -----------------------------------------------------------------------------
    def expr(self, e, env):
        if isinstance(e, ast.Constant):
            if isinstance(e.value, bool) or e.value is None:
                raise Untranslatable(f"constant {e.value!r} in arithmetic position")
            if isinstance(e.value, (int, float)):
                if self.typ == "Int":
                    if not isinstance(e.value, int):
                        raise Untranslatable(f"non-integer constant {e.value!r} in index arithmetic")
                    return f"({e.value} : Int)" if e.value >= 0 else f"(({e.value}) : Int)"
                return _rat(e.value)
            raise Untranslatable(f"constant {e.value!r}")
        if isinstance(e, ast.Name):
            if e.id in env:
                return env[e.id]
            return self.param(e.id)
        if isinstance(e, ast.Subscript):
            if self.loop_mode and isinstance(e.value, ast.Name) and not (
                    isinstance(e.slice, ast.Name) and env.get(e.slice.id, "").startswith("MASK:")):
                key = _elem_name(e)
                if key in env:
                    return env[key]
                return self.param(key)
            # elementwise reading of `array[mask]`
            if isinstance(e.value, ast.Name) and isinstance(e.slice, ast.Name):
                return self.expr(e.value, env)
            raise Untranslatable("subscript " + ast.unparse(e))
        if isinstance(e, ast.UnaryOp):
            if isinstance(e.op, ast.USub):
                return f"(-{self.expr(e.operand, env)})"
            if isinstance(e.op, ast.UAdd):
                return self.expr(e.operand, env)
            raise Untranslatable(ast.unparse(e))
        if isinstance(e, ast.BinOp):
            if isinstance(e.op, ast.Pow):
                if isinstance(e.left, ast.Constant) and e.left.value == 2 and isinstance(e.right, ast.Name) \
                        and e.right.id not in env:
                    return self.param(e.right.id + "_pow2")
                if isinstance(e.right, ast.Constant) and isinstance(e.right.value, int) and e.right.value >= 0:
                    return f"({self.expr(e.left, env)} ^ {e.right.value})"
                raise Untranslatable("power " + ast.unparse(e))
            a, b = self.expr(e.left, env), self.expr(e.right, env)
            if isinstance(e.op, ast.Add):
                return f"({a} + {b})"
            if isinstance(e.op, ast.Sub):
                return f"({a} - {b})"
            if isinstance(e.op, ast.Mult):
                return f"({a} * {b})"
            if self.typ == "Int" and isinstance(e.op, (ast.Div, ast.FloorDiv)):
                raise Untranslatable("division in index arithmetic: " + ast.unparse(e))
            if isinstance(e.op, ast.Div):
                return f"({a} / {b})"
            if isinstance(e.op, ast.FloorDiv):
                return f"(((({a}) / ({b})).floor : Int) : Rat)"
            raise Untranslatable(ast.unparse(e))
        if isinstance(e, ast.IfExp):
            return f"(if {self.cond(e.test, env)} then {self.expr(e.body, env)} else {self.expr(e.orelse, env)})"
        if isinstance(e, ast.Call):
            f = ast.unparse(e.func)
            args = e.args
            if self.loop_mode and f in ("math.sqrt", "np.sqrt") and len(args) == 1 and self.typ == "Rat":
                return self.param("sqrt_" + _ident(ast.unparse(args[0])))
            if f in ("abs", "np.abs", "np.absolute") and len(args) == 1:
                x = self.expr(args[0], env)
                return f"(if {x} < 0 then -{x} else {x})"
            if isinstance(e.func, ast.Attribute) and e.func.attr == "abs" and not args:
                x = self.expr(e.func.value, env)
                return f"(if {x} < 0 then -{x} else {x})"
            if isinstance(e.func, ast.Attribute) and e.func.attr == "median" and not args \
                    and isinstance(e.func.value, ast.Name):
                return self.param(e.func.value.id + "_median")
            if f in ("max", "np.maximum") and len(args) == 2:
                return f"(max {self.expr(args[0], env)} {self.expr(args[1], env)})"
            if f in ("min", "np.minimum") and len(args) == 2:
                return f"(min {self.expr(args[0], env)} {self.expr(args[1], env)})"
            binops = {"np.divide": "/", "np.true_divide": "/", "np.multiply": "*", "np.add": "+", "np.subtract": "-"}
            if f in binops and len(args) == 2 and not e.keywords:
                return f"({self.expr(args[0], env)} {binops[f]} {self.expr(args[1], env)})"
            if f == "np.square" and len(args) == 1:
                return f"({self.expr(args[0], env)} ^ 2)"
            if f == "np.negative" and len(args) == 1:
                return f"(-{self.expr(args[0], env)})"
            if f == "np.where" and len(args) == 3:
                return f"(if {self.cond(args[0], env)} then {self.expr(args[1], env)} else {self.expr(args[2], env)})"
            if f == "len" and len(args) == 1 and isinstance(args[0], ast.Name):
                return self.param(args[0].id + "_len")
            if f in ("math.ceil", "np.ceil") and len(args) == 1:
                return f"((({self.expr(args[0], env)}).ceil : Int) : Rat)"
            if f in ("math.floor", "np.floor") and len(args) == 1:
                return f"((({self.expr(args[0], env)}).floor : Int) : Rat)"
            if f == "int" and len(args) == 1:
                x = self.expr(args[0], env)
                return f"(if {x} < 0 then ((({x}).ceil : Int) : Rat) else ((({x}).floor : Int) : Rat))"
            if f == "float" and len(args) == 1:
                return self.expr(args[0], env)
            if isinstance(e.func, ast.Name) and e.func.id in self.callees and not e.keywords:
                # a call to another plain function of the same module is inlined: its parameters are renamed to
                # the caller's variables when the arguments are plain parameters, bound as locals otherwise
                callee = self.callees[e.func.id]
                names = [a.arg for a in callee.args.args]
                if len(args) > len(names):
                    raise Untranslatable("call " + ast.unparse(e))
                import copy
                body = copy.deepcopy(callee.body)
                ren, inner_env = {}, {}
                for nm, a in zip(names, args):
                    if isinstance(a, ast.Name) and a.id not in env:
                        ren[nm] = a.id
                    else:
                        inner_env[nm] = self.expr(a, env)

                class R(ast.NodeTransformer):
                    def visit_Name(self, node):
                        if node.id in ren:
                            return ast.copy_location(ast.Name(id=ren[node.id], ctx=node.ctx), node)
                        return node
                body = [R().visit(st) for st in body]
                return self.block(body, inner_env)
            raise Untranslatable("call " + ast.unparse(e))
        raise Untranslatable(ast.unparse(e))

    def cond(self, e, env):
        if isinstance(e, ast.BoolOp):
            op = " ∧ " if isinstance(e.op, ast.And) else " ∨ "
            return "(" + op.join(self.cond(v, env) for v in e.values) + ")"
        if isinstance(e, ast.UnaryOp) and isinstance(e.op, ast.Not):
            return f"(¬ {self.cond(e.operand, env)})"
        if isinstance(e, ast.Compare):
            parts = []
            left = e.left
            for op, right in zip(e.ops, e.comparators):
                if isinstance(op, (ast.Is, ast.IsNot)) and isinstance(right, ast.Constant) and right.value is None \
                        and isinstance(left, ast.Name):
                    if left.id in self.given:
                        parts.append("False" if isinstance(op, ast.Is) else "True")
                    elif left.id in self.absent:
                        parts.append("True" if isinstance(op, ast.Is) else "False")
                    else:
                        raise Untranslatable(f"None-test of `{left.id}` not resolved by given/absent")
                else:
                    sym = {ast.Lt: "<", ast.LtE: "≤", ast.Gt: ">", ast.GtE: "≥", ast.Eq: "=", ast.NotEq: "≠"}.get(type(op))
                    if sym is None:
                        raise Untranslatable(ast.unparse(e))
                    parts.append(f"{self.expr(left, env)} {sym} {self.expr(right, env)}")
                left = right
            if len(parts) == 1 and parts[0] in ("True", "False"):
                return parts[0]
            return "(" + " ∧ ".join(parts) + ")"
        if isinstance(e, ast.Name):
            if e.id in env:
                if env[e.id].startswith("MASK:"):
                    return env[e.id][5:]
                if env[e.id] in ("True", "False"):
                    return env[e.id]
            elif e.id in self.absent:
                return "False"
            return f"({self.expr(e, env)} ≠ 0)"   # truthiness of a number
        if isinstance(e, ast.Constant) and isinstance(e.value, bool):
            return "True" if e.value else "False"
        raise Untranslatable("condition " + ast.unparse(e))

    # -- statements ------------------------------------------------------------------------------
    @staticmethod
    def _only_raises(stmts):
        return bool(stmts) and all(isinstance(s, (ast.Raise, ast.Expr)) for s in stmts) and any(
            isinstance(s, ast.Raise) for s in stmts)

    def block(self, stmts, env):
        if not stmts:
            raise Untranslatable("function falls off its end without a return")
        s, rest = stmts[0], stmts[1:]
        if isinstance(s, ast.Expr) and isinstance(s.value, ast.Constant):
            return self.block(rest, env)  # docstring
        if isinstance(s, ast.Assert):
            return self.block(rest, env)
        if isinstance(s, ast.Return):
            return self.expr(s.value, env)
        if isinstance(s, ast.Raise):
            if self.default_on_raise is None:
                raise Untranslatable("raise reached and no default_on_raise")
            return self.default_on_raise
        if isinstance(s, ast.Assign) and len(s.targets) == 1:
            t = s.targets[0]
            if isinstance(t, ast.Name):
                # a mask (comparison) assigned to a name is kept as a condition
                if isinstance(s.value, ast.Compare):
                    env = dict(env)
                    env[t.id] = "MASK:" + self.cond(s.value, env)
                    return self.block(rest, env)
                env = dict(env)
                env[t.id] = self.expr(s.value, env)
                return self.block(rest, env)
            if self.loop_mode and isinstance(t, ast.Subscript) and isinstance(t.value, ast.Name):
                env = dict(env)
                env[_elem_name(t)] = self.expr(s.value, env)
                return self.block(rest, env)
            raise Untranslatable("assignment to " + ast.unparse(t))
        if isinstance(s, ast.AugAssign):
            op = {ast.Add: "+", ast.Sub: "-", ast.Mult: "*", ast.Div: "/"}.get(type(s.op))
            if op is None:
                raise Untranslatable(ast.unparse(s))
            t = s.target
            if isinstance(t, ast.Name):
                env = dict(env)
                env[t.id] = f"({self.expr(t, env)} {op} {self.expr(s.value, env)})"
                return self.block(rest, env)
            if isinstance(t, ast.Subscript) and isinstance(t.value, ast.Name) and isinstance(t.slice, ast.Name):
                mask = env.get(t.slice.id, "")
                if not mask.startswith("MASK:"):
                    raise Untranslatable("masked update with a mask that is not a comparison: " + ast.unparse(s))
                env = dict(env)
                cur = self.expr(t.value, env)
                env[t.value.id] = f"(if {mask[5:]} then ({cur} {op} {self.expr(s.value, env)}) else {cur})"
                return self.block(rest, env)
            raise Untranslatable(ast.unparse(s))
        if isinstance(s, ast.If):
            if self._only_raises(s.body) and not s.orelse:
                return self.block(rest, env)  # guard: a precondition of the model
            c = self.cond(s.test, env)
            if c == "True":
                return self.block(list(s.body) + rest, env)
            if c == "False":
                return self.block(list(s.orelse) + rest, env)
            th = self.block(list(s.body) + rest, dict(env))
            el = self.block(list(s.orelse) + rest, dict(env))
            return f"(if {c} then {th} else {el})"
        raise Untranslatable(type(s).__name__ + ": " + ast.unparse(s)[:80])

    def translate(self, lean_name, comment=None):
        # parameters in signature order first (so that the Lean signature is stable), then discovered ones
        body = self.block(list(self.fn.body), {})
        if "MASK:" in body:
            raise Untranslatable("a mask escaped into an arithmetic position")
        sig = [self.rename.get(a.arg, a.arg) for a in self.fn.args.args]
        ordered = [p for p in sig if p in self.params] + [p for p in self.params if p not in sig]
        if self.loop_mode:
            ordered = sorted(self.params)   # independent of the order in which the source happens to mention them
        # `2 ** x` parameters replace x itself when x is not otherwise used
        ps = " ".join(ordered)
        ty = self.typ
        head = f"def {lean_name} ({ps} : {ty}) : {ty} :=\n  {body}" if ordered else f"def {lean_name} : {ty} :=\n  {body}"
        doc = f"/-- {comment} -/\n" if comment else ""
        return doc + head, ordered


def emit(repo, o, specs):
    """translate each (file, function, lean name, Fn kwargs, comment); a function outside the subset leaves a
    comment instead of a definition, so that only the theorems about THAT function stop checking"""
    import os
    from .translate import parse, find_func
    for path, fname, lean, kw, comment in specs:
        try:
            tree, _src = parse(os.path.join(repo, path))
            fn = find_func(tree, fname)
            callees = {n.name: n for n in tree.body if isinstance(n, ast.FunctionDef) and n.name != fname}
            text, params = Fn(fn, callees=callees, **kw).translate(lean, comment)
        except (Untranslatable, KeyError, OSError, SyntaxError) as e:
            o.lines.append(f"-- NOT TRANSLATED: {path}:{fname}: {type(e).__name__}: {str(e)[:200]}".replace("\n", " "))
            o.info[lean] = {"error": str(e)[:200]}
            continue
        o.lines.append(text)
        o.info[lean] = {"params": params}


def _stores_loads(stmt):
    """names / elements written and read anywhere inside a statement.  An element `a[i]` counts as `a_at_i`; reading
    or writing an element does NOT read the names of its index (its value is an input, see the reading rules)"""
    st, ld = set(), set()

    def walk(n):
        if isinstance(n, ast.Subscript) and isinstance(n.value, ast.Name):
            (st if isinstance(n.ctx, (ast.Store, ast.Del)) else ld).add(_elem_name(n))
            return
        if isinstance(n, ast.Name):
            (st if isinstance(n.ctx, (ast.Store, ast.Del)) else ld).add(n.id)
        if isinstance(n, ast.AugAssign):
            t = n.target
            if isinstance(t, ast.Name):
                ld.add(t.id)
            elif isinstance(t, ast.Subscript) and isinstance(t.value, ast.Name):
                ld.add(_elem_name(t))
        for c in ast.iter_child_nodes(n):
            walk(c)
    walk(stmt)
    return st, ld


def _resolve_none_tests(body, given, absent):
    """`if w is None: A else: B` with `w` known to be supplied / absent is replaced by the branch taken"""
    out = []
    for s in body:
        if isinstance(s, ast.If) and isinstance(s.test, ast.Compare) and len(s.test.ops) == 1 \
                and isinstance(s.test.ops[0], (ast.Is, ast.IsNot)) and isinstance(s.test.left, ast.Name) \
                and isinstance(s.test.comparators[0], ast.Constant) and s.test.comparators[0].value is None \
                and s.test.left.id in (set(given) | set(absent)):
            is_none = s.test.left.id in set(absent)
            taken = s.body if (is_none == isinstance(s.test.ops[0], ast.Is)) else s.orelse
            out += _resolve_none_tests(list(taken), given, absent)
        else:
            out.append(s)
    return out


def _inline_index_locals(body):
    """a local that the iteration binds exactly once, by a plain assignment to an expression without element reads
    (`prev = k - 1`), is replaced by that expression wherever it is used as an INDEX, so that `signal[prev]` and
    `signal[k - 1]` name the same element"""
    import copy
    binds, other = {}, set()
    for stmt in body:
        for n in ast.walk(stmt):
            if isinstance(n, ast.Assign) and len(n.targets) == 1 and isinstance(n.targets[0], ast.Name):
                binds.setdefault(n.targets[0].id, []).append(n)
            elif isinstance(n, (ast.AugAssign, ast.For, ast.With, ast.NamedExpr)):
                for t in ast.walk(n.target if hasattr(n, "target") else n):
                    if isinstance(t, ast.Name) and isinstance(t.ctx, ast.Store):
                        other.add(t.id)
    single = {k: v[0].value for k, v in binds.items()
              if len(v) == 1 and k not in other and v[0] in body
              and not any(isinstance(x, (ast.Subscript, ast.Call)) for x in ast.walk(v[0].value))}

    class T(ast.NodeTransformer):
        def visit_Subscript(self, node):
            node.value = self.visit(node.value)
            node.slice = S().visit(node.slice)
            return node

    class S(ast.NodeTransformer):
        def visit_Name(self, node):
            if isinstance(node.ctx, ast.Load) and node.id in single:
                return copy.deepcopy(single[node.id])
            return node
    return [ast.fix_missing_locations(T().visit(copy.deepcopy(st))) for st in body]


def loop_slice(body, target):
    """backward slice of one loop iteration: the statements `target` (a name or an element key) depends on"""
    need, keep = {target}, []
    for stmt in reversed(body):
        st, ld = _stores_loads(stmt)
        if st & need:
            keep.append(stmt)
            need |= ld
    return list(reversed(keep))


def emit_loop(repo, o, specs):
    """translate one iteration of a loop: each spec is (file, function, loop variable, target text, lean name, Fn
    kwargs, comment).  The unique `for <loop variable> in ...` of the function is located, its body is sliced for the
    target and read as a function returning the target's value at the end of the iteration."""
    import os
    from .translate import parse, find_func
    for path, fname, loopvar, target, lean, kw, comment in specs:
        try:
            tree, _src = parse(os.path.join(repo, path))
            fn = find_func(tree, fname)
            loops = [n for n in ast.walk(fn) if isinstance(n, ast.For) and isinstance(n.target, ast.Name)
                     and n.target.id == loopvar]
            if len(loops) != 1:
                raise Untranslatable(f"expected exactly one `for {loopvar} in ...` loop, found {len(loops)}")
            texpr = ast.parse(target, mode="eval").body
            key = _elem_name(texpr) if isinstance(texpr, ast.Subscript) else texpr.id
            body = loop_slice(_inline_index_locals(
                _resolve_none_tests(list(loops[0].body), kw.get("given", ()), kw.get("absent", ()))), key)
            if not body:
                raise Untranslatable(f"`{target}` is not assigned in the loop body")
            pseudo = ast.FunctionDef(name=fname, args=fn.args, body=body + [ast.Return(value=texpr)], decorator_list=[])
            ast.fix_missing_locations(pseudo)
            kw = dict(kw)
            kw.setdefault("loop_mode", True)
            text, params = Fn(pseudo, **kw).translate(lean, comment)
        except (Untranslatable, KeyError, OSError, SyntaxError, AttributeError) as e:
            o.lines.append(f"-- NOT TRANSLATED: {path}:{fname}[{target}]: {type(e).__name__}: {str(e)[:200]}".replace("\n", " "))
            o.info[lean] = {"error": str(e)[:200]}
            continue
        o.lines.append(text)
        o.info[lean] = {"params": params}
