"""Python function -> Lean definition, for the small pure arithmetic functions of cnvkit.

The accepted subset is deliberately narrow; anything outside it raises `Untranslatable`, which the check treats
as a broken tie (the generated file then fails to build, or the lock differs), never as silence.

Reading of the source
* every parameter and local is a rational number (`Rat`); array parameters are read ELEMENTWISE: the numpy code
  `x[mask] -= f(y[mask])` means "where mask holds, x becomes x - f(y)", so `a[mask]` is read as `a` and a masked
  augmented assignment as a conditional update (the functions translated here contain no reductions over arrays);
* `2 ** name` (the antilog of a log2 value) becomes a fresh parameter `name_pow2` -- the models work in ratio
  space, where the exact value of that double is an input;
* `len(name)` becomes the parameter `name_len`; `name.median()` the parameter `name_median`;
* truthiness of a number (`purity and purity < 1.0`) is `≠ 0`; `x is None` / `is not None` are resolved by the
  `given` argument (which optional parameters are supplied);
* `if cond: raise ...` guards and `assert` statements are dropped (the models state these as preconditions),
  unless the raise is the only way out of an else-branch, in which case the branch yields `default_on_raise`;
* `int(e)` truncates toward zero, `math.ceil`/`np.ceil` and `//` are exact on rationals; one-argument `round` is Python's round-half-to-even (fragment / piece readers below; not reachable from `emit`);
* float literals are the exact doubles;
* (round 4, C09) `math.log(x, 2)` / `math.log2(x)` / `np.log2(x)` of a VARIABLE `x` (or its elementwise selection
  `x[mask]`) becomes the parameter `x_log2` -- the counterpart of the `2 ** x` rule: the logarithm of the value `x`
  holds at that point is an input of the model, which only decides WHETHER the logarithm or a sentinel is reported;
  accepted at most once per function;
* (round 4, C09) a masked plain assignment `x[mask] = e` (mask = a comparison bound to a name) reads "where mask holds
  x becomes e", like the masked augmented assignment.

Fragments (`emit_fragments`, added for `GenomicArray.by_arm`): instead of a whole function, single pieces of a
function body are read -- the right-hand side of the k-th assignment to a name, the test of the `if` statement whose
body assigns a given name, the bounds of the slices in an assignment, the index of a subscript -- each into a
definition of its own whose parameters are the free names of the piece; the control flow around the pieces is
re-assembled by hand in the proof module (Lemmas/SrcArm.lean) and is part of what is trusted there.  Additional rules:
* `round(e)` with one argument is Python's round-half-to-even of the exact value of `e` (an integer), and
  `int(round(e))` is read as `round(e)`;
* `name.argmax()` becomes the parameter `name_argmax`;
* a local bound exactly once is read through to its defining expression (except the locals the fragments are about),
  local names are mapped to canonical ones given by the extractor, and parameters are listed alphabetically;
* a fragment marked `int` contains only `+`, `-`, `*`, integer literals, names and comparisons; it is emitted over
  `Int` (index arithmetic), a test as a `Bool` (`decide`).

Added for the boolean masks and formula slices of cnvlib/fix.py (round 4, C04):
* `name["col"]` (a table column selected by a string literal) is the parameter `name_col`, read elementwise;
* on masks (comparisons and what is built from them) `a | b`, `a & b`, `~a` are `∨`, `∧`, `¬`; `mask |= e` / `mask &= e` update
  a mask local; a function translated with `translate_bool` returns the mask it ends with, as `decide (…)`;
* `"col" in name` (does the table have that column) is the Boolean parameter `name_has_col`;
* `name.mean()` is the parameter `name_mean` (like `name.median()`; a slice that uses such reductions also emits their
  names, `<lean name>_reductions`, so that exchanging one reduction for another is visible); `e.clip(lo, hi)` is
  `min hi (max lo e)`;
* a SLICE (`emit_slices`) is the right-hand side of the k-th plain assignment `name = <expr>` found anywhere in a function
  (or the unique call of a named method, e.g. `clip`), read with every other local as a free parameter, except locals bound
  exactly once in the function to a numeric literal (inlined) and the names listed in `inline` (earlier slices).  A slice says
  which FORMULA the function evaluates at that statement; it says nothing about the control flow around it.

ROW-WISE reading of table functions (class `RowFn`, added for C20; Generated/ExprsExport.lean)
* a function over a table (`segments`, `dframe`) whose statements are column-wise pandas / numpy expressions is read
  ROW-wise: as a function from the cells of ONE row (typed parameters: `Int`, `Rat`, `String`, `Bool`; the column
  types and the fixed parameter list are declared by the extractor, a column / option outside that list is
  Untranslatable) to `Option (List Py.Val)` -- the cells of the row it contributes to the result, `none` when the
  row contributes nothing.  Operations that relate different rows (shifts, `np.r_`, cumulative sums, sorting,
  reductions) are outside the subset;
* `frame["k"] = e` defines / overwrites column k (a scalar is broadcast); `frame.loc[mask, "k"] = e` and
  `x[mask] op= e` update where the mask holds; `frame = frame[mask]` keeps the row iff the mask holds;
  `frame.reindex(columns=[..])` selects those columns (a column the table may lack is that column's parameter: its
  value is meaningful only when the column exists); `.data`, `.values`, `.copy()` are the identity;
  `col.replace(a, b)` is `if col = a then b else col`; `col.round().astype("int")` is `roundHE` (numpy rounds half to
  even), `.round()` alone is not accepted;
* `"k" in table` is the Boolean parameter `has_k` (or `False` for the columns the extractor declares absent, e.g. the
  confidence-limit columns whose handling is outside the model);
* a call into ANOTHER module (`call.absolute_expect(...)`, `cnarr.guess_xx(...)`: another property's subject) is a
  typed parameter; its argument list must be, textually, the one the extractor declares;
* the final `for row[, x] in zip(frame.itertuples(index=False), col)` loop is read for one row: `continue` = the row
  contributes nothing, `yield (..)` = its cells; nothing may follow the `yield` or the loop;
* `return frame` = the row's cells in column order; `return <value>` for the scalar helpers;
* an `if` that is not resolved statically continues with the REST of the function in both branches (paths are
  duplicated, never merged); a path on which Python could not go on (a local that no statement on the path has bound)
  contributes `none` -- the theorems show such paths unreachable;
* strings: f-strings are concatenations, an `Int` hole is `toString`, a float hole is `fmt_float x` with
  `fmt_float : Rat -> String` a parameter (Python's float formatting is not modelled); `sep.join([..])` is
  `sep.intercalate`; `s.lower()` is `String.toLower`; truthiness of a string is `!= ""`; `None` in string position
  reads as `""` (both falsy: the functions read here only test truthiness); `x in [a, b]` is a disjunction;
* `2.0 ** row.log2` is the parameter `log2_pow2` (ratio space); `str(row.k).isdigit()` is the Boolean parameter
  `k_isdigit`; `logging.*` calls and docstrings are skipped.

Typed reader (`TFn`, growth round: decision tables and row masks -- `Generated/ExprsTbl*.lean`)
* parameters carry the Lean type the extractor declares for them (`String`, `Nat`, `Int`, `Bool`); the Lean signature is
  exactly the declared list, in the declared order (so a renamed LOCAL never changes it);
* `self.col` / `row.col` (a column of the table, one row at a time) is the parameter `col`; a call of a declared row-mask
  method (`cnarr.chr_x_filter(g)`, `self.parx_filter(genome_build=g)`) is the Bool parameter of that name -- what was
  passed to it is recorded in `<name>_calls` (the distinct call texts, sorted) and pinned by a theorem of its own;
* `x is None` / `x is not None` for a declared optional parameter `x` is the Bool parameter `x_given`;
* `s.lower()` is `String.toLower`; `a in [l1, l2]` is `a == l1 || a == l2`; `==`/`!=` are `BEq` on strings and numbers;
  `and`/`or`/`not` and the elementwise `&`/`|`/`~` of boolean Series are `&&`/`||`/`!`; `<=` etc. are `decide (.. ≤ ..)`;
  `//` on naturals is `Nat` division; `np.repeat(e, len(df))` is `e` (one row at a time);
* `df["col"] = e` sets the column, `df.loc[mask, "col"] = e` is `col := if mask then e else col` -- later statements
  override earlier ones in source order; `if c: ...` without a return merges every local / column as `if c then .. else ..`;
  `return df` is the tuple of the declared result columns;
* truthiness of a string parameter is `!= ""` (an absent option, `None`, is read as the empty string); `logging.*(..)`
  statements are skipped;
* `a, b = params.TABLE[key]["NAME"]` binds the Int parameters `a`, `b` (values of a table the constants extractor reads);
  the `"NAME"`s are recorded in `<name>_lookups`.

Scan loops (`scan_rows`, `Generated/ExprsScan.lean`)
* in a per-row loop `for idx, row in enumerate(table)`, the statement
  `for i, x in enumerate(xs): if COND: BODY; break` with `else: ELSE` is read as the recursion "at the first `x` (index `i`)
  with COND the result is BODY, ELSE if there is none" over the list `xs` (a `Nat → List Rat → Rat` definition started at
  index 0); the loop variable `i` enters BODY as a number; ELSE may not read it;
* `if np.isnan(row.col): out[idx] = E; continue` is the separate definition `<name>_nan := E`;
* a local bound to a call the extractor declares opaque (`ref_copies = _reference_copies_pure(..)`) is a parameter with the
  declared canonical name; the call's arguments are recorded in `<name>_calls`.

Generator LOOPS (a `for x in xs:` state machine that yields values and carries variables between iterations, e.g.
`access.get_regions` / `join_regions`) are read by the companion module `harness/looptrans.py`; its reading rules
(yield = append, continue, `is None` tests as a match on an option, numpy vector primitives as the one-line list
functions of `lean/CnvVerif/Model/PyPrims.lean`) are stated at the top of that file and belong to the trusted base too.
* a power of two numeric LITERALS (`2 ** -5`, after a name imported from params.py has been replaced by its literal)
  is the exact value of the double Python computes for it;
* `not <test>` where the test is resolved by `given` / `absent` folds to `True` / `False`; in `a and b` / `a or b` an
  operand resolved to a constant is dropped (neutral) or ends the reading of the later operands (absorbing, and
  nothing before it: Python's short-circuit evaluation);
* `argument_of(fn, callee, param)` (bottom of this file) reads "the value `fn` passes to `callee` as `param`": the
  function is cut at its final `return callee(...)` and returns that argument instead (positional or keyword).

Added for the PIECES of larger functions (`emit_pieces`, used by extractors/exprs_interval.py; none of the rules below
is reachable from `emit`, whose output is unchanged):
* one-argument `round(e)` is Python 3's round-half-to-even, spelled out with `.floor` (the float division feeding it is
  read as exact rational division, as everywhere else);
* `a or b` in arithmetic position is `a` when `a ≠ 0`, else `b` (truthiness of a number);
* `name.attr` of a plain local (`row.start`, `keeper.end`) is the parameter `name_attr`;
* a piece is ONE expression or condition picked out of a function by the extractor (the value bound to a named local,
  the test of an `if`), with the function's single-assignment locals read through (`translate.expand`), so that the
  piece only mentions parameters, loop variables and attributes of loop variables; the control flow AROUND the pieces
  (the loops, which branch yields what) is not read -- it stays with the correspondence run;
* `atoms`: sub-expressions that the extractor names verbatim (`table.end.cummax().values[:-1]` ↦ `end_cummax_prev`,
  `rows_to_exclude.start.iat[0]` ↦ `first_excluded_start`) are read ELEMENTWISE as one number per row / per call; the
  mapping is listed in the extractor and is part of the trusted base; a sub-expression that is neither an atom nor in
  the subset leaves the piece untranslated;
* `x.clip(lower=a, upper=b)` is `min b (max a x)` (either bound may be missing); `**name` of a dict literal bound once
  in the function, with optional `name[key] = value` under an `if flag:`, is resolved by the `flags` the extractor
  passes (which optional argument is supplied);
* a piece whose `typ` is `Int` contains only integer literals, `+ - *`, comparisons, `min`/`max`: it is emitted over `Int`.

Added for the statistics formulas (C17; used only where an extractor asks for them, see `emit_values`):
* VALUE OF AN EXPRESSION INSIDE A FUNCTION (`emit_values`): instead of a whole body, the value of a named local
  after its last assignment, of one argument of a named call, or of the operand of the returned `.mean()` is read.
  Only the statements that (transitively) define the names it uses are kept -- a backward slice over the top-level
  statements of the function and, for a nested function, of the enclosing ones; early `return`s / `raise`s on the
  way and statements that define nothing it uses (seeding, drawing, logging) are not part of that value;
* `logging.<level>(...)` statements have no effect on values and are skipped;
* a fixed-length array literal in an elementwise computation (`np.array([e0, e1])`, `[e0, e1]`, `list(v)`) is read
  one COMPONENT at a time: with `component=i` every such literal stands for its i-th element;
* `table["col"]` is the column read elementwise: the parameter `col_<col>` (whatever the table variable is called);
* `np.sqrt(e)` and `norm.cdf(e)` are applications of the opaque function parameters `sqrt`, `norm_cdf : Rat -> Rat`
  (nothing is assumed about them here; the theorems state what they need);
* `e.where(c, other)` (pandas) is `if c then e else other`;
* `E.mean()` / `np.mean(E)` as the returned value of an elementwise `E` is the arithmetic mean of `E` over the
  elements: `(a.map elem).sum / a.length`.

String-valued functions (sorter_chrom, to_label) are read by a separate, equally narrow translator with its own stated
reading rules: `harness/extractors/exprs_chromsort.py` (primitives in `lean/CnvVerif/Model/PyStr.lean`).
* (round 4, for the level functions of cnvlib/segfilters.py; option `bare_columns`) a table column `tbl["name"]` (optionally `.values`) is
  read elementwise as the parameter `name`; `np.zeros(n)` / `np.zeros_like(x)` is the number 0 and `pd.Series(x)` /
  `np.asarray(x)` / `np.array(x)` is `x` (elementwise reading); a masked plain assignment `x[mask] = v`, the mask
  being a comparison (or `&` / `|` / `~` of comparisons, or a name bound to one, with or without `.values`), means "where mask holds, x
  becomes v" -- a later assignment overrides an earlier one where both masks hold, as in numpy; a comparison with a
  missing value (NaN) is outside the reading (the theorems about these functions assume the columns present).

Typed reading (class `GFn`, used by the extractors `exprs_bygene.py` / `exprs_genemetrics.py`; property C16).  The code
read here is index / selection logic, not arithmetic, so values carry a type (Rat, Int, Nat, String, List _):
* a field of a table row `row.log2` / `row["log2"]` / a column used elementwise `self.data["log2"]` becomes the parameter
  `row_log2` / `log2`, typed by the column (log2, depth, weight: Rat; start, end, probes: Int; gene, chromosome: String);
  a plain name that is never bound is a parameter whose type is taken from what it is compared / combined with;
* a name that is indexed, measured or searched is a list: `v[0]` is `v.headD 0`, `v[-1]` is `v.getLastD 0`, `len(v)` is
  `v.length` (the length of a table that is not otherwise read is the parameter `v_len`), `x in v` is `x ∈ v`, `sum(c for s in v)` is `v.countP c`, `a + b` on lists is `++`, `tuple(v)` / `list(v)` is `v`,
  a tuple / list literal is a list literal from which `np.nan` is dropped (NaN is equal to no name);
* the parameters of a generated definition come in a canonical order (the enclosing function's own parameters and the
  loop targets first, then row fields / columns / lengths in table order, then other free names by first use);
* truthiness: of a number `≠ 0`, of a string `≠ ""`, of a list `≠ []`; `a < b < c` is `a < b ∧ b < c`; a comparison bound to a
  name and updated with `|=` / `&=` is the disjunction / conjunction (elementwise reading of a boolean mask);
* in a function of WHOLE COLUMNS (`segment_mean`) `table["log2"]` is the list of the column's values, `len(table)` the
  parameter `table_len`, `col.sum()` is `col.sum`, `col.mean()` is `col.sum / col.length`, `col.any()` is "some value ≠ 0",
  `np.average(a, weights=w)` is `(zipWith (·*·) a w).sum / w.sum`, `col.iat[-1]` is `col[-1]`; the result is an `Option`:
  `return np.nan` is `none`;
* in such a function `outrow = table[0].copy()` starts a ROW RECORD, `outrow["col"] = e` sets a field, and yielding the
  record yields the tuple (chromosome, start, end, gene, log2, depth, weight, probes) of its fields, a field never set
  being the first row's (`col.headD`); a table is true when `table_len ≠ 0`; the result of a named function of another
  module bound to a name (`segmean = segment_mean(rows, skip_low)`) is a parameter of the declared type; a float
  (NaN included) `is None` is false; a parameter whose name is a Lean keyword gets a trailing underscore (`end_`);
* `int(e)`, `math.ceil(e)` of an Int-typed `e` are `e`; float literals are the exact doubles; `params.ANTITARGET_ALIASES`
  (not a plain literal, so not inlined) is the definition of that name in Generated/Consts.lean;
* a loop body is read as ONE ITERATION: a function from the loop-carried variables (the names bound before the loop and
  re-bound in it) to the list of values it yields (`yield v`, or `acc.append(v)`) and the new values of those variables;
  `continue` ends the iteration, `logging.*(...)` calls and `if`s that only log are skipped, an `if` is a case split of the
  whole rest of the body; `"depth" in table` / `"weight" in table` hold (the models' tables carry both columns: the harness
  models a missing one as the constant 1); `return table[mask]` is read as the predicate "the row is kept";
* a yielded table slice `wrapper(table.iloc[a:b])` is read as the pair of positions `(a, some b)`, `table.iloc[a:]` as
  `(a, none)` -- which rows those positions select is the model's `slice` / `drop`.
* index-set scatter (added for vary._tumor_boost / zygosity_from_freq): `idx = np.nonzero(mask)[0]` names the positions
  where `mask` holds and `~mask` is its negation; `out[idx] = e` (also `out[mask] = e`, `out[a < b] = e`) means "where
  the mask holds, out becomes e, elsewhere it stays", with `x.take(idx)` inside `e` read as x at those same positions
  (only the SAME index set as the target's is accepted); `np.zeros_like(x)` is 0, `np.repeat(c, n)` is c,
  `pd.Series(e)` and `e.values` are e -- all elementwise;
* a local listed in `opaque` keeps its name as a parameter: the assignment that binds it (a column lookup such as
  `vals = self[freq_key].values`) is skipped.

Added for the decision code of C15 (classes `FnOpt`, `BoolFn` at the end of this file; used by
harness/extractors/exprs_sex.py, and the statement-shape reader harness/extractors/exprs_center.py):
* `FnOpt`: `a, b = helper(x, ...)` from a helper named `opaque` leaves `a`, `b` as the helper's results (bound by the
  caller of the translator: the helper itself and `+` on its array argument stay abstract); `and`/`or` over resolved
  `is None` tests are folded; with `decimal_floats` a float literal is the DECIMAL written in the source (`0.01` = 1/100);
* `BoolFn`: functions over flags and boolean masks read elementwise -- every name a `Bool`; `and or not & | ~` as
  `&& || !`; `.values` transparent; `self.m(args)` an opaque mask atom `m_args`; `<x>.<col> == self.<label>` the atom
  `<col>_eq_<label>`; `m &= e`; `arr = np.zeros(..)` / `self.copy()` start an element at 0 (the CHANGE of the element for a
  copy), `arr[mask] = c`, `arr[mask, "col"] += c` update it; `if p is None: p = ...` is skipped for a parameter given.

Loop-body reading (`emit_loop`, `Fn(..., loop_mode=True)`; added for C11, used by `extractors/exprs_haar.py` only)
* the body of ONE iteration of a `for` loop is read as a function: the value a target (a local name or an element
  `result[k]`) holds at the END of the iteration, in terms of the values at its START.  Statements the target does
  not depend on are dropped (backward slice at statement granularity; an `if` is one statement);
* an element read `name[index]` whose index is not a mask becomes the parameter `name_at_<index text>` (`signal[k - 1]`
  -> `signal_at_k_1`): the VALUE of that element is an input of the formula; WHICH element it is, is tied separately
  through the index expressions (`highEnd`, `lowEnd`), which are translated with `typ="Int"` (integer arithmetic:
  `+ - *`, comparisons, no division);
* a local bound once in the iteration to an expression without element reads (`prev = k - 1`) is inlined where it
  is used as an index, so that `signal[prev]` and `signal[k - 1]` are the same parameter;
* `math.sqrt(e)` becomes the parameter `sqrt_<text of e>` (the double is an input of the models);
* the parameters of a loop-body definition are listed in alphabetical order (not in order of first mention), so
  that reordering operands or independent statements keeps the signature.

The C05 growth branch extended this reader in ways that conflicted textually with the other branches; its variant is kept
as `harness/exprtrans_c05.py` and used only by `extractors/exprs_ref.py` (reference.calculate_gc_lo, shift_sex_chroms,
CopyNumArray.expect_flat_log2).  Likewise the C07 branch's table reader (`TableFn` / `emit_table`) lives in
`harness/exprtrans_c07.py` and is used only by `extractors/exprs_ranges.py`.
"""
from __future__ import annotations

import ast
from fractions import Fraction


class Untranslatable(Exception):
    pass


def _rat(x):
    f = Fraction(x)
    if f.denominator == 1:
        return f"({f.numerator} : Rat)" if f.numerator >= 0 else f"(({f.numerator}) : Rat)"
    return f"(({f.numerator} : Rat) / {f.denominator})"


def _num_literal(e):
    """the value of a (signed) numeric literal, else None"""
    if isinstance(e, ast.Constant) and isinstance(e.value, (int, float)) and not isinstance(e.value, bool):
        return e.value
    if isinstance(e, ast.UnaryOp) and isinstance(e.op, (ast.USub, ast.UAdd)):
        v = _num_literal(e.operand)
        if v is not None:
            return -v if isinstance(e.op, ast.USub) else v
    return None


def _ident(text):
    """source text -> identifier fragment (`k - 1` -> `k_1`, `stepHalfSize / 2` -> `stepHalfSize_2`)"""
    import re
    return re.sub(r"_+", "_", re.sub(r"[^A-Za-z0-9]+", "_", text)).strip("_")


def _elem_name(sub):
    return sub.value.id + "_at_" + _ident(ast.unparse(sub.slice))


class Fn:
    def __init__(self, fn: ast.FunctionDef, given=(), absent=(), default_on_raise=None, rename=None, callees=None,
                 pieces=False, atoms=None, num="Rat", columns=False, sort_params=False, bare_columns=False, opaque=(), loop_mode=False, typ="Rat"):
        self.bare_columns = bare_columns   # read `tbl["name"]` as the parameter `name`, masks built with | & ~ (C14 level functions)
        self.pieces = pieces          # the additional reading rules for pieces of larger functions
        self.atoms = atoms or {}      # verbatim source text -> parameter name (elementwise reading)
        self.num = num                # "Rat" | "Int"
        self.loop_mode = loop_mode   # loop-body reading: element reads are parameters (see the module docstring)
        self.typ = typ               # "Rat" (default) or "Int" (index arithmetic)
        self.callees = callees or {}
        self.columns = columns          # read `table["col"]` as the parameter `col_<col>` (C17 additions)
        self.sort_params = sort_params  # discovered parameters in alphabetical order instead of order of first use
        self.fparams = []               # opaque function parameters (`sqrt`, `norm_cdf`) in a fixed order
        self.opaque = set(opaque)    # locals that stay parameters (their binding assignment is skipped)
        self._under = None           # the mask of the scatter assignment being read
        self.fn = fn
        self.given = set(given)      # optional parameters known to be supplied (not None)
        self.absent = set(absent)    # optional parameters known to be None
        self.params = []             # Lean parameters in order of first use
        self.default_on_raise = default_on_raise
        self.rename = rename or {}
        self.bparams = []            # Boolean parameters (`"col" in table`), in order of first use
        self.boolean = False         # translate_bool: the function returns a mask
        self.reductions = []         # `.mean()` / `.median()` read as parameters, in order of first use
        self.base = {}               # parameter -> the Python name it derives from

    # -- parameters ------------------------------------------------------------------------------
    def param(self, name, base=None):
        name = self.rename.get(name, name)
        if name not in self.params:
            self.params.append(name)
            self.base[name] = base or name
        return name

    def _ordered(self, names):
        """order of the parameters of a mask / slice definition: by where the Python name they derive from is defined in
        the function (position in the signature, else line of its first binding, else 0), then alphabetically -- stable
        under a reordering of operands and under a renaming of locals"""
        sig = {a.arg: k for k, a in enumerate(self.fn.args.args)}
        first = {}
        for n in ast.walk(self.fn):
            if isinstance(n, ast.Name) and isinstance(n.ctx, ast.Store):
                first[n.id] = min(first.get(n.id, (10 ** 9, 0)), (n.lineno, n.col_offset))

        def key(p):
            b = self.base.get(p, p)
            return ((0, sig[b], 0) if b in sig else (1,) + first[b] if b in first else (2, 0, 0), p)
        return sorted(names, key=key)

    # -- expressions -----------------------------------------------------------------------------
    def lit(self, x):
        if self.num == "Int":
            if isinstance(x, float) or x != int(x):
                raise Untranslatable(f"non-integer literal {x!r} in an Int piece")
            return f"({int(x)} : Int)" if x >= 0 else f"(({int(x)}) : Int)"
        return _rat(x)

    def piece_expr(self, e, env):
        """the additional forms accepted inside pieces; None when `e` is not one of them"""
        text = ast.unparse(e)
        if text in self.atoms:
            return self.param(self.atoms[text])
        if isinstance(e, ast.Constant) and isinstance(e.value, (int, float)) and not isinstance(e.value, bool):
            return self.lit(e.value)
        if isinstance(e, ast.Attribute) and isinstance(e.value, ast.Name) and e.value.id not in env:
            return self.param(e.value.id + "_" + e.attr)
        if isinstance(e, ast.BoolOp) and isinstance(e.op, ast.Or) and len(e.values) == 2:
            a, b = self.expr(e.values[0], env), self.expr(e.values[1], env)
            return f"(if {a} ≠ 0 then {a} else {b})"
        if isinstance(e, ast.Call):
            f = ast.unparse(e.func)
            if f == "round" and len(e.args) == 1 and not e.keywords and self.num == "Rat":
                x = self.expr(e.args[0], env)
                fl = f"((({x}).floor : Int) : Rat)"
                return (f"(if {x} - {fl} < (1 : Rat) / 2 then {fl} else if {x} - {fl} > (1 : Rat) / 2 then {fl} + 1 "
                        f"else if ({x}).floor % 2 = 0 then {fl} else {fl} + 1)")
            if isinstance(e.func, ast.Attribute) and e.func.attr == "clip" and not e.args:
                kw = {}
                for k in e.keywords:
                    if k.arg is None:
                        kw.update(self.resolve_dict(k.value))
                    else:
                        kw[k.arg] = k.value
                if set(kw) - {"lower", "upper"}:
                    raise Untranslatable("clip with " + ", ".join(sorted(kw)))
                x = self.expr(e.func.value, env)
                if "lower" in kw:
                    x = f"(max {self.expr(kw['lower'], env)} {x})"
                if "upper" in kw:
                    x = f"(min {self.expr(kw['upper'], env)} {x})"
                return x
        return None

    def resolve_dict(self, node):
        """`**name`: the dict literal bound to `name` once in the function, plus `name[key] = v` statements under
        `if flag:` for the flags that are given"""
        if not isinstance(node, ast.Name):
            raise Untranslatable("** of " + ast.unparse(node))
        lits = [n for n in ast.walk(self.fn) if isinstance(n, ast.Assign) and len(n.targets) == 1
                and isinstance(n.targets[0], ast.Name) and n.targets[0].id == node.id]
        if len(lits) != 1 or not isinstance(lits[0].value, ast.Dict):
            raise Untranslatable(f"`{node.id}` is not one dict literal")
        out = {}
        for k, v in zip(lits[0].value.keys, lits[0].value.values):
            if not (isinstance(k, ast.Constant) and isinstance(k.value, str)):
                raise Untranslatable("dict key " + ast.unparse(k))
            out[k.value] = v

        def stores(stmts, active):
            for st in stmts:
                if isinstance(st, ast.If):
                    if isinstance(st.test, ast.Name) and (st.test.id in self.given or st.test.id in self.absent):
                        stores(st.body, active and st.test.id in self.given)
                        stores(st.orelse, active and st.test.id in self.absent)
                    elif any(isinstance(t, ast.Subscript) and isinstance(t.value, ast.Name) and t.value.id == node.id
                             for n in ast.walk(st) for t in (n.targets if isinstance(n, ast.Assign) else [])):
                        raise Untranslatable(f"`{node.id}[...] = ` under a condition that the flags do not resolve")
                elif isinstance(st, ast.Assign) and len(st.targets) == 1 and isinstance(st.targets[0], ast.Subscript) \
                        and isinstance(st.targets[0].value, ast.Name) and st.targets[0].value.id == node.id:
                    key = st.targets[0].slice
                    if not (isinstance(key, ast.Constant) and isinstance(key.value, str)):
                        raise Untranslatable("dict key " + ast.unparse(key))
                    if active:
                        out[key.value] = st.value
        stores(self.fn.body, True)
        return out

    def expr(self, e, env):
        if self.pieces:
            r = self.piece_expr(e, env)
            if r is not None:
                return r
        if isinstance(e, ast.Constant):
            if isinstance(e.value, bool) or e.value is None:
                raise Untranslatable(f"constant {e.value!r} in arithmetic position")
            if isinstance(e.value, (int, float)):
                if self.typ == "Int":
                    if not isinstance(e.value, int):
                        raise Untranslatable(f"non-integer constant {e.value!r} in index arithmetic")
                    return f"({e.value} : Int)" if e.value >= 0 else f"(({e.value}) : Int)"
                return _rat(e.value)
            raise Untranslatable(f"constant {e.value!r}")
        if isinstance(e, ast.Name):
            if e.id in env:
                return env[e.id]
            return self.param(e.id)
        if isinstance(e, ast.Subscript):
            if self.loop_mode and isinstance(e.value, ast.Name) and not (
                    isinstance(e.slice, ast.Name) and env.get(e.slice.id, "").startswith("MASK:")):
                key = _elem_name(e)
                if key in env:
                    return env[key]
                return self.param(key)
            # elementwise reading of `array[mask]`
            if isinstance(e.value, ast.Name) and isinstance(e.slice, ast.Name):
                return self.expr(e.value, env)
            # a table column, read elementwise: `tbl["name"]`
            if self.bare_columns and isinstance(e.value, ast.Name) and isinstance(e.slice, ast.Constant) and isinstance(e.slice.value, str) \
                    and e.slice.value.isidentifier() and e.value.id not in env:
                return self.param(e.slice.value)
            if self.columns and isinstance(e.value, ast.Name) and isinstance(e.slice, ast.Constant) \
                    and isinstance(e.slice.value, str) and e.slice.value.isidentifier():
                return self.param("col_" + e.slice.value)
            # a table column selected by a string literal: `cnarr["log2"]` is the parameter cnarr_log2
            if isinstance(e.value, ast.Name) and e.value.id not in env and isinstance(e.slice, ast.Constant) \
                    and isinstance(e.slice.value, str) and e.slice.value.isidentifier():
                return self.param(e.value.id + "_" + e.slice.value, base=e.value.id)
            raise Untranslatable("subscript " + ast.unparse(e))
        if isinstance(e, ast.Attribute) and e.attr == "values":
            return self.expr(e.value, env)
        if isinstance(e, ast.UnaryOp):
            if isinstance(e.op, ast.USub):
                return f"(-{self.expr(e.operand, env)})"
            if isinstance(e.op, ast.UAdd):
                return self.expr(e.operand, env)
            raise Untranslatable(ast.unparse(e))
        if isinstance(e, ast.BinOp):
            if isinstance(e.op, ast.Pow):
                if isinstance(e.left, ast.Constant) and e.left.value == 2 and isinstance(e.right, ast.Name) \
                        and e.right.id not in env:
                    return self.param(e.right.id + "_pow2")
                if isinstance(e.right, ast.Constant) and isinstance(e.right.value, int) and e.right.value >= 0:
                    return f"({self.expr(e.left, env)} ^ {e.right.value})"
                lit = _num_literal(e.left), _num_literal(e.right)
                if lit[0] is not None and lit[1] is not None:
                    try:
                        v = float(lit[0]) ** lit[1]
                    except (OverflowError, ZeroDivisionError) as ex:
                        raise Untranslatable("power " + ast.unparse(e)) from ex
                    if isinstance(v, float) and v == v and v not in (float("inf"), float("-inf")):
                        return _rat(v)
                raise Untranslatable("power " + ast.unparse(e))
            a, b = self.expr(e.left, env), self.expr(e.right, env)
            if isinstance(e.op, ast.Add):
                return f"({a} + {b})"
            if isinstance(e.op, ast.Sub):
                return f"({a} - {b})"
            if isinstance(e.op, ast.Mult):
                return f"({a} * {b})"
            if self.typ == "Int" and isinstance(e.op, (ast.Div, ast.FloorDiv)):
                raise Untranslatable("division in index arithmetic: " + ast.unparse(e))
            if isinstance(e.op, ast.Div):
                return f"({a} / {b})"
            if isinstance(e.op, ast.FloorDiv):
                return f"(((({a}) / ({b})).floor : Int) : Rat)"
            raise Untranslatable(ast.unparse(e))
        if isinstance(e, ast.IfExp):
            return f"(if {self.cond(e.test, env)} then {self.expr(e.body, env)} else {self.expr(e.orelse, env)})"
        if isinstance(e, ast.Call):
            f = ast.unparse(e.func)
            args = e.args
            if self.loop_mode and f in ("math.sqrt", "np.sqrt") and len(args) == 1 and self.typ == "Rat":
                return self.param("sqrt_" + _ident(ast.unparse(args[0])))
            if f in ("abs", "np.abs", "np.absolute") and len(args) == 1:
                x = self.expr(args[0], env)
                return f"(if {x} < 0 then -{x} else {x})"
            if isinstance(e.func, ast.Attribute) and e.func.attr == "abs" and not args:
                x = self.expr(e.func.value, env)
                return f"(if {x} < 0 then -{x} else {x})"
            if isinstance(e.func, ast.Attribute) and e.func.attr == "median" and not args \
                    and isinstance(e.func.value, ast.Name):
                self.reductions.append("median")
                return self.param(e.func.value.id + "_median", base=e.func.value.id)
            if isinstance(e.func, ast.Attribute) and e.func.attr == "mean" and not args and not e.keywords \
                    and isinstance(e.func.value, ast.Name) and e.func.value.id not in env:
                self.reductions.append("mean")
                return self.param(e.func.value.id + "_mean", base=e.func.value.id)
            if isinstance(e.func, ast.Attribute) and e.func.attr == "clip" and len(args) == 2 and not e.keywords:
                x = self.expr(e.func.value, env)
                return f"(min {self.expr(args[1], env)} (max {self.expr(args[0], env)} {x}))"
            if self.columns and f in ("np.sqrt", "math.sqrt", "norm.cdf", "stats.norm.cdf") and len(args) == 1 \
                    and not e.keywords:
                name = "sqrt" if f.endswith("sqrt") else "norm_cdf"
                if name not in self.fparams:
                    self.fparams.append(name)
                return f"({name} {self.expr(args[0], env)})"
            if self.columns and isinstance(e.func, ast.Attribute) and e.func.attr == "where" and len(args) == 2 \
                    and not e.keywords:
                return f"(if {self.cond(args[0], env)} then {self.expr(e.func.value, env)} else {self.expr(args[1], env)})"
            if f in ("max", "np.maximum") and len(args) == 2:
                return f"(max {self.expr(args[0], env)} {self.expr(args[1], env)})"
            if f in ("min", "np.minimum") and len(args) == 2:
                return f"(min {self.expr(args[0], env)} {self.expr(args[1], env)})"
            binops = {"np.divide": "/", "np.true_divide": "/", "np.multiply": "*", "np.add": "+", "np.subtract": "-"}
            if f in binops and len(args) == 2 and not e.keywords:
                return f"({self.expr(args[0], env)} {binops[f]} {self.expr(args[1], env)})"
            if f == "np.square" and len(args) == 1:
                return f"({self.expr(args[0], env)} ^ 2)"
            if f == "np.negative" and len(args) == 1:
                return f"(-{self.expr(args[0], env)})"
            if isinstance(e.func, ast.Attribute) and e.func.attr == "take" and len(args) == 1 and not e.keywords \
                    and isinstance(args[0], ast.Name):
                m = env.get(args[0].id, "")
                if not m.startswith("MASK:") or self._under is None or m[5:] != self._under:
                    raise Untranslatable("take() outside a scatter over the same index set: " + ast.unparse(e))
                return self.expr(e.func.value, env)
            if f in ("pd.Series", "pandas.Series", "np.asarray", "np.array") and len(args) == 1 and not e.keywords:
                return self.expr(args[0], env)
            if f == "np.zeros_like" and len(args) == 1 and not e.keywords:
                return _rat(0)
            if f == "np.ones_like" and len(args) == 1 and not e.keywords:
                return _rat(1)
            if f == "np.repeat" and len(args) == 2 and not e.keywords:
                return self.expr(args[0], env)
            if f == "np.where" and len(args) == 3:
                return f"(if {self.cond(args[0], env)} then {self.expr(args[1], env)} else {self.expr(args[2], env)})"
            if f in ("np.zeros", "np.zeros_like") and len(args) == 1 and not e.keywords:
                return "(0 : Rat)"   # elementwise reading of a fresh all-zero vector
            if f in ("pd.Series", "np.asarray", "np.array") and len(args) == 1 and not e.keywords:
                return self.expr(args[0], env)
            if f == "len" and len(args) == 1 and isinstance(args[0], ast.Name):
                return self.param(args[0].id + "_len")
            if f in ("math.ceil", "np.ceil") and len(args) == 1:
                return f"((({self.expr(args[0], env)}).ceil : Int) : Rat)"
            if f in ("math.floor", "np.floor") and len(args) == 1:
                return f"((({self.expr(args[0], env)}).floor : Int) : Rat)"
            if f == "int" and len(args) == 1 and isinstance(args[0], ast.Call) and ast.unparse(args[0].func) == "round" \
                    and len(args[0].args) == 1 and not args[0].keywords:
                return self.expr(args[0], env)   # round() already returns an integer
            if f == "round" and len(args) == 1 and not e.keywords:
                x = self.expr(args[0], env)
                return (f"(let r_ : Rat := {x}; let f_ : Int := r_.floor; "
                        f"if 2 * (r_ - (f_ : Rat)) < 1 then (f_ : Rat) else if 2 * (r_ - (f_ : Rat)) > 1 then ((f_ + 1 : Int) : Rat) "
                        f"else if f_ % 2 = 0 then (f_ : Rat) else ((f_ + 1 : Int) : Rat))")
            if isinstance(e.func, ast.Attribute) and e.func.attr == "argmax" and not args and not e.keywords \
                    and isinstance(e.func.value, ast.Name):
                return self.param(self.rename.get(e.func.value.id, e.func.value.id) + "_argmax")
            if f == "int" and len(args) == 1:
                x = self.expr(args[0], env)
                return f"(if {x} < 0 then ((({x}).ceil : Int) : Rat) else ((({x}).floor : Int) : Rat))"
            if f == "float" and len(args) == 1:
                return self.expr(args[0], env)
            if (f == "math.log" and len(args) == 2 and isinstance(args[1], ast.Constant) and args[1].value == 2) \
                    or (f in ("math.log2", "np.log2") and len(args) == 1):
                a = args[0]
                if isinstance(a, ast.Subscript) and isinstance(a.value, ast.Name) and isinstance(a.slice, ast.Name):
                    a = a.value
                if not isinstance(a, ast.Name) or e.keywords:
                    raise Untranslatable("logarithm of something that is not a variable: " + ast.unparse(e))
                if getattr(self, "_log2_seen", None) not in (None, a.id):
                    raise Untranslatable("a second logarithm: " + ast.unparse(e))
                self._log2_seen = a.id
                return self.param(a.id + "_log2")
            if isinstance(e.func, ast.Name) and e.func.id in self.callees and not e.keywords:
                # a call to another plain function of the same module is inlined: its parameters are renamed to
                # the caller's variables when the arguments are plain parameters, bound as locals otherwise
                callee = self.callees[e.func.id]
                names = [a.arg for a in callee.args.args]
                if len(args) > len(names):
                    raise Untranslatable("call " + ast.unparse(e))
                import copy
                body = copy.deepcopy(callee.body)
                ren, inner_env = {}, {}
                for nm, a in zip(names, args):
                    if isinstance(a, ast.Name) and a.id not in env:
                        ren[nm] = a.id
                    else:
                        inner_env[nm] = self.expr(a, env)

                class R(ast.NodeTransformer):
                    def visit_Name(self, node):
                        if node.id in ren:
                            return ast.copy_location(ast.Name(id=ren[node.id], ctx=node.ctx), node)
                        return node
                body = [R().visit(st) for st in body]
                return self.block(body, inner_env)
            raise Untranslatable("call " + ast.unparse(e))
        raise Untranslatable(ast.unparse(e))

    def is_mask(self, e, env):
        """a comparison, or `|` / `&` / `~` of masks, or a local holding one"""
        if isinstance(e, ast.Compare):
            return True
        if isinstance(e, ast.BinOp) and isinstance(e.op, (ast.BitOr, ast.BitAnd)):
            return self.is_mask(e.left, env) and self.is_mask(e.right, env)
        if isinstance(e, ast.UnaryOp) and isinstance(e.op, ast.Invert):
            return self.is_mask(e.operand, env)
        if isinstance(e, ast.Name):
            return env.get(e.id, "").startswith("MASK:")
        return False

    def bparam(self, name):
        if name not in self.bparams:
            self.bparams.append(name)
        return name

    def cond(self, e, env):
        if isinstance(e, ast.BinOp) and isinstance(e.op, (ast.BitOr, ast.BitAnd)) and self.is_mask(e, env):
            op = " ∨ " if isinstance(e.op, ast.BitOr) else " ∧ "
            return "(" + self.cond(e.left, env) + op + self.cond(e.right, env) + ")"
        if isinstance(e, ast.UnaryOp) and isinstance(e.op, ast.Invert) and self.is_mask(e, env):
            return f"(¬ {self.cond(e.operand, env)})"
        if isinstance(e, ast.Compare) and len(e.ops) == 1 and isinstance(e.ops[0], (ast.In, ast.NotIn)) \
                and isinstance(e.left, ast.Constant) and isinstance(e.left.value, str) and e.left.value.isidentifier() \
                and isinstance(e.comparators[0], ast.Name) and e.comparators[0].id not in env:
            b = self.bparam(e.comparators[0].id + "_has_" + e.left.value)
            return f"({b} = true)" if isinstance(e.ops[0], ast.In) else f"({b} = false)"
        if isinstance(e, ast.BoolOp):
            op = " ∧ " if isinstance(e.op, ast.And) else " ∨ "
            # Python evaluates the operands left to right and stops at the first that decides the result: an operand
            # resolved to the absorbing constant ends the translation there, a neutral one is dropped
            absorbing, neutral = ("False", "True") if isinstance(e.op, ast.And) else ("True", "False")
            parts = []
            for v in e.values:
                c = self.cond(v, env)
                if c == absorbing:
                    if not parts:
                        return absorbing
                    parts.append(c)
                    break
                if c != neutral:
                    parts.append(c)
            if not parts:
                return neutral
            if len(parts) == 1:
                return parts[0]
            return "(" + op.join(parts) + ")"
        if isinstance(e, ast.UnaryOp) and isinstance(e.op, ast.Not):
            inner = self.cond(e.operand, env)
            if inner in ("True", "False"):
                return "False" if inner == "True" else "True"
            return f"(¬ {inner})"
        if self.bare_columns and isinstance(e, ast.UnaryOp) and isinstance(e.op, ast.Invert):
            return f"(¬ {self.cond(e.operand, env)})"
        if self.bare_columns and isinstance(e, ast.Attribute) and e.attr == "values":
            return self.cond(e.value, env)   # `mask.values`: the same mask, elementwise
        if self.bare_columns and isinstance(e, ast.BinOp) and isinstance(e.op, (ast.BitOr, ast.BitAnd)):
            op = " ∨ " if isinstance(e.op, ast.BitOr) else " ∧ "
            return "(" + self.cond(e.left, env) + op + self.cond(e.right, env) + ")"
        if isinstance(e, ast.UnaryOp) and isinstance(e.op, ast.Invert):
            return f"(¬ {self.mask(e.operand, env)})"
        if isinstance(e, ast.Compare):
            parts = []
            left = e.left
            for op, right in zip(e.ops, e.comparators):
                if isinstance(op, (ast.Is, ast.IsNot)) and isinstance(right, ast.Constant) and right.value is None \
                        and isinstance(left, ast.Name):
                    if left.id in self.given:
                        parts.append("False" if isinstance(op, ast.Is) else "True")
                    elif left.id in self.absent:
                        parts.append("True" if isinstance(op, ast.Is) else "False")
                    else:
                        raise Untranslatable(f"None-test of `{left.id}` not resolved by given/absent")
                else:
                    sym = {ast.Lt: "<", ast.LtE: "≤", ast.Gt: ">", ast.GtE: "≥", ast.Eq: "=", ast.NotEq: "≠"}.get(type(op))
                    if sym is None:
                        raise Untranslatable(ast.unparse(e))
                    parts.append(f"{self.expr(left, env)} {sym} {self.expr(right, env)}")
                left = right
            if len(parts) == 1 and parts[0] in ("True", "False"):
                return parts[0]
            return "(" + " ∧ ".join(parts) + ")"
        if isinstance(e, ast.Name):
            if e.id in env:
                if env[e.id].startswith("MASK:"):
                    return env[e.id][5:]
                if env[e.id] in ("True", "False"):
                    return env[e.id]
            elif e.id in self.absent:
                return "False"
            return f"({self.expr(e, env)} ≠ 0)"   # truthiness of a number
        if isinstance(e, ast.Constant) and isinstance(e.value, bool):
            return "True" if e.value else "False"
        raise Untranslatable("condition " + ast.unparse(e))

    def mask(self, e, env):
        """a boolean array: a comparison, a name bound to one, `~m`, or the index set `np.nonzero(m)[0]`"""
        if isinstance(e, ast.Name):
            m = env.get(e.id, "")
            if m.startswith("MASK:"):
                return m[5:]
            raise Untranslatable("not a mask: " + e.id)
        if isinstance(e, ast.Compare):
            return self.cond(e, env)
        if isinstance(e, ast.UnaryOp) and isinstance(e.op, ast.Invert):
            return f"(¬ {self.mask(e.operand, env)})"
        if isinstance(e, ast.BinOp) and isinstance(e.op, (ast.BitAnd, ast.BitOr)):
            op = " ∧ " if isinstance(e.op, ast.BitAnd) else " ∨ "
            return "(" + self.mask(e.left, env) + op + self.mask(e.right, env) + ")"
        if isinstance(e, ast.Subscript) and isinstance(e.slice, ast.Constant) and e.slice.value == 0 \
                and isinstance(e.value, ast.Call) and ast.unparse(e.value.func) in ("np.nonzero", "np.flatnonzero", "np.where") \
                and len(e.value.args) == 1 and not e.value.keywords:
            return self.mask(e.value.args[0], env)
        if isinstance(e, ast.Call) and ast.unparse(e.func) == "np.flatnonzero" and len(e.args) == 1:
            return self.mask(e.args[0], env)
        raise Untranslatable("not a mask: " + ast.unparse(e))

    def _is_mask(self, e, env):
        try:
            self.mask(e, env)
            return True
        except Untranslatable:
            return False

    # -- statements ------------------------------------------------------------------------------
    @staticmethod
    def _only_raises(stmts):
        return bool(stmts) and all(isinstance(s, (ast.Raise, ast.Expr)) for s in stmts) and any(
            isinstance(s, ast.Raise) for s in stmts)

    def block(self, stmts, env):
        if not stmts:
            raise Untranslatable("function falls off its end without a return")
        s, rest = stmts[0], stmts[1:]
        if isinstance(s, ast.Expr) and isinstance(s.value, ast.Constant):
            return self.block(rest, env)  # docstring
        if isinstance(s, ast.Assert):
            return self.block(rest, env)
        if isinstance(s, ast.Expr) and isinstance(s.value, ast.Call) and ast.unparse(s.value.func).startswith("logging."):
            return self.block(rest, env)  # logging has no effect on values
        if isinstance(s, ast.Return):
            if self.boolean:
                return self.cond(s.value, env)
            return self.expr(s.value, env)
        if isinstance(s, ast.Raise):
            if self.default_on_raise is None:
                raise Untranslatable("raise reached and no default_on_raise")
            return self.default_on_raise
        if isinstance(s, ast.Assign) and len(s.targets) == 1:
            t = s.targets[0]
            if isinstance(t, ast.Name) and t.id in self.opaque:
                self.param(t.id)
                return self.block(rest, env)
            if isinstance(t, ast.Name):
                # a mask (comparison) assigned to a name is kept as a condition
                if isinstance(s.value, ast.Compare) or self.is_mask(s.value, env):
                    env = dict(env)
                    env[t.id] = "MASK:" + self.cond(s.value, env)
                    return self.block(rest, env)
                # ... and so are `~mask` and the index set `np.nonzero(mask)[0]`
                if not isinstance(s.value, ast.Name) and self._is_mask(s.value, env):
                    env = dict(env)
                    env[t.id] = "MASK:" + self.mask(s.value, env)
                    return self.block(rest, env)
                env = dict(env)
                env[t.id] = self.expr(s.value, env)
                return self.block(rest, env)
            if self.loop_mode and isinstance(t, ast.Subscript) and isinstance(t.value, ast.Name):
                env = dict(env)
                env[_elem_name(t)] = self.expr(s.value, env)
                return self.block(rest, env)
            if self.bare_columns and isinstance(t, ast.Subscript) and isinstance(t.value, ast.Name) and t.value.id in env \
                    and isinstance(t.slice, (ast.Compare, ast.BoolOp, ast.BinOp, ast.UnaryOp, ast.Name, ast.Attribute)):
                # masked plain assignment `x[mask] = v`: where the mask holds, x becomes v
                c = self.cond(t.slice, env)
                env = dict(env)
                env[t.value.id] = f"(if {c} then {self.expr(s.value, env)} else {env[t.value.id]})"
                return self.block(rest, env)
            if isinstance(t, ast.Subscript) and isinstance(t.value, ast.Name) and self._is_mask(t.slice, env):
                # scatter: where the mask holds the array takes the new value
                m = self.mask(t.slice, env)
                env = dict(env)
                cur = self.expr(t.value, env)
                prev, self._under = self._under, m
                try:
                    new = self.expr(s.value, env)
                finally:
                    self._under = prev
                env[t.value.id] = f"(if {m} then {new} else {cur})"
                return self.block(rest, env)
            if isinstance(t, ast.Subscript) and isinstance(t.value, ast.Name) and isinstance(t.slice, ast.Name):
                mask = env.get(t.slice.id, "")
                if not mask.startswith("MASK:"):
                    raise Untranslatable("masked assignment with a mask that is not a comparison: " + ast.unparse(s))
                env = dict(env)
                cur = self.expr(t.value, env)
                env[t.value.id] = f"(if {mask[5:]} then {self.expr(s.value, env)} else {cur})"
                return self.block(rest, env)
            raise Untranslatable("assignment to " + ast.unparse(t))
        if isinstance(s, ast.AugAssign) and isinstance(s.op, (ast.BitOr, ast.BitAnd)) and isinstance(s.target, ast.Name) \
                and env.get(s.target.id, "").startswith("MASK:") and self.is_mask(s.value, env):
            env = dict(env)
            op = " ∨ " if isinstance(s.op, ast.BitOr) else " ∧ "
            env[s.target.id] = "MASK:(" + env[s.target.id][5:] + op + self.cond(s.value, env) + ")"
            return self.block(rest, env)
        if isinstance(s, ast.AugAssign):
            op = {ast.Add: "+", ast.Sub: "-", ast.Mult: "*", ast.Div: "/"}.get(type(s.op))
            if op is None:
                raise Untranslatable(ast.unparse(s))
            t = s.target
            if isinstance(t, ast.Name):
                env = dict(env)
                env[t.id] = f"({self.expr(t, env)} {op} {self.expr(s.value, env)})"
                return self.block(rest, env)
            if isinstance(t, ast.Subscript) and isinstance(t.value, ast.Name) and isinstance(t.slice, ast.Name):
                mask = env.get(t.slice.id, "")
                if not mask.startswith("MASK:"):
                    raise Untranslatable("masked update with a mask that is not a comparison: " + ast.unparse(s))
                env = dict(env)
                cur = self.expr(t.value, env)
                env[t.value.id] = f"(if {mask[5:]} then ({cur} {op} {self.expr(s.value, env)}) else {cur})"
                return self.block(rest, env)
            raise Untranslatable(ast.unparse(s))
        if isinstance(s, ast.If):
            if self._only_raises(s.body) and not s.orelse:
                return self.block(rest, env)  # guard: a precondition of the model
            c = self.cond(s.test, env)
            if c == "True":
                return self.block(list(s.body) + rest, env)
            if c == "False":
                return self.block(list(s.orelse) + rest, env)
            th = self.block(list(s.body) + rest, dict(env))
            el = self.block(list(s.orelse) + rest, dict(env))
            return f"(if {c} then {th} else {el})"
        raise Untranslatable(type(s).__name__ + ": " + ast.unparse(s)[:80])

    def translate(self, lean_name, comment=None):
        # parameters in signature order first (so that the Lean signature is stable), then discovered ones
        body = self.block(list(self.fn.body), {})
        if "MASK:" in body:
            raise Untranslatable("a mask escaped into an arithmetic position")
        sig = [self.rename.get(a.arg, a.arg) for a in self.fn.args.args]
        found = [p for p in self.params if p not in sig]
        ordered = [p for p in sig if p in self.params] + (sorted(found) if self.sort_params else found)
        if self.loop_mode:
            ordered = sorted(self.params)   # independent of the order in which the source happens to mention them
        # `2 ** x` parameters replace x itself when x is not otherwise used
        ps = " ".join(ordered)
        fps = f"({' '.join(sorted(self.fparams))} : Rat → Rat) " if self.fparams else ""
        ty = self.typ
        head = f"def {lean_name} {fps}({ps} : {ty}) : {ty} :=\n  {body}" if ordered else f"def {lean_name} {fps}: {ty} :=\n  {body}"
        doc = f"/-- {comment} -/\n" if comment else ""
        return doc + head, ordered


    def translate_bool(self, lean_name, comment=None):
        """a function that returns a mask: Boolean parameters first (`"col" in table`), then the rational ones"""
        self.boolean = True
        body = self.block(list(self.fn.body), {})
        if "MASK:" in body:
            raise Untranslatable("a mask escaped into an arithmetic position")
        ordered = self._ordered(self.params)
        bord = sorted(self.bparams)
        bs = f"({' '.join(bord)} : Bool) " if bord else ""
        rs = f"({' '.join(ordered)} : Rat) " if ordered else ""
        doc = f"/-- {comment} -/\n" if comment else ""
        return doc + f"def {lean_name} {bs}{rs}: Bool :=\n  decide {body}", bord + ordered

    def translate_slice(self, lean_name, target, inline=None, comment=None):
        """the formula of one statement (see the reading rules at the top of the file)"""
        stores = {}
        for n in ast.walk(self.fn):
            if isinstance(n, ast.Assign) and len(n.targets) == 1 and isinstance(n.targets[0], ast.Name):
                stores.setdefault(n.targets[0].id, []).append(n)
            elif isinstance(n, (ast.AugAssign, ast.For, ast.AnnAssign)) and isinstance(getattr(n, "target", None), ast.Name):
                stores.setdefault(n.target.id, []).extend([None, None])
        if target.startswith("call:"):
            calls = [n for n in ast.walk(self.fn) if isinstance(n, ast.Call) and isinstance(n.func, ast.Attribute)
                     and n.func.attr == target[5:]]
            if len(calls) != 1:
                raise Untranslatable(f"{len(calls)} calls of .{target[5:]}()")
            node = calls[0]
        else:
            name, _, k = target.partition("#")
            found = [a for a in stores.get(name, []) if a is not None]
            found.sort(key=lambda a: (a.lineno, a.col_offset))
            if len(found) != len(stores.get(name, [])) or int(k or 0) >= len(found) or (not k and len(found) != 1):
                raise Untranslatable(f"assignment {target} not found (or `{name}` is also updated in place)")
            node = found[int(k or 0)].value
        env = dict(inline or {})
        for nm, ss in stores.items():
            if nm not in env and len(ss) == 1 and ss[0] is not None and isinstance(ss[0].value, ast.Constant) \
                    and isinstance(ss[0].value.value, (int, float)) and not isinstance(ss[0].value.value, bool):
                env[nm] = _rat(ss[0].value.value)
        body = self.expr(node, env)
        if "MASK:" in body:
            raise Untranslatable("a mask escaped into an arithmetic position")
        self.params = self._ordered(self.params)
        ps = " ".join(self.params)
        head = f"def {lean_name} ({ps} : Rat) : Rat :=\n  {body}" if self.params else f"def {lean_name} : Rat :=\n  {body}"
        doc = f"/-- {comment} -/\n" if comment else ""
        if self.reductions:
            # which reductions over the column the formula uses (they are parameters of the definition)
            head += f"\ndef {lean_name}_reductions : List String := [" + ", ".join(f'"{r}"' for r in self.reductions) + "]"
        return doc + head, list(self.params)


def emit_bool(repo, o, specs):
    """like `emit`, for functions that return a mask"""
    import os
    from .translate import parse, find_func
    for path, fname, lean, kw, comment in specs:
        try:
            tree, _src = parse(os.path.join(repo, path))
            fn = find_func(tree, fname)
            text, params = Fn(fn, **kw).translate_bool(lean, comment)
        except (Untranslatable, KeyError, OSError, SyntaxError) as e:
            o.lines.append(f"-- NOT TRANSLATED: {path}:{fname}: {type(e).__name__}: {str(e)[:200]}".replace("\n", " "))
            o.info[lean] = {"error": str(e)[:200]}
            continue
        o.lines.append(text)
        o.info[lean] = {"params": params}


def emit_slices(repo, o, specs):
    """specs: (file, function, target, lean name, {local: earlier lean name applied to its parameters}, rename, comment)"""
    import os
    from .translate import parse, find_func
    done = {}
    for path, fname, target, lean, inline, rename, comment in specs:
        try:
            tree, _src = parse(os.path.join(repo, path))
            fn = find_func(tree, fname)
            inl = {}
            for local, earlier in (inline or {}).items():
                if earlier not in done:
                    raise Untranslatable(f"slice {earlier} (inlined for `{local}`) was not translated")
                inl[local] = "(" + " ".join([earlier] + done[earlier]) + ")"
            f = Fn(fn, rename=rename)
            # the parameters of an inlined slice are parameters of this one (same names)
            for earlier in (inline or {}).values():
                for q in done[earlier]:
                    f.param(q)
            text, params = f.translate_slice(lean, target, inl, comment)
        except (Untranslatable, KeyError, OSError, SyntaxError, ValueError) as e:
            o.lines.append(f"-- NOT TRANSLATED: {path}:{fname}:{target}: {type(e).__name__}: {str(e)[:200]}".replace("\n", " "))
            o.info[lean] = {"error": str(e)[:200]}
            continue
        done[lean] = params
        o.lines.append(text)
        o.info[lean] = {"params": params}


def emit(repo, o, specs):
    """translate each (file, function, lean name, Fn kwargs, comment); a function outside the subset leaves a
    comment instead of a definition, so that only the theorems about THAT function stop checking"""
    import os
    from .translate import parse, find_func
    for path, fname, lean, kw, comment in specs:
        try:
            tree, _src = parse(os.path.join(repo, path))
            fn = find_func(tree, fname)
            callees = {n.name: n for n in tree.body if isinstance(n, ast.FunctionDef) and n.name != fname}
            text, params = Fn(fn, callees=callees, **kw).translate(lean, comment)
        except (Untranslatable, KeyError, OSError, SyntaxError) as e:
            o.lines.append(f"-- NOT TRANSLATED: {path}:{fname}: {type(e).__name__}: {str(e)[:200]}".replace("\n", " "))
            o.info[lean] = {"error": str(e)[:200]}
            continue
        o.lines.append(text)
        o.info[lean] = {"params": params}


# ---- fragments of a function body (see the module docstring) -------------------------------------------------

def _assignments(fn, name):
    out = [n for n in ast.walk(fn) if isinstance(n, ast.Assign) and len(n.targets) == 1
           and isinstance(n.targets[0], ast.Name) and n.targets[0].id == name]
    return sorted(out, key=lambda n: (n.lineno, n.col_offset))


def _if_assigning(fn, name):
    """the first `if` (source order) whose own body (not its else) directly holds an assignment to `name`"""
    ifs = sorted((n for n in ast.walk(fn) if isinstance(n, ast.If)), key=lambda n: (n.lineno, n.col_offset))
    for n in ifs:
        for st in n.body:
            if isinstance(st, ast.Assign) and any(isinstance(t, ast.Name) and t.id == name for t in st.targets):
                return n
    raise Untranslatable(f"no `if` whose body assigns `{name}`")


def _slices(node):
    out = [n for n in ast.walk(node) if isinstance(n, ast.Subscript) and isinstance(n.slice, ast.Slice)]
    return sorted(out, key=lambda n: (n.lineno, n.col_offset))


def _to_int(text):
    if "/" in text or ".floor" in text or ".ceil" in text or "_pow2" in text:
        raise Untranslatable("fragment marked `int` is not integer arithmetic: " + text[:80])
    return text.replace(": Rat)", ": Int)")


def fragment(fn, kind, name, k=0):
    """-> (ast node of the piece, is_condition)"""
    if kind == "assign":
        a = _assignments(fn, name)
        if len(a) <= k:
            raise Untranslatable(f"assignment #{k} to `{name}` not found")
        return a[k].value, False
    if kind == "iftest":
        return _if_assigning(fn, name).test, True
    if kind in ("slice_lo", "slice_hi"):
        a = _assignments(fn, name)
        if not a:
            raise Untranslatable(f"assignment to `{name}` not found")
        sl = _slices(a[0].value)
        if len(sl) <= k or sl[k].slice.step is not None:
            raise Untranslatable(f"slice #{k} in the assignment to `{name}` not found")
        b = sl[k].slice.lower if kind == "slice_lo" else sl[k].slice.upper
        if b is None:
            raise Untranslatable(f"slice #{k} in the assignment to `{name}` has no such bound")
        return b, False
    if kind == "index":
        a = _assignments(fn, name)
        if len(a) <= k or not isinstance(a[k].value, ast.Subscript) or isinstance(a[k].value.slice, ast.Slice):
            raise Untranslatable(f"assignment #{k} to `{name}` is not a subscript")
        return a[k].value.slice, False
    raise Untranslatable("fragment kind " + kind)


def emit_fragments(repo, o, path, fname, cls, specs, rename=None, keep=()):
    """specs: (lean name, kind, name, k, int?, comment).  A piece outside the subset leaves a comment, so that
    exactly the theorems about it stop checking.  `rename` maps the function's local names to the canonical names the
    proofs use; locals bound exactly once (other than `keep`) are read through (`translate.expand`); the parameters
    of a fragment are emitted in alphabetical order, so that renaming a local, naming an intermediate value or
    commuting a sum does not change the generated signature."""
    import os
    from .translate import parse, find_func, expand
    try:
        tree, _src = parse(os.path.join(repo, path))
        fn = find_func(tree, fname, cls)
    except (KeyError, OSError, SyntaxError) as e:
        o.lines.append(f"-- NOT TRANSLATED: {path}:{fname}: {type(e).__name__}: {str(e)[:200]}".replace("\n", " "))
        return None
    for lean, kind, name, k, as_int, comment in specs:
        try:
            node, is_cond = fragment(fn, kind, name, k)
            node = expand(node, fn, tree, keep=tuple(keep))
            t = Fn(fn, rename=rename)
            body = t.cond(node, {}) if is_cond else t.expr(node, {})
            if "MASK:" in body:
                raise Untranslatable("a mask escaped into an arithmetic position")
            typ = "Rat"
            if as_int:
                body, typ = _to_int(body), "Int"
            t.params.sort()
            ps = " ".join(t.params)
            binder = f" ({ps} : {typ})" if t.params else ""
            if is_cond:
                text = f"def {lean}{binder} : Bool :=\n  decide {body}"
            else:
                text = f"def {lean}{binder} : {typ} :=\n  {body}"
        except Untranslatable as e:
            o.lines.append(f"-- NOT TRANSLATED: {path}:{fname}:{kind} {name}#{k}: {str(e)[:200]}".replace("\n", " "))
            o.info[lean] = {"error": str(e)[:200]}
            continue
        o.lines.append(f"/-- {comment} -/\n" + text)
        o.info[lean] = {"params": list(t.params)}
    return fn
# =================================================================================================================
# ROW-wise reading of table functions (see the second half of the module docstring)

import json as _json

_LEAN_TY = {"I": "Int", "Q": "Rat", "S": "String", "B": "Bool"}
_LEAN_KEYWORDS = {"end": "end_", "show": "show_", "from": "from_", "at": "at_", "open": "open_"}


class Unbound(Untranslatable):
    """a local that no statement on the current path has bound"""


class V:
    """a typed Lean term: ty in I (Int) Q (Rat) S (String) B (Prop) R (a float holding a rounded value)"""
    def __init__(self, ty, code):
        self.ty, self.code = ty, code


class Frame:
    def __init__(self, cols):
        self.cols = dict(cols)     # name -> V, in column order

    def with_col(self, k, v):
        c = dict(self.cols)
        c[k] = v
        return Frame(c)


class RowOf:
    def __init__(self, frame):
        self.frame = frame


class PySeq:
    def __init__(self, items):
        self.items = list(items)


class PyZip:
    def __init__(self, parts):
        self.parts = parts


def _lstr(s):
    out = _json.dumps(s, ensure_ascii=True)
    if "\\u" in out or "\\b" in out or "\\f" in out:
        raise Untranslatable("string literal outside printable ASCII")
    return out


class RowFn:
    """spec keys: tables {param: {col: ty}}, scalars {param: ty}, absent {col,...}, opaque {callee text: (kind, ...)},
    sig [(lean name, lean type)], result "row" | "bool" | "str", fragment (optional: name of the local whose
    if-chain is the whole function)"""

    def __init__(self, fn, spec):
        self.fn, self.spec = fn, spec
        self.sig = list(spec["sig"])
        self.signames = {n for n, _ in self.sig}
        self.locals = {t.id for n in ast.walk(fn) for t in ast.walk(n)
                       if isinstance(t, ast.Name) and isinstance(t.ctx, ast.Store)}

    # -- parameters ----------------------------------------------------------------------------------------------
    def use(self, name, ty):
        lean = _LEAN_KEYWORDS.get(name, name)
        want = dict(self.sig).get(lean)
        if want is None:
            raise Untranslatable(f"`{name}` is not among the declared inputs of the function")
        have = _LEAN_TY.get(ty, ty)
        if want != have:
            raise Untranslatable(f"`{name}` declared {want}, used as {have}")
        return f"({lean} = true)" if ty == "B" else lean

    def table(self, name):
        # a declared column that is not an input of THIS function stays unusable (code None) until something reads it
        have = dict(self.sig)
        return Frame({c: (V(t, self.use(c, t)) if _LEAN_KEYWORDS.get(c, c) in have else V(t, None))
                      for c, t in self.spec["tables"][name].items()})

    def got(self, v, what):
        if isinstance(v, V) and v.code is None:
            raise Untranslatable(f"`{what}` is not among the declared inputs of the function")
        return v

    # -- coercions -----------------------------------------------------------------------------------------------
    @staticmethod
    def num2(a, b):
        if a.ty == b.ty and a.ty in ("I", "Q"):
            return a.ty, a.code, b.code
        if {a.ty, b.ty} == {"I", "Q"}:
            f = lambda v: v.code if v.ty == "Q" else f"(({v.code} : Int) : Rat)"
            return "Q", f(a), f(b)
        raise Untranslatable(f"arithmetic on {a.ty} and {b.ty}")

    def truth(self, v):
        if not isinstance(v, V):
            raise Untranslatable("truthiness of a non-scalar")
        if v.ty == "B":
            return v.code
        if v.ty == "S":
            return f"({v.code} ≠ \"\")"
        if v.ty == "I":
            return f"({v.code} ≠ 0)"
        raise Untranslatable(f"truthiness of {v.ty}")

    def as_str(self, v):
        if v.ty == "S":
            return v.code
        if v.ty == "I":
            return f"(toString {v.code})"
        if v.ty == "Q":
            self.use("fmt_float", "Rat → String")
            return f"(fmt_float {v.code})"
        raise Untranslatable(f"string form of {v.ty}")

    # -- expressions ---------------------------------------------------------------------------------------------
    def col_name(self, e):
        if isinstance(e, ast.Attribute):
            return e.attr
        if isinstance(e, ast.Name):
            return e.id
        if isinstance(e, ast.Subscript) and isinstance(e.slice, ast.Constant) and isinstance(e.slice.value, str):
            return e.slice.value
        raise Untranslatable("not a column: " + ast.unparse(e))

    def ev(self, e, env):
        sp = self.spec
        if isinstance(e, ast.Constant):
            v = e.value
            if isinstance(v, bool):
                return V("B", "True" if v else "False")
            if v is None:
                return V("S", '""')
            if isinstance(v, int):
                return V("I", f"({v} : Int)" if v >= 0 else f"(({v}) : Int)")
            if isinstance(v, float):
                return V("Q", _rat(v))
            if isinstance(v, str):
                return V("S", _lstr(v))
            raise Untranslatable(f"constant {v!r}")
        if isinstance(e, ast.Name):
            if e.id in env:
                return env[e.id]
            if e.id in self.locals:
                raise Unbound(e.id)
            if e.id in sp.get("scalars", {}):
                ty = sp["scalars"][e.id]
                return V(ty, self.use(e.id, ty))
            if e.id in sp.get("tables", {}):
                return self.table(e.id)
            raise Untranslatable(f"name `{e.id}`")
        if isinstance(e, ast.Attribute):
            dotted = ast.unparse(e)
            if dotted in sp.get("scalars", {}):      # `args.sample_id`, `segments.sample_id`
                ty = sp["scalars"][dotted]
                return V(ty, self.use(dotted.replace(".", "_"), ty))
            base = self.ev(e.value, env)
            if isinstance(base, Frame):
                if e.attr in ("data",):
                    return base
                if e.attr in base.cols:
                    return self.got(base.cols[e.attr], e.attr)
                raise Untranslatable(f"column `{e.attr}` not in the frame")
            if isinstance(base, RowOf):
                if e.attr in base.frame.cols:
                    return self.got(base.frame.cols[e.attr], e.attr)
                raise Untranslatable(f"row field `{e.attr}` not in the frame")
            if isinstance(base, V) and e.attr == "values":
                return base
            raise Untranslatable("attribute " + dotted)
        if isinstance(e, ast.Subscript):
            base = self.ev(e.value, env)
            if isinstance(base, Frame) and isinstance(e.slice, ast.Constant) and isinstance(e.slice.value, str):
                if e.slice.value in base.cols:
                    return self.got(base.cols[e.slice.value], e.slice.value)
                raise Untranslatable(f"column `{e.slice.value}` not in the frame")
            idx = self.ev(e.slice, env)
            if isinstance(base, V) and isinstance(idx, V) and idx.ty == "B":
                return base                                   # elementwise reading of `col[mask]`
            if isinstance(base, Frame) and isinstance(idx, V) and idx.ty == "B":
                return ("FILTER", base, idx.code)
            raise Untranslatable("subscript " + ast.unparse(e))
        if isinstance(e, ast.UnaryOp):
            if isinstance(e.op, ast.Not):
                return V("B", f"(¬ {self.truth(self.ev(e.operand, env))})")
            x = self.ev(e.operand, env)
            if isinstance(e.op, ast.USub) and isinstance(x, V) and x.ty in ("I", "Q"):
                return V(x.ty, f"(-{x.code})")
            if isinstance(e.op, ast.Invert) and isinstance(x, V) and x.ty == "B":
                return V("B", f"(¬ {x.code})")
            raise Untranslatable(ast.unparse(e))
        if isinstance(e, ast.BoolOp):
            conj = isinstance(e.op, ast.And)
            parts = []
            for v in e.values:          # Python evaluates left to right and stops at the deciding operand
                c = self.truth(self.ev(v, env))
                if c == ("False" if conj else "True"):
                    parts = [c]
                    break
                if c != ("True" if conj else "False"):
                    parts.append(c)
            if not parts:
                return V("B", "True" if conj else "False")
            return V("B", parts[0] if len(parts) == 1 else "(" + (" ∧ " if conj else " ∨ ").join(parts) + ")")
        if isinstance(e, ast.BinOp):
            if isinstance(e.op, ast.Pow):
                if isinstance(e.left, ast.Constant) and e.left.value == 2 and not isinstance(e.left.value, bool):
                    x = self.ev(e.right, env)
                    nm = self.col_name(e.right)
                    if isinstance(x, V) and x.ty == "Q" and x.code == _LEAN_KEYWORDS.get(nm, nm):
                        return V("Q", self.use(nm + "_pow2", "Q"))
                raise Untranslatable("power " + ast.unparse(e))
            a, b = self.ev(e.left, env), self.ev(e.right, env)
            if not (isinstance(a, V) and isinstance(b, V)):
                raise Untranslatable(ast.unparse(e))
            if isinstance(e.op, (ast.BitAnd, ast.BitOr)) and a.ty == b.ty == "B":
                return V("B", f"({a.code} {'∧' if isinstance(e.op, ast.BitAnd) else '∨'} {b.code})")
            if isinstance(e.op, ast.Add) and a.ty == b.ty == "S":
                return V("S", f"({a.code} ++ {b.code})")
            sym = {ast.Add: "+", ast.Sub: "-", ast.Mult: "*"}.get(type(e.op))
            if sym:
                ty, x, y = self.num2(a, b)
                return V(ty, f"({x} {sym} {y})")
            raise Untranslatable(ast.unparse(e))
        if isinstance(e, ast.Compare):
            parts, left = [], e.left
            for op, right in zip(e.ops, e.comparators):
                parts.append(self.compare(left, op, right, env))
                left = right
            return V("B", parts[0] if len(parts) == 1 else "(" + " ∧ ".join(parts) + ")")
        if isinstance(e, ast.IfExp):
            c = self.truth(self.ev(e.test, env))
            a, b = self.ev(e.body, env), self.ev(e.orelse, env)
            if not (isinstance(a, V) and isinstance(b, V)):
                raise Untranslatable(ast.unparse(e))
            if c == "True":
                return a
            if c == "False":
                return b
            if a.ty == b.ty:
                return V(a.ty, f"(if {c} then {a.code} else {b.code})")
            ty, x, y = self.num2(a, b)
            return V(ty, f"(if {c} then {x} else {y})")
        if isinstance(e, ast.JoinedStr):
            parts = []
            for p in e.values:
                if isinstance(p, ast.Constant):
                    parts.append(_lstr(p.value))
                elif isinstance(p, ast.FormattedValue) and p.conversion == -1 and p.format_spec is None:
                    parts.append(self.as_str(self.ev(p.value, env)))
                else:
                    raise Untranslatable("f-string piece " + ast.unparse(p))
            return V("S", "(" + " ++ ".join(parts) + ")" if parts else '""')
        if isinstance(e, (ast.List, ast.Tuple)):
            return PySeq(self.ev(x, env) for x in e.elts)
        if isinstance(e, ast.Call):
            return self.call(e, env)
        raise Untranslatable(ast.unparse(e))

    def compare(self, left, op, right, env):
        if isinstance(op, (ast.In, ast.NotIn)):
            if isinstance(left, ast.Constant) and isinstance(left.value, str):
                tab = self.ev(right, env)
                if not isinstance(tab, Frame) or not isinstance(op, ast.In):
                    raise Untranslatable("membership " + ast.unparse(right))
                if left.value in self.spec.get("absent", ()):
                    return "False"
                return self.use("has_" + left.value, "B")
            x, seq = self.ev(left, env), self.ev(right, env)
            if isinstance(x, V) and isinstance(seq, PySeq) and seq.items and all(
                    isinstance(i, V) and i.ty == x.ty for i in seq.items):
                c = "(" + " ∨ ".join(f"{x.code} = {i.code}" for i in seq.items) + ")"
                return c if isinstance(op, ast.In) else f"(¬ {c})"
            raise Untranslatable("membership test")
        a, b = self.ev(left, env), self.ev(right, env)
        if not (isinstance(a, V) and isinstance(b, V)):
            raise Untranslatable("comparison of non-scalars")
        sym = {ast.Lt: "<", ast.LtE: "≤", ast.Gt: ">", ast.GtE: "≥", ast.Eq: "=", ast.NotEq: "≠"}.get(type(op))
        if sym is None:
            raise Untranslatable("comparison operator")
        if a.ty == b.ty == "B" and sym in ("=", "≠"):
            return f"({a.code} ↔ {b.code})" if sym == "=" else f"(¬ ({a.code} ↔ {b.code}))"
        if a.ty == b.ty == "S" and sym in ("=", "≠"):
            return f"({a.code} {sym} {b.code})"
        _ty, x, y = self.num2(a, b)
        return f"({x} {sym} {y})"

    def opaque(self, key, e, env):
        kind, *rest = self.spec["opaque"][key]
        want = rest[-1]
        got = [ast.unparse(a) for a in e.args] + [f"{k.arg}={ast.unparse(k.value)}" for k in e.keywords]
        if got != want:
            raise Untranslatable(f"{key} is called with ({', '.join(got)}), not ({', '.join(want)})")
        if kind == "col":
            ty, name = rest[0], rest[1]
            return V(ty, self.use(name, ty))
        if kind == "frame":
            return Frame({c: V(t, self.use(n, t)) for c, (t, n) in rest[0].items()})
        raise Untranslatable(key)

    def call(self, e, env):
        f = e.func
        text = ast.unparse(f)
        if text in self.spec.get("opaque", {}):
            return self.opaque(text, e, env)
        if isinstance(f, ast.Attribute) and ("." + f.attr) in self.spec.get("opaque", {}):
            return self.opaque("." + f.attr, e, env)
        if isinstance(f, ast.Name):
            if f.id == "zip" and not e.keywords:
                return PyZip([self.ev(a, env) for a in e.args])
            if f.id == "str" and len(e.args) == 1 and not e.keywords:
                return V("S", self.as_str(self.ev(e.args[0], env)))
            raise Untranslatable("call " + text)
        if not isinstance(f, ast.Attribute):
            raise Untranslatable("call " + text)
        # `str(row.k).isdigit()`
        if f.attr == "isdigit" and not e.args and isinstance(f.value, ast.Call) and isinstance(f.value.func, ast.Name) \
                and f.value.func.id == "str" and len(f.value.args) == 1:
            self.ev(f.value.args[0], env)
            return V("B", self.use(self.col_name(f.value.args[0]) + "_isdigit", "B"))
        # `sep.join([...])`
        if f.attr == "join" and isinstance(f.value, ast.Constant) and isinstance(f.value.value, str) and len(e.args) == 1:
            seq = self.ev(e.args[0], env)
            if isinstance(seq, PySeq) and all(isinstance(i, V) and i.ty == "S" for i in seq.items):
                return V("S", f"({_lstr(f.value.value)}.intercalate [{', '.join(i.code for i in seq.items)}])")
            raise Untranslatable("join of " + ast.unparse(e.args[0]))
        base = self.ev(f.value, env)
        kws = {k.arg: k.value for k in e.keywords}
        if isinstance(base, Frame):
            if f.attr == "reindex" and not e.args and set(kws) == {"columns"}:
                names = ast.literal_eval(kws["columns"])
                missing = [n for n in names if n not in base.cols]
                if missing:
                    raise Untranslatable(f"reindex to columns {missing} the table is not declared to have")
                return Frame({n: base.cols[n] for n in names})
            if f.attr == "itertuples" and not e.args and set(kws) <= {"index"} and \
                    isinstance(kws.get("index"), ast.Constant) and kws["index"].value is False:
                return RowOf(base)
            if f.attr == "copy" and not e.args:
                return base
            raise Untranslatable("frame method " + f.attr)
        if isinstance(base, V):
            if f.attr == "replace" and len(e.args) == 2 and not kws:
                a, b = self.ev(e.args[0], env), self.ev(e.args[1], env)
                if isinstance(a, V) and isinstance(b, V) and a.ty == b.ty == base.ty and base.ty in ("I", "S"):
                    return V(base.ty, f"(if {base.code} = {a.code} then {b.code} else {base.code})")
            if f.attr == "round" and not e.args and not kws and base.ty == "Q":
                return V("R", f"(roundHE {base.code})")
            if f.attr == "astype" and len(e.args) == 1 and not kws and isinstance(e.args[0], ast.Constant) \
                    and e.args[0].value in ("int", "int64"):
                if base.ty == "R":
                    return V("I", base.code)
                if base.ty == "I":
                    return base
            if f.attr == "lower" and not e.args and base.ty == "S":
                return V("S", f"({base.code}).toLower")
            if f.attr == "copy" and not e.args:
                return base
        raise Untranslatable("call " + ast.unparse(e)[:80])

    # -- statements ----------------------------------------------------------------------------------------------
    def named(self, hint, val):
        """(value to keep in the environment, `let` prefix or ""): a computed Int / Rat / String value is bound once
        under the name the source gives it, so that the generated term can be read against the source"""
        import re
        if not isinstance(val, V) or val.ty not in ("I", "Q", "S") or val.code is None \
                or re.fullmatch(r"[A-Za-z_][A-Za-z0-9_']*|\"[^\"]*\"|\(\(?-?\d+\)? : (Int|Rat)\)", val.code):
            return val, ""
        self.nlets = getattr(self, "nlets", {})
        k = self.nlets.get(hint, 0) + 1
        self.nlets[hint] = k
        nm = hint if k == 1 and hint not in self.signames else f"{hint}_{k}"
        return V(val.ty, nm), f"let {nm} : {_LEAN_TY[val.ty]} := {val.code}\n  "

    def cells(self, vals):
        out = []
        for v in vals:
            if not isinstance(v, V) or v.ty not in ("I", "Q", "S") or v.code is None:
                raise Untranslatable("cell of type " + getattr(v, "ty", type(v).__name__))
            out.append({"I": ".int ", "Q": ".num ", "S": ".str "}[v.ty] + v.code)
        return "(some [" + ", ".join(out) + "])"

    def result(self, v):
        kind = self.spec.get("result", "row")
        if kind == "row":
            if isinstance(v, Frame):
                return self.cells(v.cols.values())
            if isinstance(v, PySeq):
                return self.cells(v.items)
            raise Untranslatable("row result expected")
        if kind == "bool" and isinstance(v, V) and v.ty == "B":
            return f"(decide {v.code})"
        if kind == "str" and isinstance(v, V) and v.ty == "S":
            return v.code
        raise Untranslatable(f"result of kind {kind}")

    def none(self):
        if self.spec.get("result", "row") != "row":
            raise Untranslatable("a path without a value in a scalar function")
        return "none"

    def run(self, stmts, env, loop=False, frag=None):
        if not stmts:
            if loop:
                return self.none()
            if frag is not None:
                if frag not in env:
                    raise Unbound(frag)
                return self.result(env[frag])
            raise Untranslatable("function falls off its end without a result")
        s, rest = stmts[0], list(stmts[1:])
        go = lambda st, en: self.run(st, en, loop, frag)
        if isinstance(s, ast.Expr):
            v = s.value
            if isinstance(v, ast.Constant):
                return go(rest, env)                         # docstring
            if isinstance(v, ast.Call) and ast.unparse(v.func).startswith("logging."):
                return go(rest, env)
            if isinstance(v, ast.Yield) and loop:
                if rest:
                    raise Untranslatable("statements after the yield")
                return self.result(self.ev(v.value, env))
            raise Untranslatable("expression statement " + ast.unparse(s)[:60])
        if isinstance(s, ast.Assert):
            return go(rest, env)
        if isinstance(s, ast.Continue) and loop:
            return self.none()
        if isinstance(s, ast.Return) and not loop and s.value is not None:
            return self.result(self.ev(s.value, env))
        if isinstance(s, ast.Assign) and len(s.targets) == 1:
            t = s.targets[0]
            val = self.ev(s.value, env)
            env = dict(env)
            if isinstance(t, ast.Name):
                if isinstance(val, tuple) and val[0] == "FILTER":
                    env[t.id] = val[1]
                    return f"(if {val[2]} then {go(rest, env)} else {self.none()})"
                env[t.id], let = self.named(t.id, val)
                return let + go(rest, env) if not let else f"({let}{go(rest, env)})"
            if isinstance(t, ast.Subscript) and isinstance(t.value, ast.Name) and isinstance(env.get(t.value.id), Frame) \
                    and isinstance(val, V):
                fr = env[t.value.id]
                if isinstance(t.slice, ast.Constant) and isinstance(t.slice.value, str):
                    val, let = self.named(t.slice.value, val)
                    env[t.value.id] = fr.with_col(t.slice.value, val)
                    return go(rest, env) if not let else f"({let}{go(rest, env)})"
            if isinstance(t, ast.Subscript) and isinstance(t.value, ast.Attribute) and t.value.attr == "loc" \
                    and isinstance(t.value.value, ast.Name) and isinstance(env.get(t.value.value.id), Frame) \
                    and isinstance(t.slice, ast.Tuple) and len(t.slice.elts) == 2 and isinstance(val, V):
                fr = env[t.value.value.id]
                mask = self.ev(t.slice.elts[0], env)
                k = t.slice.elts[1]
                if isinstance(mask, V) and mask.ty == "B" and isinstance(k, ast.Constant) and k.value in fr.cols \
                        and fr.cols[k.value].ty == val.ty:
                    old = fr.cols[k.value]
                    new, let = self.named(k.value, V(val.ty, f"(if {mask.code} then {val.code} else {old.code})"))
                    env[t.value.value.id] = fr.with_col(k.value, new)
                    return go(rest, env) if not let else f"({let}{go(rest, env)})"
            raise Untranslatable("assignment " + ast.unparse(s)[:80])
        if isinstance(s, ast.AugAssign):
            sym = {ast.Add: "+", ast.Sub: "-", ast.Mult: "*"}.get(type(s.op))
            val = self.ev(s.value, env)
            t = s.target
            env = dict(env)
            if sym and isinstance(val, V) and isinstance(t, ast.Name) and isinstance(env.get(t.id), V):
                ty, x, y = self.num2(env[t.id], val)
                env[t.id] = V(ty, f"({x} {sym} {y})")
                return go(rest, env)
            if sym and isinstance(val, V) and isinstance(t, ast.Subscript) and isinstance(t.value, ast.Name) \
                    and isinstance(env.get(t.value.id), V):
                mask = self.ev(t.slice, env)
                if isinstance(mask, V) and mask.ty == "B":
                    cur = env[t.value.id]
                    ty, x, y = self.num2(cur, val)
                    if ty != cur.ty:
                        raise Untranslatable("masked update changes the column type")
                    env[t.value.id], let = self.named(t.value.id, V(ty, f"(if {mask.code} then ({x} {sym} {y}) else {cur.code})"))
                    return go(rest, env) if not let else f"({let}{go(rest, env)})"
            raise Untranslatable(ast.unparse(s)[:80])
        if isinstance(s, ast.If):
            c = self.truth(self.ev(s.test, env))
            if c == "True":
                return go(list(s.body) + rest, env)
            if c == "False":
                return go(list(s.orelse) + rest, env)
            branches, unbound = [], None
            for body in (s.body, s.orelse):
                try:
                    branches.append(go(list(body) + rest, dict(env)))
                except Unbound as u:
                    unbound = u
                    branches.append(None)
            if branches[0] is None and branches[1] is None:
                raise unbound
            th, el = (b if b is not None else self.none() for b in branches)
            return f"(if {c} then {th} else {el})"
        if isinstance(s, ast.For) and not loop and not s.orelse:
            if rest:
                raise Untranslatable("statements after the row loop")
            it = self.ev(s.iter, env)
            env = dict(env)
            if isinstance(it, RowOf) and isinstance(s.target, ast.Name):
                env[s.target.id] = it
            elif isinstance(it, PyZip) and isinstance(s.target, ast.Tuple) and len(s.target.elts) == len(it.parts) \
                    and all(isinstance(x, ast.Name) for x in s.target.elts) \
                    and all(isinstance(p, (RowOf, V)) for p in it.parts):
                for x, p in zip(s.target.elts, it.parts):
                    env[x.id] = p
            else:
                raise Untranslatable("loop over " + ast.unparse(s.iter)[:60])
            return self.run(list(s.body), env, True, frag)
        raise Untranslatable(type(s).__name__ + ": " + ast.unparse(s)[:80])

    def translate(self, lean_name, comment=None):
        frag = self.spec.get("fragment")
        body = list(self.fn.body)
        if frag:
            # the function is too large for the subset: only the if-chain that binds `frag` is read
            chains = [n for n in ast.walk(self.fn) if isinstance(n, ast.If) and any(
                isinstance(t, ast.Name) and t.id == frag for a in ast.walk(n) if isinstance(a, ast.Assign) for t in a.targets)]
            tops = [n for n in chains if not any(n is not m and n in ast.walk(m) for m in chains)]
            if len(tops) != 1:
                raise Untranslatable(f"{len(tops)} if-chains bind `{frag}`")
            body = [tops[0]]
            self.locals = {frag}
        code = self.run(body, {}, False, frag)
        rty = {"row": "Option (List CnvVerif.Py.Val)", "bool": "Bool", "str": "String"}[self.spec.get("result", "row")]
        ps = " ".join(f"({n} : {t})" for n, t in self.sig)
        doc = f"/-- {comment} -/\n" if comment else ""
        return doc + f"def {lean_name} {ps} : {rty} :=\n  {code}"


def emit_rows(repo, o, specs):
    """translate each (file, function, lean name, RowFn spec, comment) row-wise; outside the subset -> a comment"""
    import os
    from .translate import parse, find_func
    for path, fname, lean, spec, comment in specs:
        try:
            tree, _src = parse(os.path.join(repo, path))
            text = RowFn(find_func(tree, fname), spec).translate(lean, comment)
        except (Untranslatable, KeyError, OSError, SyntaxError, ValueError) as e:
            o.lines.append(f"-- NOT TRANSLATED: {path}:{fname}: {type(e).__name__}: {str(e)[:200]}".replace("\n", " "))
            o.info[lean] = {"error": str(e)[:200]}
            continue
        o.lines.append(text)
        o.info[lean] = {"params": [n for n, _ in spec["sig"]]}


# ------------------------------------------------------------------------------------------------------------------
# typed reader: decision tables and row masks (see the module docstring)

class TFn:
    def __init__(self, fn, types, result, table=None, columns=(), masks=(), optional=(), lookup_params=(),
                 self_names=("self", "cnarr", "row")):
        self.fn = fn
        self.lookup_params = list(lookup_params)   # k-th table lookup binds its targets to these declared parameters
        self.types = dict(types)          # declared parameters: name -> Lean type, in signature order
        self.result = result              # Lean result type
        self.table = table                # name of the local that holds the table (`df`)
        self.columns = list(columns)      # result columns of `return df`
        self.masks = set(masks)           # row-mask methods read as Bool parameters
        self.optional = set(optional)     # parameters whose None-test becomes `<name>_given`
        self.self_names = set(self_names)
        self.calls = []                   # recorded `method(arg, ...)` texts
        self.lookups = []                 # recorded table keys

    def _param(self, name):
        name = {"end": "end_"}.get(name, name)     # `end` is a Lean keyword
        if name not in self.types:
            raise Untranslatable(f"`{name}` is not a declared parameter")
        return name, self.types[name]

    def expr(self, e, st, want=None):
        """-> (lean text, type)"""
        if isinstance(e, ast.Constant):
            v = e.value
            if isinstance(v, bool):
                return ("true" if v else "false"), "Bool"
            if isinstance(v, int):
                t = want if want in ("Nat", "Int") else "Nat"
                return (f"({v} : {t})" if v >= 0 else f"(({v}) : Int)"), (t if v >= 0 else "Int")
            if isinstance(v, str):
                import json
                return json.dumps(v), "String"
            raise Untranslatable(f"constant {v!r}")
        if isinstance(e, ast.Name):
            if e.id in st["env"]:
                return st["env"][e.id]
            return self._param(e.id)
        if isinstance(e, ast.Attribute) and isinstance(e.value, ast.Name) and e.value.id in self.self_names:
            return self._param(e.attr)
        if isinstance(e, ast.IfExp):
            c = self.boolean(e.test, st)
            a, ta = self.expr(e.body, st, want)
            b, tb = self.expr(e.orelse, st, want)
            if ta != tb:
                raise Untranslatable("branches of different type: " + ast.unparse(e))
            return f"(if {c} then {a} else {b})", ta
        if isinstance(e, ast.BinOp):
            if isinstance(e.op, (ast.BitAnd, ast.BitOr)):
                a, b = self.boolean(e.left, st), self.boolean(e.right, st)
                return f"({a} {'&&' if isinstance(e.op, ast.BitAnd) else '||'} {b})", "Bool"
            a, ta = self.expr(e.left, st, want)
            b, tb = self.expr(e.right, st, ta)
            if ta != tb or ta not in ("Nat", "Int"):
                raise Untranslatable("arithmetic on " + ta + "/" + tb + ": " + ast.unparse(e))
            sym = {ast.Add: "+", ast.Sub: "-", ast.Mult: "*", ast.FloorDiv: "/"}.get(type(e.op))
            if sym is None or (sym == "-" and ta == "Nat"):
                raise Untranslatable(ast.unparse(e))
            return f"({a} {sym} {b})", ta
        if isinstance(e, (ast.BoolOp, ast.Compare)) or (isinstance(e, ast.UnaryOp) and isinstance(e.op, (ast.Not, ast.Invert))):
            return self.boolean(e, st), "Bool"
        if isinstance(e, ast.Call):
            f = e.func
            if isinstance(f, ast.Attribute) and f.attr == "lower" and not e.args:
                x, t = self.expr(f.value, st)
                if t != "String":
                    raise Untranslatable(".lower() of a " + t)
                return f"{x}.toLower", "String"
            if isinstance(f, ast.Attribute) and isinstance(f.value, ast.Name) and f.value.id in self.self_names \
                    and f.attr in self.masks:
                self.calls.append(ast.unparse(e).split(".", 1)[1])
                return self._param(f.attr)
            if ast.unparse(f) in ("np.repeat", "numpy.repeat") and len(e.args) == 2:
                return self.expr(e.args[0], st, want)
            raise Untranslatable("call " + ast.unparse(e))
        raise Untranslatable(ast.unparse(e))

    def boolean(self, e, st):
        if isinstance(e, ast.BoolOp):
            op = " && " if isinstance(e.op, ast.And) else " || "
            return "(" + op.join(self.boolean(v, st) for v in e.values) + ")"
        if isinstance(e, ast.UnaryOp) and isinstance(e.op, (ast.Not, ast.Invert)):
            return f"(!{self.boolean(e.operand, st)})"
        if isinstance(e, ast.Compare):
            parts, left = [], e.left
            for op, right in zip(e.ops, e.comparators):
                if isinstance(op, (ast.Is, ast.IsNot)) and isinstance(right, ast.Constant) and right.value is None \
                        and isinstance(left, ast.Name) and left.id in self.optional:
                    g, _ = self._param(left.id + "_given")
                    parts.append(g if isinstance(op, ast.IsNot) else f"(!{g})")
                elif isinstance(op, (ast.In, ast.NotIn)) and isinstance(right, (ast.List, ast.Tuple, ast.Set)) and right.elts:
                    a, ta = self.expr(left, st)
                    alts = []
                    for el in right.elts:
                        b, tb = self.expr(el, st, ta)
                        if tb != ta:
                            raise Untranslatable("membership across types: " + ast.unparse(e))
                        alts.append(f"{a} == {b}")
                    m = "(" + " || ".join(alts) + ")"
                    parts.append(m if isinstance(op, ast.In) else f"(!{m})")
                else:
                    a, ta = self.expr(left, st)
                    b, tb = self.expr(right, st, ta)
                    if ta != tb:
                        raise Untranslatable("comparison across types: " + ast.unparse(e))
                    if isinstance(op, (ast.Eq, ast.NotEq)):
                        parts.append(f"({a} {'==' if isinstance(op, ast.Eq) else '!='} {b})")
                    else:
                        sym = {ast.Lt: "<", ast.LtE: "≤", ast.Gt: ">", ast.GtE: "≥"}.get(type(op))
                        if sym is None or ta not in ("Nat", "Int"):
                            raise Untranslatable(ast.unparse(e))
                        parts.append(f"decide ({a} {sym} {b})")
                left = right
            return parts[0] if len(parts) == 1 else "(" + " && ".join(parts) + ")"
        x, t = self.expr(e, st)
        if t == "String":
            return f"({x} != \"\")"          # truthiness of a string (None is read as the empty string)
        if t != "Bool":
            raise Untranslatable("truthiness of a " + t + ": " + ast.unparse(e))
        return x

    def _merge(self, c, a, b):
        out = {}
        for k in a:
            if k in b:
                (x, tx), (y, ty) = a[k], b[k]
                if tx != ty:
                    raise Untranslatable(f"`{k}` has different types in the two branches")
                out[k] = (x, tx) if x == y else (f"(if {c} then {x} else {y})", tx)
        return out

    def run(self, stmts, st):
        """-> result text if a return was reached, else None (state updated in place)"""
        for s in stmts:
            if isinstance(s, ast.Expr) and isinstance(s.value, ast.Constant):
                continue
            if isinstance(s, ast.Assert):
                continue
            if isinstance(s, ast.Expr) and isinstance(s.value, ast.Call) and ast.unparse(s.value.func).startswith("logging."):
                continue
            if isinstance(s, ast.Return):
                if isinstance(s.value, ast.Name) and s.value.id == self.table:
                    vals = []
                    for col in self.columns:
                        if col not in st["cols"]:
                            raise Untranslatable(f"column `{col}` never set")
                        vals.append(st["cols"][col][0])
                    return "(" + ", ".join(vals) + ")"
                return self.expr(s.value, st)[0]
            if isinstance(s, ast.Assign) and len(s.targets) == 1:
                t = s.targets[0]
                if isinstance(t, ast.Name):
                    if t.id == self.table:
                        continue
                    st["env"][t.id] = self.expr(s.value, st)
                    continue
                if isinstance(t, ast.Tuple) and all(isinstance(x, ast.Name) for x in t.elts) \
                        and isinstance(s.value, ast.Subscript) and isinstance(s.value.slice, ast.Constant) \
                        and isinstance(s.value.slice.value, str):
                    k = len(self.lookups)
                    if k >= len(self.lookup_params) or len(self.lookup_params[k]) != len(t.elts):
                        raise Untranslatable("table lookup not declared: " + ast.unparse(s))
                    inner = s.value.value
                    if not (isinstance(inner, ast.Subscript) and isinstance(inner.value, (ast.Attribute, ast.Name))):
                        raise Untranslatable("table lookup " + ast.unparse(s.value))
                    tname = inner.value.attr if isinstance(inner.value, ast.Attribute) else inner.value.id
                    self.lookups.append(f"{tname}[{self.expr(inner.slice, st)[0]}][{s.value.slice.value}]")
                    for x, canon in zip(t.elts, self.lookup_params[k]):
                        st["env"][x.id] = self._param(canon)
                    continue
                if isinstance(t, ast.Subscript) and isinstance(t.value, ast.Name) and t.value.id == self.table \
                        and isinstance(t.slice, ast.Constant) and isinstance(t.slice.value, str):
                    st["cols"][t.slice.value] = self.expr(s.value, st, "Nat")
                    continue
                if isinstance(t, ast.Subscript) and isinstance(t.value, ast.Attribute) and t.value.attr == "loc" \
                        and isinstance(t.value.value, ast.Name) and t.value.value.id == self.table \
                        and isinstance(t.slice, ast.Tuple) and len(t.slice.elts) == 2 \
                        and isinstance(t.slice.elts[1], ast.Constant) and isinstance(t.slice.elts[1].value, str):
                    col = t.slice.elts[1].value
                    if col not in st["cols"]:
                        raise Untranslatable(f"masked assignment to the unset column `{col}`")
                    mask = self.boolean(t.slice.elts[0], st)
                    old, told = st["cols"][col]
                    new, tnew = self.expr(s.value, st, told)
                    if tnew != told:
                        raise Untranslatable(f"column `{col}` changes type")
                    st["cols"][col] = (f"(if {mask} then {new} else {old})", told)
                    continue
                raise Untranslatable("assignment to " + ast.unparse(t))
            if isinstance(s, ast.AugAssign) and isinstance(s.target, ast.Name) and isinstance(s.op, (ast.BitAnd, ast.BitOr)):
                cur, tc = self.expr(s.target, st)
                if tc != "Bool":
                    raise Untranslatable(ast.unparse(s))
                v = self.boolean(s.value, st)
                st["env"][s.target.id] = (f"({cur} {'&&' if isinstance(s.op, ast.BitAnd) else '||'} {v})", "Bool")
                continue
            if isinstance(s, ast.If):
                c = self.boolean(s.test, st)
                a = {"env": dict(st["env"]), "cols": dict(st["cols"])}
                b = {"env": dict(st["env"]), "cols": dict(st["cols"])}
                if self.run(list(s.body), a) is not None or self.run(list(s.orelse), b) is not None:
                    raise Untranslatable("return inside a branch")
                st["env"] = self._merge(c, a["env"], b["env"])
                st["cols"] = self._merge(c, a["cols"], b["cols"])
                continue
            raise Untranslatable(type(s).__name__ + ": " + ast.unparse(s)[:80])
        return None

    def translate(self, lean_name, comment=None):
        body = self.run(list(self.fn.body), {"env": {}, "cols": {}})
        if body is None:
            raise Untranslatable("function falls off its end without a return")
        sig = " ".join(f"({n} : {t})" for n, t in self.types.items())
        doc = f"/-- {comment} -/\n" if comment else ""
        text = doc + f"def {lean_name} {sig} : {self.result} :=\n  {body}"
        import json
        lst = lambda xs: "[" + ", ".join(json.dumps(x) for x in xs) + "]"
        if self.masks:
            text += f"\n/-- what `{lean_name}` passes to the row masks it reads as parameters -/\n" \
                    f"def {lean_name}_calls : List String := {lst(sorted(set(self.calls)))}"
        if self.lookups:
            text += f"\n/-- the table keys `{lean_name}` looks its Int parameters up under -/\n" \
                    f"def {lean_name}_lookups : List String := {lst(self.lookups)}"
        return text


def emit_typed(repo, o, specs):
    """specs: (file, class or None, function, lean name, TFn kwargs, comment)"""
    import os
    from .translate import parse, find_func
    for path, cls, fname, lean, kw, comment in specs:
        try:
            tree, _src = parse(os.path.join(repo, path))
            fn = find_func(tree, fname, cls)
            text = TFn(fn, **kw).translate(lean, comment)
        except (Untranslatable, KeyError, OSError, SyntaxError) as e:
            o.lines.append(f"-- NOT TRANSLATED: {path}:{fname}: {type(e).__name__}: {str(e)[:200]}".replace("\n", " "))
            o.info[lean] = {"error": str(e)[:200]}
            continue
        o.lines.append(text)
        o.info[lean] = {"ok": True}


# ------------------------------------------------------------------------------------------------------------------
# scan loops (see the module docstring)

def scan_rows(fn, callees, lean_name, params, opaque, comment=None):
    """`fn` fills an array row by row; returns the Lean text of `<lean_name>_nan`, `<lean_name>_scan`, `<lean_name>_row`,
    `<lean_name>_calls`.  `params`: the Lean (Rat) parameters of the scan in signature order; `opaque`: callee name ->
    canonical parameter name of the local it is assigned to."""
    import copy
    import json
    outer = [s for s in fn.body if isinstance(s, ast.For)]
    if len(outer) != 1:
        raise Untranslatable("expected exactly one per-row loop")
    outer = outer[0]
    it = outer.iter
    if not (isinstance(it, ast.Call) and ast.unparse(it.func) == "enumerate" and isinstance(outer.target, ast.Tuple)
            and len(outer.target.elts) == 2 and all(isinstance(x, ast.Name) for x in outer.target.elts)):
        raise Untranslatable("per-row loop is not `for idx, row in enumerate(table)`")
    idx, row = (x.id for x in outer.target.elts)

    class RowAttr(ast.NodeTransformer):
        def visit_Attribute(self, node):
            if isinstance(node.value, ast.Name) and node.value.id == row:
                return ast.copy_location(ast.Name(id=node.attr, ctx=node.ctx), node)
            return self.generic_visit(node)
    body = [RowAttr().visit(copy.deepcopy(s)) for s in outer.body]

    def is_store(s, name=None):
        """`out[idx] = <name or expr>`"""
        return (isinstance(s, ast.Assign) and len(s.targets) == 1 and isinstance(s.targets[0], ast.Subscript)
                and isinstance(s.targets[0].slice, ast.Name) and s.targets[0].slice.id == idx)

    tr = Fn(fn, callees={k: v for k, v in callees.items() if k not in opaque})
    env, calls, nan_text, scan, result_var = {}, [], None, None, None
    for s in body:
        if isinstance(s, ast.Expr):
            continue  # logging
        if isinstance(s, ast.Assign) and len(s.targets) == 1 and isinstance(s.targets[0], ast.Name):
            name = s.targets[0].id
            if isinstance(s.value, ast.Call) and isinstance(s.value.func, ast.Name) and s.value.func.id in opaque:
                calls.append(ast.unparse(s.value))
                env[name] = tr.param(opaque[s.value.func.id])
                continue
            env[name] = tr.expr(s.value, env)
            continue
        if isinstance(s, ast.If) and isinstance(s.test, ast.Call) and ast.unparse(s.test.func) in ("np.isnan", "math.isnan") \
                and not s.orelse and scan is None:
            inner = [x for x in s.body if not isinstance(x, ast.Expr)]
            if len(inner) == 2 and is_store(inner[0]) and isinstance(inner[1], ast.Continue):
                nan_text = (ast.unparse(s.test.args[0]), tr.expr(inner[0].value, env))
                continue
            raise Untranslatable("NaN branch is not `out[idx] = E; continue`")
        if isinstance(s, ast.For) and scan is None:
            t = s.target
            if not (isinstance(s.iter, ast.Call) and ast.unparse(s.iter.func) == "enumerate" and len(s.iter.args) == 1
                    and isinstance(s.iter.args[0], ast.Name) and isinstance(t, ast.Tuple) and len(t.elts) == 2
                    and all(isinstance(x, ast.Name) for x in t.elts)):
                raise Untranslatable("scan is not `for i, x in enumerate(xs)`")
            i_name, x_name = (x.id for x in t.elts)
            if len(s.body) != 1 or not isinstance(s.body[0], ast.If) or s.body[0].orelse \
                    or not isinstance(s.body[0].body[-1], ast.Break):
                raise Untranslatable("scan body is not `if COND: ...; break`")
            hit = s.body[0]
            e_hit = dict(env)
            e_hit[i_name] = "(cnum : Rat)"
            e_hit[x_name] = "thresh"
            cond = tr.cond(hit.test, e_hit)
            ret = ast.Return(value=ast.Name(id=i_name, ctx=ast.Load()))
            body_text = tr.block(list(hit.body[:-1]) + [ret], e_hit)
            if not s.orelse:
                raise Untranslatable("scan without an else branch")
            for n in ast.walk(ast.Module(body=list(s.orelse), type_ignores=[])):
                if isinstance(n, ast.Name) and isinstance(n.ctx, ast.Load) and n.id in (i_name, x_name):
                    raise Untranslatable("the else branch reads the loop variable")
            else_text = tr.block(list(s.orelse) + [ret], dict(env))
            scan = (s.iter.args[0].id, cond, body_text, else_text)
            result_var = i_name
            continue
        if is_store(s) and scan is not None:
            if not (isinstance(s.value, ast.Name) and s.value.id == result_var):
                raise Untranslatable("the row result is not the scan variable")
            continue
        raise Untranslatable(type(s).__name__ + ": " + ast.unparse(s)[:80])
    if scan is None or nan_text is None:
        raise Untranslatable("no scan loop / NaN branch found")
    extra = [p for p in tr.params if p not in params]
    if extra:
        raise Untranslatable("undeclared parameters " + ", ".join(extra))
    ps = " ".join(params)
    xs, cond, body_text, else_text = scan
    doc = f"/-- {comment}" if comment else "/-- "
    return "\n".join([
        f"{doc}: a row whose `{nan_text[0]}` is NaN -/",
        f"def {lean_name}_nan ({ps} : Rat) : Rat :=\n  {nan_text[1]}",
        f"{doc}: the scan over `{xs}` from index `cnum` on -/",
        f"def {lean_name}_scan ({ps} : Rat) : Nat → List Rat → Rat",
        f"  | _, [] => {else_text}",
        f"  | cnum, thresh :: rest => if {cond} then {body_text} else {lean_name}_scan {ps} (cnum + 1) rest",
        f"{doc}: one row -/",
        f"def {lean_name}_row ({ps} : Rat) ({xs} : List Rat) : Rat :=\n  {lean_name}_scan {ps} 0 {xs}",
        f"/-- the opaque calls whose results `{lean_name}` reads as parameters -/",
        f"def {lean_name}_calls : List String := [" + ", ".join(json.dumps(c) for c in calls) + "]",
    ])


def guard_condition(fn, exc_name, rename_attr_of=("args",)):
    """the test of the first `if TEST: raise <exc_name>(...)` of `fn`, as a Lean Prop over Rat parameters (`args.x` is
    the parameter `x`) -> (text, params)"""
    import copy

    class A(ast.NodeTransformer):
        def visit_Attribute(self, node):
            if isinstance(node.value, ast.Name) and node.value.id in rename_attr_of:
                return ast.copy_location(ast.Name(id=node.attr, ctx=node.ctx), node)
            return self.generic_visit(node)
    tr, env = Fn(fn), {}
    for s in fn.body:
        if isinstance(s, ast.Assign) and len(s.targets) == 1 and isinstance(s.targets[0], ast.Name):
            # a plain local in front of the guard (an alias of an option) is read through
            try:
                probe = Fn(fn)
                val = probe.expr(A().visit(copy.deepcopy(s.value)), dict(env))
            except Untranslatable:
                continue
            for q in probe.params:
                tr.param(q)
            env[s.targets[0].id] = val
            continue
        if isinstance(s, ast.If) and not s.orelse and len(s.body) == 1 and isinstance(s.body[0], ast.Raise) \
                and exc_name in ast.unparse(s.body[0]):
            tr.params = []
            return tr.cond(A().visit(copy.deepcopy(s.test)), env), list(tr.params)
    raise Untranslatable(f"no `if ...: raise {exc_name}` guard")


def argument_of(fn: ast.FunctionDef, callee: ast.FunctionDef, param: str) -> ast.FunctionDef:
    """`fn` ends in `return callee(...)`: a copy of `fn` that returns the argument bound to `callee`'s
    parameter `param` instead (the value `fn` hands on under that name)."""
    import copy
    new = copy.deepcopy(fn)
    last = new.body[-1]
    if not (isinstance(last, ast.Return) and isinstance(last.value, ast.Call)
            and isinstance(last.value.func, ast.Name) and last.value.func.id == callee.name):
        raise Untranslatable(f"{fn.name} does not end in `return {callee.name}(...)`")
    call = last.value
    names = [a.arg for a in callee.args.args]
    if param not in names or any(isinstance(a, ast.Starred) for a in call.args) or any(k.arg is None for k in call.keywords):
        raise Untranslatable(f"cannot resolve parameter `{param}` of {callee.name}")
    k = names.index(param)
    if k < len(call.args):
        val = call.args[k]
    else:
        kws = [kw.value for kw in call.keywords if kw.arg == param]
        if len(kws) != 1:
            raise Untranslatable(f"{fn.name} passes no `{param}` to {callee.name}")
        val = kws[0]
    new.body[-1] = ast.copy_location(ast.Return(value=val), last)
    return ast.fix_missing_locations(new)


def inline_imported_params(tree, repo_params_consts):
    """names imported with `from .params import X` are read as the literal `X` names in params.py"""
    imported = set()
    for n in ast.walk(tree):
        if isinstance(n, ast.ImportFrom) and (n.module or "").split(".")[-1] == "params":
            imported |= {a.asname or a.name for a in n.names}

    class T(ast.NodeTransformer):
        def visit_Name(self, node):
            if isinstance(node.ctx, ast.Load) and node.id in imported and \
                    isinstance(repo_params_consts.get(node.id), (int, float)) and \
                    not isinstance(repo_params_consts.get(node.id), bool):
                v = repo_params_consts[node.id]
                new = ast.Constant(value=abs(v)) if v >= 0 else ast.UnaryOp(op=ast.USub(), operand=ast.Constant(value=-v))
                return ast.copy_location(new, node)
            return node
    return ast.fix_missing_locations(T().visit(tree))


def emit_pieces(repo, o, specs):
    """one Lean definition per PIECE of a larger function (see the reading rules at the top).  A spec is a dict:
    path, func (and cls), pick: fn_ast -> expression node, lean, kind ("expr" | "cond"), num ("Rat" | "Int"),
    atoms {source text: parameter}, order [parameter names in the order of the Lean signature], given / absent (flags),
    keep (locals NOT read through), comment.  A piece outside the subset leaves a comment instead of a definition."""
    import os
    from .translate import parse, find_func, expand
    for sp in specs:
        lean = sp["lean"]
        try:
            tree, _src = parse(os.path.join(repo, sp["path"]))
            fn = find_func(tree, sp["func"], sp.get("cls"))
            node = sp["pick"](fn)
            if node is None:
                raise Untranslatable("piece not found")
            node = expand(node, fn, tree, keep=tuple(sp.get("keep", ())))
            tr = Fn(fn, given=sp.get("given", ()), absent=sp.get("absent", ()), pieces=True, atoms=sp.get("atoms"),
                    num=sp.get("num", "Rat"))
            num = tr.num
            if sp.get("kind") == "cond":
                body, typ = f"decide {tr.cond(node, {})}", "Bool"
            else:
                body, typ = tr.expr(node, {}), num
            if "MASK:" in body:
                raise Untranslatable("a mask escaped into an arithmetic position")
            if num == "Int":
                if "/" in body or ".floor" in body or ".ceil" in body or ": Rat" in body:
                    raise Untranslatable("division / rounding / rational literal in an Int piece")
            order = list(sp.get("order", ()))
            params = [p for p in order if p in tr.params] + sorted(p for p in tr.params if p not in order)
            ps = f" ({' '.join(params)} : {num})" if params else ""
            doc = f"/-- {sp['comment']} -/\n" if sp.get("comment") else ""
            text = f"{doc}def {lean}{ps} : {typ} :=\n  {body}"
        except (Untranslatable, KeyError, OSError, SyntaxError, IndexError, AttributeError) as e:
            o.lines.append(f"-- NOT TRANSLATED: {sp['path']}:{sp['func']}:{lean}: {type(e).__name__}: {str(e)[:200]}".replace("\n", " "))
            o.info[lean] = {"error": str(e)[:200]}
            continue
        o.lines.append(text)
        o.info[lean] = {"params": params}


# ---------------------------------------------------------------------------------------------------------------
# value of an expression inside a function (C17 additions; see the reading rules at the top)

def _own_nodes(node):
    """walk `node` without descending into nested function definitions / lambdas"""
    todo = [node]
    while todo:
        n = todo.pop()
        yield n
        for c in ast.iter_child_nodes(n):
            if not isinstance(c, (ast.FunctionDef, ast.Lambda, ast.AsyncFunctionDef)):
                todo.append(c)


def _stores(stmt):
    if isinstance(stmt, (ast.FunctionDef, ast.AsyncFunctionDef)):
        return {stmt.name}
    return {n.id for n in _own_nodes(stmt) if isinstance(n, ast.Name) and isinstance(n.ctx, ast.Store)}


def _loads(node):
    return {n.id for n in _own_nodes(node) if isinstance(n, ast.Name) and isinstance(n.ctx, ast.Load)}


def _chain(tree, dotted):
    """`outer.inner` -> [outer FunctionDef, inner FunctionDef]"""
    names = dotted.split(".")
    fns, scope = [], tree.body
    for nm in names:
        hit = [n for n in scope if isinstance(n, ast.FunctionDef) and n.name == nm]
        if len(hit) != 1:
            raise Untranslatable(f"function {dotted} not found (or defined twice)")
        fns.append(hit[0])
        scope = hit[0].body
    return fns


def _select(fn, selector):
    """-> (target expression, index of the first top-level statement of `fn` that is NOT part of its prefix)"""
    kind = selector[0]
    body = fn.body
    if kind == "local":
        idx = [k for k, st in enumerate(body) if selector[1] in _stores(st) and not isinstance(st, ast.FunctionDef)]
        if not idx:
            raise Untranslatable(f"no assignment to `{selector[1]}`")
        return ast.Name(id=selector[1], ctx=ast.Load()), idx[-1] + 1
    if kind == "call_arg":
        hits = [(k, c) for k, st in enumerate(body) for c in _own_nodes(st)
                if isinstance(c, ast.Call) and ast.unparse(c.func) == selector[1]]
        if len(hits) != 1 or len(hits[0][1].args) <= selector[2]:
            raise Untranslatable(f"expected exactly one call of {selector[1]} with {selector[2] + 1} positional arguments")
        return hits[0][1].args[selector[2]], hits[0][0]
    if kind == "return_mean":
        last = body[-1]
        if not isinstance(last, ast.Return) or last.value is None:
            raise Untranslatable("the function does not end in a return")
        v = last.value
        if isinstance(v, ast.Call) and isinstance(v.func, ast.Attribute) and v.func.attr == "mean" and not v.args \
                and not v.keywords and ast.unparse(v.func.value) not in ("np", "numpy"):
            return v.func.value, len(body) - 1
        if isinstance(v, ast.Call) and ast.unparse(v.func) in ("np.mean", "numpy.mean") and len(v.args) == 1 and not v.keywords:
            return v.args[0], len(body) - 1
        raise Untranslatable("the returned value is not `E.mean()` / `np.mean(E)`: " + ast.unparse(v)[:60])
    raise Untranslatable(f"selector {selector!r}")


def _slice(fns, target, stop):
    """the statements of the enclosing functions (outermost first) that define what `target` uses"""
    needed = _loads(target)
    kept = []
    for depth in range(len(fns) - 1, -1, -1):
        fn = fns[depth]
        end = stop if depth == len(fns) - 1 else fn.body.index(fns[depth + 1])
        mine = []
        for st in reversed(fn.body[:end]):
            if isinstance(st, (ast.FunctionDef, ast.Return, ast.Raise)) or not (_stores(st) & needed):
                continue
            if isinstance(st, ast.Assign) and len(st.targets) == 1 and isinstance(st.targets[0], ast.Name):
                needed = (needed - {st.targets[0].id}) | _loads(st.value)
            else:
                needed = needed | _loads(st)
            mine.append(st)
        kept = list(reversed(mine)) + kept
    return kept


class _Component(ast.NodeTransformer):
    """every fixed-length array literal stands for its i-th element"""
    def __init__(self, i):
        self.i = i
        self.lengths = set()

    def visit_Call(self, node):
        node = self.generic_visit(node)
        if ast.unparse(node.func) in ("np.array", "np.asarray", "numpy.array", "list", "tuple") and len(node.args) == 1 \
                and not node.keywords:
            return node.args[0]
        return node

    def _lit(self, node):
        self.lengths.add(len(node.elts))
        if self.i >= len(node.elts):
            raise Untranslatable("array literal shorter than the component asked for")
        return self.visit(node.elts[self.i])

    visit_List = _lit
    visit_Tuple = _lit


def value_fn(tree, dotted, selector, component=None):
    """a synthetic straight-line function whose returned value is the selected expression"""
    import copy
    fns = _chain(tree, dotted)
    target, stop = _select(fns[-1], selector)
    stmts = [copy.deepcopy(s) for s in _slice(fns, target, stop)] + [ast.Return(value=copy.deepcopy(target))]
    if component is not None:
        t = _Component(component)
        stmts = [t.visit(s) for s in stmts]
        if len(t.lengths) > 1:
            raise Untranslatable("array literals of different lengths in one elementwise computation")
    args = [a for f in fns for a in f.args.args]
    seen, uniq = set(), []
    for a in args:
        if a.arg not in seen:
            seen.add(a.arg)
            uniq.append(ast.arg(arg=a.arg))
    syn = ast.FunctionDef(name=fns[-1].name, args=ast.arguments(posonlyargs=[], args=uniq, kwonlyargs=[], kw_defaults=[],
                                                                defaults=[]), body=stmts, decorator_list=[])
    return ast.fix_missing_locations(syn)


def emit_values(repo, o, specs):
    """specs: (file, `outer.inner` function, selector, lean name, options, comment).  options: `component` (int),
    `mean` (bool: emit `<lean>_elem` and the list-level mean `<lean>`), everything else goes to `Fn`.  As with
    `emit`, what cannot be read leaves a comment, so that exactly the theorems about it stop checking."""
    import os
    from .translate import parse
    for path, dotted, selector, lean, kw, comment in specs:
        kw = dict(kw)
        component = kw.pop("component", None)
        mean = kw.pop("mean", False)
        try:
            tree, _src = parse(os.path.join(repo, path))
            syn = value_fn(tree, dotted, selector, component)
            name = lean + "_elem" if mean else lean
            text, params = Fn(syn, **kw).translate(name, comment)
            if mean:
                if len(params) != 1:
                    raise Untranslatable(f"the averaged expression must depend on the array alone, found {params}")
                text += (f"\n/-- `{dotted}`: the mean of `{name}` over the elements -/\n"
                         f"def {lean} (a : List Rat) : Rat :=\n  (a.map {name}).sum / (a.length : Rat)")
        except (Untranslatable, KeyError, OSError, SyntaxError) as e:
            o.lines.append(f"-- NOT TRANSLATED: {path}:{dotted}: {type(e).__name__}: {str(e)[:200]}".replace("\n", " "))
            o.info[lean] = {"error": str(e)[:200]}
            continue
        o.lines.append(text)
        o.info[lean] = {"params": params}
# ---------------------------------------------------------------------------------------------------------------------
# typed reading (see the module docstring): conditions, list expressions, one iteration of a loop that yields


def _lean_str(s):
    import json
    return json.dumps(s, ensure_ascii=False)


class GFn:
    """translator state for one generated definition: parameters (in order of first use) with their types"""
    COLUMNS = {"log2": "Rat", "depth": "Rat", "weight": "Rat", "gene": "String", "chromosome": "String",
               "start": "Int", "end": "Int", "probes": "Int"}
    NUMERIC = ("Rat", "Int", "Nat")
    # constants of cnvlib/params.py that are not plain literals (plain ones are inlined by translate.parse): they are
    # read as the definitions of Generated/Consts.lean, which the generated file must import
    PARAMS = {"ANTITARGET_ALIASES": "List String", "IGNORE_GENE_NAMES": "List String", "ANTITARGET_NAME": "String"}

    def __init__(self, hints=None, num="Int", elem="Nat", table_names=("self", "data"), column_lists=False, first=()):
        self.column_lists = column_lists   # `table["col"]` is the whole column (a list), not one row's value
        self.first = [n for n in first]    # names that lead the signature: the function's own parameters, loop targets
        self.derived = {}                  # parameter -> rank of the column / length it stands for
        self.params = {}            # name -> type or None (not yet known)
        self.hints = dict(hints or {})
        self.num = num              # type of a numeric parameter nothing else determines
        self.elem = elem            # element type of a list parameter nothing else determines
        self.table_names = set(table_names)

    # -- parameters ----------------------------------------------------------------------------------------------
    LEAN_KEYWORDS = {"end", "from", "at", "in", "fun", "do", "then", "else", "if", "let", "have", "show", "open", "by"}
    RECORD_ORDER = ["chromosome", "start", "end", "gene", "log2", "depth", "weight", "probes"]

    def param(self, name, typ=None, col=None):
        if name in self.LEAN_KEYWORDS:
            name += "_"
        if col is not None and name not in self.derived:
            self.derived[name] = -1 if col == "len" else self.RECORD_ORDER.index(col)
        if name not in self.params:
            self.params[name] = self.hints.get(name, typ)
        elif self.params[name] is None and typ is not None:
            self.params[name] = typ
        return name, self.params[name]

    def _settle(self, text, typ, want):
        """an untyped parameter takes the type of what it meets"""
        if typ is None and want is not None and want != "num" and text in self.params and self.params[text] is None:
            self.params[text] = want
            return want
        return typ

    def _unify(self, a, ta, b, tb):
        ta = self._settle(a, ta, tb)
        tb = self._settle(b, tb, ta)
        if ta == "num":
            ta = tb
        if tb == "num":
            tb = ta
        return ta if ta is not None else tb

    def _as_list(self, e, env, elem=None):
        t, ty = self.expr(e, env)
        if ty is None:
            ty = "List " + (elem if elem not in (None, "num") else self.elem)
            self.params[t] = ty
        if not str(ty).startswith("List "):
            raise Untranslatable(f"`{ast.unparse(e)}` is used as a list but has type {ty}")
        return t, ty

    @staticmethod
    def _zero(elem):
        return {"String": '""'}.get(elem, "0")

    # -- expressions ---------------------------------------------------------------------------------------------
    def expr(self, e, env):
        """(Lean term, type); type None = a parameter whose type is not known yet, "num" = an integer literal"""
        if isinstance(e, ast.Constant):
            if isinstance(e.value, bool) or e.value is None:
                raise Untranslatable(f"constant {e.value!r} in value position")
            if isinstance(e.value, int):
                return (str(e.value) if e.value >= 0 else f"({e.value})"), "num"
            if isinstance(e.value, float):
                return _rat(e.value), "Rat"
            if isinstance(e.value, str):
                return _lean_str(e.value), "String"
            raise Untranslatable(f"constant {e.value!r}")
        if isinstance(e, ast.Name):
            if e.id in env:
                v = env[e.id]
                if len(v) == 3 and v[0] == "LAZY":   # bound outside the piece being read: translated where it is used
                    return self.expr(v[1], v[2])
                return v
            return self.param(e.id)
        if isinstance(e, ast.Attribute) and isinstance(e.value, ast.Name) and e.value.id == "params" \
                and e.attr in self.PARAMS:
            return e.attr, self.PARAMS[e.attr]   # the constant of Generated/Consts.lean
        if isinstance(e, ast.Attribute) and e.attr in self.COLUMNS and isinstance(e.value, ast.Name) \
                and e.value.id not in env:
            if self.column_lists:
                return self.param(e.attr, "List " + self.COLUMNS[e.attr], col=e.attr)
            return self.param(f"{e.value.id}_{e.attr}", self.COLUMNS[e.attr], col=e.attr)
        if isinstance(e, ast.Subscript):
            sl = e.slice
            if isinstance(sl, ast.Constant) and isinstance(sl.value, str) and sl.value in self.COLUMNS:
                # a column of the table at hand (`self.data["log2"]`), or a field of a row (`row["log2"]`)
                base = e.value
                if isinstance(base, ast.Attribute) and base.attr == "data":
                    base = base.value
                if isinstance(base, ast.Name) and base.id not in env:
                    if self.column_lists:
                        return self.param(sl.value, "List " + self.COLUMNS[sl.value], col=sl.value)
                    if base.id in self.table_names:
                        return self.param(sl.value, self.COLUMNS[sl.value], col=sl.value)
                    return self.param(f"{base.id}_{sl.value}", self.COLUMNS[sl.value], col=sl.value)
            if isinstance(e.value, ast.Attribute) and e.value.attr in ("iat", "iloc"):
                # `column.iat[0]` / `column.iat[-1]`: first / last element, like `column[0]` / `column[-1]`
                return self.expr(ast.Subscript(value=e.value.value, slice=sl, ctx=ast.Load()), env)
            idx = None
            if isinstance(sl, ast.Constant) and isinstance(sl.value, int):
                idx = sl.value
            elif isinstance(sl, ast.UnaryOp) and isinstance(sl.op, ast.USub) and isinstance(sl.operand, ast.Constant):
                idx = -sl.operand.value
            if idx in (0, -1):
                t, ty = self._as_list(e.value, env)
                el = ty[5:]
                return f"({t}.{'headD' if idx == 0 else 'getLastD'} {self._zero(el)})", el
            raise Untranslatable("subscript " + ast.unparse(e))
        if isinstance(e, ast.UnaryOp) and isinstance(e.op, ast.USub):
            t, ty = self.expr(e.operand, env)
            return f"(-{t})", ty
        if isinstance(e, (ast.Tuple, ast.List)):
            items = []
            el = None
            for x in e.elts:
                if ast.unparse(x) in ("np.nan", "numpy.nan", "float('nan')", "math.nan"):
                    continue
                t, ty = self.expr(x, env)
                el = el or ty
                items.append(t)
            return "[" + ", ".join(items) + "]", "List " + (el or self.elem)
        if isinstance(e, ast.BinOp):
            a, ta = self.expr(e.left, env)
            b, tb = self.expr(e.right, env)
            if isinstance(e.op, ast.Add) and (str(ta).startswith("List ") or str(tb).startswith("List ")):
                ty = ta if str(ta).startswith("List ") else tb
                self._settle(a, ta, ty)
                self._settle(b, tb, ty)
                return f"({a} ++ {b})", ty
            sym = {ast.Add: "+", ast.Sub: "-", ast.Mult: "*"}.get(type(e.op))
            if sym is None:
                raise Untranslatable(ast.unparse(e))
            ty = self._unify(a, ta, b, tb)
            if ty is not None and ty != "num" and ty not in self.NUMERIC:
                raise Untranslatable(f"arithmetic on {ty}: " + ast.unparse(e))
            return f"({a} {sym} {b})", ty
        if isinstance(e, ast.Call):
            f = ast.unparse(e.func)
            args = e.args
            if f in ("abs", "np.abs", "np.absolute") and len(args) == 1 and not e.keywords:
                t, ty = self.expr(args[0], env)
                return f"(if {t} < 0 then -{t} else {t})", ty
            if f in ("tuple", "list") and len(args) == 1 and not e.keywords:
                return self._as_list(args[0], env, "String" if self.elem is None else None)
            if f == "len" and len(args) == 1:
                a0 = args[0]
                if isinstance(a0, ast.Name) and a0.id not in env and not str(
                        self.params.get(a0.id) or self.hints.get(a0.id) or "").startswith("List "):
                    return self.param(a0.id + "_len", "Nat", col="len")   # the length of a table: a parameter of its own
                t, _ty = self._as_list(a0, env)
                return f"{t}.length", "Nat"
            if f in ("int", "math.ceil", "np.ceil", "float") and len(args) == 1 and not e.keywords:
                t, ty = self.expr(args[0], env)
                if ty in ("Int", "Nat") or (f == "float" and ty == "Rat"):
                    return t, ty
                raise Untranslatable(f"{f} of a value of type {ty}: " + ast.unparse(e))
            if isinstance(e.func, ast.Attribute) and e.func.attr in ("sum", "mean", "any") and not args and not e.keywords:
                t, ty = self.expr(e.func.value, env)
                if str(ty).startswith("List ") and ty[5:] in self.NUMERIC:
                    if e.func.attr == "sum":
                        return f"{t}.sum", ty[5:]
                    if e.func.attr == "mean" and ty == "List Rat":
                        return f"({t}.sum / ({t}.length : Rat))", "Rat"
                    if e.func.attr == "any":
                        return f"({t}.any (fun x => decide (x ≠ 0)))", "Bool"
                raise Untranslatable(f"reduction {e.func.attr} of {ty}: " + ast.unparse(e))
            if f in ("np.average", "numpy.average") and len(args) == 1 and len(e.keywords) == 1 \
                    and e.keywords[0].arg == "weights":
                a, ta = self.expr(args[0], env)
                w, tw = self.expr(e.keywords[0].value, env)
                if ta == "List Rat" and tw == "List Rat":
                    return f"((List.zipWith (· * ·) {a} {w}).sum / {w}.sum)", "Rat"
                raise Untranslatable("np.average of " + f"{ta}, {tw}")
            if f == "sum" and len(args) == 1 and isinstance(args[0], ast.GeneratorExp) and len(args[0].generators) == 1:
                g = args[0].generators[0]
                if isinstance(g.target, ast.Name) and not g.ifs:
                    lt, lty = self._as_list(g.iter, env)
                    inner = dict(env)
                    inner[g.target.id] = (g.target.id, lty[5:])
                    c = self.cond(args[0].elt, inner)
                    return f"({lt}.countP (fun {g.target.id} => decide {c}))", "Nat"
            raise Untranslatable("call " + ast.unparse(e))
        raise Untranslatable(ast.unparse(e))

    def cond(self, e, env):
        """a Lean proposition (decidable)"""
        if isinstance(e, ast.BoolOp):
            op = " ∧ " if isinstance(e.op, ast.And) else " ∨ "
            return "(" + op.join(self.cond(v, env) for v in e.values) + ")"
        if isinstance(e, ast.UnaryOp) and isinstance(e.op, (ast.Not, ast.Invert)):
            return f"(¬ {self.cond(e.operand, env)})"
        if isinstance(e, ast.Compare):
            parts = []
            left = e.left
            for op, right in zip(e.ops, e.comparators):
                if isinstance(op, (ast.Is, ast.IsNot)) and isinstance(right, ast.Constant) and right.value is None:
                    _a, ta = self.expr(left, env)
                    if ta in ("Rat", "Option Rat"):   # a float (NaN included) is never None
                        parts.append("False" if isinstance(op, ast.Is) else "True")
                        left = right
                        continue
                    raise Untranslatable("None-test of a value of type " + str(ta))
                if isinstance(op, (ast.In, ast.NotIn)):
                    a, ta = self.expr(left, env)
                    l, lty = self._as_list(right, env, ta)
                    self._settle(a, ta, lty[5:])
                    parts.append(f"{a} ∈ {l}" if isinstance(op, ast.In) else f"¬ {a} ∈ {l}")
                else:
                    sym = {ast.Lt: "<", ast.LtE: "≤", ast.Gt: ">", ast.GtE: "≥", ast.Eq: "=", ast.NotEq: "≠"}.get(type(op))
                    if sym is None:
                        raise Untranslatable(ast.unparse(e))
                    a, ta = self.expr(left, env)
                    b, tb = self.expr(right, env)
                    self._unify(a, ta, b, tb)
                    parts.append(f"{a} {sym} {b}")
                left = right
            if len(parts) == 1 and parts[0] in ("True", "False"):
                return parts[0]
            return "(" + " ∧ ".join(parts) + ")"
        if isinstance(e, ast.Constant) and isinstance(e.value, bool):
            return "True" if e.value else "False"
        if isinstance(e, ast.Compare) and False:
            pass
        # truthiness of a value
        if isinstance(e, ast.Name) and self.column_lists and e.id in self.table_names and e.id not in env:
            return f"({self.param(e.id + '_len', 'Nat', col='len')[0]} ≠ 0)"   # a table is true when it has rows
        if isinstance(e, ast.Name) and e.id in env and len(env[e.id]) == 2 and env[e.id][1] == "Prop":
            return env[e.id][0]
        t, ty = self.expr(e, env)
        if ty is None:
            ty = self._settle(t, ty, self.num)
        if ty in self.NUMERIC or ty == "num":
            return f"({t} ≠ 0)"
        if ty == "Bool":
            return f"({t} = true)"
        if ty == "String":
            return f'({t} ≠ "")'
        if str(ty).startswith("List "):
            return f"({t} ≠ [])"
        raise Untranslatable("truth value of " + ast.unparse(e))

    # -- one iteration of a loop / a straight-line block that yields ------------------------------------------------
    def _slice_pair(self, e, env):
        """`wrapper(table.iloc[a:b])` / `table.iloc[a:b]` -> (a, some b) / (a, none); None if `e` is not such a slice"""
        x = e
        while isinstance(x, ast.Call) and len(x.args) == 1 and not x.keywords and isinstance(x.func, ast.Attribute):
            x = x.args[0]
        if isinstance(x, ast.Subscript) and isinstance(x.value, ast.Attribute) and x.value.attr == "iloc" \
                and isinstance(x.slice, ast.Slice) and x.slice.step is None:
            lo = ("0", "num") if x.slice.lower is None else self.expr(x.slice.lower, env)
            self._settle(lo[0], lo[1], "Nat")
            if x.slice.upper is None:
                return f"({lo[0]}, none)"
            hi = self.expr(x.slice.upper, env)
            self._settle(hi[0], hi[1], "Nat")
            return f"({lo[0]}, some {hi[0]})"
        return None

    opaque_calls = ()

    def _first_row(self, v):
        """`table[0]`, `table[0].copy()`, `table.iloc[0]`"""
        if isinstance(v, ast.Call) and isinstance(v.func, ast.Attribute) and v.func.attr == "copy" and not v.args:
            v = v.func.value
        if isinstance(v, ast.Subscript) and isinstance(v.slice, ast.Constant) and v.slice.value == 0:
            b = v.value
            if isinstance(b, ast.Attribute) and b.attr == "iloc":
                b = b.value
            return isinstance(b, ast.Name) and b.id in self.table_names
        return False

    def yielded(self, e, env):
        if isinstance(e, ast.Name) and e.id in env and env[e.id][0] == "REC":
            # a row record: the fields in table order; a field that was not assigned is the first row's
            rec, out = env[e.id][1], []
            for col in self.RECORD_ORDER:
                if col in rec:
                    out.append(rec[col])
                elif col in self.COLUMNS and col != "probes":
                    t, ty = self.param(col, "List " + self.COLUMNS[col], col=col)
                    out.append(f"({t}.headD {self._zero(ty[5:])})")
            return "(" + ", ".join(out) + ")"
        if isinstance(e, ast.Tuple):
            return "(" + ", ".join(self.yielded(x, env) for x in e.elts) + ")"
        sp = self._slice_pair(e, env)
        if sp is not None:
            return sp
        return self.expr(e, env)[0]

    def step(self, stmts, env, ys, state):
        """the rest of one iteration: a term of type `List Y` (no loop-carried variables) or `List Y × S₁ × …`"""
        if not stmts or isinstance(stmts[0], ast.Continue):
            out = "[" + ", ".join(ys) + "]"
            if not state:
                return out
            return "(" + ", ".join([out] + [self.expr(ast.Name(id=v, ctx=ast.Load()), env)[0] for v in state]) + ")"
        s, rest = stmts[0], list(stmts[1:])
        if isinstance(s, ast.Expr):
            v = s.value
            if isinstance(v, ast.Constant):
                return self.step(rest, env, ys, state)
            if isinstance(v, ast.Yield) and v.value is not None:
                return self.step(rest, env, ys + [self.yielded(v.value, env)], state)
            if isinstance(v, ast.Call) and isinstance(v.func, ast.Attribute):
                if isinstance(v.func.value, ast.Name) and v.func.value.id == "logging":
                    return self.step(rest, env, ys, state)
                if v.func.attr == "append" and len(v.args) == 1 and not v.keywords:
                    return self.step(rest, env, ys + [self.yielded(v.args[0], env)], state)
            raise Untranslatable("statement " + ast.unparse(s)[:80])
        if isinstance(s, ast.Assign) and len(s.targets) == 1 and isinstance(s.targets[0], ast.Name) \
                and self.column_lists and self._first_row(s.value):
            env = dict(env)
            env[s.targets[0].id] = ("REC", {})   # a copy of the table's first row
            return self.step(rest, env, ys, state)
        if isinstance(s, ast.Assign) and len(s.targets) == 1 and isinstance(s.targets[0], ast.Subscript) \
                and isinstance(s.targets[0].value, ast.Name) and s.targets[0].value.id in env \
                and env[s.targets[0].value.id][0] == "REC" and isinstance(s.targets[0].slice, ast.Constant) \
                and s.targets[0].slice.value in self.RECORD_ORDER:
            env = dict(env)
            rec = dict(env[s.targets[0].value.id][1])
            rec[s.targets[0].slice.value] = self.expr(s.value, env)[0]
            env[s.targets[0].value.id] = ("REC", rec)
            return self.step(rest, env, ys, state)
        if isinstance(s, ast.Assign) and len(s.targets) == 1 and isinstance(s.targets[0], ast.Name) \
                and isinstance(s.value, ast.Call) and isinstance(s.value.func, ast.Name) \
                and s.targets[0].id in self.hints and s.value.func.id in self.opaque_calls:
            env = dict(env)
            env[s.targets[0].id] = self.param(s.targets[0].id)   # the result of another module's function
            return self.step(rest, env, ys, state)
        if isinstance(s, ast.Assign) and len(s.targets) == 1 and isinstance(s.targets[0], ast.Name):
            env = dict(env)
            if isinstance(s.value, (ast.Compare, ast.BoolOp)):
                env[s.targets[0].id] = (self.cond(s.value, env), "Prop")
            else:
                env[s.targets[0].id] = self.expr(s.value, env)
            return self.step(rest, env, ys, state)
        if isinstance(s, ast.AugAssign) and isinstance(s.target, ast.Name) and isinstance(s.op, (ast.BitOr, ast.BitAnd)) \
                and s.target.id in env and env[s.target.id][1] == "Prop":
            env = dict(env)
            op = "∨" if isinstance(s.op, ast.BitOr) else "∧"
            env[s.target.id] = (f"({env[s.target.id][0]} {op} {self.cond(s.value, env)})", "Prop")
            return self.step(rest, env, ys, state)
        if isinstance(s, ast.Return) and not state and not ys and s.value is not None and self.column_lists:
            # a function of whole columns that may return NaN: `Option`, NaN = none
            if ast.unparse(s.value) in ("np.nan", "numpy.nan", "math.nan", "float('nan')"):
                return "none"
            return f"some {self.expr(s.value, env)[0]}"
        if isinstance(s, ast.Return) and not state and not ys and s.value is not None:
            v = s.value
            if isinstance(v, ast.Subscript) and isinstance(v.value, ast.Name) and v.value.id in self.table_names:
                return f"decide {self.cond(v.slice, env)}"   # `table[mask]`: the rows it keeps
            return self.expr(v, env)[0]
        if isinstance(s, ast.If) and not s.orelse and all(
                isinstance(b, ast.Expr) and isinstance(b.value, ast.Call) and isinstance(b.value.func, ast.Attribute)
                and isinstance(b.value.func.value, ast.Name) and b.value.func.value.id == "logging" for b in s.body):
            return self.step(rest, env, ys, state)   # an `if` that only logs
        if isinstance(s, ast.If):
            c = self.cond(s.test, env)
            if c == "True":
                return self.step(list(s.body) + rest, dict(env), list(ys), state)
            if c == "False":
                return self.step(list(s.orelse) + rest, dict(env), list(ys), state)
            th = self.step(list(s.body) + rest, dict(env), list(ys), state)
            el = self.step(list(s.orelse) + rest, dict(env), list(ys), state)
            return f"(if {c} then {th} else {el})"
        raise Untranslatable(type(s).__name__ + ": " + ast.unparse(s)[:80])

    # -- emission ------------------------------------------------------------------------------------------------
    def ordered(self):
        """the parameters in CANONICAL order, so that a rewrite which only changes where a name is first used keeps
        the signature: the enclosing function's own parameters and the loop targets (`first`, in that order), then the
        fields / columns / lengths read off rows and tables (in table order, equal ones in order of first use), then
        any other free name in order of first use"""
        use = {n: k for k, n in enumerate(self.params)}

        def key(n):
            if n in self.first:
                return (0, self.first.index(n), 0)
            if n in self.derived:
                return (1, self.derived[n], use[n])
            return (2, use[n], 0)
        return sorted(self.params, key=key)

    def signature(self):
        out = []
        for name in self.ordered():
            ty = self.params[name]
            ty = ty or self.num
            out.append(f"({name} : {ty})")
        return " ".join(out)

    def define(self, lean_name, ret, body, comment=None):
        doc = f"/-- {comment} -/\n" if comment else ""
        sig = self.signature()
        return doc + f"def {lean_name} {sig + ' ' if sig else ''}: {ret} :=\n  {body}", self.ordered()


def emit_gtyped(o, lean_name, build, comment=None):
    """`build()` returns (GFn, return type, body); a piece outside the subset leaves a comment instead of a definition,
    so that exactly the theorems about it stop checking"""
    try:
        t, ret, body = build()
        text, params = t.define(lean_name, ret, body, comment)
    except (Untranslatable, KeyError, IndexError, StopIteration, OSError, SyntaxError, AttributeError) as e:
        o.lines.append(f"-- NOT TRANSLATED: {lean_name}: {type(e).__name__}: {str(e)[:200]}".replace("\n", " "))
        o.info[lean_name] = {"error": str(e)[:200]}
        return
    o.lines.append(text)
    o.info[lean_name] = {"params": params}
# ------------------------------------------------------------------------------------------------------------
# Additions for decision code that is not plain arithmetic (C15: cnary.shift_xx, expect_flat_log2, chr_x_filter,
# compare_sex_chromosomes and its nested helper compare_chrom).  Further reading rules (trusted base):
# * `FnOpt`: a tuple assignment `a, b = helper(first_arg, ...)` from a helper named in `opaque` leaves `a`, `b` as
#   results of that helper (free names, bound by the caller of the translator); `x is None` tests on such names are
#   resolved by given/absent as before, and `and`/`or` over resolved tests are folded (`True ∧ c` = `c`, ...), so a
#   branch that cannot be taken does not mention the absent name.  With `decimal_floats` a float literal is read as
#   the DECIMAL written in the source (`0.01` = 1/100; the models of this group state their floors and thresholds
#   as decimals, the exact double differs by less than one ulp).
# * `BoolFn`: a function over flags and boolean masks, read ELEMENTWISE: every parameter / local is a `Bool`;
#   `and or not`, `& | ~` are `&& || !`; `.values` is transparent; a method call on `self` that returns a mask
#   (`self.chr_x_filter(g)`) is an opaque atom named after the method and the names of its arguments;
#   `<anything>.<col> == self.<label>` is the atom `<col>_eq_<label>`; `m &= e` / `m |= e` update a mask;
#   `arr = np.zeros(...)`, `arr[mask] = c`, `arr[mask, "col"] += c` are read as the value of one element (start 0 /
#   the increment), `if x is None: x = ...` defaulting statements are skipped for parameters named in `given`.
# ------------------------------------------------------------------------------------------------------------

class FnOpt(Fn):
    def __init__(self, fn, opaque=(), decimal_floats=False, **kw):
        super().__init__(fn, **kw)
        self.opaque = set(opaque)
        self.opaque_calls = []   # (targets, call node) in source order
        self.decimal_floats = decimal_floats

    def expr(self, e, env):
        if self.decimal_floats and isinstance(e, ast.Constant) and isinstance(e.value, float):
            return _rat(Fraction(repr(e.value)))   # the decimal as written (shortest repr of the double)
        return super().expr(e, env)

    def cond(self, e, env):
        if isinstance(e, ast.BoolOp):
            parts = [self.cond(v, env) for v in e.values]
            if isinstance(e.op, ast.And):
                if "False" in parts:
                    return "False"
                parts = [p for p in parts if p != "True"]
                if not parts:
                    return "True"
            else:
                if "True" in parts:
                    return "True"
                parts = [p for p in parts if p != "False"]
                if not parts:
                    return "False"
            if len(parts) == 1:
                return parts[0]
            return "(" + (" ∧ " if isinstance(e.op, ast.And) else " ∨ ").join(parts) + ")"
        return super().cond(e, env)

    def block(self, stmts, env):
        if stmts:
            s = stmts[0]
            if isinstance(s, ast.Assign) and len(s.targets) == 1 and isinstance(s.targets[0], ast.Tuple) \
                    and isinstance(s.value, ast.Call) and isinstance(s.value.func, ast.Name) \
                    and s.value.func.id in self.opaque \
                    and all(isinstance(t, ast.Name) for t in s.targets[0].elts):
                self.opaque_calls.append(([t.id for t in s.targets[0].elts], s.value))
                return self.block(stmts[1:], env)
        return super().block(stmts, env)


class BoolFn:
    """elementwise reading of a function over flags and boolean masks (see the rules above)"""

    def __init__(self, fn, given=(), absent=()):
        self.fn, self.given, self.absent = fn, set(given), set(absent)
        self.params = []

    def atom(self, name):
        if name not in self.params:
            self.params.append(name)
        return name

    def mask(self, e, env):
        if isinstance(e, ast.Attribute) and e.attr == "values":
            return self.mask(e.value, env)
        if isinstance(e, ast.Name):
            return env[e.id] if e.id in env else self.atom(e.id)
        if isinstance(e, ast.Constant) and isinstance(e.value, bool):
            return "true" if e.value else "false"
        if isinstance(e, ast.BoolOp):
            op = " && " if isinstance(e.op, ast.And) else " || "
            return "(" + op.join(self.mask(v, env) for v in e.values) + ")"
        if isinstance(e, ast.BinOp) and isinstance(e.op, (ast.BitAnd, ast.BitOr)):
            op = " && " if isinstance(e.op, ast.BitAnd) else " || "
            return f"({self.mask(e.left, env)}{op}{self.mask(e.right, env)})"
        if isinstance(e, ast.UnaryOp) and isinstance(e.op, (ast.Not, ast.Invert)):
            return f"(!{self.mask(e.operand, env)})"
        if isinstance(e, ast.Compare) and len(e.ops) == 1:
            l, r = e.left, e.comparators[0]
            if isinstance(e.ops[0], (ast.Is, ast.IsNot)) and isinstance(r, ast.Constant) and r.value is None \
                    and isinstance(l, ast.Name):
                if l.id in self.given:
                    return "false" if isinstance(e.ops[0], ast.Is) else "true"
                if l.id in self.absent:
                    return "true" if isinstance(e.ops[0], ast.Is) else "false"
                raise Untranslatable(f"None-test of `{l.id}` not resolved by given/absent")
            if isinstance(e.ops[0], ast.Eq) and isinstance(l, ast.Attribute) and isinstance(r, ast.Attribute) \
                    and isinstance(r.value, ast.Name) and r.value.id == "self":
                return self.atom(f"{l.attr}_eq_{r.attr}")
        if isinstance(e, ast.Call) and isinstance(e.func, ast.Attribute) and isinstance(e.func.value, ast.Name) \
                and e.func.value.id == "self":
            names = []
            for a in list(e.args) + [k.value for k in e.keywords]:
                if not isinstance(a, ast.Name):
                    raise Untranslatable("mask call " + ast.unparse(e))
                if a.id in self.absent:
                    continue   # passing None on = not passing it
                names.append(a.id)
            return self.atom("_".join([e.func.attr] + names))
        raise Untranslatable("mask " + ast.unparse(e))

    def num(self, e):
        if isinstance(e, ast.UnaryOp) and isinstance(e.op, (ast.USub, ast.UAdd)) and isinstance(e.operand, ast.Constant):
            v = -e.operand.value if isinstance(e.op, ast.USub) else e.operand.value
            return _rat(v)
        if isinstance(e, ast.Constant) and isinstance(e.value, (int, float)) and not isinstance(e.value, bool):
            return _rat(e.value)
        raise Untranslatable("number " + ast.unparse(e))

    def is_default_fill(self, s):
        # `if p is None: p = ...` for a parameter that is given
        return isinstance(s, ast.If) and not s.orelse and isinstance(s.test, ast.Compare) and len(s.test.ops) == 1 \
            and isinstance(s.test.ops[0], ast.Is) and isinstance(s.test.left, ast.Name) and s.test.left.id in self.given \
            and isinstance(s.test.comparators[0], ast.Constant) and s.test.comparators[0].value is None

    # value of one element of the returned array / mask; `val` = current element value (Lean term) of each array local
    def block(self, stmts, env, val):
        if not stmts:
            raise Untranslatable("function falls off its end without a return")
        s, rest = stmts[0], stmts[1:]
        if isinstance(s, ast.Expr) and isinstance(s.value, ast.Constant):
            return self.block(rest, env, val)
        if isinstance(s, ast.Assert) or self.is_default_fill(s):
            return self.block(rest, env, val)
        if isinstance(s, ast.Return):
            if isinstance(s.value, ast.Name) and s.value.id in val:
                return val[s.value.id], "Rat"
            return self.mask(s.value, env), "Bool"
        if isinstance(s, ast.Assign) and len(s.targets) == 1:
            t = s.targets[0]
            if isinstance(t, ast.Name):
                v = s.value
                if isinstance(v, ast.Call) and ast.unparse(v.func) in ("np.zeros", "np.zeros_like"):
                    return self.block(rest, env, {**val, t.id: "(0 : Rat)"})
                if isinstance(v, ast.Call) and isinstance(v.func, ast.Attribute) and v.func.attr == "copy" and not v.args:
                    return self.block(rest, env, {**val, t.id: "(0 : Rat)"})   # a copy: element change starts at 0
                return self.block(rest, {**env, t.id: self.mask(v, env)}, val)
            if isinstance(t, ast.Subscript) and isinstance(t.value, ast.Name) and t.value.id in val:
                m = self.mask(t.slice, env)
                return self.block(rest, env, {**val, t.value.id: f"(if {m} then {self.num(s.value)} else {val[t.value.id]})"})
        if isinstance(s, ast.AugAssign):
            t = s.target
            if isinstance(t, ast.Name) and isinstance(s.op, (ast.BitAnd, ast.BitOr)):
                op = " && " if isinstance(s.op, ast.BitAnd) else " || "
                cur = env[t.id] if t.id in env else self.atom(t.id)
                return self.block(rest, {**env, t.id: f"({cur}{op}{self.mask(s.value, env)})"}, val)
            if isinstance(t, ast.Subscript) and isinstance(t.value, ast.Name) and t.value.id in val \
                    and isinstance(s.op, (ast.Add, ast.Sub)):
                sl = t.slice
                if isinstance(sl, ast.Tuple) and len(sl.elts) == 2 and isinstance(sl.elts[1], ast.Constant):
                    self.atom_cols = getattr(self, "atom_cols", []) + [sl.elts[1].value]
                    sl = sl.elts[0]
                m = self.mask(sl, env)
                op = "+" if isinstance(s.op, ast.Add) else "-"
                cur = val[t.value.id]
                return self.block(rest, env, {**val, t.value.id: f"(if {m} then ({cur} {op} {self.num(s.value)}) else {cur})"})
        if isinstance(s, ast.If):
            c = self.mask(s.test, env)
            if c == "true":
                return self.block(list(s.body) + rest, env, val)
            if c == "false":
                return self.block(list(s.orelse) + rest, env, val)
            th, ty1 = self.block(list(s.body) + rest, dict(env), dict(val))
            el, ty2 = self.block(list(s.orelse) + rest, dict(env), dict(val))
            if ty1 != ty2:
                raise Untranslatable("branches of different type")
            return f"(if {c} then {th} else {el})", ty1
        raise Untranslatable(type(s).__name__ + ": " + ast.unparse(s)[:80])

    def translate(self, lean_name, comment=None):
        body, ty = self.block(list(self.fn.body), {}, {})
        sig = [a.arg for a in self.fn.args.args]
        ordered = [p for p in sig if p in self.params] + [p for p in self.params if p not in sig]
        ps = f" ({' '.join(ordered)} : Bool)" if ordered else ""
        doc = f"/-- {comment} -/\n" if comment else ""
        return doc + f"def {lean_name}{ps} : {ty} :=\n  {body}", ordered


def _stores_loads(stmt):
    """names / elements written and read anywhere inside a statement.  An element `a[i]` counts as `a_at_i`; reading
    or writing an element does NOT read the names of its index (its value is an input, see the reading rules)"""
    st, ld = set(), set()

    def walk(n):
        if isinstance(n, ast.Subscript) and isinstance(n.value, ast.Name):
            (st if isinstance(n.ctx, (ast.Store, ast.Del)) else ld).add(_elem_name(n))
            return
        if isinstance(n, ast.Name):
            (st if isinstance(n.ctx, (ast.Store, ast.Del)) else ld).add(n.id)
        if isinstance(n, ast.AugAssign):
            t = n.target
            if isinstance(t, ast.Name):
                ld.add(t.id)
            elif isinstance(t, ast.Subscript) and isinstance(t.value, ast.Name):
                ld.add(_elem_name(t))
        for c in ast.iter_child_nodes(n):
            walk(c)
    walk(stmt)
    return st, ld


def _resolve_none_tests(body, given, absent):
    """`if w is None: A else: B` with `w` known to be supplied / absent is replaced by the branch taken"""
    out = []
    for s in body:
        if isinstance(s, ast.If) and isinstance(s.test, ast.Compare) and len(s.test.ops) == 1 \
                and isinstance(s.test.ops[0], (ast.Is, ast.IsNot)) and isinstance(s.test.left, ast.Name) \
                and isinstance(s.test.comparators[0], ast.Constant) and s.test.comparators[0].value is None \
                and s.test.left.id in (set(given) | set(absent)):
            is_none = s.test.left.id in set(absent)
            taken = s.body if (is_none == isinstance(s.test.ops[0], ast.Is)) else s.orelse
            out += _resolve_none_tests(list(taken), given, absent)
        else:
            out.append(s)
    return out


def _inline_index_locals(body):
    """a local that the iteration binds exactly once, by a plain assignment to an expression without element reads
    (`prev = k - 1`), is replaced by that expression wherever it is used as an INDEX, so that `signal[prev]` and
    `signal[k - 1]` name the same element"""
    import copy
    binds, other = {}, set()
    for stmt in body:
        for n in ast.walk(stmt):
            if isinstance(n, ast.Assign) and len(n.targets) == 1 and isinstance(n.targets[0], ast.Name):
                binds.setdefault(n.targets[0].id, []).append(n)
            elif isinstance(n, (ast.AugAssign, ast.For, ast.With, ast.NamedExpr)):
                for t in ast.walk(n.target if hasattr(n, "target") else n):
                    if isinstance(t, ast.Name) and isinstance(t.ctx, ast.Store):
                        other.add(t.id)
    single = {k: v[0].value for k, v in binds.items()
              if len(v) == 1 and k not in other and v[0] in body
              and not any(isinstance(x, (ast.Subscript, ast.Call)) for x in ast.walk(v[0].value))}

    class T(ast.NodeTransformer):
        def visit_Subscript(self, node):
            node.value = self.visit(node.value)
            node.slice = S().visit(node.slice)
            return node

    class S(ast.NodeTransformer):
        def visit_Name(self, node):
            if isinstance(node.ctx, ast.Load) and node.id in single:
                return copy.deepcopy(single[node.id])
            return node
    return [ast.fix_missing_locations(T().visit(copy.deepcopy(st))) for st in body]


def loop_slice(body, target):
    """backward slice of one loop iteration: the statements `target` (a name or an element key) depends on"""
    need, keep = {target}, []
    for stmt in reversed(body):
        st, ld = _stores_loads(stmt)
        if st & need:
            keep.append(stmt)
            need |= ld
    return list(reversed(keep))


def emit_loop(repo, o, specs):
    """translate one iteration of a loop: each spec is (file, function, loop variable, target text, lean name, Fn
    kwargs, comment).  The unique `for <loop variable> in ...` of the function is located, its body is sliced for the
    target and read as a function returning the target's value at the end of the iteration."""
    import os
    from .translate import parse, find_func
    for path, fname, loopvar, target, lean, kw, comment in specs:
        try:
            tree, _src = parse(os.path.join(repo, path))
            fn = find_func(tree, fname)
            loops = [n for n in ast.walk(fn) if isinstance(n, ast.For) and isinstance(n.target, ast.Name)
                     and n.target.id == loopvar]
            if len(loops) != 1:
                raise Untranslatable(f"expected exactly one `for {loopvar} in ...` loop, found {len(loops)}")
            texpr = ast.parse(target, mode="eval").body
            key = _elem_name(texpr) if isinstance(texpr, ast.Subscript) else texpr.id
            body = loop_slice(_inline_index_locals(
                _resolve_none_tests(list(loops[0].body), kw.get("given", ()), kw.get("absent", ()))), key)
            if not body:
                raise Untranslatable(f"`{target}` is not assigned in the loop body")
            pseudo = ast.FunctionDef(name=fname, args=fn.args, body=body + [ast.Return(value=texpr)], decorator_list=[])
            ast.fix_missing_locations(pseudo)
            kw = dict(kw)
            kw.setdefault("loop_mode", True)
            text, params = Fn(pseudo, **kw).translate(lean, comment)
        except (Untranslatable, KeyError, OSError, SyntaxError, AttributeError) as e:
            o.lines.append(f"-- NOT TRANSLATED: {path}:{fname}[{target}]: {type(e).__name__}: {str(e)[:200]}".replace("\n", " "))
            o.info[lean] = {"error": str(e)[:200]}
            continue
        o.lines.append(text)
        o.info[lean] = {"params": params}
